#!/bin/bash
# tools_shadow.sh setup <name>            : copy /verif to /tmp/shadow-<name>/verif and add a worktree of /repo beside it
# tools_shadow.sh try <name> <patch> Cxx… : apply a patch to the shadow worktree, run the quick checks there, undo it
# tools_shadow.sh all <name>              : run all 20 quick checks against the shadow worktree as it stands
# (for trying seeded / benign changes without touching /repo; the checks follow VERIF_REPO; nothing registered in
#  MANIFEST.json uses this script)
set -u
cmd=$1; n=$2; shift 2
S=/tmp/shadow-$n; R=$S/repo
case $cmd in
setup)
  mkdir -p $S
  rsync -a --delete --exclude .git --exclude 'run-*' --exclude replays --exclude c01tmp /verif/ $S/verif/
  [ -d $R ] || git -C /repo worktree add --detach $R >/dev/null 2>&1
  git -C $R checkout -q --detach "$(git -C /repo rev-parse HEAD)"
  sed -i "s#/repo/#$R/#g" $S/verif/harness/Cargo.toml ;;
try)
  patch=$1; shift
  git -C $R checkout -q -- . ; git -C $R apply "$patch" || { echo "PATCH DOES NOT APPLY $patch"; exit 2; }
  for p in "$@"; do
    out=$(cd $S/verif && VERIF_REPO=$R python3 check.py $p --tier quick 2>&1)
    echo "$(basename $(dirname $patch))/$p: $(echo "$out" | grep -E 'tier=' | tail -1) $(echo "$out" | grep -c '^VIOLATION') violation-lines; $(echo "$out" | grep '^VIOLATION' | head -2 | cut -c1-200 | tr '\n' ' ')"
  done
  git -C $R checkout -q -- . ;;
all)
  for i in 01 02 03 04 05 06 07 08 09 10 11 12 13 14 15 16 17 18 19 20; do
    out=$(cd $S/verif && VERIF_REPO=$R python3 check.py C$i --tier quick 2>&1)
    echo "C$i: $(echo "$out" | grep -E 'tier=' | tail -1) $(echo "$out" | grep -c '^VIOLATION') violation-lines; $(echo "$out" | grep '^VIOLATION' | head -2 | cut -c1-160 | tr '\n' ' ')"
  done ;;
esac
