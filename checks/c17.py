"""C17 — resetting a story is equivalent to constructing it afresh."""
import json
import os
import random
from concurrent.futures import ProcessPoolExecutor

from lib import common, play, stories

LEVEL = "proof"
THEOREM_MODULES = ["Proofs.C17"]
REQUIRED_THEOREMS = [
    "Ink.C17.continue_completes", "Ink.C17.quiescent_after_continue", "Ink.C17.stepLoop_no_err",
    "Ink.C17.reset_eq_fresh", "Ink.C17.create_is_resetGlobals", "Ink.C17.deliver_fields",
    "Ink.finishContinue_fields", "Ink.stepLoop_same", "Ink.stepLoop_blocking_end",
]
RULE = ("a case = one story x one history (lines, choices, saves/loads, flow switches, path jumps, errors, paused "
        "time-limited continues that are then completed) followed by reset, compared in lockstep with a fresh "
        "instance configured alike over a random continuation; non-trivial when the history made at least two "
        "choices or ended in an error; distinct by hash of history + continuation")
ASSUMPTIONS = ["the fresh instance gets the same seed, bindings, observers and handler as the reset one",
               "reset_state draws a new random seed in the real code; the harness sets the seed explicitly on both sides"]
EXPLANATION = ("quiescent_invariant (a completed blocking continue leaves no snapshot / recursion count / async flag / "
               "unsafe flag) and reset_eq_fresh (reset = reset_globals on the blank state, exactly what construction "
               "does) over Ink/Continue+Ink/Api; tie by transcripts incl. the quiescence probe and normalised saves")


def history(sess, rng, story, handler):
    """A varied host history on an interactive session. Returns the end status."""
    setup = stories.setup_ops(story)
    if handler:
        setup.append(["handler"])
    g = story["meta"].get("globals") or []
    for gi, gname in enumerate(g[:3]):
        setup.append(["observe", gname, "o%d" % (gi + 1)])

    def extras(s, r):
        x = r.random()
        if x < 0.15:
            s.send(["save", "h"])
        elif x < 0.25:
            s.send(["save", "h"]); s.send(["load", "h"])
        elif x < 0.33:
            s.send(["switch", "side"]); s.send(["default"])
        elif x < 0.38 and story["meta"].get("knots"):
            s.send(["path", r.choice(story["meta"]["knots"]), True, []])
        s.send(["quiescence"])

    def asyncline(s, r):
        # finish the next line in slices, on the virtual clock
        if r.random() < 0.25:
            c = s.send(["can"])
            if c.get("v"):
                for _ in range(6):
                    a = s.send(["contasync", r.choice([1, 2, 3])])
                    if a.get("r") != "ok" or a.get("v") is True:
                        break
                else:
                    s.send(["cont"])
                s.send(["quiescence"])

    return play.walk(sess, rng, story["path"], seed=11, max_turns=rng.choice([1, 2, 4, 6]), setup=setup,
                     per_line=[extras], per_turn=[asyncline, extras]), setup


def one_case(job):
    story, wseed, scratch = job
    rng = random.Random(wseed)
    handler = rng.random() < 0.5
    a = play.RtSession()
    end, setup = history(a, rng, story, handler)
    res = {"origin": story["origin"], "end": end, "corr": None, "violations": [], "digest": None,
           "nontrivial": False, "sample": None, "ops": 0}
    if end in ("fuel", "loaderr"):
        a.close()
        res["skipped"] = end
        return res
    a.send(["quiescence"])     # whatever the history ended with (also an error), nothing of a continue may be left behind
    hist_len = len(a.ops)
    # quiescence probes of the history: nothing of a continue may be left behind
    for op, r in zip(a.ops, a.results):
        if op == ["quiescence"] and r.get("r") == "ok":
            q = r["v"]
            if q.get("async") is False and (q.get("rec") != 0 or q.get("snapshot") or q.get("unsafe") or q.get("tmp")):
                res["violations"].append(({"story": stories.describe(story), "ops": a.ops[:a.ops.index(op) + 1],
                                           "quiescence": q, "why": "continue machinery left state behind"},
                                          {"kind": "quiescence"}))
                break
    r = a.send(["reset"])
    if r.get("r") != "ok":
        # reset is only refused in the middle of a time-limited continue
        a.send(["cont"])
        r = a.send(["reset"])
    a.send(["seed", 23, 0])
    a.send(["fuel", 20000])
    post_start = len(a.ops)
    # continuation, driven on the reset story
    crng = random.Random(wseed + 1)
    for turn in range(4):
        guard = 0
        while a.send(["can"]).get("v") and guard < 200:
            guard += 1
            c = a.send(["cont"])
            a.send(["tags"])
            if c.get("r") != "ok":
                break
        a.send(["observe_all"])
        a.send(["savejson"])
        cs = a.send(["choices"]).get("v") or []
        if not cs:
            break
        a.send(["choose", crng.randrange(len(cs))])
    a.close()
    post_ops = a.ops[post_start:]
    post_res = a.results[post_start:]
    # the fresh instance, configured alike
    fresh_ops = [["new", story["path"]]] + setup + [["seed", 23, 0], ["fuel", 20000]] + post_ops
    fr = play.run_rt_script(fresh_ops, scratch, tag=f"c17-{wseed}")
    fr_post = fr[len(fresh_ops) - len(post_ops):]
    res["ops"] = len(a.ops)
    res["digest"] = json.dumps([story["path"], a.ops], sort_keys=True)
    res["nontrivial"] = sum(1 for op in a.ops[:hist_len] if op[0] == "choose") >= 2 or end == "error"
    for i, (x, y) in enumerate(zip(post_res, fr_post)):
        cx = play.canon_result(post_ops[i], x, lockstep=True)
        cy = play.canon_result(post_ops[i], y, lockstep=True)
        if cx != cy and not play.is_fuel(x) and not play.is_fuel(y):
            res["violations"].append(({"story": stories.describe(story), "history_then_reset": a.ops[:post_start],
                                       "continuation": post_ops[: i + 1], "after_reset": cx, "fresh": cy,
                                       "why": "a reset story differs from a fresh one"},
                                      {"kind": "lockstep", "op": post_ops[i][0]}))
            break
    # correspondence: the whole session on the model
    rm = play.run_model(a.ops, scratch, tag=f"c17m-{wseed}")
    d = play.first_diff(a.ops, a.results, rm)
    if d:
        i, ca, cb = d
        res["corr"] = {"story": stories.describe(story), "ops": a.ops[: i + 1], "op": a.ops[i], "code": ca, "model": cb}
    res["sample"] = {"story": os.path.basename(story["path"]), "history_ops": hist_len, "end": end,
                     "continuation_ops": len(post_ops), "handler": handler}
    return res


def run(ctx):
    quick = ctx.tier == "quick"
    pool = stories.corpus_pool(ctx)
    for prof, n in (("core", 25 if quick else 500), ("errors", 12 if quick else 200),
                    ("flows", 6 if quick else 100), ("random", 6 if quick else 100)):
        pool += stories.generated_pool(ctx, prof, n)
    walks = 1 if quick else 3
    jobs = [(s, ctx.seed * 6151 + si * 17 + w, ctx.scratch) for si, s in enumerate(pool) for w in range(walks)]
    ctx.programs = len(pool)
    with ProcessPoolExecutor(max_workers=14) as ex:
        for res in ex.map(one_case, jobs, chunksize=2):
            if res.get("skipped"):
                ctx.count("skipped_" + res["skipped"])
                continue
            ctx.case(res["digest"], res["nontrivial"])
            ctx.count("ops", res["ops"])
            ctx.count("end_" + res["end"])
            ctx.count("stories_" + res["origin"])
            if res["corr"]:
                ctx.corr_diff("host API transcripts on histories with reset (Ink/Api vs story/*.rs)", res["corr"])
            for rp, sig in res["violations"]:
                ctx.violation("oracle", rp, signature=sig)
            if res["sample"] and len(ctx.samples) < 5:
                ctx.sample(res["sample"])


def replay(ctx, path):
    body = json.load(open(path))
    rp = body["replay"]
    spath = stories.materialise(ctx, rp["story"])
    ops = (rp.get("history_then_reset") or rp.get("ops") or []) + (rp.get("continuation") or [])
    ops = [op if op[0] != "new" else ["new", spath] for op in ops]
    for op, r in zip(ops, play.run_rt_script(ops, ctx.scratch, tag="replay")):
        print(json.dumps(op), "->", json.dumps(r)[:300])
    return 0
