"""C04 — story faults are reported as errors; the runtime never panics."""
import json
import os
import random
import re
from concurrent.futures import ProcessPoolExecutor

from checks import c07
from gen import exprgen
from lib import common, play, stories

LEVEL = "proof"
WANT_RELEASE = True
ALWAYS_RELEASE = True
THEOREM_MODULES = ["Proofs.C04", "Proofs.C04Inv", "Proofs.C04Ptr"]
REQUIRED_THEOREMS = [
    "Ink.C04.wrapI32_inRange", "Ink.C04.wrapI32_of_inRange", "Ink.C04.wrapI32_congr",
    "Ink.C04.int_add_wraps", "Ink.C04.int_sub_wraps", "Ink.C04.int_mul_wraps", "Ink.C04.int_neg_wraps",
    "Ink.C04.int_div_defined", "Ink.C04.int_div_fault", "Ink.C04.int_mod_defined", "Ink.C04.int_mod_fault",
    "Ink.C04.int_results_inRange", "Ink.C04.native_call_no_panic", "Ink.C04.popEval_no_panic",
    "Ink.C04.step_error_recorded", "Ink.C04.error_is_reported", "Ink.C04.reset_after_error_fresh",
    "Ink.C04.native_call_ok_or_err", "Ink.C04.popEvalMultiple_no_panic", "Ink.C04.int_unary_inRange",
    "Ink.C04.int_call_results_inRange", "Ink.C04.error_blocks_continue", "Ink.C04.reset_independent_of_state",
    "Ink.C04.reset_after_error_no_errors", "Ink.C04.continueSingleStep_err_origin",
    "Ink.C04.native_call_never_panics", "Ink.C04.step_panic_sites", "Ink.C04.continueSingleStep_panic_sites",
    # the call-stack invariant (Proofs/C04Inv.lean): established by construction and by every accepted load,
    # kept by every public operation, and under it three of the residual panic sites are unreachable
    "Ink.C04.csWF_fresh", "Ink.C04.push_isSome_of_wf", "Ink.C04.forkThread_isSome_of_wf",
    "Ink.C04.step_preserves_wf", "Ink.C04.step_no_callstack_panic", "Ink.C04.step_panic_sites_wf",
    "Ink.C04.tryFollowDefaultInvisibleChoice_no_callstack_panic", "Ink.C04.continueSingleStep_preserves_wf",
    "Ink.C04.cont_preserves_wf", "Ink.C04.continueMaximally_preserves_wf", "Ink.C04.chooseChoiceIndex_preserves_wf",
    "Ink.C04.choosePathString_preserves_wf", "Ink.C04.switchFlow_preserves_wf", "Ink.C04.removeFlow_preserves_wf",
    "Ink.C04.resetState_preserves_wf", "Ink.C04.evaluateFunction_preserves_wf", "Ink.C04.new_wf",
    "Ink.C04.loadState_wf", "Ink.C04.loadState_preserves_wf", "Ink.C04.reachable_wf",
    "Ink.C04.reachable_no_callstack_panic", "Ink.C04.reachable_cont_no_callstack_panic",
    "Ink.C04.reachable_evaluateFunction_no_callstack_panic", "Ink.C04.reachable_chooseChoiceIndex_no_thread_panic",
    # the remaining sites (Proofs/C04Ptr.lean): four by control flow alone, two from invariants of the loaded tree
    "Ink.C04.no_panic_increment_content_pointer", "Ink.C04.no_panic_shuffle_container",
    "Ink.C04.no_panic_visit_index_container", "Ink.C04.no_panic_get_path", "Ink.C04.no_panic_resolve_path",
    "Ink.C04.no_panic_get_target_path_string", "Ink.C04.load_treeOK", "Ink.C04.step_panic_sites_any",
    "Ink.C04.step_panic_sites_tree", "Ink.C04.step_never_panics", "Ink.C04.continueSingleStep_never_panics",
    "Ink.C04.reachable_step_panic_sites", "Ink.C04.loaded_reachable_never_panics",
]
RULE = ("a case = (a) one fault-prone expression tree (operand types chosen at random with probability 0.35, plus the "
        "ill-typed part of the exhaustive depth-1 enumeration), compiled and played; or (b) one fault-prone program "
        "(generated 'errors' / 'core' / 'lists' / 'externals' programs, hand-written reproducers of past panics, and "
        "token-level mutations of the conformance corpus that still compile) x one random host history with "
        "save/load, flow switches, path jumps, with or without an error handler, followed by reset and a lockstep "
        "with a fresh story; every script is also run on the release build; non-trivial when at least one fault was "
        "raised; distinct by tree / by program + history")
ASSUMPTIONS = ["a program the compiler rejects, or on which the compiler itself panics, is outside C04 (counted; C06)",
               "step budget exhaustion (verif-hooks fuel) ends a case without verdict",
               "debug and release transcripts are compared after the usual canonicalisation"]
EXPLANATION = ("Theorems: 32-bit wrap-around of + - * unary-minus, division / modulo defined exactly when the divisor "
               "is non-zero and the quotient fits, every native call on values is panic-free, a fault raised by a step "
               "is recorded and reported (Err without handler, callback with one), reset after an error equals a fresh "
               "story. step_panic_sites: one interpreter step can end in a panic only at 8 named sites, whatever the state; "
               "Proofs/C04Inv.lean removes three of them (callstack.rs:push, callstack.rs:fork_thread, "
               "choices.rs:thread_at_generation) for every story reachable through the public operations, by an "
               "invariant (every thread of every flow, snapshot and pending choice has a non-empty call stack) that "
               "construction and every accepted load establish and every operation keeps (2700 lines); Proofs/C04Ptr.lean "
               "removes the other six (four by the control flow of the step alone, for any state; two from invariants "
               "of the tree that the story loader is proved to establish: the root is a container, every divert has a "
               "target or a variable name), so that for every story reachable from a loaded document one interpreter "
               "step - and continue_single_step - never ends in a panic (loaded_reachable_never_panics). "
               "Oracle on the real code: no result of any call is a panic or an abort, faults of the "
               "independent evaluator are reported as errors, debug and release transcripts agree, reset story = "
               "fresh story. Tie: every transcript is replayed on the model.")

MUT_INTS = ["0", "1", "-1", "2147483647", "46341"]


def mutate_ink(src, rng):
    """One token-level mutation of an Ink source."""
    lines = src.split("\n")
    idents = sorted(set(re.findall(r"\b[a-z_][a-zA-Z0-9_]{2,}\b", src)))
    for _ in range(20):
        k = rng.randrange(7)
        i = rng.randrange(len(lines)) if lines else 0
        line = lines[i] if lines else ""
        if k == 0 and re.search(r"\d+", line):
            m = rng.choice(list(re.finditer(r"\d+", line)))
            lines[i] = line[:m.start()] + rng.choice(MUT_INTS) + line[m.end():]
            break
        if k == 1 and re.search(r"[+\-*/%]", line) and ("~" in line or "{" in line):
            ms = [m for m in re.finditer(r" [+\-*/%] ", line)]
            if ms:
                m = rng.choice(ms)
                lines[i] = line[:m.start()] + " " + rng.choice("+-*/%") + " " + line[m.end():]
                break
        if k == 2 and idents and re.search(r"\b[a-z_][a-zA-Z0-9_]{2,}\b", line) and ("~" in line or "{" in line):
            m = rng.choice(list(re.finditer(r"\b[a-z_][a-zA-Z0-9_]{2,}\b", line)))
            lines[i] = line[:m.start()] + rng.choice(idents) + line[m.end():]
            break
        if k == 3 and "->" in line and idents:
            m = re.search(r"->\s*([A-Za-z_][A-Za-z0-9_.]*)", line)
            if m:
                lines[i] = line[:m.start(1)] + rng.choice(idents) + line[m.end(1):]
                break
        if k == 4 and len(lines) > 3 and line.strip() and not line.startswith(("VAR", "LIST", "CONST", "EXTERNAL", "==")):
            del lines[i]
            break
        if k == 5 and line.strip() and not line.startswith(("VAR", "LIST", "CONST", "EXTERNAL", "==")):
            lines.insert(i, line)
            break
        if k == 6 and re.search(r"==|!=|<=|>=|<|>", line) and "{" in line:
            m = rng.choice(list(re.finditer(r"==|!=|<=|>=|<|>", line)))
            if line[m.start() - 1:m.start()] != "-" and line[m.end():m.end() + 1] != ">":
                lines[i] = line[:m.start()] + rng.choice(["==", "!=", "<", ">", "/", "-"]) + line[m.end():]
                break
    return "\n".join(lines)


def mutation_pool(ctx, n):
    rng = random.Random(ctx.seed * 77 + 3)
    srcs = [f for f in common.corpus_ink() if os.path.getsize(f) < 6000]
    out = []
    tries = 0
    while len(out) < n and tries < 6 * n:
        tries += 1
        f = rng.choice(srcs)
        try:
            src = open(f, encoding="utf-8").read()
        except Exception:
            continue
        if "INCLUDE" in src:
            continue
        m = src
        for _ in range(rng.choice([1, 1, 2, 3])):
            m = mutate_ink(m, rng)
        if m == src:
            continue
        p = ctx.path(f"mut_{tries}.ink")
        open(p, "w", encoding="utf-8").write(m)
        dst = ctx.path(f"mut_{tries}.json")
        st, detail = common.compile_ink(ctx, p, dst)
        ctx.count("mutants_" + st)
        if st != "ok":
            continue
        out.append({"path": dst, "origin": "corpus-mutant", "ink": m, "seed": None,
                    "meta": stories.story_meta_from_json(dst), "mutant_of": os.path.basename(f)})
    return out


def describe(story):
    if story["origin"] == "corpus-mutant":
        return {"origin": "corpus-mutant", "ink": story["ink"], "mutant_of": story.get("mutant_of")}
    return stories.describe(story)


def one_program(job):
    story, wseed, scratch = job
    rng = random.Random(wseed)
    handler = rng.random() < 0.5
    res = {"origin": story["origin"], "corr": None, "violations": [], "digest": None, "nontrivial": False,
           "sample": None, "ops": 0, "end": "?"}
    desc = describe(story)
    exts = story["meta"].get("externals") or []
    setup = stories.setup_ops(story)
    if handler:
        setup.append(["handler"])
    if exts and rng.random() < 0.6:
        setup += [["bind", e["name"], e["name"], rng.random() < 0.5, {"arg": 0} if e.get("arity", 0) else {"i": 3}] for e in exts]
    elif exts and rng.random() < 0.5:
        setup.append(["fallbacks", True])
    knots = story["meta"].get("knots") or []

    def extras(s, r):
        x = r.random()
        if x < 0.12:
            s.send(["save", "h"]); s.send(["load", "h"])
        elif x < 0.2:
            s.send(["switch", "side"])
            if knots and r.random() < 0.6:
                s.send(["path", r.choice(knots), r.random() < 0.5, []])
        elif x < 0.26:
            s.send(["default"])
        elif x < 0.34 and knots:
            args = [] if r.random() < 0.6 else [{"i": r.choice([0, 1, -1, 2147483647])}] * r.choice([1, 2])
            s.send(["path", r.choice(knots), r.random() < 0.5, args])
        elif x < 0.38:
            s.send(["maximally"])

    a = play.RtSession()
    end = play.walk(a, rng, story["path"], seed=5, max_turns=rng.choice([2, 4, 6]), setup=setup,
                    per_line=[extras], per_turn=[extras])
    res["end"] = end
    if end == "fuel":
        a.close()
        res["skipped"] = "fuel"
        return res
    if end == "loaderr":
        r0 = a.results[0] if a.results else {}
        a.close()
        if r0.get("r") in ("panic", "abort"):
            res["digest"] = json.dumps([story["path"], "new"])
            res["violations"].append(({"story": desc, "ops": a.ops[:1], "result": r0,
                                       "why": "constructing the story panicked"}, {"kind": "panic-new", "loc": r0.get("loc")}))
            return res
        res["skipped"] = "loaderr"
        return res
    hist_len = len(a.ops)
    # after the history (often after an error): reset, then lockstep with a fresh story
    a.send(["reset"])
    a.send(["seed", 23, 0]); a.send(["fuel", 20000])
    post_start = len(a.ops)
    crng = random.Random(wseed + 1)
    for turn in range(3):
        guard = 0
        while a.send(["can"]).get("v") and guard < 200:
            guard += 1
            c = a.send(["cont"])
            if c.get("r") != "ok":
                break
        a.send(["observe_all"])
        cs = a.send(["choices"]).get("v") or []
        if not cs:
            break
        a.send(["choose", crng.randrange(len(cs))])
    a.close()
    post_ops = a.ops[post_start:]
    post_res = a.results[post_start:]
    res["ops"] = len(a.ops)
    res["digest"] = json.dumps([story["path"], a.ops], sort_keys=True)
    # oracle 1: no panic, no abort
    faults = 0
    for i, (op, r) in enumerate(zip(a.ops, a.results)):
        if r.get("r") in ("panic", "abort", "unparsable"):
            res["violations"].append(({"story": desc, "ops": a.ops[: i + 1], "result": r,
                                       "why": "a host call panicked / the process died"},
                                      {"kind": "panic", "loc": r.get("loc"), "op": op[0]}))
            break
        if r.get("r") == "err" and r.get("k") not in ("BadArgument",):
            faults += 1
        faults += sum(1 for e in (r.get("ev") or []) if e and e[0] == "handler" and e[1] == "E")
    res["nontrivial"] = faults > 0
    # oracle 2: a continue that reports an error without handler returns Err and lists the error
    if not handler:
        for i, (op, r) in enumerate(zip(a.ops[:hist_len], a.results[:hist_len])):
            if op == ["observe_all"] and r.get("r") == "ok" and isinstance(r.get("v"), dict) and r["v"].get("errors"):
                prev = next((a.results[j] for j in range(i - 1, -1, -1) if a.ops[j][0] in ("cont", "maximally", "path", "choose")), None)
                if prev is not None and prev.get("r") == "ok" and a.ops[i - 1][0] in ("cont", "maximally"):
                    res["violations"].append(({"story": desc, "ops": a.ops[: i + 1], "errors": r["v"]["errors"],
                                               "why": "errors were recorded but the continue returned Ok"},
                                              {"kind": "error-not-returned"}))
                break
    # oracle 3: reset story == fresh story
    fresh_ops = [["new", story["path"]]] + setup + [["seed", 23, 0], ["fuel", 20000]] + post_ops
    fr = play.run_rt_script(fresh_ops, scratch, tag=f"c04f-{wseed}")
    fr_post = fr[len(fresh_ops) - len(post_ops):]
    for i, (x, y) in enumerate(zip(post_res, fr_post)):
        cx = play.canon_result(post_ops[i], x, lockstep=True)
        cy = play.canon_result(post_ops[i], y, lockstep=True)
        for c in (cx, cy):
            # the harness' "lines delivered so far" stamp on external-call events is per process
            if c.get("ev"):
                c["ev"] = [e[:4] if e and e[0] == "ext" else e for e in c["ev"]]
        if cx != cy and not play.is_fuel(x) and not play.is_fuel(y):
            res["violations"].append(({"story": desc, "history_then_reset": a.ops[:post_start],
                                       "continuation": post_ops[: i + 1], "after_reset": cx, "fresh": cy,
                                       "why": "after an error, a reset story differs from a fresh one"},
                                      {"kind": "reset", "op": post_ops[i][0]}))
            break
    # oracle 4: release build gives the same transcript
    rel = play.run_rt_script(a.ops, scratch, release=True, tag=f"c04r-{wseed}")
    d = play.first_diff(a.ops, a.results, rel)
    if d:
        i, ca, cb = d
        res["violations"].append(({"story": desc, "ops": a.ops[: i + 1], "debug": ca, "release": cb,
                                   "why": "debug and release builds behave differently"}, {"kind": "profile", "op": a.ops[i][0]}))
    # tie
    rm = play.run_model(a.ops, scratch, tag=f"c04m-{wseed}")
    d = play.first_diff(a.ops, a.results, rm)
    if d:
        i, ca, cb = d
        res["corr"] = {"story": desc, "ops": a.ops[: i + 1], "op": a.ops[i], "code": ca, "model": cb}
    res["sample"] = {"story": os.path.basename(story["path"]), "end": end, "faults": faults, "handler": handler,
                     "ops": len(a.ops)}
    return res


def run(ctx):
    quick = ctx.tier == "quick"
    # (a) fault-prone expressions
    rng = random.Random(ctx.seed * 104729 + 1)
    exprs = []
    for i in range(600 if quick else 20000):
        ty = rng.choice(["int", "float", "bool", "str", "list"])
        exprs.append(exprgen.gen(rng, ty, rng.choice([1, 2, 2, 3]), 0.35))
    # the integer corner table, exhaustively: every arithmetic operator over the extreme operands
    corners = [["i", 0], ["i", 1], ["i", -1], ["i", 3], ["i", 2147483647], exprgen.I32_MIN, ["var", "vbig"], ["var", "vz"]]
    for op in ("+", "-", "*", "/", "%", "MIN", "MAX", "POW", "==", "<"):
        for x in corners:
            for y in corners:
                exprs.append(["bin", op, x, y])
    for op in ("_", "!", "INT", "FLOAT", "FLOOR", "CEILING"):
        for x in corners:
            exprs.append(["un", op, x])
    seen = set()
    uniq = []
    for e in exprs:
        k = json.dumps(e)
        if k not in seen:
            seen.add(k)
            uniq.append(e)
    jobs = [(uniq[b:b + c07.BATCH], ctx.seed * 17 + b, 0.3, ctx.scratch, f"c04-{os.getpid()}-{b}")
            for b in range(0, len(uniq), c07.BATCH)]
    with ProcessPoolExecutor(max_workers=14) as pool:
        for res in pool.map(c07.eval_batch, jobs, chunksize=1):
            if res["compile"] != "ok":
                ctx.count("expr_batches_compile_" + res["compile"])
                continue
            if res["corr"]:
                ctx.corr_diff("fault-prone expression stories: interpreter model vs real code", res["corr"])
            for row in res["rows"]:
                v = row["verdict"]
                ctx.count("expr_" + v)
                if row.get("tree") is not None:
                    ctx.case(json.dumps(row["tree"]), v == "ok-fault")
                if v == "panic":
                    ctx.violation("oracle", {"expression": row["text"], "tree": row["tree"], "real_code": row.get("code"),
                                             "declarations": exprgen.declarations_ink(),
                                             "why": "evaluating the expression panicked"},
                                  signature={"kind": "expr-panic", "expr": row["text"]})
                elif v == "fault":
                    ctx.violation("oracle", {"expression": row["text"], "tree": row["tree"],
                                             "independent_evaluator": row.get("spec"), "real_code": row.get("code"),
                                             "declarations": exprgen.declarations_ink(),
                                             "why": "the expression denotes a fault but no error was reported"},
                                  signature={"kind": "expr-fault-unreported", "expr": row["text"]})
                elif v in ("value", "spec-panic", "missing"):
                    ctx.corr_diff("expression value (Ink/Expr vs compile+play)",
                                  {"expression": row["text"], "evaluator": row.get("spec"), "code": row.get("code")})
    # (b) fault-prone programs
    # hand-written story documents that used to panic somewhere in the interpreter (corpus/c15/SITES.md)
    pool_s = stories.probe_pool(ctx, "c04") + stories.probe_pool(ctx, "c15/hardening-seeds") \
        + stories.probe_pool(ctx, "c15/engine-findings")
    for prof, n in (("errors", 60 if quick else 1500), ("core", 15 if quick else 300), ("lists", 12 if quick else 300),
                    ("externals", 12 if quick else 200), ("lists_random", 6 if quick else 100)):
        pool_s += stories.generated_pool(ctx, prof, n)
    pool_s += mutation_pool(ctx, 60 if quick else 1500)
    walks = 2 if quick else 4
    jobs = [(s, ctx.seed * 7151 + si * 11 + w, ctx.scratch) for si, s in enumerate(pool_s) for w in range(walks)]
    ctx.programs = len(pool_s)
    with ProcessPoolExecutor(max_workers=14) as ex:
        for res in ex.map(one_program, jobs, chunksize=2):
            if res.get("skipped"):
                ctx.count("skipped_" + res["skipped"])
                continue
            ctx.case(res["digest"], res["nontrivial"])
            ctx.count("ops", res["ops"])
            ctx.count("end_" + res["end"])
            ctx.count("stories_" + res["origin"])
            if res["corr"]:
                ctx.corr_diff("host API transcripts of fault-prone programs (Ink/Step + Ink/Continue vs story/*.rs)",
                              res["corr"])
            for rp, sig in res["violations"][:2]:
                ctx.violation("oracle", rp, signature=sig)
            if res["sample"] and res["nontrivial"] and len(ctx.samples) < 6:
                ctx.sample(res["sample"])


def replay(ctx, path):
    body = json.load(open(path))
    rp = body["replay"]
    if "tree" in rp:
        res = c07.eval_batch(([rp["tree"]], 1, 0.0, ctx.scratch, "replay"))
        print(json.dumps(res, indent=1)[:3000])
        return 0
    spath = stories.materialise(ctx, rp["story"])
    ops = (rp.get("history_then_reset") or rp.get("ops") or []) + (rp.get("continuation") or [])
    ops = [op if op[0] != "new" else ["new", spath] for op in ops]
    for op, r in zip(ops, play.run_rt_script(ops, ctx.scratch, tag="replay")):
        print(json.dumps(op), "->", json.dumps(r)[:300])
    return 0
