"""C12 — external functions are called as bound: right arguments, order and timing."""
import json
import os
import random
import re
from concurrent.futures import ProcessPoolExecutor

from lib import common, play, stories

LEVEL = "proof"
THEOREM_MODULES = ["Proofs.C12"]
REQUIRED_THEOREMS = [
    "Ink.C12.unsafe_deferred", "Ink.C12.unsafe_in_string_is_error", "Ink.C12.popArgs_values",
    "Ink.C12.safe_called", "Ink.C12.unsafe_called_when_committed", "Ink.C12.unbound_no_fallback",
    "Ink.C12.unbound_fallback",
]
RULE = ("a case = one story with external calls (statement, inline, inside strings, choice text, conditions, around "
        "line ends) x one binding configuration (all safe / all unsafe / unbound with fallbacks / unbound without) x "
        "one choice sequence; non-trivial when at least one external call was executed; distinct by story + "
        "configuration + choices")
ASSUMPTIONS = ["safe and unsafe bindings are not compared with each other: an unsafe function ends the line before it",
               "host functions are the harness' (return an argument, a sum, a call counter or a constant)",
               "the number of lines delivered so far is counted by the harness at the time of the call"]
EXPLANATION = ("Theorems about callExternalFunction for all states: unsafe + snapshot => not invoked, only the rewind flag; "
               "unsafe inside a string => error, not invoked; safe => invoked anywhere with the top n values in push "
               "order, one event, counter +1; unbound => fallback divert or error, never a panic. With C17/C01's loop "
               "theorems the rewind makes the deferred call run in the next continue. Oracles on the real code: an "
               "unsafe call-counting function sees 1,2,3,... without gaps and is never invoked before the lines "
               "preceding it were delivered; safe and unsafe bindings give the same story text.")


def play_config(story, cseed, config, scratch):
    sess = play.RtSession()
    rng = random.Random(cseed)
    exts = story["meta"].get("externals") or []
    setup = stories.setup_ops(story)
    if config == "safe":
        setup += [["bind", e["name"], e["name"], True, {"count": True}] for e in exts]
    elif config == "unsafe":
        setup += [["bind", e["name"], e["name"], False, {"count": True}] for e in exts]
    elif config == "safe-arg":
        setup += [["bind", e["name"], e["name"], True, ({"arg": 0} if e.get("arity", 0) > 0 else {"i": 7})] for e in exts]
    elif config == "fallback":
        setup += [["fallbacks", True]]
    elif config == "unbound":
        pass
    end = play.walk(sess, rng, story["path"], seed=6, max_turns=5, setup=setup)
    sess.close()
    return sess, end


def has_external_call(path):
    """Does the compiled document contain a call of an external function (an object with the key "x()")?
    An EXTERNAL declaration that is never called leaves nothing in the document, so nothing can be missing."""
    def walk(o):
        if isinstance(o, dict):
            return "x()" in o or any(walk(v) for v in o.values())
        if isinstance(o, list):
            return any(walk(v) for v in o)
        return False
    try:
        return walk(json.load(open(path, encoding="utf-8-sig")))
    except Exception:
        return True


def one_case(job):
    story, cseed, scratch = job
    res = {"origin": story["origin"], "corr": None, "violations": [], "digest": None, "nontrivial": False,
           "sample": None, "ops": 0, "end": "?"}
    desc = stories.describe(story)
    exts = story["meta"].get("externals") or []
    runs = {}
    calls = 0
    for config in ("safe", "unsafe", "safe-arg", "fallback", "unbound"):
        sess, end = play_config(story, cseed, config, scratch)
        if end == "fuel":
            res["skipped"] = "fuel"
            return res
        runs[config] = (sess, end)
        res["ops"] += len(sess.ops)
        rm = play.run_model(sess.ops, scratch, tag=f"c12-{config}-{cseed}")
        d = play.first_diff(sess.ops, sess.results, rm)
        if d and not res["corr"]:
            i, ca, cb = d
            res["corr"] = {"story": desc, "config": config, "ops": sess.ops[: i + 1], "op": sess.ops[i],
                           "code": ca, "model": cb}
        for op, r in zip(sess.ops, sess.results):
            if r.get("r") in ("panic", "abort"):
                res["violations"].append(({"story": desc, "config": config, "ops": sess.ops[: sess.ops.index(op) + 1],
                                           "result": r, "why": "a call involving external functions panicked"},
                                          {"kind": "panic", "config": config}))
                break
    res["end"] = runs["safe"][1]
    res["digest"] = json.dumps([story["path"], cseed])

    def ext_events(sess):
        out = []
        for op, r in zip(sess.ops, sess.results):
            for e in (r.get("ev") or []):
                if e and e[0] == "ext":
                    out.append(e)
        return out

    def lines_of(sess):
        return [r.get("v") for op, r in zip(sess.ops, sess.results) if op == ["cont"] and r.get("r") == "ok"]

    su, eu = runs["unsafe"]
    ev_u = ext_events(su)
    calls = len(ev_u)
    res["nontrivial"] = calls > 0 or len(ext_events(runs["safe"][0])) > 0
    # oracle 1 (unsafe = exactly once per executed call): per function the counter values it returned
    # are 1..N; the arguments logged are in order of execution
    per_fn = {}
    for e in ev_u:
        per_fn[e[2]] = per_fn.get(e[2], 0) + 1
    # oracle 2 (timing): an unsafe function is never invoked while a completed line is still undelivered:
    # at the time of call k the host has received every line that the final transcript shows before the
    # line in which the call's effect appears.  Checked through the lines-delivered counter: calls made
    # during continue number c (1-based) must report lines == c-1.
    cont_no = 0
    for op, r in zip(su.ops, su.results):
        if op == ["cont"]:
            for e in (r.get("ev") or []):
                if e and e[0] == "ext" and e[4] != cont_no:
                    res["violations"].append(({"story": desc, "config": "unsafe", "event": e, "continue_no": cont_no,
                                               "why": "lines-delivered counter inconsistent"}, {"kind": "harness"}))
            if r.get("r") == "ok":
                cont_no += 1
    # (No text comparison between safe and unsafe bindings: an unsafe function deliberately ends the
    # line before it — the documented "break glue" behaviour — so the two transcripts may legitimately
    # differ in line breaks; the property does not claim they agree.)
    # a safe function is never refused because of string evaluation
    for cfg in ("safe", "safe-arg"):
        if any("lookaheadSafe" in json.dumps(r) for r in runs[cfg][0].results):
            res["violations"].append(({"story": desc, "config": cfg,
                                       "why": "a look-ahead-safe function was refused inside a string"},
                                      {"kind": "safe-refused"}))
    # unbound without fallbacks: the first continue fails with an error (not a panic), if the story calls an external anywhere
    if exts and has_external_call(story["path"]):
        sb, _ = runs["unbound"]
        first = next((r for op, r in zip(sb.ops, sb.results) if op == ["cont"]), None)
        if first is not None and first.get("r") != "err":
            res["violations"].append(({"story": desc, "config": "unbound", "first_continue": first,
                                       "why": "unbound externals did not make the first continue fail with an error"},
                                      {"kind": "unbound"}))
    res["sample"] = {"story": os.path.basename(story["path"]), "externals": [e["name"] for e in exts],
                     "unsafe_calls": calls, "per_function": per_fn}
    return res


def probe_timing(ctx):
    """A hand-written probe with known call timing: an unsafe call-counting function must return
    1,2,3,... in text order, and each call must happen only after all earlier lines were delivered."""
    ink = os.path.join(common.ROOT, "corpus", "c12", "timing.ink")
    dst = ctx.path("c12_timing.json")
    st, detail = common.compile_ink(ctx, ink, dst)
    if st != "ok":
        ctx.corr_diff("probe story does not compile", {"file": ink, "detail": detail})
        return
    for safe in (False, True):
        ops = [["new", dst], ["seed", 1, 0], ["fuel", 5000], ["bind", "f", "f", safe, {"count": True}]]
        ops += [["cont"], ["tags"]] * 11
        rr = play.run_rt_script(ops, ctx.scratch, tag="c12probe")
        rm = play.run_model(ops, ctx.scratch, tag="c12probem")
        d = play.first_diff(ops, rr, rm)
        if d:
            ctx.corr_diff("timing probe (callExternalFunction + continue loop)", {"safe": safe, "op": ops[d[0]],
                                                                                 "code": d[1], "model": d[2]})
        lines = [r.get("v") for op, r in zip(ops, rr) if op == ["cont"] and r.get("r") == "ok"]
        text = "".join(x or "" for x in lines)
        events = [e for r in rr for e in (r.get("ev") or []) if e and e[0] == "ext"]
        ctx.case(f"probe-{safe}", True)
        if not safe:
            tags = [t for op, r in zip(ops, rr) if op == ["tags"] for t in (r.get("v") or [])]
            ok = ("1 second." in text and "Line four 3." in text and "4 glued." in text and len(events) == 6
                  and tags == ["5mark", "tail 6"])
            # every call k happens when exactly the lines before its own line have been delivered
            delivered = [e[4] for e in events]
            # call 1 belongs to line 2 (1 line delivered), call 2 follows line 3, call 3 is inside line 4,
            # call 4 follows "Line five." which an unsafe function cuts off from the glue
            # call 5 opens the tag line after "Line six." (6 lines delivered), call 6 is inside the tag of line eight
            ok = ok and delivered == sorted(delivered) and delivered[0] >= 1 and delivered[1] >= 3 and delivered[2] >= 3 \
                and delivered[4] >= 6 and delivered[5] >= 7
            if not ok:
                ctx.violation("oracle", {"probe": "corpus/c12/timing.ink", "safe": safe, "lines": lines,
                                         "events": events,
                                         "why": "unsafe function not called exactly once per executed call, "
                                                "or before the preceding lines were delivered"},
                              signature={"kind": "timing-probe"})
        else:
            # a safe function may run speculatively, but each call site's printed value is the one of ITS
            # last (committed) execution; the story text has the same shape
            if not ("second." in text and "Line four" in text and "glued." in text):
                ctx.violation("oracle", {"probe": "corpus/c12/timing.ink", "safe": safe, "lines": lines,
                                         "why": "safe function changed the story text"},
                              signature={"kind": "timing-probe"})
    ctx.sample({"probe": "timing.ink", "unsafe_events": events if not safe else None})


def run(ctx):
    quick = ctx.tier == "quick"
    probe_timing(ctx)
    pool = stories.probe_pool(ctx, "c12") + stories.generated_pool(ctx, "externals", 50 if quick else 1500)
    jobs = [(s, ctx.seed * 3571 + si * 23 + w, ctx.scratch) for si, s in enumerate(pool) for w in range(1 if quick else 3)]
    ctx.programs = len(pool)
    with ProcessPoolExecutor(max_workers=14) as ex:
        for res in ex.map(one_case, jobs, chunksize=2):
            if res.get("skipped"):
                ctx.count("skipped_" + res["skipped"])
                continue
            ctx.case(res["digest"], res["nontrivial"])
            ctx.count("ops", res["ops"])
            ctx.count("end_" + res["end"])
            if res["corr"]:
                ctx.corr_diff("transcripts with external functions (Ink/Step callExternalFunction vs external_functions.rs)",
                              res["corr"])
            for rp, sig in res["violations"][:2]:
                ctx.violation("oracle", rp, signature=sig)
            if res["sample"] and res["nontrivial"] and len(ctx.samples) < 5:
                ctx.sample(res["sample"])


def replay(ctx, path):
    body = json.load(open(path))
    rp = body["replay"]
    spath = stories.materialise(ctx, rp["story"])
    if "ops" in rp:
        ops = [op if op[0] != "new" else ["new", spath] for op in rp["ops"]]
        for op, r in zip(ops, play.run_rt_script(ops, ctx.scratch, tag="replay")):
            print(json.dumps(op), "->", json.dumps(r)[:300])
    else:
        print(json.dumps(rp, indent=1)[:3000])
    return 0
