"""C08 — how the host slices continuation never changes the story."""
import json
import os
import random
from concurrent.futures import ProcessPoolExecutor

from lib import common, play, stories

LEVEL = "proof"
THEOREM_MODULES = ["Proofs.C08", "Proofs.C08Sliced", "Proofs.Guards"]
REQUIRED_THEOREMS = [
    "Ink.C08.async_guards", "Ink.C08.async_always_completes", "Ink.C08.continue_keeps_recCount",
    "Ink.C17.continue_completes", "Ink.stepLoop_same",
    "Ink.C08.continueSingleStep_asyncEq", "Ink.C08.stepLoop_resume", "Ink.C08.stepLoop_sliced", "Ink.C08.unsafeConsumed",
    "Ink.C08.sliced_eq_blocking", "Ink.C08.sliced_eq_blocking_ok", "Ink.C08.sliced_eq_blocking_noHandler",
    "Ink.C08.pause_delivers_warnings",
    # the async guards of the model = the guards of the Rust source (translators/guards.py, every run)
    "Ink.Guards.model_guards", "Ink.Guards.unguarded_reviewed"]
RULE = ("a case = one story x one choice sequence x one pause schedule on the virtual step clock: every single pause "
        "position k = 1..K of every line, the pause-after-every-step schedule, and random multi-pause schedules; "
        "compared with the unsliced run line by line (text, tags, choices) and over the whole story (variables, "
        "visit counts, observer notifications, external calls); state-changing calls are tried during pauses; "
        "non-trivial when at least one pause really happened mid-line; distinct by story + choices + schedule")
ASSUMPTIONS = ["time is the virtual step clock of hook H3 (the real clock truncates to whole milliseconds and is not "
               "repeatable)", "errors handed to the handler are compared per line, warnings as a set per story (a pause hands over early what a rewind raises again; C13 owns deliveries)"]
EXPLANATION = ("Proved: refusals during an unfinished time-limited continue (all entry points), a blocking continue "
               "always completes a paused one and leaves the story quiescent, the recursion count is balanced over "
               "pauses. NOT proved (stated in Proofs/C08.lean): the full sliced = blocking equivalence; it is decided "
               "by exhaustive pause positions on the real code + the tie. PARTIAL.")

STATE_CHANGING = [["choose", 0], ["setvar", "__x", {"i": 1}], ["reset"], ["switch", "other"], ["remove", "other"],
                  ["default"], ["eval", "__f", []], ["path", "__p", True, []], ["loadtext", "{}"], ["text"], ["tags"],
                  ["maximally"], ["observe", "__x", "o"], ["bind", "__b", "b", True, None]]


def baseline(story, cseed, setup):
    sess = play.RtSession()
    rng = random.Random(cseed)
    end = play.walk(sess, rng, story["path"], seed=12, max_turns=4, setup=setup)
    sess.close()
    return sess, end


def sliced(story, base, setup, schedule_for_line, probe_rng):
    """Re-play the baseline's choices with every `cont` replaced by a sliced continue.
    schedule_for_line(line_no) -> list of budgets (then a blocking cont)."""
    sess = play.RtSession()
    line_no = 0
    pauses = 0
    refused_ok = True
    bad_accept = None
    out_lines = []   # canonical per-line results aligned with baseline `cont`s
    for op, r in zip(base.ops, base.results):
        if op == ["cont"]:
            evs = []
            res = None
            for bgt in schedule_for_line(line_no):
                a = sess.send(["contasync", bgt])
                evs += a.get("ev") or []
                if a.get("r") != "ok":
                    res = a
                    break
                if a.get("v") is True:
                    res = {"r": "ok", "done": True}
                    break
                pauses += 1
                # while paused: state-changing calls must be refused
                if probe_rng.random() < 0.5:
                    bad = probe_rng.choice(STATE_CHANGING)
                    pr = sess.send(bad)
                    if bad[0] == "default":
                        pass
                    elif pr.get("r") != "err":
                        bad_accept = (bad, pr)
            if res is None:
                a = sess.send(["cont"])
                evs += a.get("ev") or []
                res = a
                text = a.get("v") if a.get("r") == "ok" else None
            else:
                t = sess.send(["text"])
                text = t.get("v") if res.get("r") == "ok" else None
            out_lines.append({"r": res.get("r"), "text": text, "ev": evs})
            line_no += 1
        else:
            sess.send(op)
    sess.close()
    return sess, out_lines, pauses, bad_accept


def one_case(job):
    story, cseed, kind, param, scratch = job
    res = {"origin": story["origin"], "corr": None, "violations": [], "digest": None, "nontrivial": False,
           "sample": None, "ops": 0, "kind": kind}
    desc = stories.describe(story)
    exts = story["meta"].get("externals") or []
    g = story["meta"].get("globals") or []
    setup = stories.setup_ops(story) + [["handler"]]
    setup += [["bind", e["name"], e["name"], True, {"arg": 0} if e.get("arity", 0) else {"i": 3}] for e in exts]
    setup += [["observe", v, "o1"] for v in g[:3]]
    base, end = baseline(story, cseed, setup)
    if end in ("fuel", "loaderr"):
        res["skipped"] = end
        return res
    prng = random.Random(cseed + 7)
    if kind == "single":
        sched = lambda ln: [param]
    elif kind == "every":
        sched = lambda ln: [1] * 400
    else:
        srng = random.Random(cseed * 31 + param)
        table = {}
        def sched(ln):
            if ln not in table:
                table[ln] = [srng.choice([1, 2, 3, 5]) for _ in range(srng.randrange(0, 5))]
            return table[ln]
    sl, lines, pauses, bad_accept = sliced(story, base, setup, sched, prng)
    res["ops"] = len(base.ops) + len(sl.ops)
    res["digest"] = json.dumps([story["path"], cseed, kind, param])
    res["nontrivial"] = pauses > 0
    base_lines = [{"r": r.get("r"), "text": r.get("v") if r.get("r") == "ok" else None, "ev": r.get("ev") or []}
                  for op, r in zip(base.ops, base.results) if op == ["cont"]]

    def canon_line(l):
        evs = l["ev"]
        return {"r": l["r"], "text": l["text"],
                "obs": sorted(json.dumps(e) for e in evs if e and e[0] == "obs"),
                "ext": [e[:4] for e in evs if e and e[0] == "ext"],
                "handler": sorted(json.dumps(e) for e in evs if e and e[0] == "handler" and e[1] != "W")}
    # C08 names lines, tags, choices, variables, counts, notifications and external calls, not message deliveries: a
    # WARNING raised inside a look-ahead is handed over at a pause and raised again when the rewound content runs
    # (C13's business); errors end the line in both modes and are compared per line, warnings as a set per story.
    def warn_set(ls):
        return sorted({json.dumps(e) for l in ls for e in l["ev"] if e and e[0] == "handler" and e[1] == "W"})
    for i, (x, y) in enumerate(zip(base_lines, lines)):
        cx, cy = canon_line(x), canon_line(y)
        # a look-ahead-safe external may run again after a pause: compare the calls as sets
        cx["ext"] = sorted(set(json.dumps(e) for e in cx["ext"])); cy["ext"] = sorted(set(json.dumps(e) for e in cy["ext"]))
        if cx != cy:
            res["violations"].append(({"story": desc, "choices_seed": cseed, "schedule": [kind, param], "line_no": i,
                                       "unsliced": cx, "sliced": cy, "why": "slicing changed a line or its callbacks"},
                                      {"kind": "line", "schedule": kind}))
            break
    if not res["violations"] and warn_set(base_lines) != warn_set(lines):
        res["violations"].append(({"story": desc, "choices_seed": cseed, "schedule": [kind, param],
                                   "unsliced_warnings": warn_set(base_lines), "sliced_warnings": warn_set(lines),
                                   "why": "slicing changed the set of warnings handed to the handler"},
                                  {"kind": "warnings", "schedule": kind}))
    # non-cont results (tags, observe_all, choices, ...) must agree as well
    others_b = [(op, r) for op, r in zip(base.ops, base.results) if op != ["cont"]]
    sliced_ops = [(op, r) for op, r in zip(sl.ops, sl.results)
                  if op[0] not in ("contasync", "cont", "text") and op not in STATE_CHANGING]
    if not res["violations"]:
        for (op1, r1), (op2, r2) in zip(others_b, sliced_ops):
            if op1 != op2:
                break
            c1 = play.canon_result(op1, r1, lockstep=True); c2 = play.canon_result(op2, r2, lockstep=True)
            if c1 != c2:
                res["violations"].append(({"story": desc, "choices_seed": cseed, "schedule": [kind, param], "op": op1,
                                           "differences": play.json_diff(c1, c2),
                                           "why": "slicing changed the story state"}, {"kind": "state", "schedule": kind}))
                break
    if bad_accept:
        res["violations"].append(({"story": desc, "call": bad_accept[0], "result": bad_accept[1],
                                   "why": "a state-changing call was accepted during an unfinished continue_async"},
                                  {"kind": "guard", "op": bad_accept[0][0]}))
    rm = play.run_model(sl.ops, scratch, tag=f"c08-{cseed}-{kind}-{param}")
    d = play.first_diff(sl.ops, sl.results, rm)
    if d:
        i, a, b = d
        res["corr"] = {"story": desc, "ops": sl.ops[: i + 1], "op": sl.ops[i], "code": a, "model": b}
    res["sample"] = {"story": os.path.basename(story["path"]), "schedule": [kind, param], "pauses": pauses,
                     "lines": len(lines)}
    return res


def run(ctx):
    quick = ctx.tier == "quick"
    pool = stories.generated_pool(ctx, "core", 14 if quick else 300, size=2)
    pool += stories.generated_pool(ctx, "observers", 6 if quick else 150, size=2)
    pool += stories.generated_pool(ctx, "externals", 6 if quick else 150, size=2)
    pool += stories.generated_pool(ctx, "errors", 4 if quick else 100, size=2)
    pool += stories.probe_pool(ctx, "c08")
    jobs = []
    for si, s in enumerate(pool):
        cseed = ctx.seed * 811 + si
        for k in range(1, (10 if quick else 30)):
            jobs.append((s, cseed, "single", k, ctx.scratch))
        jobs.append((s, cseed, "every", 1, ctx.scratch))
        for m in range(2 if quick else 20):
            jobs.append((s, cseed, "random", m, ctx.scratch))
    ctx.programs = len(pool)
    with ProcessPoolExecutor(max_workers=14) as ex:
        for res in ex.map(one_case, jobs, chunksize=4):
            if res.get("skipped"):
                ctx.count("skipped_" + res["skipped"])
                continue
            ctx.case(res["digest"], res["nontrivial"])
            ctx.count("ops", res["ops"])
            ctx.count("schedule_" + res["kind"])
            if res["corr"]:
                ctx.corr_diff("transcripts of sliced continues (Ink/Continue with budgets vs progress.rs with the step clock)",
                              res["corr"])
            for rp, sig in res["violations"][:2]:
                ctx.violation("oracle", rp, signature=sig)
            if res["sample"] and res["nontrivial"] and len(ctx.samples) < 5:
                ctx.sample(res["sample"])


def replay(ctx, path):
    body = json.load(open(path))
    rp = body["replay"]
    spath = stories.materialise(ctx, rp["story"])
    if "ops" in rp:
        ops = [op if op[0] != "new" else ["new", spath] for op in rp["ops"]]
        for op, r in zip(ops, play.run_rt_script(ops, ctx.scratch, tag="replay")):
            print(json.dumps(op), "->", json.dumps(r)[:300])
    else:
        print(json.dumps({k: rp[k] for k in rp if k != "story"}, indent=1)[:4000])
    return 0
