"""C16 — evaluating an Ink function from the host does not disturb the story."""
import json
import os
import random
from concurrent.futures import ProcessPoolExecutor

from lib import common, play, stories

LEVEL = "proof"
THEOREM_MODULES = ["Proofs.C16", "Proofs.C16Frame"]
REQUIRED_THEOREMS = [
    "Ink.C16.complete_restores_output", "Ink.C16.complete_eval_stack", "Ink.C16.evalLoop_done",
    "Ink.C16.evalLoop_step", "Ink.C16.eval_rejected_unchanged",
    # frame property of the operations a step is made of: nothing below the evaluation frame is touched (partial: not yet lifted to the whole step / loop; LIST_RANDOM missing)
    "Ink.C16F.T_nextContent", "Ink.C16F.T_popTail", "Ink.C16F.T_processChoice", "Ink.C16F.T_callExternalFunction", "Ink.C16F.T_plfc_divert", "Ink.C16F.T_plfc_cmd_partial", "Ink.C16F.T_performLogicAndFlowControl_partial", "Ink.C16F.good_after_push"]
RULE = ("a case = one story with pure value / text functions x one history with host evaluations injected at random "
        "boundaries (mid-paragraph, at choice points, at the end, in a named flow), compared in lockstep with the "
        "uninjected history; non-trivial when at least one evaluation returned text or a value; distinct by story + script")
ASSUMPTIONS = ["only functions the generator marks pure are evaluated in the lockstep oracle",
               "the visit count of the function itself (and of containers inside it) is excluded from the comparison"]
EXPLANATION = ("Theorems: completion of an evaluation restores the pending output stream exactly and drops what the "
               "function left on the evaluation stack; the returned text is the concatenation of the function's lines; "
               "unknown / blank names are refused unchanged (C09). The frame property for the steps executed inside "
               "the function (elements below the evaluation frame untouched) is not proved; it is covered by the tie "
               "(normalised save after every step) and the lockstep oracle.  PARTIAL for that part.")


def canon_for_lockstep(op, r, fn_names):
    c = play.canon_result(op, r, lockstep=True)
    if op[0] == "savejson" and c.get("r") == "ok":
        v = c["v"]
        # visit counts / turn indices of the evaluated functions are allowed to differ
        for key in ("visitCounts", "turnIndices"):
            if isinstance(v.get(key), dict):
                v[key] = {k: x for k, x in v[key].items() if k.split(".")[0] not in fn_names}
    if op[0] == "observe_all" and c.get("r") == "ok" and isinstance(c.get("v"), dict):
        c["v"] = dict(c["v"])
        c["v"]["counts"] = {k: x for k, x in c["v"].get("counts", {}).items() if k.split(".")[0] not in fn_names}
    return c


def arg_for(rng, kind=None):
    """An argument of the declared parameter type (a wrongly typed argument is a story fault, not C16)."""
    if kind in ("str", "string"):
        return {"s": rng.choice(["a", "xy", "two words"])}
    if kind == "bool":
        return {"b": rng.random() < 0.5}
    return {"i": rng.choice([0, 1, 2, 7, 3])}


def one_case(job):
    story, wseed, scratch = job
    rng = random.Random(wseed)
    fns = [f for f in (story["meta"].get("functions") or []) if f.get("pure")]
    res = {"origin": story["origin"], "corr": None, "violations": [], "digest": None, "nontrivial": False,
           "sample": None, "ops": 0, "end": "?"}
    if not fns:
        res["skipped"] = "nofunctions"
        return res
    sess = play.RtSession()

    def save_probe(s, r):
        s.send(["savejson"])

    end = play.walk(sess, rng, story["path"], seed=8, max_turns=5, setup=stories.setup_ops(story),
                    per_line=[save_probe], per_turn=[save_probe])
    sess.close()
    res["end"] = end
    if end in ("fuel", "loaderr"):
        res["skipped"] = end
        return res
    base_ops, base_res = sess.ops, sess.results
    start = 3 + len(stories.setup_ops(story))
    positions = list(range(start, len(base_ops) + 1))
    ops2 = list(base_ops)
    marks = [False] * len(base_ops)
    injected = []
    chosen = positions if story.get("probe") else rng.sample(positions, min(len(positions), 5))
    for pos in sorted(chosen, reverse=True):
        f = rng.choice(fns)
        pt = f.get("ptypes") or ["int"] * f.get("arity", 0)
        ev = ["eval", f["name"], [arg_for(rng, t) for t in pt]]
        ops2.insert(pos, ev); marks.insert(pos, True)
        # repeat: a pure function returns the same result
        ops2.insert(pos, ev); marks.insert(pos, True)
        injected.append((pos, ev))
    rb = play.run_rt_script(ops2, scratch, tag=f"c16-{wseed}")
    rm = play.run_model(ops2, scratch, tag=f"c16m-{wseed}")
    res["ops"] = len(ops2)
    res["digest"] = json.dumps([story["path"], ops2], sort_keys=True)
    desc = stories.describe(story)
    d = play.first_diff(ops2, rb, rm)
    if d:
        i, a, b = d
        res["corr"] = {"story": desc, "ops": ops2[: i + 1], "op": ops2[i], "code": a, "model": b}
    fn_names = {f["name"] for f in story["meta"].get("functions") or []}
    evals = [(i, r) for i, (r, m) in enumerate(zip(rb, marks)) if m]
    res["nontrivial"] = any(r.get("r") == "ok" and (r["v"].get("text") or r["v"].get("ret") is not None) for _, r in evals)
    for i, r in evals:
        if r.get("r") in ("panic", "abort"):
            res["violations"].append(({"story": desc, "ops": ops2[: i + 1], "result": r,
                                       "why": "host evaluation panicked"}, {"kind": "panic"}))
    # repeated evaluation gives the same result (pairs are adjacent)
    for (i, r), (j, r2) in zip(evals[0::2], evals[1::2]):
        if r.get("r") == "ok" and r2.get("r") == "ok" and r.get("v") != r2.get("v"):
            res["violations"].append(({"story": desc, "ops": ops2[: j + 1], "first": r.get("v"), "second": r2.get("v"),
                                       "why": "a pure function returned different results when repeated"},
                                      {"kind": "repeat"}))
    kept = [r for r, m in zip(rb, marks) if not m]
    for i, (x, y) in enumerate(zip(base_res, kept)):
        cx = canon_for_lockstep(base_ops[i], x, fn_names)
        cy = canon_for_lockstep(base_ops[i], y, fn_names)
        if cx != cy:
            res["violations"].append(({"story": desc, "ops_with_evaluations": ops2, "diverges_at": base_ops[i],
                                       "differences": play.json_diff(cx, cy),
                                       "why": "a host evaluation disturbed the story"}, {"kind": "lockstep"}))
            break
    res["sample"] = {"story": os.path.basename(story["path"]), "evaluations": [e for _, e in injected][:2],
                     "results": [r.get("v") for _, r in evals][:2]}
    return res


def run(ctx):
    quick = ctx.tier == "quick"
    pool = stories.probe_pool(ctx, "c16") + stories.generated_pool(ctx, "functions", 60 if quick else 1500)
    jobs = [(s, ctx.seed * 2749 + si * 29 + w, ctx.scratch) for si, s in enumerate(pool) for w in range(1 if quick else 3)]
    ctx.programs = len(pool)
    with ProcessPoolExecutor(max_workers=14) as ex:
        for res in ex.map(one_case, jobs, chunksize=2):
            if res.get("skipped"):
                ctx.count("skipped_" + res["skipped"])
                continue
            ctx.case(res["digest"], res["nontrivial"])
            ctx.count("ops", res["ops"])
            ctx.count("end_" + res["end"])
            if res["corr"]:
                ctx.corr_diff("transcripts with host function evaluations (Ink/Api evaluateFunction vs navigation.rs)",
                              res["corr"])
            for rp, sig in res["violations"][:2]:
                ctx.violation("oracle", rp, signature=sig)
            if res["sample"] and res["nontrivial"] and len(ctx.samples) < 5:
                ctx.sample(res["sample"])


def replay(ctx, path):
    body = json.load(open(path))
    rp = body["replay"]
    spath = stories.materialise(ctx, rp["story"])
    ops = rp.get("ops_with_evaluations") or rp.get("ops")
    ops = [op if op[0] != "new" else ["new", spath] for op in ops]
    for op, r in zip(ops, play.run_rt_script(ops, ctx.scratch, tag="replay")):
        print(json.dumps(op), "->", json.dumps(r)[:300])
    return 0
