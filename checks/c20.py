"""C20 — the command-line tool speaks its protocol and matches the library."""
import hashlib
import json
import os
import random
import subprocess
from concurrent.futures import ProcessPoolExecutor

from checks import c14
from lib import common, play, stories

LEVEL = "proof"
NEEDS_CLI = True
THEOREM_MODULES = ["Proofs.C20"]
REQUIRED_THEOREMS = ["Ink.C20.esc_roundtrip", "Ink.C20.q_parses", "Ink.C20.fmtText_parses", "Ink.C20.fmtTags_parses",
                     "Ink.C20.fmtChoices_parses", "Ink.C20.fmtIssues_parses", "Ink.C20.fmtCmdOutput_parses",
                     "Ink.C20.session_pieces_wellformed"]
RULE = ("a case = one program (generated programs and corpus stories, with hostile text — quotes, backslashes, control and "
        "non-ASCII characters — injected into text, tags and choices) x one scripted input sequence (valid choices, "
        "out-of-range and malformed numbers, diverts to known and unknown paths with hostile characters, help, blank "
        "lines, quit, early end of input) x (JSON | plain) x (keep-open | not); plus compile runs of sources (valid, "
        "mutated, with errors); non-trivial when the session made at least one choice or printed an issue; distinct "
        "by program + inputs + mode")
ASSUMPTIONS = ["input lines are separated by \\n and contain ASCII white space only",
               "stories that use shuffles or RANDOM are left out: the tool draws a random story seed and offers no way to fix it",
               "the tool is run with the story as a compiled .json file for play, and with -o for compile"]
EXPLANATION = ("Model: Ink/Cli.lean — the tool's output as a function of the library's results (the interpreter model) "
               "and the input lines. Theorems: the tool's string escaping is inverted by the JSON parser for EVERY "
               "string; every kind of line the JSON mode prints parses to the intended object for all texts, tags, "
               "choices and messages; every piece of a whole session is such a line. Tie: stdout, stderr and exit status "
               "of the real tool equal the model's pieces for every case. Oracle: stdout of the JSON mode decodes as a "
               "sequence of JSON objects of the documented kinds; lines / tags / choices shown equal the library's "
               "(harness) for the same choices; compiled output is byte-identical to the library's; a compile error "
               "exits non-zero and prints the library's message.")

KINDS = [{"text"}, {"tags"}, {"choices"}, {"needInput"}, {"issues"}, {"cmdOutput"}, {"end"}, {"close"}]
HOSTILE_PATHS = ["nowhere", "a\"b", "back\\slash", "knot.x", "é", "x'y", "->", "{", "\u0001"]


def decode_stream(text):
    """A sequence of JSON values written back to back (with or without line breaks)."""
    dec = json.JSONDecoder()
    out = []
    i = 0
    n = len(text)
    while i < n:
        while i < n and text[i] in " \r\n\t":
            i += 1
        if i >= n:
            break
        try:
            v, j = dec.raw_decode(text, i)
        except json.JSONDecodeError as e:
            return out, {"at": i, "near": text[max(0, i - 40): i + 80], "error": str(e)}
        out.append(v)
        i = j
    return out, None


def gen_inputs(rng, knots, n_choices_hint=3):
    lines = []
    for _ in range(rng.choice([0, 1, 3, 5, 8])):
        x = rng.random()
        if x < 0.5:
            lines.append(str(rng.choice([1, 1, 2, 2, 3])))
        elif x < 0.58:
            lines.append(rng.choice(["0", "99", "-1", "+1", "1.5", "1 2", " 2 ", "2147483648", "18446744073709551616", "٣"]))
        elif x < 0.68 and knots:
            lines.append("-> " + rng.choice(knots))
        elif x < 0.76:
            lines.append("-> " + rng.choice(HOSTILE_PATHS))
        elif x < 0.82:
            lines.append(rng.choice(["help", "HELP", "Help"]))
        elif x < 0.88:
            lines.append(rng.choice(["", "   ", "\t"]))
        elif x < 0.92:
            lines.append(rng.choice(["quit", "exit", "QUIT"]))
        else:
            lines.append(rng.choice(["foo", "->", "-> a b", "?", "1x", "→ knot"]))
    return lines


def run_cli(story_path, inputs, json_mode, keep):
    args = [common.cli_bin()]
    if json_mode:
        args.append("-j")
    if keep:
        args.append("-k")
    args.append(story_path)
    data = "".join(l + "\n" for l in inputs)
    r = None
    for limit in (60, 400):     # (a second, much longer try: a loaded machine must not look like a hang)
        try:
            r = subprocess.run(args, input=data.encode("utf-8"), capture_output=True, timeout=limit)
            break
        except subprocess.TimeoutExpired:
            r = None
    if r is None:
        return None
    return r.stdout.decode("utf-8", "replace"), r.stderr.decode("utf-8", "replace"), r.returncode


def run_model(story_path, inputs, json_mode, keep, scratch, tag):
    ip = os.path.join(scratch, f"c20in-{tag}.txt")
    open(ip, "w", encoding="utf-8").write("".join(l + "\n" for l in inputs))
    try:
        r = subprocess.run([common.INKMODEL, "cli", story_path, "json" if json_mode else "plain", "keep" if keep else "nokeep", ip],
                           capture_output=True, text=True, timeout=120)
        rows = common.parse_json_lines(r.stdout.split("\n"))
    except subprocess.TimeoutExpired:
        rows = []
    os.remove(ip)
    return rows


def expected_streams(rows, json_mode):
    out, err, rc = [], [], None
    for r in rows:
        if not isinstance(r, list) or not r:
            continue
        if r[0] == "out":
            if json_mode:
                out.append(r[1] + ("" if r[1] == '{"needInput": true}' else "\n"))
            else:
                out.append(r[1])
        elif r[0] == "err":
            err.append(r[1])
        elif r[0] == "end":
            rc = 0 if r[1] == "ok" else 1
            if r[1] != "ok":
                err.append(r[2] + "\n")
    return "".join(out), "".join(err), rc


def one_session(job):
    story_path, meta, inputs, json_mode, keep, idx, scratch = job
    res = {"digest": hashlib.sha1(json.dumps([story_path, inputs, json_mode, keep]).encode()).hexdigest(),
           "violations": [], "corr": None, "nontrivial": False, "mode": ("json" if json_mode else "plain")}
    real = run_cli(story_path, inputs, json_mode, keep)
    desc = {"story_file": story_path, "inputs": inputs, "json_mode": json_mode, "keep_open": keep}
    try:
        desc["story"] = open(story_path, encoding="utf-8").read()[:3000]
    except Exception:
        pass
    if real is None:
        res["violations"].append(({**desc, "why": "the tool did not terminate within 400 s"}, {"kind": "hang"}))
        return res
    so, se, rc = real
    if rc not in (0, 1) or "panicked" in se:
        res["violations"].append(({**desc, "stderr": se[-600:], "exit": rc, "why": "the tool crashed"}, {"kind": "crash"}))
    objs = []
    if json_mode:
        objs, bad = decode_stream(so)
        if bad:
            res["violations"].append(({**desc, "stdout_problem": bad, "why": "standard output is not a sequence of well-formed JSON objects"},
                                      {"kind": "malformed-json"}))
        for o in objs:
            if not isinstance(o, dict) or set(o.keys()) not in KINDS:
                res["violations"].append(({**desc, "object": o, "why": "an object of an undocumented kind"}, {"kind": "unknown-kind"}))
                break
    res["nontrivial"] = ("choices" in so or "issues" in so or "?>" in so) and bool(inputs)
    # tie: the model's pieces
    rows = run_model(story_path, inputs, json_mode, keep, scratch, f"{os.getpid()}-{idx}")
    eo, ee, erc = expected_streams(rows, json_mode)
    if not rows or any(isinstance(r, list) and r[:1] == ["end"] and "model fuel" in json.dumps(r) for r in rows):
        pass
    elif (so, se, rc) != (eo, ee, erc):
        which = "stdout" if so != eo else ("stderr" if se != ee else "exit status")
        a, b = (so, eo) if so != eo else ((se, ee) if se != ee else (str(rc), str(erc)))
        k = next((i for i, (x, y) in enumerate(zip(a, b)) if x != y), min(len(a), len(b)))
        res["corr"] = {**desc, "differs_in": which, "tool": a[max(0, k - 80): k + 120], "model": b[max(0, k - 80): k + 120]}
    # oracle: what is shown equals what the library produces (valid choices only)
    def is_divert(l):
        w = l.split()
        return len(w) == 2 and w[0] == "->" and l == l.strip()
    def is_choice(l):
        return l.strip() in ("1", "2", "3", "4", "5", "6", "7", "8", "9")     # ASCII digits only ("٣".isdigit() is true in Python)
    if json_mode and rc == 0 and inputs and all(is_choice(l) or is_divert(l) for l in inputs):
        ops = [["new", story_path], ["fallbacks", True], ["handler"]]
        shown = []
        sess = play.RtSession()
        for op in ops:
            sess.send(op)
        pending = list(inputs)
        judged = True
        for _ in range(len(inputs) + 1):
            while sess.send(["can"]).get("v"):
                c = sess.send(["cont"])
                if c.get("r") != "ok":
                    break
                shown.append({"text": c.get("v")})
                t = sess.send(["tags"]).get("v") or []
                if t:
                    shown.append({"tags": t})
            cs = sess.send(["choices"]).get("v") or []
            if not cs:
                break
            shown.append({"choices": [({"text": c["text"], "tags": c["tags"], "tag_count": len(c["tags"])} if c["tags"] else {"text": c["text"]}) for c in cs]})
            while pending and not is_divert(pending[0]) and int(pending[0]) > len(cs):
                pending.pop(0)
            if not pending:
                break
            nxt = pending.pop(0)
            if is_divert(nxt):
                # a divert typed at the prompt goes to exactly the path that was typed
                if sess.send(["path", nxt.split()[1], True, []]).get("r") != "ok":
                    judged = False      # (what the tool shows after a refused divert is left to the model tie)
                    break
            else:
                sess.send(["choose", int(nxt) - 1])
        sess.close()
        tool_shown = [o for o in objs if isinstance(o, dict) and (set(o) & {"text", "tags", "choices"})]
        if not judged:
            # up to the refused divert the tool must have shown what the library gave
            tool_shown = tool_shown[:len(shown)]
        if tool_shown != shown:
            k = next((i for i, (x, y) in enumerate(zip(tool_shown, shown)) if x != y), min(len(tool_shown), len(shown)))
            res["violations"].append(({**desc, "position": k, "tool_shows": tool_shown[k:k + 2], "library_gives": shown[k:k + 2],
                                       "why": "the tool shows other lines / tags / choices than the library produces"},
                                      {"kind": "library-mismatch"}))
    return res


def one_compile(job):
    src, idx, scratch = job
    res = {"digest": hashlib.sha1(src.encode("utf-8", "replace")).hexdigest(), "violations": [], "outcome": "?"}
    d = os.path.join(scratch, f"c20c-{os.getpid()}-{idx}")
    os.makedirs(d, exist_ok=True)
    p = os.path.join(d, "story.ink")
    open(p, "w", encoding="utf-8").write(src)
    outp = os.path.join(d, "out.json")
    try:
        r = subprocess.run([common.cli_bin(), "-o", outp, p], capture_output=True, timeout=60)
        lib = subprocess.run([common.rt_bin(), "compilenamed", p, "story.ink"], capture_output=True, timeout=60)
    except subprocess.TimeoutExpired:
        res["violations"].append(({"source": src[:2000], "why": "compile run did not terminate"}, {"kind": "compile-hang"}))
        return res
    libtxt = lib.stdout.decode("utf-8", "replace").rstrip("\n")
    try:
        lj = json.loads(libtxt)
    except Exception:
        lj = None
    shown = src if len(src) < 2500 else src[:2500] + "…"
    if isinstance(lj, dict) and "root" in lj:
        res["outcome"] = "compiled"
        got = open(outp, encoding="utf-8").read() if os.path.exists(outp) else None
        if r.returncode != 0 or got != libtxt:
            res["violations"].append(({"source": shown, "exit": r.returncode, "stderr": r.stderr.decode("utf-8", "replace")[-400:],
                                       "same_bytes": got == libtxt,
                                       "why": "the tool's compiled output is not the library's"}, {"kind": "compile-output"}))
    elif isinstance(lj, dict) and "err" in lj:
        res["outcome"] = "error"
        se = r.stderr.decode("utf-8", "replace")
        if r.returncode == 0 or lj["err"] not in se:
            res["violations"].append(({"source": shown, "exit": r.returncode, "stderr": se[-600:], "library_error": lj["err"],
                                       "why": "a compile error must exit non-zero and report the compiler's message"},
                                      {"kind": "compile-error"}))
        if os.path.exists(outp):
            res["violations"].append(({"source": shown, "why": "an output file was written although compilation failed"},
                                      {"kind": "compile-error-output"}))
    else:
        res["outcome"] = "library-panic"
    import shutil
    shutil.rmtree(d, ignore_errors=True)
    return res


def run(ctx):
    quick = ctx.tier == "quick"
    rng = random.Random(ctx.seed * 5051 + 3)
    pool = []
    for prof, n in (("hostile_text", 14 if quick else 300), ("core", 10 if quick else 200), ("errors", 6 if quick else 100),
                    ("externals", 4 if quick else 60)):
        pool += stories.generated_pool(ctx, prof, n)
    pool += stories.corpus_pool(ctx, reference=False)[:: (6 if quick else 1)]
    pool += stories.probe_pool(ctx, "c20") * 3      # knot names that differ only in case, non-ASCII names
    docs = []
    for s in pool:
        try:
            raw = open(s["path"], encoding="utf-8").read()
        except Exception:
            continue
        if any(t in raw for t in ('"seq"', '"rnd"', '"lrnd"')):
            # the tool draws a random story seed and has no option to fix it: what a shuffle or RANDOM shows
            # cannot be predicted by the model or repeated by the library
            ctx.count("stories_with_randomness_left_out")
            continue
        docs.append((s["path"], s["meta"]))
        try:
            d = json.load(open(s["path"], encoding="utf-8"))
        except Exception:
            continue
        if len(json.dumps(d)) < 60000 and c14.inject(d, rng):
            p2 = ctx.path("c20_hostile_%d.json" % len(docs))
            open(p2, "w", encoding="utf-8").write(json.dumps(d, ensure_ascii=False, separators=(",", ":")))
            docs.append((p2, s["meta"]))
    jobs = []
    for path, meta in docs:
        for k in range(3 if quick else 8):
            inputs = gen_inputs(rng, meta.get("knots") or [])
            if k == 0:
                inputs = [str(rng.choice([1, 1, 2])) for _ in range(rng.choice([1, 2, 4]))]
            if "probe_c20" in path:
                kn = meta.get("knots") or []
                inputs = [rng.choice(["-> " + x for x in kn] + ["1", "2"]) for _ in range(7)]
            jm = rng.random() < 0.7
            jobs.append((path, meta, inputs, jm, rng.random() < 0.5, len(jobs), ctx.scratch))
    ctx.programs = len(docs)
    # compile runs
    srcs = []
    from checks import c06
    base = []
    for f in common.corpus_ink()[:: (4 if quick else 1)]:
        try:
            t = open(f, encoding="utf-8-sig").read()
            if "INCLUDE" not in t:
                base.append(t)
        except Exception:
            pass
    for t in base:
        srcs.append(t)
        for _ in range(2 if quick else 6):
            srcs.append(c06.mutate_text(t, rng, base))
    with ProcessPoolExecutor(max_workers=14) as ex:
        for res in ex.map(one_session, jobs, chunksize=2):
            ctx.case(res["digest"], res["nontrivial"])
            ctx.count("sessions_" + res["mode"])
            if res["corr"]:
                ctx.corr_diff("tool output (Ink/Cli.lean vs rinklecate)", res["corr"])
            for rp, sig in res["violations"][:2]:
                ctx.violation("oracle", rp, signature=sig)
        for res in ex.map(one_compile, [(s, i, ctx.scratch) for i, s in enumerate(srcs)], chunksize=4):
            ctx.case("compile:" + res["digest"], True)
            ctx.count("compile_" + res["outcome"])
            for rp, sig in res["violations"][:2]:
                ctx.violation("oracle", rp, signature=sig)
    ctx.sample({"sessions": len(jobs), "compile_runs": len(srcs)})


def replay(ctx, path):
    body = json.load(open(path))
    rp = body["replay"]
    if "inputs" in rp:
        p = ctx.path("replay.json")
        open(p, "w", encoding="utf-8").write(rp.get("story", ""))
        print(run_cli(p, rp["inputs"], rp["json_mode"], rp["keep_open"]))
    else:
        print(json.dumps(rp, indent=1)[:3000])
    return 0
