"""C05 — the Rust compiler agrees with the reference compiler on the corpus."""
import json
import random
import os
import subprocess
from concurrent.futures import ProcessPoolExecutor

from lib import common, play, stories

LEVEL = "proof"
THEOREM_MODULES = ["Generated.C05"]
REQUIRED_THEOREMS = []           # filled by prepare(): one theorem per corpus pair
ALLOW_NATIVE_IN = ("Generated/C05",)
EXTRA_AXIOMS = [r"re:Ink\.C05\.pair_\d+\._native\.native_decide\.ax_[0-9_]+"]
EXTRA_TRUST = ["C05 only: the per-pair theorems are closed by native_decide (evaluation of the compiled model, "
               "axiom Lean.ofReduceBool per theorem) — the kernel does not re-run the exploration"]
RULE = ("a case = one (source, reference .ink.json) pair of the conformance corpus: the source is compiled with the "
        "current compiler and both documents are explored along EVERY choice path down to the depth bound (12; 6 "
        "for stories that loop for ever; 6 for The Intercept, 8 in the thorough tier), on the real runtime (save/load at every choice "
        "point) and on the model; for the pairs this cannot finish (The Intercept, stories that loop) also random "
        "playthroughs of both documents in lockstep to the end (24 / 400 for The Intercept); non-trivial when the "
        "story offers at least one choice; distinct by file / by choice path")
ASSUMPTIONS = ["both stories run on the same runtime with seed 1",
               "the three shuffle stories are compared with the text of their lines blanked (modulo the shuffle)",
               "final values are compared for the globals both documents declare"]
EXPLANATION = ("Translator: every run compiles the corpus sources with /repo's compiler and regenerates "
               "lean/Generated/C05.lean, one theorem per pair: the model's exhaustive exploration of the two documents "
               "gives the same log, and (where the log is complete) that covers all choice paths. Closed by "
               "native_decide. Tie: the same exploration on the real runtime gives the same log as the model, for both "
               "documents. Oracle: the two real logs are equal.")

SHUFFLE = {"shuffle.ink", "shuffle_once.ink", "shuffle_stopping.ink"}
LEAN_OUT = os.path.join(common.LEAN, "Generated", "C05.lean")


def pairs():
    out = []
    for ink in common.corpus_ink():
        ref = ink + ".json"
        if os.path.exists(ref):
            out.append((os.path.relpath(ink, common.CORPUS), ink, ref))
    return out


def lean_str(s):
    out = ['"']
    for ch in s:
        if ch == '"':
            out.append('\\"')
        elif ch == "\\":
            out.append("\\\\")
        elif ch == "\n":
            out.append("\\n")
        elif ch == "\t":
            out.append("\\t")
        elif ch == "\r":
            out.append("\\r")
        elif ord(ch) < 32 or ord(ch) == 127:
            out.append("\\x%02x" % ord(ch))
        else:
            out.append(ch)
    out.append('"')
    return "".join(out)


def model_explore(path, depth, shuffle, names):
    try:
        r = subprocess.run([common.INKMODEL, "explore", path, str(depth), "shuffle" if shuffle else "plain"] + names,
                           capture_output=True, text=True, timeout=900)
    except subprocess.TimeoutExpired:
        return None, False
    lines = common.parse_json_lines(r.stdout.split("\n"))
    if not lines:
        return None, False
    return lines[:-1], bool(lines[-1].get("complete"))


def real_explore(path, depth, shuffle, names):
    """The same exploration on the real runtime; branches by save / load."""
    s = play.RtSession()
    log = []
    complete = [True]
    r = s.send(["new", path])
    if r.get("r") != "ok":
        s.close()
        return ["load failed"], True
    s.send(["seed", 1, 0])
    s.send(["fuel", 200000])

    def go(d, path_):
        if d == 0:
            log.append(["cut", path_])
            complete[0] = False
            return
        log.append(["@", path_])
        stopped = False
        n = 0
        while s.send(["can"]).get("v"):
            n += 1
            if n > 400:
                log.append(["e", "fuel"]); stopped = True
                break
            c = s.send(["cont"])
            if c.get("r") == "ok":
                log.append(["l", "" if shuffle else c.get("v"), s.send(["tags"]).get("v") or []])
            else:
                log.append(["e", c.get("k") if c.get("r") == "err" else "panic"]); stopped = True
                break
        cs = s.send(["choices"]).get("v") or []
        for c in cs:
            log.append(["c", c["text"], c["tags"]])
        if not cs or stopped:
            g = []
            for nme in sorted(names):
                v = s.send(["getvar", nme])
                g.append([nme, play.canon_nan(v.get("v")) if v.get("r") == "ok" else None])
            log.append(["g", g])
            return
        key = "k%d" % len(path_)
        s.send(["save", key])
        for i in range(len(cs)):
            s.send(["reset"])            # clears the error list a previous branch may have left behind
            s.send(["load", key])
            r = s.send(["choose", i])
            if r.get("r") != "ok":
                log.append(["e", "choose", path_ + [i]])
                continue
            go(d - 1, path_ + [i])

    go(depth, [])
    s.close()
    return log, complete[0]


def prepare(ctx):
    """Translator: compile the corpus, choose the depth per pair, write Generated/C05.lean."""
    ctx.c05 = []
    os.makedirs(os.path.dirname(LEAN_OUT), exist_ok=True)
    out = ["/-", "  GENERATED by checks/c05.py from /repo's compiler output and the conformance corpus — do not edit.",
           "  One theorem per (source, reference) pair: the two documents agree along every explored choice path.",
           "-/", "import Ink.Explore", "", "namespace Ink", "namespace C05", ""]
    req = []
    for idx, (rel, ink, ref) in enumerate(pairs()):
        dst = ctx.path("c05_%d.json" % idx)
        st, detail = common.compile_ink(ctx, ink, dst)
        if st != "ok":
            ctx.c05.append({"rel": rel, "idx": idx, "compile": st, "detail": str(detail)[:200]})
            continue
        reftxt = open(ref, encoding="utf-8-sig").read().strip()
        refp = ctx.path("c05_%d_ref.json" % idx)
        open(refp, "w", encoding="utf-8").write(reftxt)
        rusttxt = open(dst, encoding="utf-8").read().strip()
        ga = stories.story_meta_from_json(refp)["globals"]
        gb = stories.story_meta_from_json(dst)["globals"]
        names = sorted(set(ga) & set(gb))
        shuffle = os.path.basename(rel) in SHUFFLE
        depth = (6 if ctx.tier == "quick" else 8) if "Intercept" in rel else 12
        la, ca = model_explore(refp, depth, shuffle, names)
        if la is not None and not ca and "Intercept" not in rel:
            depth = 6
            la, ca = model_explore(refp, depth, shuffle, names)
        lb, cb = model_explore(dst, depth, shuffle, names)
        entry = {"rel": rel, "idx": idx, "compile": "ok", "ref": refp, "rust": dst, "names": names, "shuffle": shuffle,
                 "depth": depth, "model_ref": la, "model_rust": lb, "complete": bool(ca and cb),
                 "globals_only_one_side": sorted(set(ga) ^ set(gb))}
        ctx.c05.append(entry)
        agree = la is not None and la == lb
        entry["model_agree"] = agree
        if "Intercept" in rel:
            # two 160 kB string literals and a depth-4 exploration are too slow for the in-process evaluator;
            # this pair is decided by the oracle and the tie only (stated in the evidence)
            entry["theorem"] = None
            continue
        if agree:
            nm = "pair_%d" % idx
            out.append(f"/-- {rel} -/")
            out.append(f"def ref_{idx} : String := {lean_str(reftxt)}")
            out.append(f"def rust_{idx} : String := {lean_str(rusttxt)}")
            names_l = "[" + ", ".join(lean_str(n) for n in names) + "]"
            out.append(f"theorem {nm} : Explore.agree ref_{idx} rust_{idx} {names_l} {'true' if shuffle else 'false'} {depth} "
                       f"= (true, {'true' if entry['complete'] else 'false'}) := by native_decide")
            out.append("")
            req.append("Ink.C05." + nm)
            entry["theorem"] = "Ink.C05." + nm
        else:
            entry["theorem"] = None
    out += ["end C05", "end Ink", ""]
    new = "\n".join(out)
    if not os.path.exists(LEAN_OUT) or open(LEAN_OUT, encoding="utf-8").read() != new:
        open(LEAN_OUT, "w", encoding="utf-8").write(new)
    REQUIRED_THEOREMS[:] = req


def one_pair(job):
    e, scratch = job
    lr, cr = real_explore(e["ref"], e["depth"], e["shuffle"], e["names"])
    lb, cb = real_explore(e["rust"], e["depth"], e["shuffle"], e["names"])
    return e["idx"], lr, cr, lb, cb


def first_diff(a, b):
    for i, (x, y) in enumerate(zip(a or [], b or [])):
        if x != y:
            return i, x, y
    if len(a or []) != len(b or []):
        n = min(len(a or []), len(b or []))
        return n, (a or [None] * (n + 1))[n] if len(a or []) > n else None, (b or [None] * (n + 1))[n] if len(b or []) > n else None
    return None


def path_at(log, i):
    p = []
    for x in (log or [])[: i + 1]:
        if isinstance(x, list) and x and x[0] == "@":
            p = x[1]
    return p


def deep_walk(job):
    """One random playthrough of both documents in lockstep, far beyond the exhaustive depth."""
    e, wseed, max_turns = job
    rng = random.Random(wseed)
    a, b = play.RtSession(), play.RtSession()
    out = {"idx": e["idx"], "diff": None, "turns": 0, "path": []}
    ra, rb = a.send(["new", e["ref"]]), b.send(["new", e["rust"]])
    if ra.get("r") != "ok" or rb.get("r") != "ok":
        a.close(); b.close()
        return out
    for s in (a, b):
        s.send(["seed", 1, 0]); s.send(["fuel", 200000])
    path = []
    for turn in range(max_turns):
        n = 0
        while True:
            ca, cb = a.send(["can"]).get("v"), b.send(["can"]).get("v")
            if ca != cb:
                out["diff"] = ("can_continue", ca, cb)
                break
            if not ca or n > 400:
                break
            n += 1
            la, lb = a.send(["cont"]), b.send(["cont"])
            ta, tb = a.send(["tags"]).get("v"), b.send(["tags"]).get("v")
            xa = (la.get("r"), la.get("v") if not e["shuffle"] else "", ta)
            xb = (lb.get("r"), lb.get("v") if not e["shuffle"] else "", tb)
            if xa != xb:
                out["diff"] = ("line", xa, xb)
                break
            if la.get("r") != "ok":
                break
        if out["diff"]:
            break
        csa = [(c["text"], c["tags"]) for c in (a.send(["choices"]).get("v") or [])]
        csb = [(c["text"], c["tags"]) for c in (b.send(["choices"]).get("v") or [])]
        if csa != csb:
            out["diff"] = ("choices", csa, csb)
            break
        if not csa:
            break
        k = rng.randrange(len(csa))
        path.append(k)
        a.send(["choose", k]); b.send(["choose", k])
        out["turns"] += 1
    out["path"] = path
    a.close(); b.close()
    return out


def run(ctx):
    entries = [e for e in ctx.c05 if e.get("compile") == "ok"]
    for e in ctx.c05:
        if e.get("compile") != "ok":
            ctx.case("pair:" + e["rel"], True)
            ctx.violation("oracle", {"source": e["rel"], "compiler_result": e["compile"], "detail": e.get("detail"),
                                     "why": "the corpus source does not compile (the reference compiler accepts it)"},
                          signature={"kind": "pair", "file": e["rel"], "what": "compile"})
    ctx.programs = len(entries)
    by_idx = {e["idx"]: e for e in entries}
    ctx.c05_bounded = set()
    with ProcessPoolExecutor(max_workers=14) as ex:
        for idx, lr, cr, lb, cb in ex.map(one_pair, [(e, ctx.scratch) for e in entries], chunksize=1):
            e = by_idx[idx]
            has_choice = any(isinstance(x, list) and x and x[0] == "c" for x in (lr or []))
            ctx.case("pair:" + e["rel"], has_choice)
            ctx.count("paths", sum(1 for x in (lr or []) if isinstance(x, list) and x and x[0] == "g"))
            ctx.count("complete_pairs" if (cr and cb) else "bounded_pairs")
            if not (cr and cb):
                ctx.c05_bounded.add(idx)
            # tie: real log == model log, for both documents
            for which, real, model in (("reference document", lr, e["model_ref"]), ("compiled document", lb, e["model_rust"])):
                if model is None:
                    ctx.corr_diff("exploration log (Ink/Explore vs real runtime)", {"file": e["rel"], "doc": which,
                                                                                   "why": "model exploration failed / timed out"})
                    continue
                m = [play.canon_nan(x) for x in model]
                d = first_diff(real, m)
                if d:
                    ctx.corr_diff("exploration log (Ink/Explore vs real runtime)",
                                  {"file": e["rel"], "doc": which, "entry": d[0], "path": path_at(real, d[0]),
                                   "code": d[1], "model": d[2]})
            # oracle: the two real logs agree
            d = first_diff(lr, lb)
            if d:
                ctx.violation("oracle", {"source": e["rel"], "depth": e["depth"], "choice_path": path_at(lr, d[0]),
                                         "reference_compiled": d[1], "this_compiler": d[2],
                                         "why": "the story compiled by this compiler behaves differently from the reference-compiled one"},
                              signature={"kind": "pair", "file": e["rel"], "path": json.dumps(path_at(lr, d[0]))})
            if e.get("globals_only_one_side"):
                ctx.count("pairs_with_globals_on_one_side")
            if len(ctx.samples) < 4 and has_choice:
                ctx.sample({"file": e["rel"], "depth": e["depth"], "complete": bool(cr and cb), "log_entries": len(lr or []),
                            "theorem": e.get("theorem")})
        # pairs the exhaustive exploration could not finish (The Intercept, stories that loop): random playthroughs
        # of both documents in lockstep, to the end
        bounded = [e for e in entries if e["idx"] in ctx.c05_bounded]
        nwalk = 24 if ctx.tier == "quick" else 400
        jobs = [(e, ctx.seed * 977 + e["idx"] * 131 + w, 120) for e in bounded
                for w in range(nwalk if "Intercept" in e["rel"] else max(2, nwalk // 12))]
        seen = set()
        for out in ex.map(deep_walk, jobs, chunksize=2):
            e = by_idx[out["idx"]]
            ctx.case("walk:%s:%s" % (e["rel"], json.dumps(out["path"])), out["turns"] > 0)
            ctx.count("deep_walks")
            ctx.count("deep_walk_turns", out["turns"])
            if out["diff"]:
                what, ref, mine = out["diff"]
                sig = json.dumps([e["rel"], what, ref])[:300]
                if sig in seen:
                    continue
                seen.add(sig)
                ctx.violation("oracle", {"source": e["rel"], "choice_path": out["path"], "differs_in": what,
                                         "reference_compiled": ref, "this_compiler": mine,
                                         "why": "along this playthrough the story compiled by this compiler behaves differently "
                                                "from the reference-compiled one"},
                              signature={"kind": "walk", "file": e["rel"], "what": what, "ref": json.dumps(ref)[:80]})
    ctx.count("theorems_generated", len(REQUIRED_THEOREMS))
    no_thm = [e["rel"] for e in entries if not e.get("theorem")]
    ctx.notes.append("pairs without a theorem (disagree on the model, or The Intercept: oracle + tie only): " + ", ".join(no_thm))


def replay(ctx, path):
    body = json.load(open(path))
    rp = body["replay"]
    print(json.dumps(rp, indent=1)[:3000])
    return 0
