"""C07 — expressions over numbers, strings and lists evaluate as Ink specifies."""
import json
import os
import random
import subprocess
from concurrent.futures import ProcessPoolExecutor

from gen import exprgen
from lib import common, play, stories

LEVEL = "proof"
THEOREM_MODULES = ["Proofs.C07", "Proofs.Tables"]
REQUIRED_THEOREMS = [
    "Ink.C07.int_add", "Ink.C07.int_sub", "Ink.C07.int_mul", "Ink.C07.int_div", "Ink.C07.int_mod",
    "Ink.C07.int_div_mod_law", "Ink.C07.int_compare", "Ink.C07.int_min_max", "Ink.C07.int_float_coercion",
    "Ink.C07.bool_int_coercion", "Ink.C07.string_concat", "Ink.C07.scalar_string_concat", "Ink.C07.string_has",
    "Ink.C07.list_union", "Ink.C07.list_difference", "Ink.C07.list_intersection", "Ink.C07.list_has",
    "Ink.C07.list_count", "Ink.C07.list_max_is_greatest", "Ink.C07.list_min_is_least", "Ink.C07.list_display_sorted",
    "Ink.C07.call_order_independent", "Ink.C07.order_independent", "Ink.C07.eval_wellformed",
    "Ink.Expr.eval_order_independent", "Ink.Native.call_equiv", "Ink.union_perm", "Ink.ordered_perm",
    "Ink.maxItem_perm", "Ink.increment_perm",
]
from lib.tables_thms import TABLE_THEOREMS  # noqa: E402
REQUIRED_THEOREMS = REQUIRED_THEOREMS + TABLE_THEOREMS
RULE = ("a case = one expression tree (typed random trees up to depth 4 over int / exactly representable float / "
        "bool / string literals and variables and over list values from four LIST declarations with equal values "
        "across lists, empty lists with and without known origins; plus every unary and binary operator over a "
        "fixed set of 19 leaves, exhaustively), rendered to Ink, compiled and played by the real code; "
        "non-trivial when the tree has at least one operator; distinct by tree")
ASSUMPTIONS = ["parentheses are left out only where the reference parser's precedence table and this compiler's agree",
               "float literals are exactly representable; POW only with small integer arguments; float % only on leaves",
               "each expression is assigned to its own fresh global and printed on its own line"]
EXPLANATION = ("The tree is evaluated directly by Ink/Expr.lean (operators of Ink/Native.lean, no compiler, no "
               "interpreter loop) — the independent evaluator the theorems of Proofs/C07.lean speak about — and the "
               "value and printed text are compared with what compile+play gives on the real code. The same ops are "
               "run on the interpreter model (tie).")

BATCH = 40


def eval_batch(job):
    """One story of BATCH expressions. Returns per-expression verdicts."""
    exprs, seed, loose, scratch, tag = job
    rng = random.Random(seed)
    src, texts = exprgen.story(exprs, rng, loose)
    ink = os.path.join(scratch, f"c07-{tag}.ink")
    dst = os.path.join(scratch, f"c07-{tag}.json")
    open(ink, "w").write(src)
    res = {"n": len(exprs), "compile": "ok", "rows": [], "corr": None, "tag": tag}
    st, detail = common.compile_ink(None, ink, dst)
    if st != "ok":
        res["compile"] = st
        res["detail"] = detail
        res["src"] = src
        res["texts"] = texts
        return res
    ops = [["new", dst], ["seed", 1, 0], ["fuel", 20000], ["handler"]]
    for k in range(len(exprs)):
        ops += [["path", f"e{k}", True, []], ["maximally"], ["getvar", f"r{k}"]]
    rr = play.run_rt_script(ops, scratch, tag=f"c07r{tag}")
    rm = play.run_model(ops, scratch, tag=f"c07m{tag}")
    d = play.first_diff(ops, rr, rm)
    if d:
        i, ca, cb = d
        k = max(0, (i - 4) // 3)
        res["corr"] = {"expression": texts[k] if k < len(texts) else None, "op": ops[i], "code": ca, "model": cb,
                       "source": src}
    # the independent evaluator
    hdr = os.path.join(scratch, f"c07-{tag}.expr")
    with open(hdr, "w") as f:
        f.write(json.dumps(exprgen.header()) + "\n")
        for e in exprs:
            f.write(json.dumps(e) + "\n")
    try:
        r = subprocess.run([common.INKMODEL, "expr", hdr], capture_output=True, text=True, timeout=120)
        spec = common.parse_json_lines(r.stdout.split("\n"))
    except subprocess.TimeoutExpired:
        spec = []
    for k, e in enumerate(exprs):
        base = 4 + 3 * k
        if base + 2 >= len(rr) or k >= len(spec):
            res["rows"].append({"k": k, "verdict": "missing", "text": texts[k]})
            continue
        jump, line, var = rr[base], rr[base + 1], rr[base + 2]
        sp = spec[k]
        row = {"k": k, "text": texts[k], "tree": e, "spec": sp}
        got_text = line.get("v") if line.get("r") == "ok" else None
        if isinstance(got_text, list):
            got_text = "".join(got_text)
        errors = [ev[2] for ev in (line.get("ev") or []) if ev and ev[0] == "handler" and ev[1] == "E"]
        if any(x.get("r") in ("panic", "abort") for x in (jump, line, var)):
            row["verdict"] = "panic"
            row["code"] = [jump, line, var]
        elif sp.get("r") == "ok":
            want_text = sp["t"]
            ok_text = (got_text or "").strip("\n") == want_text.strip() if got_text is not None else False
            ok_val = var.get("r") == "ok" and play.canon_nan(var.get("v")) == play.canon_nan(sp["v"])
            if errors or not ok_val or not ok_text:
                row["verdict"] = "value"
                row["code"] = {"text": got_text, "value": var.get("v"), "errors": errors}
            else:
                row["verdict"] = "ok"
        elif sp.get("r") == "err":
            # the tree denotes a story fault: the real code must report an error, not a value
            if errors and any(sp["m"] in m for m in errors):
                row["verdict"] = "ok-fault"
            else:
                row["verdict"] = "fault"
                row["code"] = {"text": got_text, "value": var.get("v"), "errors": errors}
        else:
            row["verdict"] = "spec-panic"
            row["code"] = {"text": got_text, "value": var.get("v"), "errors": errors}
        res["rows"].append(row)
    for f in (ink, dst, hdr):
        try:
            os.remove(f)
        except OSError:
            pass
    return res


def depth(e):
    if e[0] in ("un", "fromint"):
        return 1 + depth(e[2])
    if e[0] == "bin":
        return 1 + max(depth(e[2]), depth(e[3]))
    if e[0] == "range":
        return 1 + max(depth(e[1]), depth(e[2]), depth(e[3]))
    return 0


def ops_of(e, acc):
    if e[0] in ("un", "bin"):
        acc[e[1]] = acc.get(e[1], 0) + 1
        for c in e[2:]:
            ops_of(c, acc)
    elif e[0] == "fromint":
        acc["fromint"] = acc.get("fromint", 0) + 1
        ops_of(e[2], acc)
    elif e[0] == "range":
        acc["LIST_RANGE"] = acc.get("LIST_RANGE", 0) + 1
        for c in e[1:]:
            ops_of(c, acc)


def expressions(ctx, faulty=0.0, n_random=None):
    quick = ctx.tier == "quick"
    rng = random.Random(ctx.seed * 7919 + 5)
    n = n_random if n_random is not None else (1600 if quick else 40000)
    out = []
    for i in range(n):
        ty = rng.choice(["int", "float", "bool", "str", "list", "list"])
        out.append(exprgen.gen(rng, ty, rng.choice([1, 2, 2, 3, 3, 4]), faulty))
    return out



# --------------------------------------------------------------------------- placement probe
# The value of a list expression must not depend on WHERE the statement that made the list ran: before the line of
# text or after it (i.e. inside the engine's look-ahead past the line end, committed when a choice follows).
# Ink defines both programs as the same: the statement runs once, before the choice.
PLACEMENT_STMTS = ["~ bag -= (apple, cherry)", "~ bag = ()", "~ bag = bag ^ (banana)", "~ bag -= apple",
                   "~ bag += banana", "~ bag = LIST_INVERT(bag)", "~ bag = LIST_ALL(bag) - bag", "~ bag++", "~ bag--"]
PLACEMENT_TMPL = """LIST fruits = apple, banana, cherry
LIST tools = saw, axe
VAR bag = (apple, cherry)
{before}
You open the bag.
{after}
* [Look inside]
    all={{LIST_ALL(bag)}} missing={{LIST_INVERT(bag)}} count={{LIST_COUNT(LIST_INVERT(bag))}} min={{LIST_MIN(bag)}} max={{LIST_MAX(bag)}} now={{bag}}
    ~ bag = LIST_INVERT(bag) - banana
    then={{bag}} n={{LIST_COUNT(bag)}} v={{LIST_VALUE(bag)}}
    -> END
"""


def placement_probe(ctx):
    for k, stmt in enumerate(PLACEMENT_STMTS):
        outs = {}
        for place in ("before", "after"):
            src = PLACEMENT_TMPL.format(before=stmt if place == "before" else "", after=stmt if place == "after" else "")
            ink = os.path.join(ctx.scratch, f"place-{k}-{place}.ink")
            out = os.path.join(ctx.scratch, f"place-{k}-{place}.json")
            open(ink, "w").write(src)
            st, detail = common.compile_ink(ctx, ink, out)
            if st != "ok":
                ctx.count("placement_not_compiled")
                outs = None
                break
            ops = [["new", out], ["seed", 7], ["cont"], ["choices"], ["choose", 0], ["maximally"], ["getvar", "bag"],
                   ["warnings"], ["errors"]]
            rb = play.run_rt_script(ops, ctx.scratch, tag=f"pl{k}{place}")
            rm = play.run_model(ops, ctx.scratch, tag=f"plm{k}{place}")
            d = play.first_diff(ops, rb, rm)
            if d:
                i, a, b = d
                ctx.corr_diff("placement probe: interpreter model vs real code",
                              {"source": src, "op": ops[i], "code": a, "model": b})
            outs[place] = ([play.canon_result(o, r) for o, r in zip(ops, rb)][4:], src)
        if not outs:
            continue
        ctx.case("placement:" + stmt, True)
        ctx.count("placement_pairs")
        if outs["before"][0] != outs["after"][0]:
            ctx.violation("oracle", {"why": "the value of list expressions depends on whether the assignment ran before "
                                            "the text line or after it (inside the look-ahead past the line end)",
                                     "statement": stmt, "source_before": outs["before"][1],
                                     "source_after": outs["after"][1], "choices": [0],
                                     "shown_before": outs["before"][0], "shown_after": outs["after"][0]},
                          signature={"kind": "placement", "stmt": stmt})

def run(ctx):
    quick = ctx.tier == "quick"
    placement_probe(ctx)
    exprs = expressions(ctx)
    ex = list(exprgen.exhaustive_depth1())
    well = []
    # exhaustive part: keep the well-typed ones (the trees the independent evaluator gives a value);
    # the ill-typed remainder belongs to C04
    allx = exprs + ex
    seen = set()
    uniq = []
    for e in allx:
        key = json.dumps(e)
        if key not in seen:
            seen.add(key)
            uniq.append(e)
    jobs = []
    for b in range(0, len(uniq), BATCH):
        jobs.append((uniq[b:b + BATCH], ctx.seed * 31 + b, 0.6, ctx.scratch, f"{os.getpid()}-{b}"))
    ctx.programs = len(jobs)
    opdist = {}
    with ProcessPoolExecutor(max_workers=14) as pool:
        for res in pool.map(eval_batch, jobs, chunksize=1):
            if res["compile"] != "ok":
                # find the expression the compiler rejects: re-run the batch one by one
                ctx.count("batches_not_compiled")
                singles = [([e], 1, 0.0, ctx.scratch, f"{res['tag']}-s{i}") for i, e in enumerate(jobs[0][0][:0])]
                ctx.count("compile_" + res["compile"])
                if len(ctx.samples) < 8:
                    ctx.sample({"compile": res["compile"], "detail": str(res.get("detail"))[:300]})
                ctx.notcompiled = getattr(ctx, "notcompiled", []) + [res]
                continue
            if res["corr"]:
                ctx.corr_diff("expression stories: interpreter model vs real code", res["corr"])
            for row in res["rows"]:
                v = row["verdict"]
                ctx.count("verdict_" + v)
                e = row.get("tree")
                if e is not None:
                    ops_of(e, opdist)
                    ctx.case(json.dumps(e), depth(e) >= 1)
                if v in ("ok", "ok-fault"):
                    continue
                if v == "fault" and row["spec"].get("r") == "err":
                    kind = "fault-not-reported"
                else:
                    kind = v
                ctx.violation("oracle", {"expression": row["text"], "tree": row.get("tree"),
                                         "independent_evaluator": row.get("spec"), "real_code": row.get("code"),
                                         "declarations": exprgen.declarations_ink(),
                                         "why": {"value": "compile+play gives another value or text than the tree denotes",
                                                 "panic": "the real code panicked",
                                                 "fault-not-reported": "the tree denotes a fault but no error was reported",
                                                 "missing": "no result", "spec-panic": "the evaluator hit a panic site"}.get(kind, kind)},
                              signature={"kind": kind, "expr": row["text"]})
    ctx.count("operators_distribution", 0)
    ctx.sample({"operator_counts": dict(sorted(opdist.items(), key=lambda kv: -kv[1]))})


def replay(ctx, path):
    body = json.load(open(path))
    rp = body["replay"]
    if "source_after" in rp:
        for k in ("source_before", "source_after"):
            ink = os.path.join(ctx.scratch, k + ".ink"); out = os.path.join(ctx.scratch, k + ".json")
            open(ink, "w").write(rp[k])
            print(k, common.compile_ink(ctx, ink, out))
            ops = [["new", out], ["seed", 7], ["cont"], ["choices"], ["choose", 0], ["maximally"], ["getvar", "bag"]]
            for o, r in zip(ops, play.run_rt_script(ops, ctx.scratch, tag="replay")):
                print(json.dumps(o), "->", json.dumps(r)[:300])
        return 0
    e = rp["tree"]
    res = eval_batch(([e], 1, 0.0, ctx.scratch, "replay"))
    print(json.dumps(res, indent=1)[:3000])
    return 0
