"""C11 — variable observers see each committed change once, with the final value."""
import json
import os
import random
from concurrent.futures import ProcessPoolExecutor

from lib import common, play, stories

LEVEL = "proof"
THEOREM_MODULES = ["Proofs.C11"]
REQUIRED_THEOREMS = [
    "Ink.C11.changed_implies_recorded", "Ink.C11.changed_nodup", "Ink.C11.set_records",
    "Ink.C11.set_outside_batch_notifies", "Ink.C11.completeObservation_names", "Ink.C11.changed_implies_notified",
    "Ink.C11.notified_names_nodup", "Ink.C11.obsEvents_one_per_observer", "Ink.C11.obsEvents_unobserved",
    "Ink.C11.setVariable_notifies", "Ink.C11.removeVariableObserver_other", "Ink.C11.loadState_keeps_observers",
]
RULE = ("a case = one story (assignments before / between / after line ends, in functions, tunnels, choice bodies) x "
        "one history with observers added and removed at random points, host assignments, saves/loads and resets, "
        "every story-running call bracketed by polling all observed variables; non-trivial when at least two "
        "notifications were delivered; distinct by story + history")
ASSUMPTIONS = ["a notification whose value equals the polled value before the call is ignored on both sides (the "
               "engine records 'changed' by Rc identity; the property speaks about values that differ)",
               "notifications of one call are compared as a set"]
EXPLANATION = ("The global store of the model carries its change-tracking invariant in its type (every reachable store "
               "satisfies: differs from the batch start => recorded, no name twice); theorems lift it to the "
               "notifications of a completed outermost continue, to host assignments and to observer removal. "
               "Oracle: notifications vs polled differences on the real code.")


def one_case(job):
    story, wseed, scratch = job
    rng = random.Random(wseed)
    g = list(story["meta"].get("globals") or [])
    res = {"origin": story["origin"], "corr": None, "violations": [], "digest": None, "nontrivial": False,
           "sample": None, "ops": 0, "end": "?"}
    if not g:
        res["skipped"] = "noglobals"
        return res
    sess = play.RtSession()
    # registrations: observer id -> set of variables (as the host believes them to be)
    reg = {}
    setup = stories.setup_ops(story)
    for oid in ("o1", "o2"):
        for v in rng.sample(g, min(len(g), rng.choice([1, 2, 3]))):
            setup.append(["observe", v, oid])
            reg.setdefault(oid, []).append(v)

    def churn(s, r):
        x = r.random()
        if x < 0.12:
            v = r.choice(g); oid = r.choice(["o1", "o2", "o3"])
            if s.send(["observe", v, oid]).get("r") == "ok":
                reg.setdefault(oid, []).append(v)
        elif x < 0.22:
            oid = r.choice(["o1", "o2", "o3"])
            if r.random() < 0.5:
                if s.send(["unobserve", oid, None]).get("r") == "ok":
                    reg[oid] = []
            else:
                v = r.choice(g)
                if s.send(["unobserve", oid, v]).get("r") == "ok" and v in reg.get(oid, []):
                    reg[oid].remove(v)
        elif x < 0.30:
            v = r.choice(g)
            cur = s.send(["getvar", v]).get("v")
            if isinstance(cur, dict) and "i" in cur:
                s.send(["setvar", v, {"i": cur["i"] + 1}])
        elif x < 0.36:
            s.send(["save", "k"]); s.send(["load", "k"])

    def sliced_line(s, r):
        # deliver the next line in slices on the virtual clock (an outermost continue all the same)
        if r.random() < 0.35 and s.send(["can"]).get("v"):
            for _ in range(40):
                a = s.send(["contasync", r.choice([1, 2, 3, 5])])
                if a.get("r") != "ok" or a.get("v") is True:
                    break
            else:
                s.send(["cont"])

    end = play.walk(sess, rng, story["path"], seed=4, max_turns=6, setup=setup, per_line=[churn, sliced_line],
                    per_turn=[churn])
    sess.close()
    res["end"] = end
    if end in ("fuel", "loaderr"):
        res["skipped"] = end
        return res
    ops, results = sess.ops, sess.results
    res["ops"] = len(ops)
    res["digest"] = json.dumps([story["path"], ops], sort_keys=True)
    desc = stories.describe(story)
    # oracle on the real transcript: replay the registrations and check every story-running call
    regs = {}          # var -> list of observer ids (registration order)
    last_vars = None   # values polled by the most recent observe_all
    delivered = 0
    for i, (op, r) in enumerate(zip(ops, results)):
        name = op[0]
        evs = [e for e in (r.get("ev") or []) if e and e[0] == "obs"]
        delivered += len(evs)
        if name == "observe" and r.get("r") == "ok":
            regs.setdefault(op[1], []).append(op[2])
        elif name == "unobserve" and r.get("r") == "ok":
            for v in list(regs):
                if op[2] is None or op[2] == v:
                    if op[1] in regs[v]:
                        regs[v].remove(op[1])
        elif name == "unobserve" and r.get("r") == "panic":
            res["violations"].append(({"story": desc, "ops": ops[: i + 1], "why": "removing an observer panicked"},
                                      {"kind": "panic"}))
        # no (observer, variable) pair is notified twice in one call
        seen = set()
        for e in evs:
            key = (e[1], e[2])
            multiplicity = regs.get(e[2], []).count(e[1])
            if key in seen and multiplicity <= 1:
                res["violations"].append(({"story": desc, "ops": ops[: i + 1], "event": e,
                                           "why": "a variable was notified twice in one call"}, {"kind": "twice"}))
            seen.add(key)
            if e[1] not in regs.get(e[2], []):
                res["violations"].append(({"story": desc, "ops": ops[: i + 1], "event": e,
                                           "why": "a removed / unregistered observer was notified"},
                                          {"kind": "unregistered"}))
        if name == "setvar" and r.get("r") == "ok":
            want = sorted((oid, op[1]) for oid in regs.get(op[1], []))
            got = sorted((e[1], e[2]) for e in evs)
            if want != got or any(e[3] != op[2] for e in evs):
                res["violations"].append(({"story": desc, "ops": ops[: i + 1], "events": evs, "expected_observers": want,
                                           "why": "a host assignment did not notify each observer once"},
                                          {"kind": "host-set"}))
    res["nontrivial"] = delivered >= 2
    # polled differences: observe_all before and after every turn give the value changes over the
    # continues in between; every observed variable that differs must have been notified in between
    polls = [(i, r["v"]["vars"]) for i, (op, r) in enumerate(zip(ops, results))
             if op[0] == "observe_all" and r.get("r") == "ok" and isinstance(r.get("v"), dict)]
    for (i0, v0), (i1, v1) in zip(polls, polls[1:]):
        between = range(i0 + 1, i1)
        if any(ops[j][0] in ("setvar", "load", "reset", "observe", "unobserve", "path") for j in between):
            continue   # only plain continue / choose segments are judged here
        if any(results[j].get("r") != "ok" for j in between):
            continue   # a continue that fails returns before the observers are called
        notified = {}
        for j in between:
            for e in (results[j].get("ev") or []):
                if e and e[0] == "obs":
                    notified[e[2]] = e[3]
        # registrations at that time: rebuild up to i0
        rg = {}
        for op, r in zip(ops[: i0 + 1], results[: i0 + 1]):
            if op[0] == "observe" and r.get("r") == "ok":
                rg.setdefault(op[1], []).append(op[2])
            elif op[0] == "unobserve" and r.get("r") == "ok":
                for v in list(rg):
                    if (op[2] is None or op[2] == v) and op[1] in rg[v]:
                        rg[v].remove(op[1])
        for var in g:
            if not rg.get(var):
                continue
            if v0.get(var) != v1.get(var) and var not in notified:
                res["violations"].append(({"story": desc, "ops": ops[: i1 + 1], "variable": var, "before": v0.get(var),
                                           "after": v1.get(var), "why": "an observed variable changed without notification"},
                                          {"kind": "missed"}))
                break
            if var in notified and notified[var] != v1.get(var):
                # the last notification of the segment must carry the value the variable has afterwards
                res["violations"].append(({"story": desc, "ops": ops[: i1 + 1], "variable": var,
                                           "notified_value": notified[var], "value_after": v1.get(var),
                                           "why": "the notification did not carry the final value"},
                                          {"kind": "stale-value"}))
                break
    rm = play.run_model(ops, scratch, tag=f"c11-{wseed}")
    d = play.first_diff(ops, results, rm)
    if d:
        i, ca, cb = d
        res["corr"] = {"story": desc, "ops": ops[: i + 1], "op": ops[i], "code": ca, "model": cb}
    res["sample"] = {"story": os.path.basename(story["path"]), "notifications": delivered, "ops": len(ops)}
    return res


def run(ctx):
    quick = ctx.tier == "quick"
    pool = stories.generated_pool(ctx, "observers", 50 if quick else 1200)
    pool += stories.generated_pool(ctx, "core", 20 if quick else 500)
    pool += stories.generated_pool(ctx, "functions", 10 if quick else 300)
    pool += [s for s in stories.corpus_pool(ctx, reference=False) if s["meta"]["globals"]][: (30 if quick else 120)]
    jobs = [(s, ctx.seed * 5273 + si * 19 + w, ctx.scratch) for si, s in enumerate(pool) for w in range(1 if quick else 3)]
    ctx.programs = len(pool)
    with ProcessPoolExecutor(max_workers=14) as ex:
        for res in ex.map(one_case, jobs, chunksize=2):
            if res.get("skipped"):
                ctx.count("skipped_" + res["skipped"])
                continue
            ctx.case(res["digest"], res["nontrivial"])
            ctx.count("ops", res["ops"])
            ctx.count("end_" + res["end"])
            ctx.count("stories_" + res["origin"])
            if res["corr"]:
                ctx.corr_diff("transcripts with observers (Ink/State Vars + Ink/Continue vs variables_state.rs / progress.rs)",
                              res["corr"])
            for rp, sig in res["violations"][:2]:
                ctx.violation("oracle", rp, signature=sig)
            if res["sample"] and res["nontrivial"] and len(ctx.samples) < 5:
                ctx.sample(res["sample"])


def replay(ctx, path):
    body = json.load(open(path))
    rp = body["replay"]
    spath = stories.materialise(ctx, rp["story"])
    ops = [op if op[0] != "new" else ["new", spath] for op in rp["ops"]]
    for op, r in zip(ops, play.run_rt_script(ops, ctx.scratch, tag="replay")):
        print(json.dumps(op), "->", json.dumps(r)[:300])
    return 0
