"""C18 — dropping a story releases all the memory it used."""
import json
import os
import random
import subprocess
from concurrent.futures import ProcessPoolExecutor

from lib import common, play, rcsites, stories

LEVEL = "proof"
THEOREM_MODULES = ["Proofs.C18"]
REQUIRED_THEOREMS = ["Ink.C18.sweep_subset", "Ink.C18.sweeps_mono", "Ink.C18.ranked_no_leak", "Ink.C18.cycle_leaks",
                     "Ink.C18.cycle_survives", "Ink.C18.held_objects_stay", "Ink.C18.leak_iff_cycle", "Ink.C18.leaked_stable"]
RULE = ("a case = one program (generated and corpus, incl. The Intercept) x one recorded host history (lines, choices, "
        "saves, loads, resets, flow switches, path jumps, host evaluations) replayed 12 times as create-play-drop under a "
        "counting allocator, and once as 12 rounds of reset+replay / save+load on one instance; non-trivial when the "
        "history made a choice and the program has a divert that points backwards; distinct by program + history")
ASSUMPTIONS = ["live bytes are counted by a global allocator wrapper in the harness binary (rtmem); the first 3 cycles are warm-up",
               "memory held by the host's own objects (observers, bound functions) is the host's"]
EXPLANATION = ("Theorem (reference counting as a graph): if some rank strictly increases along every strong reference, "
               "then once the host drops its references every object is freed (ranked_no_leak); a set of objects that "
               "own each other in a cycle is never freed (cycle_leaks); an object leaks iff it is reachable from a strong "
               "cycle (leak_iff_cycle). Tie to the code: the inventory of all Rc / Weak fields of the runtime's data "
               "structures is regenerated from the source and compared with the reviewed ranking c18_edges.json (every "
               "strong field must go from a lower to a higher rank; a tree-to-tree cache must be weak). Oracle: live bytes "
               "after each create-play-drop cycle, and after each reset / load round on one instance, do not grow.")

UNRANKED = {"?", "tree-cache"}


def inventory(ctx):
    reviewed = json.load(open(os.path.join(common.ROOT, "c18_edges.json")))
    known = {e["site"]: e["class"] for e in reviewed["edges"]}
    now = [rcsites.key(s) for s in rcsites.scan()]
    ctx.count("rc_fields", len(now))
    for s in now:
        c = known.get(s)
        if c is None:
            ctx.corr_diff("inventory of Rc / Weak fields (regenerated from /repo) vs c18_edges.json",
                          {"unreviewed_field": s, "why": "a new or changed reference-counted field: it has no place in the ranking the no-leak theorem needs"})
        elif c in UNRANKED and "Weak<" not in s.split(": ", 1)[1]:
            ctx.corr_diff("inventory of Rc / Weak fields (regenerated from /repo) vs c18_edges.json",
                          {"unranked_strong_field": s, "class": c,
                           "why": "a strong reference between objects of the content tree: it can point to an ancestor, "
                                  "so no rank increases along it (hypothesis of ranked_no_leak not met)"})
    ctx.sample({"rc_fields": len(now)})


def record_history(story, wseed):
    rng = random.Random(wseed)
    s = play.RtSession()
    knots = story["meta"].get("knots") or []
    fns = [f for f in (story["meta"].get("functions") or []) if f.get("pure")]

    def extras(sess, r):
        x = r.random()
        if x < 0.12:
            sess.send(["save", "m"]); sess.send(["load", "m"])
        elif x < 0.18:
            sess.send(["switch", "side"])
            if knots:
                sess.send(["path", r.choice(knots), False, []])
        elif x < 0.24:
            sess.send(["default"])
        elif x < 0.28 and knots:
            sess.send(["path", r.choice(knots), True, []])
        elif x < 0.33 and fns:
            f = r.choice(fns)
            sess.send(["eval", f["name"], [{"i": 1}] * f.get("arity", 0)])
        elif x < 0.36:
            sess.send(["savejson"])

    end = play.walk(s, rng, story["path"], seed=3, max_turns=rng.choice([3, 6, 10]), setup=stories.setup_ops(story),
                    per_line=[extras], per_turn=[extras], observe=False)
    s.close()
    return s.ops, end


def rtmem(mode, ops, scratch, tag, n, k=None):
    p = os.path.join(scratch, f"mem-{tag}.jsonl")
    with open(p, "w") as f:
        for op in ops:
            f.write(json.dumps(op, ensure_ascii=False) + "\n")
    args = [os.path.join(common.target_dir([]), "debug", "rtmem"), mode, p, str(n)]
    if k is not None:
        args.append(str(k))
    try:
        r = subprocess.run(args, capture_output=True, text=True, timeout=600)
        out = common.parse_json_lines(r.stdout.split("\n"))
    except subprocess.TimeoutExpired:
        out = []
    os.remove(p)
    return out[0] if out else None


def one_case(job):
    story, wseed, scratch = job
    res = {"origin": story["origin"], "digest": None, "violations": [], "nontrivial": False, "skipped": None, "growth": 0}
    ops, end = record_history(story, wseed)
    if end in ("fuel", "loaderr"):
        res["skipped"] = end
        return res
    res["digest"] = json.dumps([story["path"], ops], sort_keys=True)
    res["nontrivial"] = any(op[0] == "choose" for op in ops)
    desc = stories.describe(story)
    m = rtmem("cycles", ops, scratch, f"c-{os.getpid()}-{wseed}", 12)
    if not m or "live" not in m:
        res["skipped"] = "rtmem"
        return res
    live = m["live"]
    growth = live[-1] - live[3]
    res["growth"] = growth
    if growth > 0:
        res["violations"].append(({"story": desc, "ops": ops, "live_bytes_after_each_drop": live,
                                   "growth_per_cycle": (live[-1] - live[3]) // (len(live) - 4),
                                   "why": "create-play-drop cycles grow the heap: dropping the story does not release all its memory"},
                                  {"kind": "cycle-leak", "origin": story["origin"]}))
    # one instance: reset + replay, rounds must not grow beyond the state itself
    if len(ops) > 4:
        rep = ops[:1] + [["reset"]] + ops[1:]
        m2 = rtmem("repeat", rep, scratch, f"r-{os.getpid()}-{wseed}", 12, 1)
        if m2 and "live" in m2:
            l2 = m2["live"]
            if l2[-1] - l2[3] > 0:
                res["violations"].append(({"story": desc, "ops_per_round": rep[1:], "live_bytes_after_each_round": l2,
                                           "why": "repeated reset + replay on one instance grows the heap"},
                                          {"kind": "reset-leak", "origin": story["origin"]}))
        # save + load rounds
        rep2 = ops + [["save", "z"], ["load", "z"]]
        m3 = rtmem("repeat", rep2, scratch, f"l-{os.getpid()}-{wseed}", 12, len(ops))
        if m3 and "live" in m3:
            l3 = m3["live"]
            if l3[-1] - l3[3] > 0:
                res["violations"].append(({"story": desc, "history": ops, "live_bytes_after_each_save_load": l3,
                                           "why": "repeated save + load on one instance grows the heap"},
                                          {"kind": "load-leak", "origin": story["origin"]}))
    return res


def run(ctx):
    quick = ctx.tier == "quick"
    inventory(ctx)
    pool = []
    for prof, n in (("core", 20 if quick else 300), ("flows", 8 if quick else 100), ("functions", 8 if quick else 100),
                    ("lists", 6 if quick else 100), ("errors", 6 if quick else 100)):
        pool += stories.generated_pool(ctx, prof, n)
    pool += stories.corpus_pool(ctx)[:: (4 if quick else 1)]
    jobs = [(s, ctx.seed * 4447 + si * 7 + w, ctx.scratch) for si, s in enumerate(pool) for w in range(1 if quick else 3)]
    ctx.programs = len(pool)
    with ProcessPoolExecutor(max_workers=14) as ex:
        for res in ex.map(one_case, jobs, chunksize=2):
            if res["skipped"]:
                ctx.count("skipped_" + res["skipped"])
                continue
            ctx.case(res["digest"], res["nontrivial"])
            ctx.count("stories_" + res["origin"])
            if res["growth"] > 0:
                ctx.count("leaking_cases")
            for rp, sig in res["violations"][:1]:
                ctx.violation("oracle", rp, signature=sig)


def replay(ctx, path):
    body = json.load(open(path))
    rp = body["replay"]
    spath = stories.materialise(ctx, rp["story"])
    ops = [op if op[0] != "new" else ["new", spath] for op in rp.get("ops") or rp.get("history") or []]
    print(rtmem("cycles", ops, ctx.scratch, "replay", 12))
    return 0
