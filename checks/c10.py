"""C10 — flows are independent except for global variables and counts."""
import itertools
import json
import os
import random
from concurrent.futures import ProcessPoolExecutor

from lib import common, play, stories

LEVEL = "proof"
THEOREM_MODULES = ["Proofs.C10", "Proofs.C10Frame"]
REQUIRED_THEOREMS = [
    "Ink.C10.switch_parks_current", "Ink.C10.switch_back_identity", "Ink.C10.switch_preserves_wf",
    "Ink.C10.switch_same_flow", "Ink.C10.runM_namedFlows", "Ink.C10.continueSingleStep_namedFlows",
    "Ink.C10.stepLoop_namedFlows", "Ink.C10.remove_other_keeps_current", "Ink.C10.flowFor_name",
    "Ink.C10.ops_keep_parked_flows", "Ink.C10.applyOp_snapshotAgrees", "Ink.C10.other_flow_untouched",
    "Ink.C10.other_flow_untouched_public", "Ink.C10.flowOf_stepsIn", "Ink.C10.interleaving_flow_projection",
    "Ink.C10.interleaving_with_readChoices", "Ink.C10.applyOp_quiet",
]
RULE = ("a case = one program made of mutually disjoint flow scripts x one interleaving of the flows' host operations "
        "(all interleavings of two flows with up to 3+3 operations in the quick tier), optionally with save/load and "
        "switch-away-and-back at every point, or ending with the removal of the flow that is current (which must then "
        "be gone from the save, and creating it again must equal creating a flow that never existed); each flow's "
        "transcript is compared with its solo run; non-trivial when "
        "both flows produced text and at least one made a choice; distinct by program + interleaving")
ASSUMPTIONS = ["flow scripts are disjoint in variables and knots and do not read the turn index or random numbers "
               "(the generator guarantees it; meta.flow_members is checked)"]
EXPLANATION = ("Theorems over the flow map of the model: a switch parks the current flow untouched and touches no other "
               "parked flow; switching away and back is the identity on the whole core; the continue loop (all steps, "
               "snapshots, rewinds) never changes a parked flow — a step cannot even see the parked flows (type-level "
               "frame); for ANY list of host operations in another flow, switching there, running them and switching "
               "back leaves a flow's record (call stack, output, choices) exactly as it was (other_flow_untouched, over "
               "a Hoare logic for the whole step monad); the interleaving corollary holds under the explicit proviso "
               "that the other flow's steps leave the shared part (globals, counts, seed) alone. That proviso is what "
               "the generator guarantees and the exhaustive-interleaving oracle checks.")


def flow_ops(entry, n, rng):
    """The host operations of one flow script: enter the knot, then continue / choose."""
    return [("enter", entry)] + [("advance", None)] * n


def run_interleaving(story, order, flows, scratch, extras, tag):
    """order: list of flow indices, one per operation. Returns per-flow transcripts and the op list."""
    sess = play.RtSession()
    sess.send(["new", story["path"]]); sess.send(["seed", 3, 0]); sess.send(["fuel", 20000])
    for op in stories.setup_ops(story):
        sess.send(op)
    started = set()
    per_flow = {i: [] for i in range(len(flows))}
    rngs = {i: random.Random(1000 + i) for i in range(len(flows))}
    for step, fi in enumerate(order):
        name = f"flow{fi}"
        sess.send(["switch", name])
        if fi not in started:
            started.add(fi)
            r = sess.send(["path", flows[fi], False, []])
            per_flow[fi].append(("enter", r.get("r")))
        else:
            # advance: all lines up to the next choice, then choose one (deterministically per flow)
            lines = []
            guard = 0
            while sess.send(["can"]).get("v") and guard < 100:
                guard += 1
                c = sess.send(["cont"])
                lines.append(c.get("v") if c.get("r") == "ok" else ("ERR", c.get("m")))
                lines.append(sess.send(["tags"]).get("v"))
                if c.get("r") != "ok":
                    break
            cs = sess.send(["choices"]).get("v") or []
            per_flow[fi].append(("lines", lines, [(c["text"], c["tags"]) for c in cs]))
            if cs:
                k = rngs[fi].randrange(len(cs))
                r = sess.send(["choose", k])
                per_flow[fi].append(("choose", k, r.get("r")))
        if (extras == "saveload" and step % 2 == 1) or extras == "saveload_all":
            sess.send(["save", "s"]); sess.send(["load", "s"])
        elif extras == "away" and step % 2 == 0:
            sess.send(["switch", "scratchflow"]); sess.send(["switch", name])
        elif extras == "default":
            sess.send(["default"])
    sess.removal = None
    if extras == "remove" and order:
        # remove the flow that is current: it must be gone (not parked), so creating it again
        # is like creating any flow that never existed
        name = f"flow{order[-1]}"

        def observe():
            return {"can": sess.send(["can"]).get("v"), "text": sess.send(["text"]).get("v"),
                    "tags": sess.send(["tags"]).get("v"), "choices": sess.send(["choices"]).get("v"),
                    "path": sess.send(["curpath"]).get("v")}
        r1 = sess.send(["remove", name])
        saved = sess.send(["savejson"]).get("v") or {}
        sess.send(["switch", name])
        again = observe()
        sess.send(["remove", name])
        sess.send(["switch", name + "_never_seen"])
        fresh = observe()
        sess.send(["remove", name + "_never_seen"])
        sess.removal = {"flow": name, "remove_result": r1.get("r"), "flows_in_save": sorted((saved.get("flows") or {}).keys()),
                        "recreated": again, "fresh": fresh}
    sess.send(["savejson"])
    sess.close()
    return per_flow, sess


def one_case(job):
    story, order, extras, wseed, scratch = job
    flows = story["meta"].get("flows") or []
    res = {"origin": story["origin"], "corr": None, "violations": [], "digest": None, "nontrivial": False,
           "sample": None, "ops": 0}
    desc = stories.describe(story)
    inter, sess = run_interleaving(story, order, flows, scratch, extras, "i")
    if any(play.is_fuel(r) for r in sess.results):
        res["skipped"] = "fuel"
        return res
    res["ops"] = len(sess.ops)
    res["digest"] = json.dumps([story["path"], order, extras])
    # solo runs: each flow alone, with the same number of operations
    for fi in set(order):
        solo_order = [fi] * order.count(fi)
        solo, s2 = run_interleaving(story, solo_order, flows, scratch, None, "s")
        if solo[fi] != inter[fi]:
            res["violations"].append(({"story": desc, "interleaving": order, "extras": extras, "flow": flows[fi],
                                       "solo": solo[fi], "interleaved": inter[fi],
                                       "why": "a flow's transcript depends on what the other flow did"},
                                      {"kind": "interleaving", "extras": extras or "none"}))
            break
    rm_ = getattr(sess, "removal", None)
    if rm_ and rm_["remove_result"] == "ok":
        if rm_["flow"] in rm_["flows_in_save"] or rm_["recreated"] != rm_["fresh"]:
            res["violations"].append(({"story": desc, "ops": sess.ops, "removal": rm_,
                                       "why": "removing the current flow did not remove it: it is still saved, or "
                                              "creating it again resumes the old flow instead of a new one"},
                                      {"kind": "remove-current"}))
    res["nontrivial"] = all(any(t[0] == "lines" and any(isinstance(x, str) and x for x in t[1]) for t in inter[fi])
                            for fi in set(order)) and any(t[0] == "choose" for fi in set(order) for t in inter[fi])
    for op, r in zip(sess.ops, sess.results):
        if r.get("r") in ("panic", "abort"):
            res["violations"].append(({"story": desc, "ops": sess.ops[: sess.ops.index(op) + 1], "result": r,
                                       "why": "a flow operation panicked"}, {"kind": "panic"}))
            break
    rm = play.run_model(sess.ops, scratch, tag=f"c10-{wseed}")
    d = play.first_diff(sess.ops, sess.results, rm)
    if d:
        i, a, b = d
        res["corr"] = {"story": desc, "ops": sess.ops[: i + 1], "op": sess.ops[i], "code": a, "model": b}
    res["sample"] = {"story": os.path.basename(story["path"]), "interleaving": order, "extras": extras,
                     "flow0": inter.get(0, [])[:2]}
    return res


def run(ctx):
    quick = ctx.tier == "quick"
    pool = [s for s in stories.generated_pool(ctx, "flows", 14 if quick else 200) if len(s["meta"].get("flows") or []) >= 2]
    jobs = []
    k = 3 if quick else 4
    rng = random.Random(ctx.seed)
    for si, s in enumerate(pool):
        # all interleavings of k ops of flow 0 and k ops of flow 1
        orders = [list(c) for c in set(itertools.permutations([0] * k + [1] * k))]
        rng.shuffle(orders)
        for oi, order in enumerate(orders[: (20 if quick else 70)]):
            extras = [None, "saveload", "away", "default", "saveload_all", "remove"][oi % 6]
            jobs.append((s, order, extras, ctx.seed * 1013 + si * 101 + oi, ctx.scratch))
        nfl = len(s["meta"]["flows"])
        if nfl >= 3:
            for oi in range(4 if quick else 30):
                order = [rng.randrange(3) for _ in range(9)]
                jobs.append((s, order, None, ctx.seed * 1013 + si * 101 + 500 + oi, ctx.scratch))
    ctx.programs = len(pool)
    with ProcessPoolExecutor(max_workers=14) as ex:
        for res in ex.map(one_case, jobs, chunksize=4):
            if res.get("skipped"):
                ctx.count("skipped_" + res["skipped"])
                continue
            ctx.case(res["digest"], res["nontrivial"])
            ctx.count("ops", res["ops"])
            if res["corr"]:
                ctx.corr_diff("transcripts of interleaved flows (Ink/Api flows + Ink/Save vs story_state.rs / flow.rs)",
                              res["corr"])
            for rp, sig in res["violations"][:2]:
                ctx.violation("oracle", rp, signature=sig)
            if res["sample"] and res["nontrivial"] and len(ctx.samples) < 5:
                ctx.sample(res["sample"])


def replay(ctx, path):
    body = json.load(open(path))
    rp = body["replay"]
    spath = stories.materialise(ctx, rp["story"])
    if "ops" in rp:
        ops = [op if op[0] != "new" else ["new", spath] for op in rp["ops"]]
        for op, r in zip(ops, play.run_rt_script(ops, ctx.scratch, tag="replay")):
            print(json.dumps(op), "->", json.dumps(r)[:300])
    else:
        print(json.dumps({k: rp[k] for k in rp if k != "story"}, indent=1)[:4000])
    return 0
