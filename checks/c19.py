"""C19 — every piece of story content is addressable by its own path."""
import json
import os
import random
import hashlib
from concurrent.futures import ProcessPoolExecutor

from lib import common
from gen import treegen

LEVEL = "proof"
THEOREM_MODULES = ["Proofs.C19"]
REQUIRED_THEOREMS = [
    "Ink.C19.parse_toText", "Ink.C19.eq_hash", "Ink.C19.hash_parse_toText",
    "Ink.C19.relative_roundtrip", "Ink.C19.relative_noshare", "Ink.C19.resolve_pathOf",
    "Ink.C19.compOfText_toText",
]
RULE = ("cases = story documents (reference corpus, corpus sources compiled by the repo compiler, generated "
        "programs, random content trees) audited object by object + random path texts; a case is non-trivial "
        "when its tree has at least one named container and one path-carrying reference; distinct by content hash; plus "
        "cases = one story x one host history (incl. flows created and not yet continued, saves before the first "
        "continue) in which every save taken is loaded by another story and saved again: the positions written "
        "(container path + index of every call-stack element, choice paths, choice threads) must come back the same")
ASSUMPTIONS = [
    "object identity in the model is tree position; the hook compares Rc addresses",
    "hash equality of the real hasher is compared with text equality of the model (SipHash collisions ignored)",
    "usize is 64 bits",
]
EXPLANATION = ("Theorems over Ink/Path + Ink/Tree (all trees, all positions, all paths); tie = audit rows of the "
               "real code equal to the rows computed by the Lean model on the same document")


def audit_pair(path):
    rc1, a, e1 = common.run_lines([common.rt_bin(), "audit", path])
    rc2, b, e2 = common.run_lines([common.INKMODEL, "audit", path])
    return path, common.parse_json_lines(a), common.parse_json_lines(b), (e1, e2)


def oracle_rows(rows):
    """Failures of the property itself on the real code's rows."""
    bad = []
    for r in rows:
        t = r.get("t")
        if t == "obj":
            ok = r["peq"] and r["pheq"] and r["res"] and not r["apx"]
            if r["a"]:
                ok = ok and r["ptr"] == "ok"
            if not ok:
                bad.append(r)
        elif t == "ref":
            if not (r["req"] and r["rheq"]):
                bad.append(r)
        elif t == "pair":
            if not (r["leq"] and r["lheq"] and r["backeq"] and r["res"] and not r["apx"]):
                bad.append(r)
        elif t == "panic":
            bad.append(r)
    return bad


def story_job(job):
    """Runs in a worker process: audit one story on both sides, return a summary."""
    path, origin, judge, inline = job
    path, ra, rb, errs = audit_pair(path)
    wf = None
    if rb and rb[-1].get("t") == "wf":
        wf = rb[-1]["tree"]
        rb = rb[:-1]
    nontrivial = any(r.get("t") == "ref" for r in ra) and any(
        r.get("t") == "obj" and r.get("k") == "container" and r["d"].get("name") for r in ra)
    res = {"origin": origin, "rows": len(ra), "wf": bool(wf), "nontrivial": nontrivial,
           "digest": hashlib.sha1(json.dumps(ra, sort_keys=True).encode()).hexdigest(),
           "corr": None, "violations": [], "sample": None}
    doc = inline if inline is not None else {"file": path}
    # panics of either side are compared as a class
    ca = [r if r.get("t") not in ("panic", "loaderr") else {"t": r["t"]} for r in ra]
    cb = [r if r.get("t") not in ("panic", "loaderr") else {"t": r["t"]} for r in rb]
    if ca != cb:
        first = next(((x, y) for x, y in zip(ca, cb) if x != y), (ca[len(cb):][:1], cb[len(ca):][:1]))
        res["corr"] = {"story": doc, "origin": origin, "code": first[0], "model": first[1]}
    if judge:
        for r in oracle_rows(ra)[:3]:
            res["violations"].append(({"story": doc, "origin": origin, "row": r,
                                       "why": "path does not round-trip / resolve to the object itself"},
                                      {"row_type": r.get("t"), "origin": origin}))
    if ra:
        res["sample"] = {"origin": origin, "story": os.path.basename(path), "rows": len(ra),
                         "example_row": ra[min(3, len(ra) - 1)]}
    return res


def absorb(ctx, res):
    ctx.case(res["digest"], res["nontrivial"])
    ctx.count("stories_" + res["origin"])
    ctx.count("rows", res["rows"])
    if res["wf"]:
        ctx.count("wf_trees")
    if res["corr"]:
        ctx.corr_diff("audit rows (Ink/Load+Ink/Tree+Ink/Path vs json_read.rs/object.rs/container.rs/path.rs)",
                      res["corr"])
    for rp, sig in res["violations"]:
        ctx.violation("oracle", rp, signature=sig)
    if res["sample"] and (len(ctx.samples) < 2 or
                          (len(ctx.samples) < 5 and res["origin"] not in [s["origin"] for s in ctx.samples])):
        ctx.sample(res["sample"])


def path_probes(ctx, n):
    rng = random.Random(ctx.seed * 7919 + 19)
    texts = [treegen.gen_path_text(rng) for _ in range(n)]
    texts += ["", ".", ".^", ".^.^.3", "knot.stitch.0.g-0", "0", "a..b", "+5", "007", ".a.", "a."]
    stdin = "\n".join(json.dumps(t) for t in texts) + "\n"
    _, a, _ = common.run_lines([common.rt_bin(), "pathprobe"], stdin=stdin)
    _, b, _ = common.run_lines([common.INKMODEL, "pathprobe"], stdin=stdin)
    ja, jb = common.parse_json_lines(a), common.parse_json_lines(b)
    ctx.count("path_probes", len(texts))
    for t, x, y in zip(texts, ja, jb):
        ctx.case("probe:" + t, nontrivial="." in t)
        if x != y:
            ctx.corr_diff("path probe (Ink/Path vs path.rs)", {"text": t, "code": x, "model": y})
        # property on the real code: a parsed path prints and re-parses to itself
        # whenever its components are well formed (names that read as numbers or
        # contain dots are outside the property: the engine never builds them)
        if x.get("pc") == x.get("ppc") and x.get("pr") == x.get("ppr"):
            if not (x["peq"] and x["pheq"] and x["beq"] and x["bheq"]):
                ctx.violation("oracle", {"path_text": t, "row": x, "why": "equal paths unequal or hash differently"},
                              signature={"row_type": "probe"})
        elif x.get("pc") != x.get("ppc") or x.get("pr") != x.get("ppr"):
            # re-parse differs: allowed only for ill-formed component texts
            pass
    if len(ja) != len(texts) or len(jb) != len(texts):
        ctx.corr_diff("path probe", {"why": "row count", "code": len(ja), "model": len(jb)})


def positions_of(save):
    """Every position (container path + index, or a path) the engine wrote into this save."""
    out = []
    for fname, fl in sorted((save.get("flows") or {}).items()):
        cs = fl.get("callstack") or {}
        for ti, th in enumerate(cs.get("threads") or []):
            for ei, el in enumerate(th.get("callstack") or []):
                out.append((fname, "thread", ti, ei, el.get("cPath"), el.get("idx")))
            out.append((fname, "prev", ti, th.get("previousContentObject")))
        for ci, c in enumerate(fl.get("currentChoices") or []):
            out.append((fname, "choice", ci, c.get("originalChoicePath"), c.get("targetPath")))
        for k, th in sorted((fl.get("choiceThreads") or {}).items()):
            for ei, el in enumerate(th.get("callstack") or []):
                out.append((fname, "choiceThread", k, ei, el.get("cPath"), el.get("idx")))
    return out


def position_case(job):
    """Positions written into a save denote the same positions when read back: save, load into another
    story, save again - the positions are the same, and the restored story stands where the original does."""
    from lib import play, stories
    story, wseed = job
    rng = random.Random(wseed)
    res = {"digest": None, "nontrivial": False, "violations": [], "skipped": None, "saves": 0}
    a = play.RtSession()
    snaps = []

    def snap(s, r):
        if r.random() < 0.5:
            sv = s.send(["savejson"])
            if sv.get("r") == "ok":
                snaps.append((len(s.ops), sv["v"]))

    def hop(s, r):
        x = r.random()
        if x < 0.25:
            # a flow that exists but has not been continued yet rests at the very start of the root container
            s.send(["switch", "unstarted%d" % r.randrange(2)])
            snap(s, random.Random(0))
            s.send(["default"])
        snap(s, r)

    r0 = a.send(["new", story["path"]])
    if r0.get("r") != "ok":
        a.close()
        res["skipped"] = "loaderr"
        return res
    sv = a.send(["savejson"])          # before the first continue
    if sv.get("r") == "ok":
        snaps.append((len(a.ops), sv["v"]))
    a.close()
    a = play.RtSession()
    end = play.walk(a, rng, story["path"], seed=3, max_turns=rng.choice([1, 2, 4]), setup=stories.setup_ops(story),
                    per_line=[snap], per_turn=[hop], observe=False)
    hist = list(a.ops)
    a.close()
    if end in ("fuel", "loaderr"):
        res["skipped"] = end
        return res
    res["digest"] = json.dumps([story["path"], hist], sort_keys=True)
    for at, save in snaps[:12]:
        b = play.RtSession()
        b.send(["new", story["path"]])
        lr = b.send(["loadtext", json.dumps(save)])
        again = b.send(["savejson"])
        probe = []
        for fname in sorted((save.get("flows") or {}).keys()):
            if fname != "DEFAULT_FLOW":
                b.send(["switch", fname])
            else:
                b.send(["default"])
            probe.append((fname, b.send(["can"]).get("v"), b.send(["curpath"]).get("v")))
        b.close()
        res["saves"] += 1
        p1 = positions_of(save)
        res["nontrivial"] = res["nontrivial"] or any(x[1] == "thread" and x[4] is not None for x in p1)
        if lr.get("r") != "ok" or again.get("r") != "ok":
            res["violations"].append(({"story": stories.describe(story), "history": hist[:at], "save": save, "load": lr,
                                       "why": "a save written by the engine is not read back"}, {"kind": "position-load"}))
            break
        p2 = positions_of(again["v"])
        if p1 != p2:
            k = next((i for i, (x, y) in enumerate(zip(p1, p2)) if x != y), min(len(p1), len(p2)))
            res["violations"].append(({"story": stories.describe(story), "history": hist[:at],
                                       "written": p1[k] if k < len(p1) else None,
                                       "written_again_after_load": p2[k] if k < len(p2) else None,
                                       "why": "a position written into a save does not denote the same position when read back"},
                                      {"kind": "position-roundtrip"}))
            break
    return res


def positions(ctx):
    from lib import stories
    quick = ctx.tier == "quick"
    pool = stories.corpus_pool(ctx)[:: (5 if quick else 1)]
    for prof, n in (("core", 10 if quick else 200), ("flows", 8 if quick else 150), ("functions", 6 if quick else 100)):
        pool += stories.generated_pool(ctx, prof, n)
    jobs = [(s, ctx.seed * 7331 + si * 3 + w) for si, s in enumerate(pool) for w in range(1 if quick else 3)]
    with ProcessPoolExecutor(max_workers=14) as ex:
        for res in ex.map(position_case, jobs, chunksize=2):
            if res["skipped"]:
                ctx.count("positions_skipped_" + res["skipped"])
                continue
            ctx.case("positions:" + hashlib.sha1(res["digest"].encode()).hexdigest(), res["nontrivial"])
            ctx.count("saves_read_back", res["saves"])
            for rp, sig in res["violations"][:1]:
                ctx.violation("oracle", rp, signature=sig)


def run(ctx):
    quick = ctx.tier == "quick"
    positions(ctx)
    jobs = []
    for f in common.corpus_json():
        jobs.append((f, "corpus-reference", True, None))
    # corpus sources through the repo compiler
    for ink in common.corpus_ink():
        out = ctx.path("c_" + os.path.basename(ink) + ".json")
        st, _ = common.compile_ink(ctx, ink, out)
        if st == "ok":
            jobs.append((out, "corpus-compiled", True, None))
        else:
            ctx.count("compile_" + st)
    # generated ink programs
    try:
        from gen import inkgen
        n = 60 if quick else 1500
        for i in range(n):
            src = inkgen.generate(ctx.seed * 100003 + i)
            p = ctx.path(f"g{i}.ink")
            open(p, "w").write(src)
            out = ctx.path(f"g{i}.json")
            st, _ = common.compile_ink(ctx, p, out)
            if st == "ok":
                jobs.append((out, "generated-ink", True, {"ink": src}))
            else:
                ctx.count("gen_compile_" + st)
    except ImportError:
        ctx.notes.append("inkgen not available")
    # random content trees: well-formed ones are judged, ill-formed ones only tie the model
    n = 150 if quick else 4000
    for i in range(n):
        wf = i % 3 != 0
        doc = treegen.gen_story(ctx.seed * 1000003 + i, wellformed=wf)
        p = ctx.path(f"t{i}.json")
        json.dump(doc, open(p, "w"), ensure_ascii=False)
        jobs.append((p, "random-tree-wf" if wf else "random-tree-illformed", wf, doc))
    with ProcessPoolExecutor(max_workers=14) as ex:
        for res in ex.map(story_job, jobs, chunksize=4):
            absorb(ctx, res)
    ctx.programs = len(jobs)
    path_probes(ctx, 400 if quick else 20000)


def replay(ctx, path):
    body = json.load(open(path))
    rp = body.get("replay", {})
    st = rp.get("story")
    if st is None and "path_text" in rp:
        stdin = json.dumps(rp["path_text"]) + "\n"
        _, a, _ = common.run_lines([common.rt_bin(), "pathprobe"], stdin=stdin)
        print("code :", a)
        _, b, _ = common.run_lines([common.INKMODEL, "pathprobe"], stdin=stdin)
        print("model:", b)
        return 0
    if isinstance(st, dict) and "file" in st:
        p = st["file"]
    elif isinstance(st, dict) and "ink" in st:
        src = ctx.path("replay.ink")
        open(src, "w").write(st["ink"])
        p = ctx.path("replay.json")
        print(common.compile_ink(ctx, src, p))
    else:
        p = ctx.path("replay.json")
        json.dump(st, open(p, "w"), ensure_ascii=False)
    _, ra, rb, _ = audit_pair(p)
    bad = oracle_rows(ra)
    print("rows", len(ra), "property failures on the real code:", len(bad))
    for r in bad[:5]:
        print(json.dumps(r))
    return 1 if bad else 0
