"""C09 — a rejected host call leaves the story exactly as it was."""
import json
import os
import random
from concurrent.futures import ProcessPoolExecutor

from lib import common, play, stories

LEVEL = "proof"
THEOREM_MODULES = ["Proofs.C09", "Proofs.C09Load", "Proofs.Guards"]
REQUIRED_THEOREMS = [
    "Ink.C09.continueInternal_rejected", "Ink.C09.continueAsync_rejected", "Ink.C09.cont_rejected",
    "Ink.C09.continueAsync_rejected_state", "Ink.C09.validate_cases", "Ink.C09.currentChoices_state",
    "Ink.C09.chooseChoiceIndex_out_of_range", "Ink.C09.setVariable_undeclared",
    "Ink.C09.observeVariable_undeclared", "Ink.C09.evaluateFunction_blank", "Ink.C09.evaluateFunction_unknown",
    "Ink.C09.evaluateFunction_bad_argument", "Ink.C09.choosePathString_unknown_path",
    "Ink.C09.choosePathString_bad_argument", "Ink.C09.removeFlow_default", "Ink.C09.bindExternal_twice",
    "Ink.C09.unbindExternal_missing", "Ink.C09.async_refuses",
    # witness of the known finding C09-partial-load (negation, concrete) and its early-field counterpart
    "Ink.C09.loadState_rejected_not_atomic", "Ink.C09.loadState_rejected_early_keeps_flow",
    # the async guards of the model = the guards of the Rust source (translators/guards.py, every run)
    "Ink.Guards.model_guards", "Ink.Guards.unguarded_reviewed"]
RULE = ("a case = one story x one valid host history (random walk with saves, observers, flows) x invalid calls of "
        "every kind injected at random positions; non-trivial when at least one injected call lands at a choice "
        "point or mid-story (not only at the end); distinct by hash of the injected script")
ASSUMPTIONS = ["the model (Ink/Api) is tied to the real API by transcript equality on the same scripts, including "
               "the normalised save after every step",
               "observer notifications of one call are compared as a set (hash order)"]
EXPLANATION = ("Frame theorems: for every rejected entry point the returned story equals the given one (literally, or up "
               "to the cosmetic choice index for choose_choice_index; up to the validated flag for a never-validated "
               "story). Tie: model vs code transcripts on injected histories. Oracle: lockstep of the same history with "
               "and without injected invalid calls on the real code.")

INVALID = [
    ["choose", 99],
    ["setvar", "__nope", {"i": 1}],
    ["observe", "__nope", "o9"],
    ["eval", "__nope", []],
    ["eval", "   ", []],
    ["path", "__nowhere__", True, []],
    ["path", "__nowhere__", False, []],
    ["remove", "DEFAULT_FLOW"],
    ["remove", "__noflow"],
    ["unobserve", "o9", None],
    ["unobserve", "o9", "__nope"],
    ["bind", "__ext", "e2", True, None],
    ["unbind", "__missing"],
    ["visit", "__nowhere__"],
    ["tagsat_guarded"],   # placeholder removed below
]
INVALID = [x for x in INVALID if x[0] != "tagsat_guarded"]
# load_state of a save with one damaged field: refused; a field the loader reads FIRST (flows) vs LAST (turnIdx);
# (a damaged inkSaveVersion is not refused at all: only a too-old NUMBER is)
LOADBAD_LATE = ["loadbad", "c09start", "turnIdx"]
LOADBAD = [["loadbad", "c09start", "flows"],
           ["loadtext", "{\"inkSaveVersion\": 3}"], ["loadtext", "not json"]]


def one_case(job):
    story, wseed, scratch = job
    rng = random.Random(wseed)
    sess = play.RtSession()

    def save_probe(s, r):
        s.send(["savejson"])

    exts = story["meta"].get("externals") or []
    setup = stories.setup_ops(story) + [["bind", "__ext", "e", True, None]]
    setup += [["bind", e["name"], e["name"], True, ({"arg": 0} if e.get("arity", 0) else {"i": 3})] for e in exts]
    invalid = list(INVALID)
    # a second, rejected bind of a function the story really calls (other handler, other safety flag)
    invalid += [["bind", e["name"], "intruder", False, {"i": 99}] for e in exts] * 3
    # the late-field variant (known finding C09-partial-load) gets histories of its own, so that whatever else is
    # injected is never blamed for, or hidden by, what a partial load did
    partial_load_case = wseed % 5 == 0
    invalid = [LOADBAD_LATE] if partial_load_case else invalid + LOADBAD
    g = story["meta"].get("globals") or []
    if g:
        setup.append(["observe", g[0], "o1"])
    # every other history is played inside a named flow (a fresh flow starts at the top of the story): refused or
    # empty flow operations (removing a flow that is not there, removing the default flow) must leave it current
    if wseed % 2 == 1:
        setup.append(["switch", "c09side"])
    # a save of the start, for rejected loads of a damaged copy of it (see LOADBAD)
    setup.append(["save", "c09start"])
    end = play.walk(sess, rng, story["path"], seed=5, max_turns=6, setup=setup,
                    per_line=[save_probe], per_turn=[save_probe])
    sess.close()
    base_ops, base_res = sess.ops, sess.results
    res = {"origin": story["origin"], "end": end, "corr": None, "violations": [], "digest": None,
           "nontrivial": False, "sample": None, "ops": len(base_ops)}
    if end in ("fuel", "loaderr"):
        res["skipped"] = end
        return res
    # positions where an injected call makes sense: after the setup prefix
    start = 3 + len(setup)
    positions = list(range(start, len(base_ops) + 1))
    if not positions:
        return res
    injected = []
    ops2 = list(base_ops)
    marks = [False] * len(base_ops)
    k = min(len(positions), 4 + len(base_ops) // 10)
    for pos in sorted(rng.sample(positions, k), reverse=True):
        bad = rng.choice(invalid)
        # `cont` is an invalid call exactly where the story cannot continue
        if (not partial_load_case and pos > 0 and base_ops[pos - 1] == ["can"] and base_res[pos - 1].get("v") is False
                and rng.random() < 0.5):
            bad = ["cont"]
        ops2.insert(pos, bad)
        marks.insert(pos, True)
        injected.append((pos, bad))
    res["nontrivial"] = any(pos < len(base_ops) - 2 for pos, _ in injected)
    res["digest"] = json.dumps([story["path"], ops2], sort_keys=True)
    rb = play.run_rt_script(ops2, scratch, tag=f"c09-{wseed}")
    rm = play.run_model(ops2, scratch, tag=f"c09m-{wseed}")
    # correspondence on the injected history
    d = play.first_diff(ops2, rb, rm)
    if d:
        i, a, b = d
        res["corr"] = {"story": stories.describe(story), "ops": ops2[: i + 1], "op": ops2[i], "code": a, "model": b}
    # oracle 1: injected calls neither panic nor succeed in changing anything
    for i, (op, r) in enumerate(zip(ops2, rb)):
        if marks[i] and r.get("r") in ("panic", "abort"):
            res["violations"].append(({"story": stories.describe(story), "ops": ops2[: i + 1],
                                       "why": "rejected call panicked", "result": r},
                                      {"kind": "panic", "op": op[0]}))
    # oracle 2: lockstep with the uninjected history
    kept = [r for r, m in zip(rb, marks) if not m]
    for i, (x, y) in enumerate(zip(base_res, kept)):
        cx = play.canon_result(base_ops[i], x, lockstep=True)
        cy = play.canon_result(base_ops[i], y, lockstep=True)
        if cx != cy:
            # which injected call came last before the divergence?
            culprit = None
            cnt = -1
            for j, m in enumerate(marks):
                if not m:
                    cnt += 1
                    if cnt == i:
                        break
                else:
                    culprit = ops2[j]
            res["violations"].append(({"story": stories.describe(story), "ops_with_injection": ops2,
                                       "diverges_at_valid_op": base_ops[i], "without": cx, "with": cy,
                                       "last_injected": culprit,
                                       "why": "a rejected call changed later behaviour"},
                                      {"kind": "lockstep", "op": (culprit or ["?"])[0],
                                       "field": (culprit[2] if culprit and culprit[0] == "loadbad" else "")}))
            break
    res["sample"] = {"story": os.path.basename(story["path"]), "injected": injected[:3], "ops": len(ops2)}
    return res


def run(ctx):
    quick = ctx.tier == "quick"
    pool = stories.corpus_pool(ctx)
    for prof, n in (("core", 25 if quick else 400), ("observers", 10 if quick else 200),
                    ("functions", 10 if quick else 200), ("flows", 6 if quick else 100),
                    ("externals", 15 if quick else 300)):
        pool += stories.generated_pool(ctx, prof, n)
    walks = 1 if quick else 3
    jobs = []
    for si, s in enumerate(pool):
        for w in range(walks):
            jobs.append((s, ctx.seed * 7919 + si * 31 + w, ctx.scratch))
    ctx.programs = len(pool)
    with ProcessPoolExecutor(max_workers=14) as ex:
        for res in ex.map(one_case, jobs, chunksize=2):
            if res.get("skipped"):
                ctx.count("skipped_" + res["skipped"])
                continue
            ctx.case(res["digest"], res["nontrivial"])
            ctx.count("ops", res["ops"])
            ctx.count("end_" + res["end"])
            ctx.count("stories_" + res["origin"])
            if res["corr"]:
                ctx.corr_diff("host API transcripts on injected histories (Ink/Api vs story/*.rs)", res["corr"])
            for rp, sig in res["violations"]:
                ctx.violation("oracle", rp, signature=sig)
            if res["sample"] and len(ctx.samples) < 5:
                ctx.sample(res["sample"])


def replay(ctx, path):
    body = json.load(open(path))
    rp = body["replay"]
    spath = stories.materialise(ctx, rp["story"])
    ops = rp.get("ops_with_injection") or rp.get("ops")
    ops = [op if op[0] != "new" else ["new", spath] for op in ops]
    rb = play.run_rt_script(ops, ctx.scratch, tag="replay")
    for op, r in zip(ops, rb):
        print(json.dumps(op), "->", json.dumps(r)[:300])
    return 0
