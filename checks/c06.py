"""C06 — the compiler is total and deterministic, and its output is well formed."""
import hashlib
import json
import os
import random
import re
import subprocess
from concurrent.futures import ProcessPoolExecutor

from checks import c04
from lib import common, play, stories

LEVEL = "proof"
THEOREM_MODULES = ["Proofs.C06"]
REQUIRED_THEOREMS = ["Ink.C06.refOk_spec", "Ink.C06.refsOkTree_sound", "Ink.C06.storyOk_sound",
                     "Ink.C06.all_references_resolve", "Ink.C06.wfNodeB_sound", "Ink.C06.wfTreeB_sound"]
RULE = ("a case = one text given to the compiler: corpus sources, generated programs, and byte / character / token "
        "level mutations and splices of both, plus random token soup over Ink's punctuation and keywords; compiled "
        "twice in separate processes with a time limit; every output is loaded by the runtime, audited (every "
        "reference row) and checked by the model's reference checker; non-trivial when the text is not an "
        "unmodified corpus file; distinct by text")
ASSUMPTIONS = ["inputs are valid Unicode text (byte mutations are decoded with replacement)",
               "a compile that takes more than 20 s counts as a hang",
               "INCLUDE is resolved by the library's default handler (an error)"]
EXPLANATION = ("Theorems: the executable reference checker is sound — if storyOk passes, every divert, choice target, "
               "read-count reference and divert-target value reachable from the root resolves, without approximation, "
               "to existing content; wfTreeB is sound for the tree well-formedness C19 needs. Tie: the checker's verdict "
               "on each compiled document equals what the real runtime's audit hook reports for the same document. "
               "Oracle on the real compiler: terminates without panic within the time limit, names only existing "
               "lines, same bytes in two processes, output loads, every reference resolves exactly.")

SOUP = ["->-> k(", "-> k)( ->", "-> k(", "<- k(1", "f(", "))", "((", "-> nowhere", "{TURNS_SINCE(-> nowhere)}", "~ temp t = -> nowhere",
        "\"日本語\" + x", "{\"é\"}", "->", "<-", "->->", "==", "===", "=", "*", "+", "-", "~", "{", "}", "[", "]", "(", ")", "|", "&", "!", ":", "#",
        "<>", "//", "/*", "*/", "\\", "\"", ",", ".", "VAR", "CONST", "LIST", "EXTERNAL", "INCLUDE", "function", "temp",
        "return", "not", "and", "or", "mod", "has", "hasnt", "else", "DONE", "END", "true", "false", "x", "y", "knot", "f",
        "1", "0", "2.5", "\n", "\n", "\n", "  ", "\t", "stopping", "cycle", "shuffle", "once", "TURNS_SINCE", "CHOICE_COUNT",
        "RANDOM", "LIST_ALL", "ref", "日本", "é", "\u200b"]


def mutate_text(src, rng, others):
    k = rng.randrange(10)
    if k == 9 and src:                                   # localise: non-ASCII text where ASCII words stood
        import re
        words = [m for m in re.finditer(r"[A-Za-z]{3,}", src)]
        out, last = [], 0
        for m in words:
            if rng.random() < 0.15:
                out.append(src[last:m.start()])
                out.append(rng.choice(["é", "ñandú", "日本語", "ありがとう", "😀", "Ωμέγα", "naïve", "ß", "\u2028x", "𠮷野"]))
                last = m.end()
        out.append(src[last:])
        return "".join(out)
    if k == 0 and src and rng.random() < 0.5:            # a slip in a dotted name or divert target: doubled / trailing / leading dot
        import re
        names = [m for m in re.finditer(r"[A-Za-z_][A-Za-z_0-9]*(\.[A-Za-z_][A-Za-z_0-9]*)*", src)]
        if names:
            m = rng.choice(names)
            w = m.group(0)
            w2 = rng.choice([w.replace(".", "..", 1) if "." in w else w + ".", w + ".", "." + w, w + ".."])
            return src[:m.start()] + w2 + src[m.end():]
    if k == 0 and src:                                   # delete a span
        i = rng.randrange(len(src)); j = min(len(src), i + rng.choice([1, 1, 2, 5, 20]))
        return src[:i] + src[j:]
    if k == 1:                                           # insert a token
        i = rng.randrange(len(src) + 1)
        return src[:i] + rng.choice(SOUP) + src[i:]
    if k == 2 and src:                                   # replace a character
        i = rng.randrange(len(src))
        return src[:i] + rng.choice("{}[]()|*+-~=<>#\"\\:.,!&\n\t ") + src[i + 1:]
    if k == 3 and src:                                   # duplicate a span
        i = rng.randrange(len(src)); j = min(len(src), i + rng.choice([1, 5, 30]))
        return src[:j] + src[i:j] + src[j:]
    if k == 4 and others:                                # splice lines of another source
        a, b = src.split("\n"), rng.choice(others).split("\n")
        i, j = rng.randrange(len(a) + 1), rng.randrange(len(b) + 1)
        return "\n".join(a[:i] + b[j:j + rng.choice([1, 3, 10])] + a[i:])
    if k == 5 and src:                                   # truncate
        return src[:rng.randrange(len(src))]
    if k == 6:                                           # byte level
        b = bytearray(src.encode("utf-8"))
        if b:
            for _ in range(rng.choice([1, 2, 4])):
                b[rng.randrange(len(b))] = rng.randrange(256)
        return b.decode("utf-8", errors="replace")
    if k == 7:                                           # swap two lines
        a = src.split("\n")
        if len(a) > 2:
            i, j = rng.randrange(len(a)), rng.randrange(len(a))
            a[i], a[j] = a[j], a[i]
        return "\n".join(a)
    return c04.mutate_ink(src, rng)


def soup(rng):
    return " ".join(rng.choice(SOUP) for _ in range(rng.choice([3, 10, 40, 120]))).replace(" \n ", "\n")


def compile_once(path, release=False):
    r = None
    for limit in (20, 240):     # (a second, much longer try: a loaded machine must not look like a hang)
        try:
            r = subprocess.run([common.rt_bin((), release), "compile", path], capture_output=True, timeout=limit)
            break
        except subprocess.TimeoutExpired:
            r = None
    if r is None:
        return "timeout", b""
    if r.returncode != 0 and not r.stdout:
        return "abort", (r.stderr or b"")[-300:]
    return "done", r.stdout


def one_text(job):
    text, origin, idx, scratch = job
    res = {"origin": origin, "digest": hashlib.sha1(text.encode("utf-8", "replace")).hexdigest(), "violations": [],
           "corr": None, "outcome": "?", "refs": 0}
    p = os.path.join(scratch, f"c06_{os.getpid()}_{idx}.ink")
    open(p, "w", encoding="utf-8").write(text)
    st, out = compile_once(p)
    shown = text if len(text) < 3000 else text[:3000] + "…"
    if st in ("timeout", "abort"):
        res["outcome"] = st
        res["violations"].append(({"source": shown, "why": "the compiler did not terminate normally (%s)" % st,
                                   "detail": out.decode("utf-8", "replace") if isinstance(out, bytes) else ""},
                                  {"kind": st}))
        os.remove(p)
        return res
    txt = out.decode("utf-8", "replace")
    try:
        j = json.loads(txt)
    except Exception:
        j = None
    if isinstance(j, dict) and "panic" in j and "root" not in j:
        res["outcome"] = "panic"
        res["violations"].append(({"source": shown, "panic_at": j["panic"], "why": "the compiler panicked"},
                                  {"kind": "panic", "loc": str(j["panic"])}))
        os.remove(p)
        return res
    if isinstance(j, dict) and "err" in j and "root" not in j:
        res["outcome"] = "error"
        m = re.match(r"(?:[^:]*:)?(?:line )?(\d+): ", j["err"]) or re.match(r"line (\d+): ", j["err"])
        if m:
            n = int(m.group(1))
            nlines = text.count("\n") + 1
            if n < 1 or n > nlines:
                res["violations"].append(({"source": shown, "error": j["err"], "lines_in_input": nlines,
                                           "why": "the error names a line that does not exist"}, {"kind": "line"}))
        os.remove(p)
        return res
    if j is None or "root" not in j:
        res["outcome"] = "garbage"
        res["violations"].append(({"source": shown, "output": txt[:300], "why": "neither a story nor an error"},
                                  {"kind": "garbage"}))
        os.remove(p)
        return res
    res["outcome"] = "compiled"
    # deterministic: a second process gives the same bytes
    st2, out2 = compile_once(p)
    if out2 != out:
        res["violations"].append(({"source": shown, "why": "two compilations of the same text differ"}, {"kind": "nondeterministic"}))
    dst = p + ".json"
    open(dst, "w", encoding="utf-8").write(txt)
    # loads in the runtime + every reference resolves exactly (real audit hook)
    try:
        r = subprocess.run([common.rt_bin(), "audit", dst], capture_output=True, text=True, timeout=60)
        rows = common.parse_json_lines(r.stdout.split("\n"))
    except subprocess.TimeoutExpired:
        rows = [{"t": "timeout"}]
    bad_real = []
    if not rows or rows[0].get("t") in ("loaderr", "panic", "timeout"):
        res["violations"].append(({"source": shown, "load": rows[:1], "why": "the compiled story does not load in the runtime"},
                                  {"kind": "load", "what": (rows[0].get("t") if rows else "none")}))
    else:
        for row in rows:
            if row.get("t") == "ref":
                res["refs"] += 1
                if row.get("apx"):
                    bad_real.append([row.get("a"), row.get("k"), row.get("rs")])
        if bad_real:
            res["violations"].append(({"source": shown, "unresolved": bad_real[:5],
                                       "why": "a reference in the compiled story does not resolve exactly "
                                              "(an unknown name was not rejected at compile time)"},
                                      {"kind": "unresolved", "ref": str(bad_real[0][1])}))
        # tie: the model's checker on the same document
        try:
            r = subprocess.run([common.INKMODEL, "refcheck", dst], capture_output=True, text=True, timeout=60)
            mr = common.parse_json_lines(r.stdout.split("\n"))
        except subprocess.TimeoutExpired:
            mr = []
        if not mr or mr[0].get("t") != "refcheck":
            res["corr"] = {"source": shown, "model": mr[:1], "code": "loads", "why": "the model does not load a document the runtime loads"}
        else:
            bad_model = sorted(json.dumps([b[0], b[1]]) for b in mr[0].get("bad", []))
            br = sorted(json.dumps([b[0], b[1]]) for b in bad_real)
            if bad_model != br or mr[0].get("ok") != (not bad_real):
                res["corr"] = {"source": shown, "model_bad": bad_model[:5], "code_bad": br[:5], "model_ok": mr[0].get("ok"),
                               "why": "reference checker and audit hook disagree"}
    for f in (p, dst):
        try:
            os.remove(f)
        except OSError:
            pass
    return res


def run(ctx):
    quick = ctx.tier == "quick"
    rng = random.Random(ctx.seed * 65537 + 9)
    from gen import inkgen
    base = []
    for f in common.corpus_ink():
        try:
            base.append(("corpus", open(f, encoding="utf-8-sig").read()))
        except Exception:
            pass
    import glob
    for f in sorted(glob.glob(os.path.join(common.ROOT, "corpus", "c06", "*.ink"))):
        base.append(("probe", open(f, encoding="utf-8").read()))
    for prof in ("core", "lists", "functions", "flows", "hostile_text", "errors", "externals"):
        for i in range(6 if quick else 60):
            try:
                base.append(("generated-" + prof, inkgen.generate(ctx.seed * 31337 + i, prof, 3)))
            except Exception:
                ctx.count("generator_exceptions")
    small = [t for o, t in base if len(t) < 20000]
    texts = list(base)
    n_mut = 2500 if quick else 60000
    for i in range(n_mut):
        o, t = rng.choice(base)
        if len(t) > 20000 and rng.random() < 0.9:
            continue
        m = t
        for _ in range(rng.choice([1, 1, 1, 2, 3, 6])):
            m = mutate_text(m, rng, small)
        texts.append(("mutant-" + o.split("-")[0], m))
    for i in range(300 if quick else 6000):
        texts.append(("soup", soup(rng)))
    seen = set()
    jobs = []
    for i, (o, t) in enumerate(texts):
        h = hashlib.sha1(t.encode("utf-8", "replace")).hexdigest()
        if h in seen:
            continue
        seen.add(h)
        jobs.append((t, o, i, ctx.scratch))
    ctx.programs = len(jobs)
    with ProcessPoolExecutor(max_workers=14) as ex:
        for res in ex.map(one_text, jobs, chunksize=8):
            ctx.case(res["digest"], res["origin"] != "corpus")
            ctx.count("outcome_" + res["outcome"])
            ctx.count("origin_" + res["origin"])
            ctx.count("references_checked", res["refs"])
            if res["corr"]:
                ctx.corr_diff("reference check (Ink/RefCheck vs the runtime's audit hook)", res["corr"])
            for rp, sig in res["violations"][:2]:
                ctx.violation("oracle", rp, signature=sig)
    ctx.sample({"texts": len(jobs)})


def replay(ctx, path):
    body = json.load(open(path))
    rp = body["replay"]
    res = one_text((rp["source"], "replay", 0, ctx.scratch))
    print(json.dumps(res, indent=1)[:3000])
    return 0
