"""C15 — malformed story or save input is rejected with an error, not a crash."""
import copy
import hashlib
import json
import os
import random
import subprocess
from concurrent.futures import ProcessPoolExecutor

from lib import common, play, stories

LEVEL = "proof"
HARNESS_FEATURES = [[], ["stream"]]
THEOREM_MODULES = ["Proofs.C15", "Proofs.Tables"]
REQUIRED_THEOREMS = ["Ink.C15.parse_total", "Ink.C15.loadStory_no_panic", "Ink.C15.loadStory_err_kind",
                     "Ink.C15.loadState_no_panic", "Ink.C15.save_helpers_no_panic", "Ink.C15.loadState_touches_only_state",
                     "Ink.C15.failed_load_then_reset_is_fresh", "Ink.C15.failed_load_then_reset_eq_blank"]
from lib.tables_thms import TABLE_THEOREMS  # noqa: E402
REQUIRED_THEOREMS = REQUIRED_THEOREMS + TABLE_THEOREMS
RULE = ("a case = one mutated document: structural mutations of the JSON value (delete / retype / duplicate / swap a "
        "node, numeric extremes, key renames), truncation (at every byte for small documents), nesting bombs, token "
        "damage and random bytes, applied to valid story documents (given to Story::new under both loaders) and to "
        "saves taken at explored points, incl. multi-flow saves and saves taken inside running threads with every "
        "thread's record damaged in turn (given to load_state; after a refusal: reset and a lockstep with a fresh "
        "story; after an acceptance: the story is played on and must not crash); "
        "non-trivial when the input is not valid JSON for a story / save any more; distinct by input text")
ASSUMPTIONS = ["inputs are valid Unicode text",
               "Story::new and load_state get 20 s; a story whose global declarations do not terminate is recognised by "
               "the verif-hooks step budget for Story::new (VERIF_NEW_FUEL) and is a known finding, every other timeout "
               "is a violation",
               "playing a structurally valid but semantically arbitrary document after a successful load is outside C15"]
EXPLANATION = ("Theorems on the loader model: the JSON parser is total, the story loader and the save loader never reach a "
               "panic outcome on any JSON value (every malformed shape is BadJson), and a failed load followed by reset "
               "gives the fresh story. Tie: the model's verdict (ok / BadJson) on every mutated document equals the default "
               "loader's. Oracle: neither build panics, aborts, overflows the stack or exceeds the time limit on any "
               "input; after a failed load_state, reset makes the story play like a fresh one.")

NUMS = [0, -1, 1, 2147483647, -2147483648, 2147483648, 4294967296, 9223372036854775807, 1e308, -1e308, 1.5, 1e-320]
RETYPE = [None, True, False, 0, -1, 1.5, "", "x", "^", "\n", [], {}, [[]], [None], {"#f": 1}, {"->": 5}, "->", "ev", "nop"]


def nodes(j, path=()):
    yield path, j
    if isinstance(j, list):
        for i, x in enumerate(j):
            yield from nodes(x, path + (i,))
    elif isinstance(j, dict):
        for k, x in j.items():
            yield from nodes(x, path + (k,))


def get_parent(j, path):
    for p in path[:-1]:
        j = j[p]
    return j


def mutate_value(doc, rng):
    d = copy.deepcopy(doc)
    ns = [p for p, _ in nodes(d) if p]
    if not ns:
        return d
    path = rng.choice(ns)
    parent = get_parent(d, path)
    key = path[-1]
    k = rng.randrange(8)
    try:
        if k == 0:
            del parent[key]
        elif k == 1:
            parent[key] = copy.deepcopy(rng.choice(RETYPE))
        elif k == 2 and isinstance(parent, list):
            parent.insert(key, copy.deepcopy(parent[key]))
        elif k == 3:
            other = rng.choice(ns)
            op = get_parent(d, other)
            parent[key], op[other[-1]] = op[other[-1]], parent[key]
        elif k == 4:
            parent[key] = rng.choice(NUMS)
        elif k == 5 and isinstance(parent, dict):
            parent[rng.choice(["->", "*", "VAR=", "temp=", "#f", "#n", "list", "flg", "c", "var", "x()", "exArgs", "CNT?", "VAR?",
                               "^->", "^var", "ci", "origins", "callstack", "threads", "cPath", "idx", "exp", "type", "temp",
                               "variablesState", "evalStack", "visitCounts", "turnIndices", "turnIdx", "storySeed",
                               "previousRandom", "inkSaveVersion", "flows", "currentFlowName", "outputStream",
                               "currentChoices", "choiceThreads", "threadCounter", "previousContentObject", str(key)])] = parent.pop(key)
        elif k == 6 and isinstance(parent[key], str):
            parent[key] = rng.choice(["", "^", "\n", "->", "ev", "/ev", "str", "xx", "L^", "_", "du", "pop", "nop", "<>", "G>", "void"]) \
                if rng.random() < 0.7 else parent[key] + parent[key]
        else:
            parent[key] = [copy.deepcopy(parent[key])]
    except Exception:
        pass
    return d


def mutate_text(text, rng):
    k = rng.randrange(8)
    if k == 0:
        return text[:rng.randrange(len(text) + 1)]
    if k == 1:
        i = rng.randrange(len(text) + 1)
        return text[:i] + rng.choice(["[" * 100000, "{\"a\":" * 50000, "[" * 200 + "]" * 200, "[" * 127, "[" * 128]) + text[i:]
    if k == 2:
        i = rng.randrange(len(text)); j = min(len(text), i + rng.choice([1, 3, 20]))
        return text[:i] + text[j:]
    if k == 3:
        i = rng.randrange(len(text))
        return text[:i] + rng.choice(['"', "\\", "{", "[", ",", ":", "}", "]", "\x00", "\u2028", "e", "-", "0"]) + text[i + 1:]
    if k == 4:
        b = bytearray(text.encode("utf-8"))
        for _ in range(rng.choice([1, 3, 10])):
            b[rng.randrange(len(b))] = rng.randrange(256)
        return b.decode("utf-8", errors="replace")
    if k == 5:
        i = rng.randrange(len(text)); j = min(len(text), i + rng.choice([1, 10, 100]))
        return text[:j] + text[i:j] + text[j:]
    if k == 6:
        return rng.choice(["", " ", "null", "[]", "{}", "5", "\"x\"", "{\"inkVersion\":21}", "{\"inkVersion\":21,\"root\":[],\"listDefs\":{}}",
                           "{\"inkVersion\":21,\"root\":[[],\"done\",null],\"listDefs\":5}", "{\"inkVersion\":1e999,\"root\":[[\"done\",null],\"done\",null],\"listDefs\":{}}",
                           "{\"inkVersion\":99999999999999999999,\"root\":[[\"done\",null],\"done\",null],\"listDefs\":{}}", "tru", "nul", "-", "\"unterminated",
                           "{\"inkVersion\":21,\"root\":[[\"^a\",\"\\n\",[\"done\",{\"#n\":\"g-0\"}],null],\"done\",null],\"listDefs\":{}} trailing"])
    return text.replace(",", rng.choice(["", ",,", ";"]), 1) if "," in text else text


def classify(r):
    if not isinstance(r, dict):
        return "missing"
    return r.get("r") or "missing"


def run_new(path, features):
    ops = [["new", path], ["can"]]
    sp = os.path.join(os.path.dirname(path), f"s-{os.getpid()}-{'s' if features else 'd'}.jsonl")
    with open(sp, "w") as f:
        for op in ops:
            f.write(json.dumps(op) + "\n")
    env = dict(os.environ)
    env["VERIF_NEW_FUEL"] = "2000000"
    out, rc = [{"r": "timeout"}], -9
    for limit in (20, 240):     # (a second, much longer try: a loaded machine must not look like a hang)
        try:
            r = subprocess.run([common.rt_bin(features), "play", sp], capture_output=True, text=True, timeout=limit, env=env)
            out = common.parse_json_lines(r.stdout.split("\n"))
            rc = r.returncode
            break
        except subprocess.TimeoutExpired:
            out, rc = [{"r": "timeout"}], -9
    os.remove(sp)
    if not out:
        return {"r": "abort", "rc": rc}
    return out[0]


def one_story_doc(job):
    text, origin, idx, scratch = job
    res = {"origin": origin, "digest": hashlib.sha1(text.encode("utf-8", "replace")).hexdigest(), "violations": [],
           "corr": None, "classes": {}, "kind": "story"}
    p = os.path.join(scratch, f"c15_{os.getpid()}_{idx}.json")
    open(p, "w", encoding="utf-8").write(text)
    shown = text if len(text) < 2000 else text[:1000] + " … " + text[-500:]
    for feats, name in (([], "default"), (["stream"], "stream")):
        r = run_new(p, feats)
        c = classify(r)
        res["classes"][name] = c
        if c == "err" and "VERIF_FUEL" in json.dumps(r):
            res["classes"][name] = "globals-loop"
            res["violations"].append(({"document": shown, "loader": name,
                                       "why": "Story::new does not return: the document's global declarations never terminate"},
                                      {"kind": "hang-new", "cause": "global decl does not terminate"}))
        elif c not in ("ok", "err"):
            res["violations"].append(({"document": shown, "loader": name, "result": r,
                                       "why": "Story::new did not return Ok or Err (%s)" % c},
                                      {"kind": "new-" + c, "loader": name, "loc": str(r.get("loc"))}))
    # tie: the model's loader against the default loader
    try:
        r = subprocess.run([common.INKMODEL, "refcheck", p], capture_output=True, text=True, timeout=60)
        m = common.parse_json_lines(r.stdout.split("\n"))
    except subprocess.TimeoutExpired:
        m = []
    mc = "ok" if m and m[0].get("t") == "refcheck" else ("err" if m and m[0].get("t") == "loaderr" else "panic")
    res["classes"]["model"] = mc
    dc = res["classes"]["default"]
    # Story::new also runs the global declarations; the model's loader stops after loading: compare load verdicts only
    if mc == "err" and dc == "ok":
        res["corr"] = {"document": shown, "model": m[:1], "code": dc, "why": "the model rejects a document the default loader accepts"}
    if mc == "panic":
        res["corr"] = {"document": shown, "model": m[:1], "code": dc, "why": "the model's loader hits a panic site"}
    os.remove(p)
    return res


def one_save(job):
    story_path, history_seed, save_text, mutated, idx, scratch = job
    res = {"origin": "save", "digest": hashlib.sha1(mutated.encode("utf-8", "replace")).hexdigest(), "violations": [],
           "corr": None, "classes": {}, "kind": "save"}
    rng = random.Random(history_seed)
    shown = mutated if len(mutated) < 2000 else mutated[:1000] + " … " + mutated[-500:]
    for feats, name in (([], "default"), (["stream"], "stream")):
        s = play.RtSession(features=feats)
        end = play.walk(s, random.Random(history_seed), story_path, seed=5, max_turns=2, observe=False)
        if history_seed % 3 == 0:
            s.send(["switch", "elsewhere"])      # the receiving story has a second flow of its own
        r = s.send(["loadtext", mutated])
        c = classify(r)
        res["classes"][name] = c
        if c not in ("ok", "err"):
            res["violations"].append(({"story": story_path, "save": shown, "loader": name, "result": r,
                                       "why": "load_state did not return Ok or Err (%s)" % c},
                                      {"kind": "load-" + c, "loader": name, "loc": str(r.get("loc"))}))
            s.close()
            continue
        if c == "err":
            # the story object must still be usable: reset, then play like a fresh one
            s.send(["reset"]); s.send(["seed", 9, 0]); s.send(["fuel", 20000])
            start = len(s.ops)
            crng = random.Random(history_seed + 1)
            for turn in range(3):
                g = 0
                while s.send(["can"]).get("v") and g < 100:
                    g += 1
                    if s.send(["cont"]).get("r") != "ok":
                        break
                cs = s.send(["choices"]).get("v") or []
                if not cs:
                    break
                s.send(["choose", crng.randrange(len(cs))])
            s.close()
            post = s.ops[start:]
            fresh = [["new", story_path], ["seed", 9, 0], ["fuel", 20000]] + post
            fr = play.run_rt_script(fresh, scratch, features=feats, tag=f"c15f-{idx}")
            frp = fr[3:]
            for i, (x, y) in enumerate(zip(s.results[start:], frp)):
                cx = play.canon_result(post[i], x, lockstep=True)
                cy = play.canon_result(post[i], y, lockstep=True)
                if cx != cy:
                    res["violations"].append(({"story": story_path, "save": shown, "loader": name, "continuation": post[: i + 1],
                                               "after_failed_load_and_reset": cx, "fresh": cy,
                                               "why": "after a failed load, the reset story differs from a fresh one"},
                                              {"kind": "reset-after-failed-load", "loader": name}))
                    break
            # tie: the same session on the model (default loader only)
            if name == "default":
                rm = play.run_model(s.ops, scratch, tag=f"c15m-{idx}")
                d = play.first_diff(s.ops, s.results, rm, messages=False)
                if d:
                    i, ca, cb = d
                    res["corr"] = {"story": story_path, "save": shown, "op": s.ops[i][0], "code": ca, "model": cb}
        else:
            # an accepted save must leave a story that can be played on without a crash
            s.send(["fuel", 20000])
            crng = random.Random(history_seed + 2)
            start = len(s.ops)
            for turn in range(3):
                g = 0
                while s.send(["can"]).get("v") and g < 100:
                    g += 1
                    if s.send(["cont"]).get("r") != "ok":
                        break
                cs = s.send(["choices"]).get("v") or []
                if not cs:
                    break
                s.send(["choose", crng.randrange(len(cs))])
            s.close()
            for op, r2 in zip(s.ops[start:], s.results[start:]):
                if r2.get("r") in ("panic", "abort", "overflow", "timeout"):
                    res["violations"].append(({"story": story_path, "save": shown, "loader": name,
                                               "continuation": s.ops[start: start + s.ops[start:].index(op) + 1], "result": r2,
                                               "why": "the save was accepted, and playing on crashed"},
                                              {"kind": "crash-after-load", "loader": name, "loc": str(r2.get("loc"))}))
                    break
            if name == "default":
                rm = play.run_model(s.ops, scratch, tag=f"c15m-{idx}")
                d = play.first_diff(s.ops, s.results, rm, messages=False)
                if d:
                    i, ca, cb = d
                    res["corr"] = {"story": story_path, "save": shown, "op": s.ops[i][0], "code": ca, "model": cb}
    return res


def run(ctx):
    quick = ctx.tier == "quick"
    rng = random.Random(ctx.seed * 2749 + 11)
    docs = []
    for f in common.corpus_json():
        try:
            t = open(f, encoding="utf-8-sig").read().strip()
            if len(t) < 30000:
                docs.append(t)
        except Exception:
            pass
    import glob
    for f in sorted(glob.glob(os.path.join(common.ROOT, "corpus", "c15", "engine-findings", "*.json"))):
        docs.append(open(f, encoding="utf-8").read())
    jobs = []
    seen = set()

    def add(text, origin):
        h = hashlib.sha1(text.encode("utf-8", "replace")).hexdigest()
        if h in seen:
            return
        seen.add(h)
        jobs.append((text, origin, len(jobs), ctx.scratch))

    for t in docs[:: (4 if quick else 1)]:
        add(t, "original")
    n = 2500 if quick else 60000
    parsed = {}
    for i in range(n):
        t = rng.choice(docs)
        if rng.random() < 0.55:
            if t not in parsed:
                try:
                    parsed[t] = json.loads(t)
                except Exception:
                    parsed[t] = None
            if parsed[t] is not None:
                d = parsed[t]
                for _ in range(rng.choice([1, 1, 2, 4])):
                    d = mutate_value(d, rng)
                try:
                    add(json.dumps(d, ensure_ascii=False, separators=(",", ":")), "structural")
                except Exception:
                    pass
                continue
        m = t
        for _ in range(rng.choice([1, 1, 2])):
            m = mutate_text(m, rng) or m
        add(m, "textual")
    # truncation at every byte of two small documents
    for t in sorted(docs, key=len)[:2]:
        for i in range(len(t)):
            add(t[:i], "truncation")
    ctx.programs = len(docs)
    # saves
    save_jobs = []
    pool = [s for s in stories.corpus_pool(ctx, reference=False) if os.path.getsize(s["path"]) < 30000][:: (6 if quick else 1)]
    pool += stories.generated_pool(ctx, "flows", 3 if quick else 40) + stories.generated_pool(ctx, "lists", 3 if quick else 40)
    for si, s in enumerate(pool):
        hs = ctx.seed * 17 + si
        sess = play.RtSession()
        play.walk(sess, random.Random(hs), s["path"], seed=5, max_turns=2, observe=False)
        if si % 2 == 0:
            # a multi-flow save: two more flows, each standing somewhere
            knots = s["meta"].get("knots") or []
            for fl in ("side", "other"):
                sess.send(["switch", fl])
                if knots:
                    sess.send(["path", knots[(si + len(fl)) % len(knots)], False, []])
                    sess.send(["cont"])
        sv = sess.send(["savejson"])
        sess.close()
        if sv.get("r") != "ok":
            continue
        stext = json.dumps(sv["v"], ensure_ascii=False, separators=(",", ":"))
        sdoc = sv["v"]
        targeted = []
        for name in ("nope", "", "DEFAULT_FLOW ", 5, None, ["side"], {"a": 1}):
            d = copy.deepcopy(sdoc)
            d["currentFlowName"] = name
            targeted.append(json.dumps(d, ensure_ascii=False, separators=(",", ":")))
        for key in ("flows", "currentFlowName", "variablesState", "evalStack", "visitCounts", "turnIndices", "turnIdx",
                    "storySeed", "previousRandom", "inkSaveVersion", "inkFormatVersion"):
            d = copy.deepcopy(sdoc)
            d.pop(key, None)
            targeted.append(json.dumps(d, ensure_ascii=False, separators=(",", ":")))
        if isinstance(sdoc.get("flows"), dict) and len(sdoc["flows"]) > 1:
            for fname in list(sdoc["flows"]):
                d = copy.deepcopy(sdoc)
                del d["flows"][fname]
                targeted.append(json.dumps(d, ensure_ascii=False, separators=(",", ":")))
        for m in targeted:
            save_jobs.append((s["path"], hs, stext, m, len(save_jobs), ctx.scratch))
        for k in range(25 if quick else 300):
            if rng.random() < 0.6:
                d = sdoc
                for _ in range(rng.choice([1, 1, 2, 3])):
                    d = mutate_value(d, rng)
                m = json.dumps(d, ensure_ascii=False, separators=(",", ":"))
            else:
                m = mutate_text(stext, rng) or stext
            if len(m) > 400000:
                m = m[:400000]
            save_jobs.append((s["path"], hs, stext, m, len(save_jobs), ctx.scratch))
    # saves taken in the middle of running threads (several threads on the call stack), with every thread's
    # record damaged in turn
    for si, s in enumerate(stories.probe_pool(ctx, "c15/saves")):
        sess = play.RtSession()
        sess.send(["new", s["path"]]); sess.send(["seed", 5, 0])
        saves = []
        for _ in range(8):
            if not sess.send(["can"]).get("v"):
                cs = sess.send(["choices"]).get("v") or []
                if not cs:
                    break
                sess.send(["choose", 0])
                continue
            sess.send(["cont"])
            sv = sess.send(["savejson"])
            if sv.get("r") == "ok":
                saves.append(sv["v"])
        sess.close()
        for sdoc in saves:
            stext = json.dumps(sdoc, ensure_ascii=False, separators=(",", ":"))
            for fname, fl in (sdoc.get("flows") or {}).items():
                threads = ((fl.get("callstack") or {}).get("threads")) or []
                ctx.count("thread_saves_with_%d_threads" % min(len(threads), 3))
                for ti in range(len(threads)):
                    for what in ("empty", "missing", "number", "emptyobj", "drop"):
                        d = copy.deepcopy(sdoc)
                        th = d["flows"][fname]["callstack"]["threads"]
                        if what == "empty":
                            th[ti]["callstack"] = []
                        elif what == "missing":
                            th[ti].pop("callstack", None)
                        elif what == "number":
                            th[ti]["callstack"] = 7
                        elif what == "emptyobj":
                            th[ti]["callstack"] = [{}]
                        else:
                            del th[ti]
                        save_jobs.append((s["path"], ctx.seed * 19 + si, stext,
                                          json.dumps(d, ensure_ascii=False, separators=(",", ":")), len(save_jobs), ctx.scratch))
    with ProcessPoolExecutor(max_workers=14) as ex:
        for res in ex.map(one_story_doc, jobs, chunksize=4):
            cl = res["classes"]
            ctx.case(res["digest"], res["origin"] != "original")
            ctx.count("story_%s_default_%s" % (res["origin"], cl.get("default")))
            ctx.count("story_stream_%s" % cl.get("stream"))
            if res["corr"]:
                ctx.corr_diff("story loader verdict (Ink/Json + Ink/Load vs json_read.rs)", res["corr"])
            for rp, sig in res["violations"][:2]:
                ctx.violation("oracle", rp, signature=sig)
        for res in ex.map(one_save, save_jobs, chunksize=2):
            cl = res["classes"]
            ctx.case("save:" + res["digest"], True)
            ctx.count("save_default_%s" % cl.get("default"))
            ctx.count("save_stream_%s" % cl.get("stream"))
            if res["corr"]:
                ctx.corr_diff("save loader (Ink/Save loadState vs story_state.rs load_json)", res["corr"])
            for rp, sig in res["violations"][:2]:
                ctx.violation("oracle", rp, signature=sig)
    ctx.sample({"story_documents": len(jobs), "saves": len(save_jobs)})


def replay(ctx, path):
    body = json.load(open(path))
    rp = body["replay"]
    if "document" in rp:
        res = one_story_doc((rp["document"], "replay", 0, ctx.scratch))
        print(json.dumps(res, indent=1)[:3000])
    else:
        print(json.dumps(rp, indent=1)[:3000])
    return 0
