"""C03 — play is a deterministic function of program, seed and host calls."""
import hashlib
import json
import os
import random
import subprocess
from concurrent.futures import ProcessPoolExecutor

from lib import common, hashsites, play, stories

LEVEL = "proof"
ALWAYS_RELEASE = True
THEOREM_MODULES = ["Proofs.C03"]
REQUIRED_THEOREMS = [
    "Ink.C03.list_values_order_independent", "Ink.C03.operators_order_independent", "Ink.C03.printed_list_sorted",
    "Ink.C03.extrema_order_independent", "Ink.C03.list_random_pick_order_independent",
    "Ink.C03.origins_order_independent", "Ink.C03.increment_order_independent",
]
RULE = ("a case = one program (weighted towards multi-origin lists with equal item values, LIST_RANDOM, shuffles, "
        "many globals, several flows; plus the conformance corpus) x one host history (choices, saves/loads, flow "
        "switches) recorded once and replayed in 3 further processes of the debug build (fresh hash seeds each), "
        "twice in one process, and in 1 process of the release build; plus every program source compiled in 3 "
        "processes; non-trivial when the history made at least one choice and the program uses a list, RANDOM or a "
        "shuffle; distinct by program + history")
ASSUMPTIONS = ["saved states are compared as JSON values (object keys unordered), floats by their f32 bits",
               "notification order of variable observers within one call is not compared (see C11)"]
EXPLANATION = ("The only sources of run-to-run variation are the story seed and hash iteration order. Theorems: every "
               "list operator, the printed form of a list, LIST_MIN/MAX and the LIST_RANDOM pick are invariant under "
               "permutation of the stored items (the model keeps the hash order as an explicit input; everything "
               "else in the model is a pure function of program, seed and host calls by construction). Tie to the code: the "
               "inventory of hash-iteration sites of runtime/ and compiler/ is regenerated from the source and "
               "compared with the reviewed list c03_sites.json, and all transcripts are replayed on the model. "
               "Oracle: byte-identical transcripts across processes, within a process, across build profiles; "
               "byte-identical compiler output.")


def transcript_digest(ops, results, lockstep=True):
    out = []
    for op, r in zip(ops, results):
        c = play.canon_result(op, r, lockstep=lockstep)
        if c.get("ev"):
            c["ev"] = [e[:4] if e and e[0] == "ext" else e for e in c["ev"]]
        out.append(c)
    return out


def one_case(job):
    story, wseed, scratch = job
    rng = random.Random(wseed)
    res = {"origin": story["origin"], "corr": None, "violations": [], "digest": None, "nontrivial": False,
           "sample": None, "ops": 0, "end": "?"}
    desc = stories.describe(story)
    flows = story["meta"].get("flows") or []
    exts = story["meta"].get("externals") or []
    setup = stories.setup_ops(story)
    setup += [["bind", e["name"], e["name"], True, {"arg": 0} if e.get("arity", 0) else {"i": 3}] for e in exts]

    def extras(s, r):
        x = r.random()
        if x < 0.15:
            s.send(["savejson"])
        elif x < 0.25:
            s.send(["save", "k"]); s.send(["load", "k"])
        elif x < 0.35 and flows:
            s.send(["switch", "f" + str(r.randrange(2))])
            if r.random() < 0.5:
                s.send(["path", r.choice(flows), False, []])
        elif x < 0.4:
            s.send(["default"])

    a = play.RtSession()
    end = play.walk(a, rng, story["path"], seed=rng.randrange(1000), max_turns=rng.choice([3, 5, 8]), setup=setup,
                    per_line=[extras], per_turn=[extras])
    a.send(["savejson"])
    a.close()
    res["end"] = end
    if end in ("fuel", "loaderr"):
        res["skipped"] = end
        return res
    ops = a.ops
    res["ops"] = len(ops)
    res["digest"] = json.dumps([story["path"], ops], sort_keys=True)
    src = story.get("ink") if isinstance(story.get("ink"), str) else ""
    if src and os.path.exists(src):
        try:
            src = open(src, encoding="utf-8").read()
        except Exception:
            src = ""
    uses = any(k in src for k in ("LIST", "RANDOM", "shuffle", "~"))
    res["nontrivial"] = any(op[0] == "choose" for op in ops) and (uses or not src)
    base = transcript_digest(ops, a.results)
    # separate processes of the debug build, fresh hash seeds each
    for k in range(3):
        rr = play.run_rt_script(ops, scratch, tag=f"c03p{k}-{wseed}")
        d = transcript_digest(ops, rr)
        if d != base:
            i = next((i for i, (x, y) in enumerate(zip(base, d)) if x != y), min(len(base), len(d)))
            res["violations"].append(({"story": desc, "ops": ops[: i + 1], "first_run": base[i] if i < len(base) else None,
                                       "other_process": d[i] if i < len(d) else None,
                                       "why": "two processes running the same program, seed and host calls differ"},
                                      {"kind": "process", "op": ops[i][0] if i < len(ops) else "?"}))
            break
    # twice in one process
    rr = play.run_rt_script(ops + ops, scratch, tag=f"c03t-{wseed}")
    d1, d2 = transcript_digest(ops, rr[:len(ops)]), transcript_digest(ops, rr[len(ops):])
    if d1 != d2 or d1 != base:
        i = next((i for i, (x, y) in enumerate(zip(d1, d2)) if x != y), 0)
        res["violations"].append(({"story": desc, "ops": ops[: i + 1], "first": d1[i] if i < len(d1) else None,
                                   "second": d2[i] if i < len(d2) else None,
                                   "why": "two runs in one process differ"}, {"kind": "in-process"}))
    # release build
    rr = play.run_rt_script(ops, scratch, release=True, tag=f"c03r-{wseed}")
    d = transcript_digest(ops, rr)
    if d != base:
        i = next((i for i, (x, y) in enumerate(zip(base, d)) if x != y), min(len(base), len(d)))
        res["violations"].append(({"story": desc, "ops": ops[: i + 1], "debug": base[i] if i < len(base) else None,
                                   "release": d[i] if i < len(d) else None,
                                   "why": "debug and release builds differ"}, {"kind": "profile"}))
    # tie
    rm = play.run_model(ops, scratch, tag=f"c03m-{wseed}")
    dd = play.first_diff(ops, a.results, rm)
    if dd:
        i, ca, cb = dd
        res["corr"] = {"story": desc, "ops": ops[: i + 1], "op": ops[i], "code": ca, "model": cb}
    res["sample"] = {"story": os.path.basename(story["path"]), "ops": len(ops), "end": end}
    return res


def compile_thrice(job):
    path, scratch = job
    outs = []
    for k in range(5):
        try:
            r = subprocess.run([common.rt_bin(), "compile", path], capture_output=True, timeout=120)
            outs.append(hashlib.sha256(r.stdout).hexdigest())
        except subprocess.TimeoutExpired:
            outs.append("timeout")
    try:
        r = subprocess.run([common.rt_bin((), True), "compile", path], capture_output=True, timeout=120)
        outs.append(hashlib.sha256(r.stdout).hexdigest())
    except subprocess.TimeoutExpired:
        outs.append("timeout")
    return path, outs


def site_inventory(ctx):
    """Translator tie: the hash-iteration sites of the current source vs the reviewed list."""
    reviewed = json.load(open(os.path.join(common.ROOT, "c03_sites.json")))
    known = {s["site"]: s["class"] for s in reviewed["sites"]}
    now = [hashsites.key(s) for s in hashsites.scan()]
    new = [s for s in now if s not in known]
    gone = [s for s in known if s not in now]
    ctx.count("hash_iteration_sites", len(now))
    ctx.count("hash_iteration_sites_unreviewed", len(new))
    for s in new:
        ctx.corr_diff("inventory of hash-iteration sites (regenerated from /repo) vs c03_sites.json",
                      {"unreviewed_site": s, "why": "a new or changed iteration over a hash-ordered collection: its "
                                                    "order-independence is not covered by a theorem or a reviewed argument"})
    ctx.sample({"sites": len(now), "unreviewed": new[:5], "no_longer_present": gone[:5]})


def run(ctx):
    quick = ctx.tier == "quick"
    site_inventory(ctx)
    pool = stories.probe_pool(ctx, "c03")
    for prof, n in (("lists_ties", 30 if quick else 600), ("lists_random", 25 if quick else 500),
                    ("lists", 15 if quick else 300), ("random", 20 if quick else 400), ("flows", 10 if quick else 200),
                    ("observers", 8 if quick else 150), ("core", 10 if quick else 200), ("externals", 5 if quick else 100)):
        pool += stories.generated_pool(ctx, prof, n)
    pool += stories.corpus_pool(ctx, reference=False)[: (40 if quick else 400)]
    walks = 1 if quick else 3
    jobs = [(s, ctx.seed * 8191 + si * 13 + w, ctx.scratch) for si, s in enumerate(pool) for w in range(walks)]
    ctx.programs = len(pool)
    with ProcessPoolExecutor(max_workers=14) as ex:
        for res in ex.map(one_case, jobs, chunksize=2):
            if res.get("skipped"):
                ctx.count("skipped_" + res["skipped"])
                continue
            ctx.case(res["digest"], res["nontrivial"])
            ctx.count("ops", res["ops"])
            ctx.count("end_" + res["end"])
            ctx.count("stories_" + res["origin"])
            if res["corr"]:
                ctx.corr_diff("transcripts of list / random programs (Ink/InkList, Ink/Rng vs ink_list.rs, control_logic.rs)",
                              res["corr"])
            for rp, sig in res["violations"][:2]:
                ctx.violation("oracle", rp, signature=sig)
            if res["sample"] and res["nontrivial"] and len(ctx.samples) < 6:
                ctx.sample(res["sample"])
        # compiler output is byte-identical across processes and profiles
        srcs = []
        for s in pool:
            if s["origin"].startswith("generated"):
                p = ctx.path(f"c03src_{len(srcs)}.ink")
                open(p, "w").write(s["ink"])
                srcs.append(p)
        import glob
        srcs = sorted(glob.glob(os.path.join(common.ROOT, "corpus", "c03", "*.ink"))) + srcs
        srcs += common.corpus_ink()[: (60 if quick else 10 ** 6)]
        for path, outs in ex.map(compile_thrice, [(p, ctx.scratch) for p in srcs], chunksize=4):
            ctx.case("compile:" + path, True)
            ctx.count("compiled_sources")
            if len(set(outs)) != 1:
                ctx.violation("oracle", {"source_file": path, "source": open(path, encoding="utf-8", errors="replace").read()[:4000],
                                         "output_hashes": outs,
                                         "why": "compiling the same source gave different bytes"},
                              signature={"kind": "compile", "file": os.path.basename(path)})


def replay(ctx, path):
    body = json.load(open(path))
    rp = body["replay"]
    if "story" in rp:
        spath = stories.materialise(ctx, rp["story"])
        ops = [op if op[0] != "new" else ["new", spath] for op in rp["ops"]]
        for k in range(3):
            rr = play.run_rt_script(ops, ctx.scratch, tag="replay")
            print("process", k, json.dumps(rr[-1])[:400])
    else:
        print(json.dumps(rp, indent=1)[:3000])
    return 0
