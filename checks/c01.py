"""C01 — compiled stories play exactly as the Ink language defines."""
import glob
import json
import os
import random
from concurrent.futures import ProcessPoolExecutor

from lib import common, play, stories

LEVEL = "proof"
THEOREM_MODULES = ["Proofs.C01", "Proofs.C01Linear"]
REQUIRED_THEOREMS = [
    "Ink.C01.wrap32_range", "Ink.C01.wrap32_id", "Ink.C01.wrap32_congr", "Ink.C01.wrap32_eq_wrapI32", "Ink.C01.intOp_range",
    "Ink.C01.intOp_div_zero", "Ink.C01.intOp_error_iff", "Ink.C01.cleanText_idem", "Ink.C01.cleanText_no_edge_blanks",
    "Ink.C01.cleanText_no_double_blank", "Ink.C01.trimBlanks_idem", "Ink.C01.linesOf_no_empty_line",
    "Ink.C01.linesOf_texts_clean", "Ink.C01.play_turns_nonempty", "Ink.C01.play_status_choice_iff", "Ink.C01.play_prefix",
    "Ink.C01.play_append_of_not_choice", "Ink.C01.play_extend", "Ink.C01.restoreSnapshot_state",
    "Ink.C01.discardSnapshot_keeps", "Ink.C01.stateSnapshot_saves", "Ink.C01.lookahead_undone",
    "Ink.C01.continueSingleStep_rewind", "Ink.C01.continueSingleStep_snapshot", "Ink.C01.stepLoop_newline",
    # look-ahead execution = ONE linear execution cut at the call ends (effects exactly once)
    "Ink.C01Linear.stepLoop_inv", "Ink.C01Linear.continueInternal_is_linear_prefix", "Ink.C01Linear.cont_is_linear_prefix",
    "Ink.C01Linear.conts_are_one_linear_run", "Ink.C01Linear.effect_log_eq", "Ink.C01Linear.ex4_two_calls",
]
RULE = ("a case = one choice path of one program: programs are drawn from the generator over core Ink (gen/srcgen.py: "
        "knots, stitches, diverts, weave choices and gathers with once-only / sticky / conditional / fallback / labelled "
        "forms and [bracket] text, inline and block conditionals, sequences / cycles / once-only alternatives, VAR / temp "
        "integer-bool-string arithmetic, read counts, TURNS_SINCE, CHOICE_COUNT, tunnels, functions with return values "
        "and text, threads, glue, tags), rendered to Ink, compiled and played along ALL choice sequences to depth 4 "
        "(breadth 3, at most 60 paths per program), plus the hand-written regression programs; non-trivial when the path "
        "makes at least one choice; distinct by program + path")
ASSUMPTIONS = ["the generator stays inside the supported core; the shapes of the 16 compiler deviations found while the "
               "reference interpreter was validated (all repaired since; reproducers corpus/c01/B*.json) are generated too",
               "a path on which either side exhausts its step budget is undecided (counted)"]
EXPLANATION = ("The independent source-level reference interpreter is Ink/Source.lean (900 lines, imports nothing from the "
               "runtime model): an AST of core Ink and a total function play : Program -> choices -> Transcript. The "
               "theorems of Proofs/C01.lean are about it and about the runtime model's line-end look-ahead. Oracle = tie: "
               "for every generated program and choice path the transcript of the real pipeline (compile + play: lines, "
               "per-line tags, offered choices with tags, end status, error kinds, final globals, knot / stitch visit "
               "counts) equals the transcript the reference interpreter gives for the AST.")


def check_program(job):
    kind, name, payload, depth, breadth, max_paths = job
    from lib import srcvalidate
    from gen import srcgen
    res = {"name": name, "kind": kind, "compile": None, "paths": 0, "agree": 0, "fuel": 0, "bad": [], "src": None,
           "expect": "agree", "ast": None, "choices_made": 0, "genexc": None}
    if kind == "gen":
        seed, size = payload
        try:
            # every shape the generator knows, except the one that depends on an engine artefact shared with
            # the reference engine (a fallback choice with content in the top-level flow; an empty labelled gather
            # directly followed by another gather)
            ast = srcgen.generate(seed, size, on=[k for k in srcgen.RESTRICTED
                                                  if k not in ("root_fallback_body", "empty_labelled_gather")])
        except Exception as e:
            res["genexc"] = repr(e)
            return res
    else:
        ast = payload["program"]
        res["expect"] = payload.get("expect", "agree")
    ck = srcvalidate.Checker(depth, breadth, max_paths)
    try:
        r = ck.check(ast)
        if r["bad"] and kind == "gen":
            # minimise the first disagreement
            try:
                small, p = srcvalidate.shrink(ck, ast, r["bad"][0][0], r["bad"][0][3], 300)
                r2 = ck.check(small, only_paths=[p])
                if r2["bad"]:
                    res["ast"] = small
                    r = dict(r, bad=r2["bad"], src=r2["src"])
            except Exception:
                pass
    finally:
        ck.close()
    res.update({k: r[k] for k in ("compile", "paths", "agree", "fuel", "src")})
    res["bad"] = [(p, a, b, why) for p, a, b, why in r["bad"]][:3]
    if res["ast"] is None:
        res["ast"] = ast
    return res



# --------------------------------------------------------------------------- equal formulations
# Pairs corpus/c01/equal/<name>.A.ink / <name>.B.ink that the language defines as the same program (a CONST is its
# value, wherever it stands): both must compile and play identically along every choice path. Needs no reference
# interpreter, so it reaches constructs outside Ink/Source.lean (CONST).
def equal_forms(ctx):
    from lib import play
    import itertools
    for a in sorted(glob.glob(os.path.join(common.ROOT, "corpus", "c01", "equal", "*.A.ink"))):
        b = a[:-6] + ".B.ink"
        name = os.path.basename(a)[:-6]
        docs = {}
        for tag, f in (("A", a), ("B", b)):
            out = ctx.path(f"equal-{name}.{tag}.json")
            st, detail = common.compile_ink(ctx, f, out)
            if st != "ok":
                ctx.violation("oracle", {"program": open(f).read(), "file": f, "compiler": st, "detail": str(detail)[:400],
                                         "why": "a valid program (one of two formulations Ink defines as equal) does not compile"},
                              signature={"kind": "equal-forms", "file": name, "what": "compile"})
                docs = None
                break
            docs[tag] = out
        if not docs:
            continue
        paths = [()] + [(i,) for i in range(3)] + list(itertools.product(range(3), range(3)))
        for path in paths:
            shown = {}
            for tag in ("A", "B"):
                ops = [["new", docs[tag]], ["seed", 7], ["maximally"], ["tags"], ["choices"]]
                for c in path:
                    ops += [["choose", c], ["maximally"], ["tags"], ["choices"]]
                ops += [["warnings"], ["errors"]]
                rs = play.run_rt_script(ops, ctx.scratch, tag=f"eq{tag}")
                shown[tag] = [play.canon_result(o, r, lockstep=True) for o, r in zip(ops, rs)][2:]
            ctx.case(f"equal:{name}:{path}", True)
            ctx.count("equal_form_paths")
            if shown["A"] != shown["B"]:
                k = next((i for i, (x, y) in enumerate(zip(shown["A"], shown["B"])) if x != y), 0)
                ctx.violation("oracle", {"program_A": open(a).read(), "program_B": open(b).read(), "choices": list(path),
                                         "A_shows": shown["A"][k], "B_shows": shown["B"][k],
                                         "why": "two formulations that Ink defines as equal play differently"},
                              signature={"kind": "equal-forms", "file": name, "what": "play"})
                break

def run(ctx):
    quick = ctx.tier == "quick"
    equal_forms(ctx)
    os.makedirs(os.path.join(common.CACHE, "c01tmp"), exist_ok=True)
    jobs = []
    for f in sorted(glob.glob(os.path.join(common.ROOT, "corpus", "c01", "*.json"))):
        doc = json.load(open(f))
        jobs.append(("corpus", os.path.basename(f), doc, 4, 3, 60))
    n = 160 if quick else 6000
    for i in range(n):
        seed = ctx.seed * 100000 + i
        jobs.append(("gen", f"seed={seed}", (seed, 1 + i % 4), 4 if quick else 5, 3 if quick else 4, 60 if quick else 150))
    ctx.programs = len(jobs)
    with ProcessPoolExecutor(max_workers=14) as ex:
        for res in ex.map(check_program, jobs, chunksize=2):
            if res["genexc"]:
                ctx.count("generator_exceptions")
                continue
            if res["compile"]:
                ctx.count("did_not_compile")
                if res["kind"] == "gen":
                    # a well-formed core program the compiler rejects
                    ctx.violation("oracle", {"program": res["src"], "compiler_error": res["compile"][:400],
                                             "why": "a program of the supported core does not compile"},
                                  signature={"kind": "compile", "error": res["compile"][:60]})
                continue
            ctx.count("paths", res["paths"])
            ctx.count("paths_agree", res["agree"])
            ctx.count("paths_fuel", res["fuel"])
            for k in range(res["paths"]):
                ctx.case(f"{res['name']}#{k}", k > 0)   # path 0 is the empty choice sequence
            if res["bad"]:
                path, real, model, why = res["bad"][0]
                if res["kind"] == "corpus" and res["expect"] != "agree":
                    ctx.violation("oracle", {"program": res["src"], "reproducer": res["name"], "choices": path,
                                             "difference": why[:600], "expected_deviation": res["expect"],
                                             "why": "a known deviation of the compiler from Ink"},
                                  signature={"kind": "known-deviation", "file": res["name"]})
                else:
                    ctx.violation("oracle", {"program": res["src"], "ast": res["ast"], "choices": path,
                                             "real_pipeline": real, "reference_interpreter": model, "difference": why[:800],
                                             "why": "compile + play does not give what the Ink rules prescribe for this program and choice path"},
                                  signature={"kind": "transcript", "name": res["name"], "where": why[:40]})
            elif res["kind"] == "corpus" and res["expect"] != "agree":
                ctx.notes.append(f"known deviation no longer seen: {res['name']} ({res['expect']})")
    ctx.sample({"programs": len(jobs)})


def replay(ctx, path):
    body = json.load(open(path))
    rp = body["replay"]
    print(rp.get("program"))
    print(json.dumps({k: rp[k] for k in rp if k not in ("program", "ast")}, indent=1)[:4000])
    return 0
