"""C02 — saving and loading a game preserves all future behaviour."""
import json
import os
import random
from concurrent.futures import ProcessPoolExecutor

from lib import common, play, stories

LEVEL = "proof"
THEOREM_MODULES = ["Proofs.C02", "Proofs.C02State", "Proofs.Tables", "Proofs.C02Reach", "Proofs.C02Counters"]
REQUIRED_THEOREMS = [
    "Ink.C02.cmd_roundtrip", "Ink.C02.native_name_roundtrip", "Ink.C02.native_not_cmd", "Ink.C02.native_roundtrip",
    "Ink.C02.cmd_obj_roundtrip", "Ink.C02.simple_obj_roundtrip", "Ink.C02.string_roundtrip",
    "Ink.C02.int_dict_roundtrip", "Ink.C02.pushPop_roundtrip",
    "Ink.C02.readObj_writeObj", "Ink.C02.readObj_writeObj_exact", "Ink.C02.restoredGlobals_eq",
    "Ink.C02.readThread_writeThread", "Ink.C02.readCallStack_ok", "Ink.C02.readChoice_writeChoice",
    "Ink.C02.readFlow_writeFlow", "Ink.C02.loadStateObj_ok", "Ink.C02.loadState_saveState",
    "Ink.C02.loadState_saveState_exact", "Ink.C02.loadState_saveState_self", "Ink.C02.create_saveable",
    "Ink.C02.saveableB_sound", "Ink.C02.exRoundTrip", "Ink.C02.nonfinite_float_clamped",
    # which components of Saveable are invariants of the public operations (tree, call-stack shape, counters) and which are not (three reachable counterexamples on hand-written documents / edited saves)
    "Ink.C02R.reachable_root", "Ink.C02R.reachable_treeOK", "Ink.C02R.reachable_callstack", "Ink.C02R.runOps_reach", "Ink.C02R.reachable_counters", "Ink.C02R.reachable_visitCounts", "Ink.C02R.reachable_turnIndices", "Ink.C02R.reachable_turnIndex", "Ink.C02R.reachable_previousRandom", "Ink.C02R.reach_reachable", "Ink.C02R.treeOK_not_invariant_of_loader", "Ink.C02R.flowNames_not_invariant", "Ink.C02R.globals_not_invariant"]
from lib.tables_thms import TABLE_THEOREMS  # noqa: E402
REQUIRED_THEOREMS = REQUIRED_THEOREMS + TABLE_THEOREMS
RULE = ("a case = one story x one save point along a random history (after a line, at a choice point, at the end, "
        "inside tunnels / functions / threads, in a named flow, with lists and random seeds) x one random "
        "continuation played on the original and on a fresh story that loaded the save; non-trivial when the save "
        "holds a non-trivial call stack, pending choices or more than one flow; distinct by story + history + continuation")
ASSUMPTIONS = ["the readable error / warning lists are not part of a save and are not compared",
               "the fresh story is constructed from the same document and gets the same bindings; the seed travels in the save",
               "the cosmetic choice index is ignored"]
EXPLANATION = ("Proved: round-trip of the stack-object codec (commands, native calls, strings, ints, bools, glue, void, tags), "
               "of integer dictionaries and push/pop codes, for all values. NOT proved: decode(encode(state)) for whole "
               "states (partial). Tie: the model's save equals the real save (normalised) after every step of every "
               "history in C02 and in the other checks. Oracle: lockstep of the original and the restored story.")


def one_case(job):
    story, wseed, scratch = job
    rng = random.Random(wseed)
    res = {"origin": story["origin"], "corr": None, "violations": [], "digest": None, "nontrivial": False,
           "sample": None, "ops": 0, "end": "?"}
    desc = stories.describe(story)
    flows = story["meta"].get("flows") or []
    exts = story["meta"].get("externals") or []
    setup = stories.setup_ops(story)
    setup += [["bind", e["name"], e["name"], True, {"arg": 0} if e.get("arity", 0) else {"i": 3}] for e in exts]
    a = play.RtSession()

    def flowhop(s, r):
        if flows and r.random() < 0.3:
            s.send(["switch", "f" + str(r.randrange(2))])
            if r.random() < 0.5:
                s.send(["path", r.choice(flows), False, []])

    turns = rng.choice([0, 1, 2, 3, 5])
    end = play.walk(a, rng, story["path"], seed=rng.randrange(100), max_turns=turns, setup=setup,
                    per_turn=[flowhop] if flows else [])
    if end in ("fuel", "loaderr"):
        a.close()
        res["skipped"] = end
        return res
    # possibly stop mid-paragraph
    if rng.random() < 0.5 and a.send(["can"]).get("v"):
        a.send(["cont"])
    sv = a.send(["savejson"])
    a.send(["save", "p"])
    save_point = len(a.ops)
    # the restored copy
    b = play.RtSession()
    b.send(["new", story["path"]])
    for op in setup:
        b.send(op)
    b.send(["fuel", 20000])
    a.send(["fuel", 20000])
    # hand the save text over: both sessions are separate processes, so replay through loadtext
    text = json.dumps(sv.get("v")) if sv.get("r") == "ok" else None
    if text is None:
        a.close(); b.close()
        res["skipped"] = "savefail"
        return res
    lr = b.send(["loadtext", text])
    if lr.get("r") != "ok":
        res["violations"].append(({"story": desc, "history": a.ops[:save_point], "load_result": lr,
                                   "why": "a save taken from a running story does not load"}, {"kind": "load"}))
    # lockstep continuation; after the first turn the restored story is itself saved and a third story
    # loads that save (a second-generation save), which then replaces it in the lockstep
    crng = random.Random(wseed + 5)
    diverged = False
    sv2a = a.send(["savejson"]); sv2b = b.send(["savejson"])
    pairs = [(["savejson"], sv2a, sv2b)]
    sessions = [a, b]
    for turn in range(4):
        if diverged:
            break
        guard = 0
        while guard < 100:
            guard += 1
            ca, cb = a.send(["can"]), b.send(["can"])
            pairs.append((["can"], ca, cb))
            if ca != cb or not ca.get("v"):
                break
            la, lb = a.send(["cont"]), b.send(["cont"])
            pairs.append((["cont"], la, lb))
            ta, tb = a.send(["tags"]), b.send(["tags"])
            pairs.append((["tags"], ta, tb))
            if la.get("r") != "ok":
                break
            if turn == 0 and guard == 1 and rng.random() < 0.5:
                break   # second generation in the middle of a paragraph
        oa, ob = a.send(["observe_all"]), b.send(["observe_all"])
        pairs.append((["observe_all"], oa, ob))
        sa, sb = a.send(["savejson"]), b.send(["savejson"])
        pairs.append((["savejson"], sa, sb))
        if turn == 0 and sb.get("r") == "ok":
            c = play.RtSession()
            c.send(["new", story["path"]])
            for op in setup:
                c.send(op)
            c.send(["fuel", 20000])
            lr2 = c.send(["loadtext", json.dumps(sb.get("v"))])
            pairs.append((["loadtext(second generation)"], {"r": "ok"}, {"r": lr2.get("r")}))
            b.close()
            sessions.append(c)
            b = c
            if a.send(["can"]).get("v"):
                continue
        cs = (a.send(["choices"]).get("v") or [])
        csb = (b.send(["choices"]).get("v") or [])
        pairs.append((["choices"], {"r": "ok", "v": cs}, {"r": "ok", "v": csb}))
        if not cs or cs != csb:
            break
        k = crng.randrange(len(cs))
        pairs.append((["choose", k], a.send(["choose", k]), b.send(["choose", k])))
    a.close(); b.close()
    res["end"] = end
    res["ops"] = sum(len(x.ops) for x in sessions)
    res["digest"] = json.dumps([story["path"], a.ops], sort_keys=True)
    save_doc = sv.get("v") or {}
    fl = save_doc.get("flows", {})
    res["nontrivial"] = len(fl) > 1 or any(len(f.get("currentChoices", [])) > 0 or
                                            any(len(t.get("callstack", [])) > 1 for t in f.get("callstack", {}).get("threads", []))
                                            for f in fl.values())
    for op, x, y in pairs:
        if play.is_fuel(x) or play.is_fuel(y):
            break
        cx = play.canon_result(op, x, lockstep=True)
        cy = play.canon_result(op, y, lockstep=True)
        # the harness' "lines delivered so far" stamp on external-call events is per process
        for c in (cx, cy):
            if c.get("ev"):
                c["ev"] = [e[:4] if e and e[0] == "ext" else e for e in c["ev"]]
        if op == ["observe_all"]:
            # the readable error / warning lists are host-side diagnostics, not part of a save
            for c in (cx, cy):
                if isinstance(c.get("v"), dict):
                    c["v"] = {k: v for k, v in c["v"].items() if k not in ("errors", "warnings")}
        if cx != cy:
            res["violations"].append(({"story": desc, "history": a.ops[:save_point], "save": save_doc,
                                       "continuation_op": op, "differences": play.json_diff(cx, cy),
                                       "why": "the restored story behaves differently from the original"},
                                      {"kind": "lockstep", "op": op[0],
                                       "where": (play.json_diff(cx, cy) or [["?"]])[0][0],
                                       "probe": os.path.basename(story["ink"]) if story.get("probe") and story.get("ink") else ""}))
            break
    # tie: both sessions on the model
    for sess, tag in zip(sessions, "abc"):
        rm = play.run_model(sess.ops, scratch, tag=f"c02{tag}-{wseed}")
        d = play.first_diff(sess.ops, sess.results, rm)
        if d and not res["corr"]:
            i, ca, cb = d
            res["corr"] = {"story": desc, "ops": sess.ops[: i + 1], "op": sess.ops[i],
                           "differences": play.json_diff(ca, cb)}
    res["sample"] = {"story": os.path.basename(story["path"]), "history_ops": save_point, "flows": list(fl.keys()),
                     "pending_choices": sum(len(f.get("currentChoices", [])) for f in fl.values())}
    return res


def run(ctx):
    quick = ctx.tier == "quick"
    pool = stories.probe_pool(ctx, "c02") + stories.corpus_pool(ctx)
    for prof, n in (("core", 40 if quick else 600), ("lists", 12 if quick else 300), ("random", 8 if quick else 200),
                    ("flows", 30 if quick else 300), ("functions", 10 if quick else 200), ("externals", 6 if quick else 100)):
        pool += stories.generated_pool(ctx, prof, n)
    jobs = [(s, ctx.seed * 9173 + si * 37 + w, ctx.scratch) for si, s in enumerate(pool)
            for w in range((1 if s["origin"].startswith("corpus") else 3) if quick else 6)]
    ctx.programs = len(pool)
    with ProcessPoolExecutor(max_workers=14) as ex:
        for res in ex.map(one_case, jobs, chunksize=2):
            if res.get("skipped"):
                ctx.count("skipped_" + res["skipped"])
                continue
            ctx.case(res["digest"], res["nontrivial"])
            ctx.count("ops", res["ops"])
            ctx.count("stories_" + res["origin"])
            if res["corr"]:
                ctx.corr_diff("transcripts with save / load (Ink/Save vs story_state.rs write_json / load_json)", res["corr"])
            for rp, sig in res["violations"][:2]:
                ctx.violation("oracle", rp, signature=sig)
            if res["sample"] and res["nontrivial"] and len(ctx.samples) < 5:
                ctx.sample(res["sample"])


def replay(ctx, path):
    body = json.load(open(path))
    rp = body["replay"]
    spath = stories.materialise(ctx, rp["story"])
    ops = [op if op[0] != "new" else ["new", spath] for op in rp.get("history") or rp.get("ops")]
    for op, r in zip(ops, play.run_rt_script(ops, ctx.scratch, tag="replay")):
        print(json.dumps(op), "->", json.dumps(r)[:200])
    print(json.dumps({k: rp[k] for k in rp if k not in ("story", "history", "save", "ops")}, indent=1)[:3000])
    return 0
