"""C13 — every runtime error and warning is delivered exactly once."""
import json
import os
import random
from concurrent.futures import ProcessPoolExecutor

from lib import common, play, stories

LEVEL = "proof"
THEOREM_MODULES = ["Proofs.C13"]
REQUIRED_THEOREMS = [
    "Ink.C13.deliver_handler_pending", "Ink.C13.deliver_nothing_pending", "Ink.C13.pending_empty_after_delivery",
    "Ink.C13.deliver_no_handler_error", "Ink.C13.deliver_no_handler_warning_only", "Ink.C13.error_stops_story",
    "Ink.C13.continue_handler_leaves_nothing_pending",
]
RULE = ("a case = one fault-raising story x one choice sequence, played once with an error handler and once "
        "without, and once with a handler and every line delivered in time slices; non-trivial when at least one "
        "warning or error was raised; distinct by story + choices")
ASSUMPTIONS = ["messages are compared as text; the two runs make the same choices",
               "in the sliced run the deliveries of all slices of one line are taken together"]
EXPLANATION = ("Theorems about Story.deliver and its lifting to continue_internal (handler: delivered = pending, "
               "pending empty afterwards incl. a live snapshot; no handler: error => Err with lists kept, warnings "
               "never Err; error stops the story). Oracle: per-continue messages delivered to a handler equal the "
               "messages newly readable in the run without handler, each once.")



def sliced_cause(ma, mc, enda, endc, tailc):
    """Classify a difference between blocking (ma) and sliced (mc) deliveries, continue by continue.
    'lookahead-warning-early-duplicate': same end, same errors, and the sliced run delivers exactly the blocking
    deliveries PLUS warnings that the blocking run delivers in a LATER continue (a pause inside the look-ahead past a
    line end hands over a warning that the rewind raises again) - known finding C13-lookahead-warning-sliced.
    Anything else (a message lost, an error repeated, a warning repeated after its line, another end) is 'other'."""
    if enda != endc or any(t for t in tailc) or len(ma) != len(mc):
        return "other"
    for i, (a, c) in enumerate(zip(ma, mc)):
        extra = list(c)
        for m in a:
            if m in extra:
                extra.remove(m)
            else:
                return "other"            # something the blocking run delivered here is missing
        later = [m for x in ma[i + 1:] for m in x]
        for m in extra:
            if m[0] != "W" or m not in later:
                return "other"
    return "lookahead-warning-early-duplicate"

def run_story(story, choices_seed, handler, scratch, sliced=False):
    """Play with fixed random choices; returns (ops, results, per-continue message lists)."""
    sess = play.RtSession()
    rng = random.Random(choices_seed)
    setup = stories.setup_ops(story) + ([["handler"]] if handler else [])
    sess.send(["new", story["path"]])
    sess.send(["seed", 9, 0])
    sess.send(["fuel", 20000])
    for op in setup:
        sess.send(op)
    per_cont = []
    seen_w = 0
    status = "turns"
    for turn in range(6):
        guard = 0
        while sess.send(["can"]).get("v") and guard < 300:
            guard += 1
            if sliced:
                # the same line delivered in time slices (virtual step clock): one outermost continue all the same
                srng = random.Random(choices_seed * 31 + len(per_cont))
                evs = []
                for _ in range(400):
                    r = sess.send(["contasync", srng.choice([1, 2, 3, 5])])
                    evs += r.get("ev") or []
                    if r.get("r") != "ok" or r.get("v") is True:
                        break
                else:
                    r = sess.send(["cont"])
                    evs += r.get("ev") or []
                r = dict(r, ev=evs)
            else:
                r = sess.send(["cont"])
            if play.is_fuel(r):
                sess.close()
                return sess, per_cont, "fuel"
            if handler:
                msgs = [(e[1], e[2]) for e in (r.get("ev") or []) if e and e[0] == "handler"]
            else:
                w = sess.send(["warnings"]).get("v") or []
                e = sess.send(["errors"]).get("v") or []
                msgs = [("E", m) for m in e] + [("W", m) for m in w[seen_w:]]
                seen_w = len(w)
            # (a continue can also be refused as a host call - unbound externals, say - without any story error)
            per_cont.append({"ok": r.get("r") == "ok", "msgs": msgs, "story_error": "Ink had" in str(r.get("m", ""))})
            if r.get("r") != "ok":
                status = "error"
                break
        if status == "error":
            break
        cs = sess.send(["choices"]).get("v") or []
        if not cs:
            status = "end"
            break
        sess.send(["choose", rng.randrange(len(cs))])
    # after the end / an error: further continues must not deliver anything again
    # (a story that was only cut short by the turn limit goes on, and may well raise new messages)
    tail = []
    for _ in range(2):
        if status == "turns":
            break
        r = sess.send(["cont"])
        tail.append([e for e in (r.get("ev") or []) if e and e[0] == "handler"])
    sess.send(["errors"]); sess.send(["warnings"]); sess.send(["haserror"]); sess.send(["can"])
    sess.close()
    return sess, per_cont, status, tail


def one_case(job):
    story, cseed, scratch = job
    res = {"origin": story["origin"], "corr": None, "violations": [], "digest": None, "nontrivial": False,
           "sample": None, "ops": 0, "end": "?"}
    a = run_story(story, cseed, True, scratch)
    b = run_story(story, cseed, False, scratch)
    if a[2] == "fuel" or b[2] == "fuel":
        res["skipped"] = "fuel"
        return res
    sa, pa, enda, taila = a
    sb, pb, endb, tailb = b
    res["end"] = enda
    res["ops"] = len(sa.ops) + len(sb.ops)
    res["digest"] = json.dumps([story["path"], cseed])
    raised = [m for c in pb for m in c["msgs"]]
    res["nontrivial"] = bool(raised)
    desc = stories.describe(story)
    # oracle: deliveries with a handler == newly readable messages without one, continue by continue,
    # as multisets (the order between errors and warnings is not part of the property)
    for i, (x, y) in enumerate(zip(pa, pb)):
        if sorted(map(tuple, x["msgs"])) != sorted(map(tuple, y["msgs"])):
            res["violations"].append(({"story": desc, "choices_seed": cseed, "continue_no": i,
                                       "delivered_to_handler": x["msgs"], "readable_without_handler": y["msgs"],
                                       "why": "a message was lost, duplicated or re-delivered"},
                                      {"kind": "delivery"}))
            break
        if not y["ok"] and y.get("story_error") and not any(k == "E" for k, _ in y["msgs"]):
            res["violations"].append(({"story": desc, "choices_seed": cseed, "continue_no": i,
                                       "why": "a continue failed without an error message"}, {"kind": "err-without-error"}))
            break
        if y["ok"] and any(k == "E" for k, _ in y["msgs"]):
            res["violations"].append(({"story": desc, "choices_seed": cseed, "continue_no": i,
                                       "why": "an error did not make the continue fail"}, {"kind": "error-ignored"}))
            break
    # the same with every line delivered in time slices: same deliveries, line by line, and the story stops
    # where it stops when it is played without slices
    c = run_story(story, cseed, True, scratch, sliced=True)
    if c[2] != "fuel":
        sc, pc, endc, tailc = c
        res["ops"] += len(sc.ops)
        ma = [sorted(map(tuple, x["msgs"])) for x in pa]
        mc = [sorted(map(tuple, x["msgs"])) for x in pc]
        if ma != mc or enda != endc or any(t for t in tailc):
            res["violations"].append(({"story": desc, "choices_seed": cseed, "blocking": [x["msgs"] for x in pa],
                                       "sliced": [x["msgs"] for x in pc][:len(pa) + 4], "end_blocking": enda, "end_sliced": endc,
                                       "ops": sc.ops[:400],
                                       "why": "with time-sliced continues the deliveries differ from blocking play "
                                              "(lost, repeated, or the story went on after an error)"},
                                      {"kind": "sliced-delivery", "cause": sliced_cause(ma, mc, enda, endc, tailc)}))
        rm = play.run_model(sc.ops, scratch, tag=f"c13s-{cseed}")
        d = play.first_diff(sc.ops, sc.results, rm)
        if d and not res["corr"]:
            i, ca, cb = d
            res["corr"] = {"story": desc, "ops": sc.ops[: i + 1], "op": sc.ops[i], "code": ca, "model": cb}
    if any(t for t in taila):
        res["violations"].append(({"story": desc, "choices_seed": cseed, "later_deliveries": taila,
                                   "why": "a later continue delivered an earlier message again"}, {"kind": "redelivery"}))
    # correspondence: both sessions on the model (error texts compared literally)
    for sess, tag in ((sa, "h"), (sb, "n")):
        rm = play.run_model(sess.ops, scratch, tag=f"c13{tag}-{cseed}")
        d = play.first_diff(sess.ops, sess.results, rm)
        if d and not res["corr"]:
            i, ca, cb = d
            res["corr"] = {"story": desc, "ops": sess.ops[: i + 1], "op": sess.ops[i], "code": ca, "model": cb}
    res["sample"] = {"story": os.path.basename(story["path"]), "end": enda, "raised": raised[:3]}
    return res


def probe_warnings(ctx):
    """A hand-written probe with a known number of warnings per line: every read of the undeclared
    variable raises one warning when its line is produced; the constructor adds the version warning.
    Lines that end right before a choice point / the end (snapshot discarded) and lines joined by glue
    are the interesting cases."""
    ink = os.path.join(common.ROOT, "corpus", "c13", "warnings.ink")
    dst = ctx.path("c13_warnings.json")
    st, detail = common.compile_ink(ctx, ink, dst)
    if st != "ok":
        ctx.corr_diff("probe story does not compile", {"file": ink, "detail": detail})
        return
    doc = open(dst).read().replace('"VAR?":"score"', '"VAR?":"scor"').replace('"inkVersion":21', '"inkVersion":20')
    open(dst, "w").write(doc)
    # expected warnings per delivered line, per branch
    expected = {0: [("Start 0.", 2), ("Your score is 0.", 1), ("One", 0), ("Second score 0.", 1), ("More text.", 0),
                    ("Glued 0 and 0 done.", 2)],
                1: [("Start 0.", 2), ("Your score is 0.", 1), ("Two", 0), ("Last 0.", 1)]}
    for branch in (0, 1):
        for handler in (True, False):
            ops = [["new", dst], ["seed", 1, 0], ["fuel", 5000]] + ([["handler"]] if handler else [])
            ops += [["cont"], ["warnings"], ["cont"], ["warnings"], ["choose", branch]]
            ops += [["cont"], ["warnings"]] * (len(expected[branch]) - 2 + 1)
            rr = play.run_rt_script(ops, ctx.scratch, tag="c13probe")
            rm = play.run_model(ops, ctx.scratch, tag="c13probem")
            d = play.first_diff(ops, rr, rm)
            if d:
                ctx.corr_diff("warning probe (delivery block + look-ahead)", {"handler": handler, "branch": branch,
                                                                             "op": ops[d[0]], "code": d[1], "model": d[2]})
            ctx.case(f"probe-{branch}-{handler}", True)
            got = []
            seen = 0
            for i, (op, r) in enumerate(zip(ops, rr)):
                if op == ["cont"] and r.get("r") == "ok":
                    if handler:
                        n = sum(1 for e in (r.get("ev") or []) if e and e[0] == "handler" and e[1] == "W")
                    else:
                        w = (rr[i + 1].get("v") or []) if i + 1 < len(rr) else []
                        n = len(w) - seen
                        seen = len(w)
                    got.append(((r.get("v") or "").strip(), n))
            want = expected[branch]
            if got[: len(want)] != want:
                ctx.violation("oracle", {"probe": "corpus/c13/warnings.ink (variable renamed, inkVersion 20)",
                                         "handler": handler, "branch": branch, "expected_line_warnings": want,
                                         "observed": got,
                                         "why": "a warning was lost, duplicated or delivered with the wrong line"},
                              signature={"kind": "warning-probe"})
    ctx.sample({"probe": "warnings.ink", "expected": expected[0]})


def run(ctx):
    quick = ctx.tier == "quick"
    probe_warnings(ctx)
    pool = stories.generated_pool(ctx, "errors", 60 if quick else 1500)
    pool += stories.generated_pool(ctx, "core", 15 if quick else 300)
    pool += [s for s in stories.probe_pool(ctx, "c13") if "lookahead" in (s.get("ink") or "")]
    pool += [s for s in stories.corpus_pool(ctx, reference=False)][: (40 if quick else 200)]
    jobs = [(s, ctx.seed * 4099 + si * 13 + w, ctx.scratch) for si, s in enumerate(pool)
            for w in range(1 if quick else 3)]
    ctx.programs = len(pool)
    with ProcessPoolExecutor(max_workers=14) as ex:
        for res in ex.map(one_case, jobs, chunksize=2):
            if res.get("skipped"):
                ctx.count("skipped_" + res["skipped"])
                continue
            ctx.case(res["digest"], res["nontrivial"])
            ctx.count("ops", res["ops"])
            ctx.count("end_" + res["end"])
            ctx.count("stories_" + res["origin"])
            if res["corr"]:
                ctx.corr_diff("transcripts of fault-raising stories, with and without handler (Ink/Continue vs progress.rs)",
                              res["corr"])
            for rp, sig in res["violations"]:
                ctx.violation("oracle", rp, signature=sig)
            if res["sample"] and res["nontrivial"] and len(ctx.samples) < 5:
                ctx.sample(res["sample"])


def replay(ctx, path):
    body = json.load(open(path))
    rp = body["replay"]
    spath = stories.materialise(ctx, rp["story"])
    story = {"path": spath, "origin": "replay", "meta": stories.story_meta_from_json(spath)}
    for handler in (True, False):
        s, per, end, tail = run_story(story, rp.get("choices_seed", 0), handler, ctx.scratch)
        print("handler" if handler else "no handler", end)
        for i, c in enumerate(per):
            print("  continue", i, c)
    return 0
