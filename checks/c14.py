"""C14 — both story loaders build the same story from the same JSON."""
import glob
import json
import os
import random
import subprocess
from concurrent.futures import ProcessPoolExecutor

from lib import common, play, stories

LEVEL = "proof"
HARNESS_FEATURES = [[], ["stream"]]
THEOREM_MODULES = ["Proofs.C14", "Proofs.C14Struct", "Proofs.Tables"]
REQUIRED_THEOREMS = ["Ink.C14.toDigit16_eq_hexVal", "Ink.C14.readHex4_eq", "Ink.C14.readStringContent_eq_parseStrBody",
                     "Ink.C14.parse_escapeChars", "Ink.C14.stream_escapeChars", "Ink.C14.parse_escapeAscii",
                     "Ink.C14.stream_escapeAscii", "Ink.C14.both_loaders_read_the_same_text",
                     # tokenizer above the strings: white space, number grammar and integer values (Ink/StreamLoad.lean)
                     "Ink.StreamLoad.readSkip_eq_skipWs", "Ink.StreamLoad.peek_eq", "Ink.StreamLoad.isJsonNumber_eq",
                     "Ink.StreamLoad.isJsonNumber_iff", "Ink.StreamLoad.classifyNumber_int",
                     "Ink.StreamLoad.floatOfRaw_eq", "Ink.StreamLoad.floatOfInt_eq"]
from lib.tables_thms import TABLE_THEOREMS  # noqa: E402
REQUIRED_THEOREMS = REQUIRED_THEOREMS + TABLE_THEOREMS
RULE = ("a case = one story document (reference corpus, this compiler on the corpus and on generated programs, each "
        "also with hostile text — tabs, quotes, backslashes, control characters, non-BMP characters, U+2028 — "
        "injected into its text nodes) x one layout (as emitted; every non-ASCII character escaped as \\uXXXX; "
        "pretty-printed) loaded by the default build and by the stream-json-parser build: content audit of both, "
        "and a random play of both; non-trivial when the document has non-ASCII or escaped text or is pretty-printed; "
        "distinct by document bytes")
ASSUMPTIONS = ["documents keep the key order inkVersion, root, listDefs (both compilers emit it; the streaming loader requires it)",
               "integers are within the i32 range (compilers never emit others)"]
EXPLANATION = ("Theorems: the streaming tokenizer's string reader equals the reference JSON string parser on EVERY input "
               "(same text, same rest, same rejections), and both invert the compact and the all-ASCII serialisation of "
               "every string. Tie: the model's content audit (reference parser + loader model) equals the audit hook's "
               "rows of BOTH real builds for every document and layout. Oracle: the two builds give identical audit "
               "rows (content tree, list definitions, text) and identical play transcripts.")

HOSTILE = ["del\u007f raw", "c1 \u0085 nel \u009f", "tab\there", "quote\"inside", "back\\slash", "slash/", "bell\u0007", "nul\u0001", "\u001f unit", "é ü ñ",
           "日本語", "😀 emoji 🎉", "  line sep  ", "﻿ bom", "mix \t\"\\/\b\f\r é😀", " nbsp", "à combining"]

# one character of every supplementary plane, and the edges of the surrogate gap
HOSTILE += ["planes " + "".join(chr(p * 0x10000 + 0x0BB7) for p in range(1, 17)),
            "edges \ud7ff\ue000\uffff" + chr(0x10000) + chr(0x1FFFF) + chr(0x20000) + chr(0x10FFFF) + chr(0xFFFFF) + chr(0x100000)]


def inject(doc, rng):
    """Replace some text nodes ("^...") by hostile text."""
    n = [0]

    def walk(x):
        if isinstance(x, list):
            for i, y in enumerate(x):
                if isinstance(y, str) and y.startswith("^") and len(y) > 1 and rng.random() < 0.3:
                    x[i] = "^" + rng.choice(HOSTILE)
                    n[0] += 1
                else:
                    walk(y)
        elif isinstance(x, dict):
            for k, y in x.items():
                if k == "#" and isinstance(y, str) and rng.random() < 0.3:
                    x[k] = rng.choice(HOSTILE)
                    n[0] += 1
                else:
                    walk(y)
    walk(doc.get("root"))
    return n[0]


def audit(path, features):
    try:
        r = subprocess.run([common.rt_bin(features), "audit", path], capture_output=True, text=True, timeout=120)
    except subprocess.TimeoutExpired:
        return [{"t": "timeout"}]
    return common.parse_json_lines(r.stdout.split("\n"))


def model_audit(path, mode="audit"):
    try:
        r = subprocess.run([common.INKMODEL, mode, path], capture_output=True, text=True, timeout=300)
    except subprocess.TimeoutExpired:
        return [{"t": "timeout"}]
    return common.parse_json_lines(r.stdout.split("\n"))


def canon_rows(rows):
    return sorted(json.dumps(r, sort_keys=True) for r in rows if r.get("t") != "wf")


def one_doc(job):
    text, origin, layout, idx, seed, scratch, with_model = job
    res = {"origin": origin, "layout": layout, "digest": None, "violations": [], "corr": None, "nontrivial": False}
    p = os.path.join(scratch, f"c14_{os.getpid()}_{idx}.json")
    open(p, "w", encoding="utf-8").write(text)
    import hashlib
    res["digest"] = hashlib.sha1(text.encode("utf-8")).hexdigest()
    res["nontrivial"] = layout != "asis" or any(ord(c) > 126 for c in text) or "\\" in text
    a = audit(p, [])
    b = audit(p, ["stream"])
    ca, cb = canon_rows(a), canon_rows(b)
    shown = text if len(text) < 2500 else text[:2500] + "…"
    if ca != cb:
        da = [x for x in ca if x not in set(cb)][:3]
        db = [x for x in cb if x not in set(ca)][:3]
        res["violations"].append(({"document": shown, "layout": layout, "only_default_loader": da, "only_streaming_loader": db,
                                   "why": "the two loaders build different stories from the same document"},
                                  {"kind": "audit", "layout": layout}))
    if with_model:
        m = model_audit(p)
        cm = canon_rows(m)
        for which, rows in (("default", ca), ("stream", cb)):
            if cm != rows and not res["corr"]:
                dm = [x for x in cm if x not in set(rows)][:2]
                dr = [x for x in rows if x not in set(cm)][:2]
                res["corr"] = {"document": shown, "layout": layout, "build": which, "only_model": dm, "only_code": dr}
        # the MODEL OF THE STREAMING LOADER (Ink/StreamLoad.lean: tokenizer + json_read_stream.rs on the characters)
        # against the stream-json-parser build
        sm = canon_rows(model_audit(p, "saudit"))
        if sm != cb and not res["corr"]:
            dm = [x for x in sm if x not in set(cb)][:2]
            dr = [x for x in cb if x not in set(sm)][:2]
            res["corr"] = {"document": shown, "layout": layout, "build": "stream (model of the streaming loader)",
                           "only_model": dm, "only_code": dr}
    # play under both builds
    if a and a[0].get("t") not in ("loaderr", "panic", "timeout"):
        rng = random.Random(seed)
        s = play.RtSession()
        end = play.walk(s, rng, p, seed=3, max_turns=4)
        s.close()
        rr = play.run_rt_script(s.ops, scratch, features=["stream"], tag=f"c14s-{idx}")
        d = play.first_diff(s.ops, s.results, rr)
        if d:
            i, x, y = d
            res["violations"].append(({"document": shown, "layout": layout, "ops": s.ops[: i + 1], "default_loader": x,
                                       "streaming_loader": y, "why": "play differs between the two builds"},
                                      {"kind": "play", "layout": layout}))
    os.remove(p)
    return res


def layouts(doc):
    yield "asis", json.dumps(doc, ensure_ascii=False, separators=(",", ":"))
    yield "ascii", json.dumps(doc, ensure_ascii=True, separators=(",", ":"))
    yield "pretty", json.dumps(doc, ensure_ascii=False, indent=2)
    yield "pretty-tabs", json.dumps(doc, ensure_ascii=True, indent="\t", separators=(" ,\r\n", " : "))


def runtime_only(ctx, docs):
    """Both loaders in a host that links the runtime crate ALONE (cargo unifies features over a build:
    the harness links the compiler, which switches serde_json's preserve_order on for everybody)."""
    with common.BuildLock():
        common.build_rtonly(False)
        common.build_rtonly(True)
    paths = []
    for i, (origin, doc) in enumerate(docs):
        p = ctx.path(f"rtonly-{i}.json")
        json.dump(doc, open(p, "w", encoding="utf-8"), ensure_ascii=False)
        paths.append(p)
    for f in sorted(glob.glob(os.path.join(common.ROOT, "corpus", "c14", "*.json"))):
        paths.append(f)
    lst = ctx.path("rtonly.list")
    open(lst, "w").write("\n".join(paths) + "\n")
    outs = {}
    for stream in (False, True):
        r = subprocess.run([common.rtonly_bin(stream), lst], capture_output=True, text=True, timeout=1800)
        blocks, cur = {}, None
        for line in r.stdout.split("\n"):
            if line.startswith("DOC "):
                cur = line[4:]
                blocks[cur] = []
            elif cur is not None and line:
                blocks[cur].append(line)
        outs[stream] = blocks
    for p in paths:
        a, b = outs[False].get(p), outs[True].get(p)
        ctx.case("rtonly:" + p, bool(a) and any(l.startswith("LINE") for l in a))
        ctx.count("runtime_only_documents")
        if a != b or a is None or any(l == "PANIC" for l in (a or [])):
            k = next((i for i, (x, y) in enumerate(zip(a or [], b or [])) if x != y), min(len(a or []), len(b or [])))
            ctx.violation("oracle", {"document": open(p, encoding="utf-8").read()[:20000] if os.path.getsize(p) < 20000 else p,
                                     "default_loader": (a or ["<no output>"])[max(0, k - 1): k + 2],
                                     "streaming_loader": (b or ["<no output>"])[max(0, k - 1): k + 2],
                                     "why": "in a host that links only the runtime crate the two loaders play this document differently"},
                          signature={"kind": "runtime-only", "doc": os.path.basename(p)})


def run(ctx):
    quick = ctx.tier == "quick"
    rng = random.Random(ctx.seed * 911 + 7)
    docs = []
    refs = common.corpus_json()
    for f in (refs if not quick else refs[:: 3]):
        try:
            docs.append(("corpus-reference", json.load(open(f, encoding="utf-8-sig"))))
        except Exception:
            ctx.count("unreadable_reference")
    for s in stories.corpus_pool(ctx, reference=False)[:: (3 if quick else 1)]:
        docs.append(("corpus-compiled", json.load(open(s["path"], encoding="utf-8"))))
    for prof, n in (("hostile_text", 12 if quick else 200), ("core", 6 if quick else 100), ("lists", 6 if quick else 100)):
        for s in stories.generated_pool(ctx, prof, n):
            docs.append(("generated-" + prof, json.load(open(s["path"], encoding="utf-8"))))
    for f in sorted(glob.glob(os.path.join(common.ROOT, "corpus", "c14", "*.json"))):
        docs.append(("probe", json.load(open(f, encoding="utf-8"))))
    runtime_only(ctx, [d for d in docs if len(json.dumps(d[1])) < 200000])
    jobs = []
    idx = 0
    for origin, doc in docs:
        big = len(json.dumps(doc)) > 60000
        variants = [(origin, doc)]
        if not big:
            d2 = json.loads(json.dumps(doc))
            if inject(d2, rng):
                variants.append((origin + "+hostile", d2))
        for o, d in variants:
            for layout, text in layouts(d):
                if big and layout not in ("asis", "ascii"):
                    continue
                jobs.append((text, o, layout, idx, ctx.seed * 13 + idx, ctx.scratch, not big))
                idx += 1
    ctx.programs = len(docs)
    with ProcessPoolExecutor(max_workers=14) as ex:
        for res in ex.map(one_doc, jobs, chunksize=2):
            ctx.case(res["digest"], res["nontrivial"])
            ctx.count("layout_" + res["layout"])
            ctx.count("origin_" + res["origin"])
            if res["corr"]:
                ctx.corr_diff("content audit (Ink/Json + Ink/Load + Ink/Audit vs the audit hook of both builds)", res["corr"])
            for rp, sig in res["violations"][:2]:
                ctx.violation("oracle", rp, signature=sig)
    ctx.sample({"documents": len(docs), "document_layout_pairs": len(jobs), "hostile_strings": HOSTILE[:6]})


def replay(ctx, path):
    body = json.load(open(path))
    rp = body["replay"]
    res = one_doc((rp["document"], "replay", rp.get("layout", "asis"), 0, 1, ctx.scratch, True))
    print(json.dumps(res, indent=1)[:3000])
    return 0
