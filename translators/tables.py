#!/usr/bin/env python3
"""Translator: Rust source tables -> lean/Generated/Tables.lean (regenerated on every run).

Reads, from /repo's working tree (or VERIF_REPO):
  runtime/src/native_function_call.rs : enum Op (order), *_NAME constants, new_from_name arms,
                                        get_name arms, get_number_of_parameters arms
  runtime/src/control_command.rs      : enum CommandType (order), *_NAME constants, new_from_name / get_name arms
  runtime/src/push_pop.rs             : enum PushPopType (order), from_value arms
  runtime/src/value_type.rs           : enum ValueType (declaration order = cast ordinal)

and writes plain Lean data (no logic): rows in enum order.  Proofs/Tables.lean proves (by `decide`, re-checked by
`lake build` whenever this file changes) that the hand-written model tables (Ink/Value.lean: Op.name, Op.arity,
Cmd.name, ...; Ink/Native.lean: variant names, cast ordinal) are exactly these rows.  A renamed token, a swapped
arity, a reordered ValueType variant in the Rust source therefore breaks a proof obligation of every property
whose theorems rest on the tables (C02, C07, C14, C15).

The translator itself refuses (exit 1) when the Rust source is not in the shape it understands (an arm it cannot
read, a name used by new_from_name but not by get_name, ...): that is reported as a broken tie, never guessed.
"""
import os
import re
import sys

REPO = os.environ.get("VERIF_REPO", "/repo")
HERE = os.path.dirname(os.path.abspath(__file__))
OUT = os.path.join(os.path.dirname(HERE), "lean", "Generated", "Tables.lean")


def die(msg):
    print("tables.py:", msg)
    sys.exit(1)


def read(rel):
    p = os.path.join(REPO, rel)
    try:
        return open(p, encoding="utf-8").read()
    except OSError as e:
        die(f"cannot read {p}: {e}")


def strip_comments(src):
    src = re.sub(r"/\*.*?\*/", "", src, flags=re.S)
    return re.sub(r"//[^\n]*", "", src)


def enum_variants(src, name):
    m = re.search(r"enum\s+" + name + r"\s*\{(.*?)\n\}", src, re.S)
    if not m:
        die(f"enum {name} not found")
    body = m.group(1)
    out = []
    for part in body.split(","):
        part = re.sub(r"#\[[^\]]*\]", "", part).strip()
        if not part:
            continue
        mm = re.match(r"([A-Z][A-Za-z0-9_]*)", part)
        if not mm:
            die(f"enum {name}: cannot read variant {part!r}")
        out.append(mm.group(1))
    return out


def consts(src):
    d = {}
    for m in re.finditer(r'const\s+([A-Z0-9_]+)\s*:\s*&str\s*=\s*"((?:[^"\\]|\\.)*)"\s*;', src):
        s = m.group(2)
        if "\\" in s:
            die(f"escape in constant {m.group(1)}")
        d[m.group(1)] = s
    return d


def fn_body(src, fname):
    m = re.search(r"fn\s+" + fname + r"\s*\(", src)
    if not m:
        die(f"fn {fname} not found")
    i = src.index("{", m.end())
    depth = 0
    for j in range(i, len(src)):
        if src[j] == "{":
            depth += 1
        elif src[j] == "}":
            depth -= 1
            if depth == 0:
                return src[i:j + 1]
    die(f"fn {fname}: unbalanced")


def name_tables(src, enum, from_name_fn, get_name_fn, what):
    variants = enum_variants(src, enum)
    cs = consts(src)
    # new_from_name: CONST => Some(Self::new(Enum::Variant))
    fwd = {}
    for m in re.finditer(r"([A-Z0-9_]+)\s*=>\s*Some\(\s*Self::new\(\s*" + enum + r"::([A-Za-z0-9_]+)\s*\)\s*\)",
                         fn_body(src, from_name_fn)):
        c, v = m.group(1), m.group(2)
        if c not in cs:
            die(f"{what}: {from_name_fn} uses unknown constant {c}")
        if v in fwd:
            die(f"{what}: {from_name_fn} maps two names to {v}")
        fwd[v] = cs[c]
    # get_name: Enum::Variant => CONST.to_owned()
    back = {}
    for m in re.finditer(enum + r"::([A-Za-z0-9_]+)\s*=>\s*([A-Z0-9_]+)\s*\.to_owned\(\)", fn_body(src, get_name_fn)):
        v, c = m.group(1), m.group(2)
        if c not in cs:
            die(f"{what}: {get_name_fn} uses unknown constant {c}")
        back[v] = cs[c]
    for v in variants:
        if v not in fwd:
            die(f"{what}: {from_name_fn} has no arm for {v}")
        if v not in back:
            die(f"{what}: {get_name_fn} has no arm for {v}")
        if fwd[v] != back[v]:
            die(f"{what}: {v} is read from {fwd[v]!r} but written as {back[v]!r}")
    if set(fwd) != set(variants) or set(back) != set(variants):
        die(f"{what}: arms for unknown variants")
    return variants, back


def lean_str(s):
    return '"' + s.replace("\\", "\\\\").replace('"', '\\"') + '"'


def main():
    nat = strip_comments(read("runtime/src/native_function_call.rs"))
    ops, opname = name_tables(nat, "Op", "new_from_name", "get_name", "native functions")
    arity = {}
    for m in re.finditer(r"Op::([A-Za-z0-9_]+)\s*=>\s*([0-9]+)\s*,", fn_body(nat, "get_number_of_parameters")):
        arity[m.group(1)] = int(m.group(2))
    for v in ops:
        if v not in arity:
            die(f"get_number_of_parameters has no literal arm for Op::{v}")

    cc = strip_comments(read("runtime/src/control_command.rs"))
    cmds, cmdname = name_tables(cc, "CommandType", "new_from_name", "get_name", "control commands")

    pp = strip_comments(read("runtime/src/push_pop.rs"))
    pps = enum_variants(pp, "PushPopType")
    codes = {}
    for m in re.finditer(r"([0-9]+)\s*=>\s*Ok\(\s*PushPopType::([A-Za-z0-9_]+)\s*\)", fn_body(pp, "from_value")):
        codes[m.group(2)] = int(m.group(1))
    for v in pps:
        if v not in codes:
            die(f"PushPopType::from_value has no arm for {v}")

    vt = strip_comments(read("runtime/src/value_type.rs"))
    vts = enum_variants(vt, "ValueType")

    # scalar constants the model copies
    def const_of(rel, name, ty):
        src = strip_comments(read(rel))
        m = re.search(r"(?:const|static)\s+" + name + r"\s*:\s*" + ty + r"\s*=\s*([^;]+);", src)
        if not m:
            die(f"constant {name} not found in {rel}")
        v = m.group(1).strip()
        if ty == "&str":
            mm = re.fullmatch(r'"([^"\\]*)"', v)
            if not mm:
                die(f"constant {name}: cannot read {v!r}")
            return mm.group(1)
        v = v.replace("_", "")
        if not re.fullmatch(r"[0-9]+", v):
            die(f"constant {name}: cannot read {v!r}")
        return int(v)
    nums = [("INK_SAVE_STATE_VERSION", const_of("runtime/src/story_state.rs", "INK_SAVE_STATE_VERSION", "u32")),
            ("MIN_COMPATIBLE_LOAD_VERSION", const_of("runtime/src/story_state.rs", "MIN_COMPATIBLE_LOAD_VERSION", "u32")),
            ("INK_VERSION_CURRENT", const_of("runtime/src/story/mod.rs", "INK_VERSION_CURRENT", "i32")),
            ("INK_VERSION_MINIMUM_COMPATIBLE", const_of("runtime/src/story/mod.rs", "INK_VERSION_MINIMUM_COMPATIBLE", "i32")),
            ("MAX_SHUFFLE_ELEMENTS", const_of("runtime/src/story/mod.rs", "MAX_SHUFFLE_ELEMENTS", "i32")),
            ("MAX_POINTER_CHAIN", const_of("runtime/src/variables_state.rs", "MAX_POINTER_CHAIN", "usize")),
            ("COUNTFLAGS_VISITS", const_of("runtime/src/container.rs", "COUNTFLAGS_VISITS", "i32")),
            ("COUNTFLAGS_TURNS", const_of("runtime/src/container.rs", "COUNTFLAGS_TURNS", "i32")),
            ("COUNTFLAGS_COUNTSTARTONLY", const_of("runtime/src/container.rs", "COUNTFLAGS_COUNTSTARTONLY", "i32"))]
    strs = [("DEFAULT_FLOW_NAME", const_of("runtime/src/story_state.rs", "DEFAULT_FLOW_NAME", "&str")),
            ("PARENT_ID", const_of("runtime/src/path.rs", "PARENT_ID", "&str"))]

    lines = ["-- GENERATED by translators/tables.py from /repo's Rust source on every run. Do not edit.",
             "namespace Ink.Generated", "",
             "/-- `Op` in declaration order: (variant, JSON name, number of parameters). -/",
             "def opRows : List (String × String × Nat) := ["]
    lines.append(",\n".join(f"  ({lean_str(v)}, {lean_str(opname[v])}, {arity[v]})" for v in ops) + "]")
    lines += ["", "/-- `CommandType` in declaration order: (variant, JSON name). -/",
              "def cmdRows : List (String × String) := ["]
    lines.append(",\n".join(f"  ({lean_str(v)}, {lean_str(cmdname[v])})" for v in cmds) + "]")
    lines += ["", "/-- `PushPopType` in declaration order: (variant, save code). -/",
              "def pushPopRows : List (String × Nat) := ["]
    lines.append(",\n".join(f"  ({lean_str(v)}, {codes[v]})" for v in pps) + "]")
    lines += ["", "/-- `ValueType` in declaration order (the cast ordinal). -/",
              "def valueTypeRows : List String := [" + ", ".join(lean_str(v) for v in vts) + "]",
              "", "/-- scalar constants of the runtime -/",
              "def numConsts : List (String × Nat) := [" + ", ".join(f"({lean_str(k)}, {v})" for k, v in nums) + "]",
              "def strConsts : List (String × String) := [" + ", ".join(f"({lean_str(k)}, {lean_str(v)})" for k, v in strs) + "]",
              "", "end Ink.Generated", ""]
    text = "\n".join(lines)
    old = None
    if os.path.exists(OUT):
        old = open(OUT, encoding="utf-8").read()
    if old != text:            # keep the mtime when nothing changed: no needless rebuild
        os.makedirs(os.path.dirname(OUT), exist_ok=True)
        with open(OUT, "w", encoding="utf-8") as f:
            f.write(text)
    print(f"tables.py: {len(ops)} native functions, {len(cmds)} control commands, {len(pps)} push/pop types, "
          f"{len(vts)} value types")


if __name__ == "__main__":
    main()
