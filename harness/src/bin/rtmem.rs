//! rtmem: the real bladeink under a counting allocator (C18).
//!   rtmem cycles <script> <n>   n times: create a player, run the script, drop the player; live bytes after each drop
//!   rtmem repeat <script> <n> <k>   one player: run the first k ops once, then the remaining ops n times; live bytes after each round
use std::alloc::{GlobalAlloc, Layout, System};
use std::sync::atomic::{AtomicIsize, Ordering};

use serde_json::{Value as J, json};
use verif_harness::{Player, install_quiet_panic_hook};

struct Counting;

static LIVE: AtomicIsize = AtomicIsize::new(0);

unsafe impl GlobalAlloc for Counting {
    unsafe fn alloc(&self, layout: Layout) -> *mut u8 {
        let p = unsafe { System.alloc(layout) };
        if !p.is_null() {
            LIVE.fetch_add(layout.size() as isize, Ordering::Relaxed);
        }
        p
    }

    unsafe fn dealloc(&self, ptr: *mut u8, layout: Layout) {
        unsafe { System.dealloc(ptr, layout) };
        LIVE.fetch_sub(layout.size() as isize, Ordering::Relaxed);
    }

    unsafe fn realloc(&self, ptr: *mut u8, layout: Layout, new_size: usize) -> *mut u8 {
        let p = unsafe { System.realloc(ptr, layout, new_size) };
        if !p.is_null() {
            LIVE.fetch_add(new_size as isize - layout.size() as isize, Ordering::Relaxed);
        }
        p
    }
}

#[global_allocator]
static ALLOC: Counting = Counting;

fn main() {
    install_quiet_panic_hook();
    let args: Vec<String> = std::env::args().collect();
    let mode = args.get(1).cloned().unwrap_or_default();
    let text = std::fs::read_to_string(&args[2]).expect("script");
    let ops: Vec<J> = text
        .lines()
        .filter(|l| !l.trim().is_empty())
        .map(|l| serde_json::from_str(l).unwrap_or(J::Null))
        .collect();
    let n: usize = args.get(3).and_then(|x| x.parse().ok()).unwrap_or(10);
    let mut live: Vec<isize> = Vec::with_capacity(n + 1);
    let mut panics = 0usize;
    match mode.as_str() {
        "cycles" => {
            for _ in 0..n {
                {
                    let mut p = Player::new();
                    for op in &ops {
                        let r = p.exec_caught(op);
                        if r["r"] == "panic" {
                            panics += 1;
                        }
                    }
                }
                live.push(LIVE.load(Ordering::Relaxed));
            }
        }
        "repeat" => {
            let k: usize = args.get(4).and_then(|x| x.parse().ok()).unwrap_or(1);
            let mut p = Player::new();
            for op in &ops[..k.min(ops.len())] {
                p.exec_caught(op);
            }
            for _ in 0..n {
                for op in &ops[k.min(ops.len())..] {
                    let r = p.exec_caught(op);
                    if r["r"] == "panic" {
                        panics += 1;
                    }
                }
                live.push(LIVE.load(Ordering::Relaxed));
            }
        }
        _ => {
            eprintln!("usage: rtmem cycles|repeat <script> <n> [k]");
            std::process::exit(2);
        }
    }
    println!("{}", json!({"live": live, "panics": panics}));
}
