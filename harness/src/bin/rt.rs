//! rt: run the real bladeink on a script.
//!   rt play <script>        one JSON array op per line -> one JSON result per line
//!   rt audit <story.json>   audit rows (C19/C14/C06)
//!   rt pathprobe            path texts on stdin (JSON strings), one probe row per line
//!   rt compile <file.ink>   compile with the repo compiler, print JSON or {"err":..}
use std::io::{BufRead, Write};

use bladeink::story::Story;
use serde_json::{Value as J, json};
use verif_harness::{Player, install_quiet_panic_hook, last_panic_loc};

fn main() {
    install_quiet_panic_hook();
    let args: Vec<String> = std::env::args().collect();
    let out = std::io::stdout();
    let mut out = std::io::BufWriter::new(out.lock());
    match args.get(1).map(|s| s.as_str()) {
        Some("play") => {
            let mut p = Player::new();
            if args[2] == "-" {
                // interactive: one op per stdin line, result flushed at once
                for line in std::io::stdin().lock().lines() {
                    let line = line.unwrap();
                    if line.trim().is_empty() {
                        continue;
                    }
                    let op: J = serde_json::from_str(&line).unwrap_or(J::Null);
                    let mut r = p.exec_caught(&op);
                    if r["r"] == "panic" {
                        r["loc"] = json!(last_panic_loc());
                    }
                    writeln!(out, "{}", r).unwrap();
                    out.flush().unwrap();
                }
                return;
            }
            let text = std::fs::read_to_string(&args[2]).expect("script");
            for line in text.lines() {
                if line.trim().is_empty() {
                    continue;
                }
                let op: J = serde_json::from_str(line).unwrap_or(J::Null);
                let mut r = p.exec_caught(&op);
                if r["r"] == "panic" {
                    r["loc"] = json!(last_panic_loc());
                }
                writeln!(out, "{}", r).unwrap();
            }
        }
        Some("audit") => {
            let text = std::fs::read_to_string(&args[2]).expect("story");
            let r = std::panic::catch_unwind(|| match Story::new(&text) {
                Ok(s) => s.verif_audit(),
                Err(e) => vec![json!({"t": "loaderr", "m": e.to_string()}).to_string()],
            });
            match r {
                Ok(rows) => {
                    for r in rows {
                        writeln!(out, "{}", r).unwrap();
                    }
                }
                Err(_) => {
                    writeln!(out, "{}", json!({"t": "panic", "loc": last_panic_loc()})).unwrap();
                }
            }
        }
        Some("pathprobe") => {
            for line in std::io::stdin().lock().lines() {
                let line = line.unwrap();
                let t: String = serde_json::from_str(&line).unwrap_or_default();
                writeln!(out, "{}", Story::verif_path_probe(&t)).unwrap();
            }
        }
        Some("compile") => {
            let src = std::fs::read_to_string(&args[2]).expect("ink");
            let r = std::panic::catch_unwind(|| bladeink_compiler::Compiler::new().compile(&src));
            match r {
                Ok(Ok(j)) => writeln!(out, "{}", j).unwrap(),
                Ok(Err(e)) => writeln!(out, "{}", json!({"err": e.to_string()})).unwrap(),
                Err(_) => writeln!(out, "{}", json!({"panic": last_panic_loc()})).unwrap(),
            }
        }
        Some("compilenamed") => {
            // as the command-line tool calls the library: with the source file's name
            let src = std::fs::read_to_string(&args[2]).expect("ink");
            let src = src.strip_prefix('\u{feff}').unwrap_or(&src).to_owned();
            let name = args[3].clone();
            let r = std::panic::catch_unwind(|| {
                bladeink_compiler::Compiler::with_options(bladeink_compiler::CompilerOptions {
                    count_all_visits: true,
                    source_filename: Some(name),
                })
                .compile(&src)
            });
            match r {
                Ok(Ok(j)) => writeln!(out, "{}", j).unwrap(),
                Ok(Err(e)) => writeln!(out, "{}", json!({"err": e.to_string()})).unwrap(),
                Err(_) => writeln!(out, "{}", json!({"panic": last_panic_loc()})).unwrap(),
            }
        }
        _ => {
            eprintln!("usage: rt play|audit|pathprobe|compile ...");
            std::process::exit(2);
        }
    }
}
