//! Shared pieces of the verification harness: the line-protocol player that
//! drives the real `bladeink::story::Story`, value encoding, event logging.
use std::{cell::RefCell, collections::HashMap, panic::AssertUnwindSafe, rc::Rc};

use bladeink::{
    story::{
        Story,
        errors::{ErrorHandler, ErrorType},
        external_functions::ExternalFunction,
        variable_observer::VariableObserver,
    },
    story_error::StoryError,
    value_type::ValueType,
};
use serde_json::{Value as J, json};

/// Canonical encoding of a `ValueType` (floats as bit patterns, list items sorted).
pub fn enc_value(v: &ValueType) -> J {
    match v {
        ValueType::Bool(b) => json!({"b": b}),
        ValueType::Int(i) => json!({"i": i}),
        ValueType::Float(f) => json!({"f": f.to_bits()}),
        ValueType::String(s) => json!({"s": s.string}),
        ValueType::List(l) => {
            let mut items: Vec<(i32, String, String)> = l
                .items
                .iter()
                .map(|(k, v)| {
                    (
                        *v,
                        k.get_origin_name().cloned().unwrap_or_default(),
                        k.get_item_name().to_string(),
                    )
                })
                .collect();
            items.sort();
            let items: Vec<J> = items
                .into_iter()
                .map(|(v, o, n)| json!([o, n, v]))
                .collect();
            json!({"l": items})
        }
        ValueType::DivertTarget(p) => json!({"dt": p.to_string()}),
        ValueType::VariablePointer(_) => json!({"vp": true}),
    }
}

pub fn dec_value(j: &J) -> Option<ValueType> {
    let o = j.as_object()?;
    if let Some(b) = o.get("b") {
        return Some(ValueType::Bool(b.as_bool()?));
    }
    if let Some(i) = o.get("i") {
        return Some(ValueType::Int(i.as_i64()? as i32));
    }
    if let Some(f) = o.get("f") {
        return Some(ValueType::Float(f32::from_bits(f.as_u64()? as u32)));
    }
    if let Some(s) = o.get("s") {
        return Some(ValueType::new::<&str>(s.as_str()?));
    }
    None
}

pub fn err_kind(e: &StoryError) -> (&'static str, String) {
    match e {
        StoryError::InvalidStoryState(m) => ("InvalidStoryState", m.clone()),
        StoryError::BadJson(m) => ("BadJson", m.clone()),
        StoryError::BadArgument(m) => ("BadArgument", m.clone()),
    }
}

pub type Events = Rc<RefCell<Vec<J>>>;

pub struct Obs {
    pub id: String,
    pub ev: Events,
}
impl VariableObserver for Obs {
    fn changed(&mut self, name: &str, value: &ValueType) {
        self.ev
            .borrow_mut()
            .push(json!(["obs", self.id, name, enc_value(value)]));
    }
}

pub struct Handler {
    pub ev: Events,
}
impl ErrorHandler for Handler {
    fn error(&mut self, message: &str, t: ErrorType) {
        let k = if t == ErrorType::Error { "E" } else { "W" };
        self.ev.borrow_mut().push(json!(["handler", k, message]));
    }
}

/// External function: logs the call (with the number of lines delivered to
/// the host so far) and returns according to `ret`:
/// null -> None; {"arg":k} -> argument k; {"sum":true} -> int sum of int args;
/// {"count":true} -> number of calls so far; otherwise a constant value.
pub struct Ext {
    pub id: String,
    pub ev: Events,
    pub ret: J,
    pub calls: i32,
    pub lines: Rc<RefCell<u64>>,
}
impl ExternalFunction for Ext {
    fn call(&mut self, name: &str, args: Vec<ValueType>) -> Option<ValueType> {
        self.calls += 1;
        let a: Vec<J> = args.iter().map(enc_value).collect();
        self.ev
            .borrow_mut()
            .push(json!(["ext", self.id, name, a, *self.lines.borrow()]));
        if self.ret.is_null() {
            return None;
        }
        if let Some(k) = self.ret.get("arg").and_then(|k| k.as_u64()) {
            return args.get(k as usize).cloned();
        }
        if self.ret.get("sum").is_some() {
            let mut s: i32 = 0;
            for a in &args {
                if let ValueType::Int(i) = a {
                    s = s.wrapping_add(*i);
                }
            }
            return Some(ValueType::Int(s));
        }
        if self.ret.get("count").is_some() {
            return Some(ValueType::Int(self.calls));
        }
        dec_value(&self.ret)
    }
}

pub struct Player {
    pub story: Option<Story>,
    pub ev: Events,
    pub observers: HashMap<String, Rc<RefCell<dyn VariableObserver>>>,
    pub slots: HashMap<String, String>,
    pub lines: Rc<RefCell<u64>>,
    pub globals: Vec<String>,
    pub counted: Vec<String>,
    /// names that have (had) an observer: their values are polled around
    /// story-running calls so that notifications for unchanged values can be dropped
    pub observed_vars: Vec<String>,
    /// values of the observed variables polled when the last story-running call
    /// started from a story that was not in the middle of a sliced continue
    pub polled: HashMap<String, J>,
}

fn res_ok(v: J) -> J {
    json!({"r": "ok", "v": v})
}
fn res_err(e: &StoryError) -> J {
    let (k, m) = err_kind(e);
    json!({"r": "err", "k": k, "m": m})
}

/// Normalise a save document: sort keys (serde_json without preserve_order does it;
/// with it we rebuild), keep everything else.
pub fn normalise(j: &J) -> J {
    match j {
        J::Object(m) => {
            let mut keys: Vec<&String> = m.keys().collect();
            keys.sort();
            let mut out = serde_json::Map::new();
            for k in keys {
                out.insert(k.clone(), normalise(&m[k]));
            }
            J::Object(out)
        }
        J::Array(a) => J::Array(a.iter().map(normalise).collect()),
        _ => j.clone(),
    }
}

impl Player {
    pub fn new() -> Self {
        Player {
            story: None,
            ev: Rc::new(RefCell::new(Vec::new())),
            observers: HashMap::new(),
            slots: HashMap::new(),
            lines: Rc::new(RefCell::new(0)),
            globals: Vec::new(),
            counted: Vec::new(),
            observed_vars: Vec::new(),
            polled: HashMap::new(),
        }
    }

    pub fn choices(story: &Story) -> J {
        let cs = story.get_current_choices();
        J::Array(
            cs.iter()
                .map(|c| json!({"text": c.text, "tags": c.tags, "index": *c.index.borrow()}))
                .collect(),
        )
    }

    /// Everything a host can observe without changing the story.
    pub fn observe(&mut self) -> J {
        let Some(story) = self.story.as_mut() else {
            return J::Null;
        };
        let active = story.verif_async_active();
        let text = story.get_current_text().ok();
        let tags = story.get_current_tags().ok();
        let mut vars = serde_json::Map::new();
        for g in &self.globals {
            vars.insert(
                g.clone(),
                story.get_variable(g).map(|v| enc_value(&v)).unwrap_or(J::Null),
            );
        }
        let mut counts = serde_json::Map::new();
        for c in &self.counted {
            counts.insert(
                c.clone(),
                json!(story.get_visit_count_at_path_string(c).unwrap_or(-999)),
            );
        }
        json!({
            "can": story.can_continue(), "text": text, "tags": tags,
            "choices": Self::choices(story), "vars": vars, "counts": counts,
            "errors": story.get_current_errors(), "warnings": story.get_current_warnings(),
            "async": active, "path": story.get_current_path(),
        })
    }

    /// Execute one op (a JSON array) and return its result object.
    pub fn exec(&mut self, op: &J) -> J {
        let a = op.as_array().cloned().unwrap_or_default();
        let name = a.first().and_then(|x| x.as_str()).unwrap_or("").to_string();
        let s = |i: usize| a.get(i).and_then(|x| x.as_str()).unwrap_or("").to_string();
        let n = |i: usize| a.get(i).and_then(|x| x.as_i64()).unwrap_or(0);
        let b = |i: usize| a.get(i).and_then(|x| x.as_bool()).unwrap_or(false);

        if name == "new" {
            let text = std::fs::read_to_string(s(1)).unwrap_or_default();
            return self.new_story(&text);
        }
        if name == "newtext" {
            return self.new_story(&s(1));
        }
        if name == "globals" {
            self.globals = a[1..].iter().map(|x| x.as_str().unwrap_or("").to_string()).collect();
            return res_ok(J::Null);
        }
        if name == "counted" {
            self.counted = a[1..].iter().map(|x| x.as_str().unwrap_or("").to_string()).collect();
            return res_ok(J::Null);
        }
        if name == "observe_all" {
            return res_ok(self.observe());
        }
        let ev = self.ev.clone();
        let lines = self.lines.clone();
        let Some(story) = self.story.as_mut() else {
            return json!({"r": "nostory"});
        };
        match name.as_str() {
            "handler" => {
                story.set_error_handler(Rc::new(RefCell::new(Handler { ev })));
                res_ok(J::Null)
            }
            "fallbacks" => {
                story.set_allow_external_function_fallbacks(b(1));
                res_ok(J::Null)
            }
            "seed" => {
                story.verif_set_seed(n(1) as i32, n(2) as i32);
                res_ok(J::Null)
            }
            "getseed" => {
                let (s, p) = story.verif_get_seed();
                res_ok(json!([s, p]))
            }
            "fuel" => {
                story.verif_set_fuel(if n(1) < 0 { None } else { Some(n(1) as u64) });
                res_ok(J::Null)
            }
            "stepclock" => {
                story.verif_set_step_clock(b(1));
                res_ok(J::Null)
            }
            "can" => res_ok(json!(story.can_continue())),
            "cont" => match story.cont() {
                Ok(t) => {
                    *lines.borrow_mut() += 1;
                    res_ok(json!(t))
                }
                Err(e) => res_err(&e),
            },
            "contasync" => match {
                story.verif_set_step_clock(true);
                story.continue_async(n(1) as f32)
            } {
                Ok(()) => {
                    let done = !story.verif_async_active();
                    if done {
                        *lines.borrow_mut() += 1;
                    }
                    res_ok(json!(done))
                }
                Err(e) => res_err(&e),
            },
            "maximally" => match story.continue_maximally() {
                Ok(t) => res_ok(json!(t)),
                Err(e) => res_err(&e),
            },
            "text" => match story.get_current_text() {
                Ok(t) => res_ok(json!(t)),
                Err(e) => res_err(&e),
            },
            "tags" => match story.get_current_tags() {
                Ok(t) => res_ok(json!(t)),
                Err(e) => res_err(&e),
            },
            "choices" => res_ok(Self::choices(story)),
            "choose" => match story.choose_choice_index(n(1) as usize) {
                Ok(()) => res_ok(J::Null),
                Err(e) => res_err(&e),
            },
            "path" => {
                let args: Option<Vec<ValueType>> = a.get(3).and_then(|x| x.as_array()).map(|v| {
                    v.iter().filter_map(dec_value).collect()
                });
                match story.choose_path_string(&s(1), b(2), args.as_ref()) {
                    Ok(()) => res_ok(J::Null),
                    Err(e) => res_err(&e),
                }
            }
            "getvar" => res_ok(story.get_variable(&s(1)).map(|v| enc_value(&v)).unwrap_or(J::Null)),
            "setvar" => match dec_value(&a[2]) {
                Some(v) => match story.set_variable(&s(1), &v) {
                    Ok(()) => res_ok(J::Null),
                    Err(e) => res_err(&e),
                },
                None => json!({"r": "badop"}),
            },
            "visit" => match story.get_visit_count_at_path_string(&s(1)) {
                Ok(c) => res_ok(json!(c)),
                Err(e) => res_err(&e),
            },
            "curpath" => res_ok(json!(story.get_current_path())),
            "save" => match story.save_state() {
                Ok(t) => {
                    self.slots.insert(s(1), t);
                    res_ok(J::Null)
                }
                Err(e) => res_err(&e),
            },
            "savejson" => match story.save_state() {
                Ok(t) => res_ok(normalise(&serde_json::from_str(&t).unwrap_or(J::Null))),
                Err(e) => res_err(&e),
            },
            "load" => {
                let Some(t) = self.slots.get(&s(1)).cloned() else {
                    return json!({"r": "badop"});
                };
                match story.load_state(&t) {
                    Ok(()) => res_ok(J::Null),
                    Err(e) => res_err(&e),
                }
            }
            // a save from a slot with one field damaged (C09: a rejected load must change nothing)
            "loadbad" => {
                let Some(t) = self.slots.get(&s(1)).cloned() else {
                    return json!({"r": "badop"});
                };
                let key = format!("\"{}\":", s(2));
                let bad = t.replace(&key, &format!("\"{}\":\"zero\",\"x-{}\":", s(2), s(2)));
                match story.load_state(&bad) {
                    Ok(()) => res_ok(J::Null),
                    Err(e) => res_err(&e),
                }
            }
            "loadtext" => match story.load_state(&s(1)) {
                Ok(()) => res_ok(J::Null),
                Err(e) => res_err(&e),
            },
            "reset" => match story.reset_state() {
                Ok(()) => res_ok(J::Null),
                Err(e) => res_err(&e),
            },
            "switch" => match story.switch_flow(&s(1)) {
                Ok(()) => res_ok(J::Null),
                Err(e) => res_err(&e),
            },
            "default" => {
                story.switch_to_default_flow();
                res_ok(J::Null)
            }
            "remove" => match story.remove_flow(&s(1)) {
                Ok(()) => res_ok(J::Null),
                Err(e) => res_err(&e),
            },
            "eval" => {
                let args: Option<Vec<ValueType>> = a.get(2).and_then(|x| x.as_array()).map(|v| {
                    v.iter().filter_map(dec_value).collect()
                });
                let mut out = String::new();
                match story.evaluate_function(&s(1), args.as_ref(), &mut out) {
                    Ok(v) => res_ok(json!({"ret": v.map(|v| enc_value(&v)), "text": out})),
                    Err(e) => res_err(&e),
                }
            }
            "observe" => {
                let id = s(2);
                let o = self
                    .observers
                    .entry(id.clone())
                    .or_insert_with(|| Rc::new(RefCell::new(Obs { id, ev })))
                    .clone();
                match story.observe_variable(&s(1), o) {
                    Ok(()) => {
                        if !self.observed_vars.contains(&s(1)) {
                            self.observed_vars.push(s(1));
                        }
                        res_ok(J::Null)
                    }
                    Err(e) => res_err(&e),
                }
            }
            "unobserve" => {
                let id = s(1);
                let o = self
                    .observers
                    .entry(id.clone())
                    .or_insert_with(|| Rc::new(RefCell::new(Obs { id, ev })))
                    .clone();
                let var = a.get(2).and_then(|x| x.as_str());
                match story.remove_variable_observer(&o, var) {
                    Ok(()) => res_ok(J::Null),
                    Err(e) => res_err(&e),
                }
            }
            "bind" => {
                let f = Rc::new(RefCell::new(Ext {
                    id: s(2),
                    ev,
                    ret: a.get(4).cloned().unwrap_or(J::Null),
                    calls: 0,
                    lines,
                }));
                match story.bind_external_function(&s(1), f, b(3)) {
                    Ok(()) => res_ok(J::Null),
                    Err(e) => res_err(&e),
                }
            }
            "unbind" => match story.unbind_external_function(&s(1)) {
                Ok(()) => res_ok(J::Null),
                Err(e) => res_err(&e),
            },
            "errors" => res_ok(json!(story.get_current_errors())),
            "warnings" => res_ok(json!(story.get_current_warnings())),
            "haserror" => res_ok(json!(story.has_error())),
            "gtags" => match story.get_global_tags() {
                Ok(t) => res_ok(json!(t)),
                Err(e) => res_err(&e),
            },
            "tagsat" => match story.tags_for_content_at_path(&s(1)) {
                Ok(t) => res_ok(json!(t)),
                Err(e) => res_err(&e),
            },
            "quiescence" => res_ok(story.verif_quiescence()),
            "audit" => {
                let rows: Vec<J> = story
                    .verif_audit()
                    .iter()
                    .map(|r| serde_json::from_str(r).unwrap_or(J::Null))
                    .collect();
                res_ok(J::Array(rows))
            }
            _ => json!({"r": "badop"}),
        }
    }

    fn new_story(&mut self, text: &str) -> J {
        self.observers.clear();
        *self.lines.borrow_mut() = 0;
        match Story::new(text) {
            Ok(mut s) => {
                // the construction budget (VERIF_NEW_FUEL) ends with the construction
                s.verif_set_fuel(None);
                self.story = Some(s);
                res_ok(J::Null)
            }
            Err(e) => {
                self.story = None;
                res_err(&e)
            }
        }
    }

    /// Execute one op under `catch_unwind`; attaches the callback events.
    pub fn exec_caught(&mut self, op: &J) -> J {
        self.ev.borrow_mut().clear();
        // Poll observed variables before calls that run story code: a
        // notification whose value equals the value before the call says
        // nothing (the engine records "changed" by Rc identity, not by value).
        let name = op.get(0).and_then(|x| x.as_str()).unwrap_or("");
        let runs_story = matches!(
            name,
            "cont" | "contasync" | "maximally" | "eval" | "reset" | "path" | "choose"
        );
        // (a sliced continue keeps the poll taken when its first slice started)
        if runs_story
            && let Some(story) = self.story.as_ref()
            && !story.verif_async_active()
        {
            self.polled.clear();
            for v in &self.observed_vars {
                self.polled.insert(
                    v.clone(),
                    story.get_variable(v).map(|x| enc_value(&x)).unwrap_or(J::Null),
                );
            }
        }
        let before = self.polled.clone();
        let r = std::panic::catch_unwind(AssertUnwindSafe(|| self.exec(op)));
        if runs_story {
            self.ev.borrow_mut().retain(|e| {
                !(e.get(0).and_then(|x| x.as_str()) == Some("obs")
                    && e.get(2)
                        .and_then(|n| n.as_str())
                        .and_then(|n| before.get(n))
                        .map(|b| Some(b) == e.get(3))
                        .unwrap_or(false))
            });
        }
        let mut out = match r {
            Ok(j) => j,
            Err(p) => {
                let msg = if let Some(s) = p.downcast_ref::<&str>() {
                    s.to_string()
                } else if let Some(s) = p.downcast_ref::<String>() {
                    s.clone()
                } else {
                    "?".into()
                };
                json!({"r": "panic", "m": msg})
            }
        };
        let evs: Vec<J> = self.ev.borrow().clone();
        if !evs.is_empty() {
            out["ev"] = J::Array(evs);
        }
        out
    }
}

impl Default for Player {
    fn default() -> Self {
        Self::new()
    }
}

thread_local! {
    pub static LAST_PANIC_LOC: RefCell<String> = const { RefCell::new(String::new()) };
}

/// Silence the default panic printer and remember the location instead.
pub fn install_quiet_panic_hook() {
    std::panic::set_hook(Box::new(|info| {
        let loc = info
            .location()
            .map(|l| format!("{}:{}", l.file(), l.line()))
            .unwrap_or_default();
        LAST_PANIC_LOC.with(|c| *c.borrow_mut() = loc);
    }));
}

pub fn last_panic_loc() -> String {
    LAST_PANIC_LOC.with(|c| c.borrow().clone())
}
