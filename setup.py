#!/usr/bin/env python3
"""MANIFEST.setup_cmd: build the harness (against /repo) and the Lean project, offline."""
import os, sys
sys.path.insert(0, os.path.dirname(os.path.abspath(__file__)))
from lib import common

def main():
    with common.BuildLock():
        common.build_harness([])
        try:
            common.build_harness(["stream"])
        except common.Broken as e:
            print("stream build failed:", str(e)[:500])
        common.run_translators(None)
        common.build_lean(("Ink", "Proofs", "inkmodel"))
    print("setup ok")

if __name__ == "__main__":
    try:
        main()
    except common.Broken as e:
        print(e)
        sys.exit(1)
