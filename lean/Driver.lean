import Driver.Main
