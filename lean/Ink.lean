import Ink.Basic
import Ink.Json
import Ink.Path
import Ink.Value
import Ink.Load
import Ink.Tree
import Ink.Audit
