/-
  C12 — External functions are called as bound: right arguments, order, timing.
  Theorems about `callExternalFunction` (Ink/Step), the only place where a
  bound host function is invoked.
-/
import Proofs.Lemmas.LoopLemmas

namespace Ink
namespace C12

open M

theorem alGet_alSet_self {β : Type} (l : List (String × β)) (k : String) (v : β) :
    alGet (alSet l k v) k = some v := by
  induction l with
  | nil => simp [alSet, alGet, List.find?]
  | cons kv rest ih =>
    obtain ⟨k0, v0⟩ := kv
    simp only [alSet]
    by_cases h0 : (k0 == k) = true
    · simp [h0, alGet, List.find?]
    · have h0' : (k0 == k) = false := by simpa using h0
      simp only [h0', Bool.false_eq_true, if_false, alGet, List.find?]
      simpa [alGet] using ih

/-- **unsafe_never_speculative.** A function bound as not look-ahead-safe,
    reached while a look-ahead snapshot exists (i.e. after a completed line that
    has not been delivered yet), is NOT invoked: the engine only raises the
    flag that makes the continue loop rewind to the snapshot (the call is then
    executed by the next continue, after the line has been delivered), and
    nothing else changes. -/
theorem unsafe_deferred (env : Env) (f : String) (n : Nat) (st : St) (d : ExtDef)
    (hd : alGet st.externals f = some d) (hs : d.safe = false)
    (hstr : st.s.inStringEvaluation = false) (hsnap : env.snapshotActive = true) :
    callExternalFunction env f n st = (.ok (), { st with sawUnsafe := true }) := by
  unfold callExternalFunction
  simp [bind, M.bind', M.getSt, M.setSt, hd, hs, hstr, hsnap, pure, M.pure']

/-- **unsafe_in_string_is_error.** A function bound as not look-ahead-safe that
    is reached inside string evaluation (a string expression or choice text) is
    refused with an error: it is not invoked (no call event, bindings and call
    counters untouched) and the story cannot continue. -/
theorem unsafe_in_string_is_error (env : Env) (f : String) (n : Nat) (st : St) (d : ExtDef)
    (hd : alGet st.externals f = some d) (hs : d.safe = false)
    (hstr : st.s.inStringEvaluation = true) :
    ∃ st', callExternalFunction env f n st = (.ok (), st') ∧ st'.events = st.events
      ∧ st'.externals = st.externals ∧ st'.s.canContinue = false := by
  unfold callExternalFunction
  simp only [bind, M.bind', M.getSt, hd, hs, hstr, Bool.not_false, Bool.and_self, if_true, addErrorM,
    Bool.false_eq_true, if_false, pure, M.pure']
  exact ⟨_, rfl, rfl, rfl, addErrorCore_cannot_continue _ _ _⟩

/-- Popping `n` value arguments returns them in push order (`ws` is the stack, top first). -/
theorem popArgs_values (f : String) (ws : List Val) (rest : List Obj) (st : St) (acc : List Val)
    (hstack : st.s.evalStack = (ws.map Obj.val) ++ rest) :
    callExternalFunction.popArgs f ws.length acc st
      = (.ok (ws.reverse ++ acc), { st with s := { st.s with evalStack := rest } }) := by
  induction ws generalizing st acc with
  | nil =>
    simp only [List.map_nil, List.nil_append] at hstack
    simp only [List.length_nil, callExternalFunction.popArgs, List.reverse_nil, List.nil_append, pure, M.pure']
    rw [← hstack]
  | cons w ws ih =>
    simp only [List.map_cons, List.cons_append] at hstack
    simp only [List.length_cons, callExternalFunction.popArgs, bind, M.bind', popEvalM, Core.popEval, hstack]
    have := ih { st with s := { st.s with evalStack := ws.map Obj.val ++ rest } } (w :: acc) rfl
    simp only at this
    rw [this]
    simp

/-- **safe_anywhere / ext_args_in_order.** A look-ahead-safe function is invoked
    wherever it is reached — inside a string, with or without a snapshot — with
    the top `n` values of the evaluation stack in push order; exactly one call
    event is logged and the call counter advances by one; the unsafe flag is
    never raised. -/
theorem safe_called (env : Env) (f : String) (st : St) (d : ExtDef) (ws : List Val) (rest : List Obj)
    (hd : alGet st.externals f = some d) (hs : d.safe = true)
    (hstack : st.s.evalStack = (ws.map Obj.val) ++ rest) :
    ∃ r st', callExternalFunction env f ws.length st = (r, st') ∧
      st'.events = Json.arr [.str "ext", .str d.id, .str f, .arr (ws.reverse.map encVal), .num env.lines] :: st.events
      ∧ alGet st'.externals f = some { d with calls := d.calls + 1 }
      ∧ st'.sawUnsafe = st.sawUnsafe := by
  unfold callExternalFunction
  simp only [bind, M.bind', M.getSt, hd, hs, Bool.not_true, Bool.false_and, Bool.false_eq_true, if_false]
  rw [popArgs_values f ws rest st [] hstack]
  simp only [List.append_nil, M.setSt, pushEvalM, M.liftS]
  cases hp : Core.pushEval env.defs { st.s with evalStack := rest }
      (match extReturn d ws.reverse with
        | some v => Obj.val v
        | none => Obj.void) with
  | ok s' => exact ⟨_, _, rfl, rfl, alGet_alSet_self _ _ _, rfl⟩
  | err k m => exact ⟨_, _, rfl, rfl, alGet_alSet_self _ _ _, rfl⟩
  | panic p => exact ⟨_, _, rfl, rfl, alGet_alSet_self _ _ _, rfl⟩

/-- An unsafe function reached with no snapshot and outside strings is invoked
    at once (the line before it, if any, has been delivered: no snapshot exists). -/
theorem unsafe_called_when_committed (env : Env) (f : String) (st : St) (d : ExtDef) (ws : List Val)
    (rest : List Obj) (hd : alGet st.externals f = some d) (hs : d.safe = false)
    (hstr : st.s.inStringEvaluation = false) (hsnap : env.snapshotActive = false)
    (hstack : st.s.evalStack = (ws.map Obj.val) ++ rest) :
    ∃ r st', callExternalFunction env f ws.length st = (r, st') ∧
      st'.events = Json.arr [.str "ext", .str d.id, .str f, .arr (ws.reverse.map encVal), .num env.lines] :: st.events := by
  unfold callExternalFunction
  simp only [bind, M.bind', M.getSt, hd, hs, hstr, hsnap, Bool.not_false, Bool.and_false, Bool.true_and,
    Bool.false_eq_true, if_false]
  rw [popArgs_values f ws rest st [] hstack]
  simp only [List.append_nil, M.setSt, pushEvalM, M.liftS]
  cases hp : Core.pushEval env.defs { st.s with evalStack := rest }
      (match extReturn d ws.reverse with
        | some v => Obj.val v
        | none => Obj.void) with
  | ok s' => exact ⟨_, _, rfl, rfl⟩
  | err k m => exact ⟨_, _, rfl, rfl⟩
  | panic p => exact ⟨_, _, rfl, rfl⟩

/-- **unbound_first_continue_err.** An unbound external with fallbacks disabled is an
    error of the step, never a panic, and no host function is invoked. -/
theorem unbound_no_fallback (env : Env) (f : String) (n : Nat) (st : St)
    (hd : alGet st.externals f = none) (hf : env.allowFallbacks = false) :
    ∃ m, callExternalFunction env f n st = (.err "InvalidStoryState" m, st) := by
  unfold callExternalFunction
  simp [bind, M.bind', M.getSt, hd, hf, M.invalid, M.fail]

/-- **unbound_fallback.** With fallbacks allowed, an unbound external whose name
    is a knot of the story diverts into that knot as a function call. -/
theorem unbound_fallback (env : Env) (f : String) (n : Nat) (st : St) (stp : Step) (cs : CallStack)
    (hd : alGet st.externals f = none) (hf : env.allowFallbacks = true)
    (hk : env.root.lookupName f = some stp)
    (hpush : st.s.callstack.push .function 0 st.s.output.length = some cs) :
    callExternalFunction env f n st
      = (.ok (), { st with s := { (st.s.setCallstack cs) with divertedPtr := Ptr.startOf [stp] } }) := by
  unfold callExternalFunction
  simp [bind, M.bind', M.getSt, hd, hf, hk, M.get, M.set, M.unwrap, hpush, pure, M.pure']

end C12
end Ink
