/-
  C04 — Story faults are reported as errors; the runtime never panics; integer
  arithmetic wraps to 32 bits; after an error a reset story is a fresh story.
-/
import Proofs.C13
import Proofs.C17

namespace Ink
namespace C04

open Story

/-! ### 1. Two's-complement wrap -/

theorem wrapI32_inRange (n : Int) : inI32 (wrapI32 n) = true := by
  unfold inI32 wrapI32 i32Min i32Max
  simp only [Bool.and_eq_true, decide_eq_true_eq]
  omega

theorem wrapI32_of_inRange {n : Int} (h : inI32 n = true) : wrapI32 n = n := by
  unfold inI32 i32Min i32Max at h
  simp only [Bool.and_eq_true, decide_eq_true_eq] at h
  unfold wrapI32
  omega

theorem wrapI32_congr (n : Int) : ∃ k : Int, wrapI32 n = n + k * 4294967296 := by
  refine ⟨-((n + 2147483648) / 4294967296), ?_⟩
  unfold wrapI32
  omega

/-- The wrap is the unique in-range representative of the residue class. -/
theorem wrapI32_unique {n m : Int} (hm : inI32 m = true) (k : Int) (h : m = n + k * 4294967296) :
    wrapI32 n = m := by
  unfold inI32 i32Min i32Max at hm
  simp only [Bool.and_eq_true, decide_eq_true_eq] at hm
  unfold wrapI32
  omega

theorem inI32_iff {n : Int} : inI32 n = true ↔ (-2147483648 ≤ n ∧ n ≤ 2147483647) := by
  unfold inI32 i32Min i32Max
  simp only [Bool.and_eq_true, decide_eq_true_eq]

example : wrapI32 (2147483647 + 1) = -2147483648 := by decide
example : wrapI32 (-2147483648 - 1) = 2147483647 := by decide
example : wrapI32 (65536 * 65536) = 0 := by decide
example : wrapI32 (-(-2147483648)) = -2147483648 := by decide
example : inI32 2147483647 = true ∧ inI32 2147483648 = false := by decide

/-! ### 2. Integer arithmetic of the native calls wraps -/

theorem int_add_wraps (defs : ListDefs) (x y : Int) :
    Native.call defs .add [.val (.int x), .val (.int y)] = .ok (.val (.int (wrapI32 (x + y)))) := rfl

theorem int_sub_wraps (defs : ListDefs) (x y : Int) :
    Native.call defs .subtract [.val (.int x), .val (.int y)] = .ok (.val (.int (wrapI32 (x - y)))) := rfl

theorem int_mul_wraps (defs : ListDefs) (x y : Int) :
    Native.call defs .multiply [.val (.int x), .val (.int y)] = .ok (.val (.int (wrapI32 (x * y)))) := rfl

theorem int_neg_wraps (defs : ListDefs) (x : Int) :
    Native.call defs .negate [.val (.int x)] = .ok (.val (.int (wrapI32 (-x)))) := rfl

example : Native.call [] .add [.val (.int 2147483647), .val (.int 1)] = .ok (.val (.int (-2147483648))) := by
  rw [int_add_wraps]; rfl
example : Native.call [] .multiply [.val (.int 65536), .val (.int 65536)] = .ok (.val (.int 0)) := by
  rw [int_mul_wraps]; rfl
example : Native.call [] .subtract [.val (.int (-2147483648)), .val (.int 1)] = .ok (.val (.int 2147483647)) := by
  rw [int_sub_wraps]; rfl
example : Native.call [] .negate [.val (.int (-2147483648))] = .ok (.val (.int (-2147483648))) := by
  rw [int_neg_wraps]; rfl

/-! ### 3. Division and remainder -/

/-- Reduction of an integer binary call to `Native.binary`. -/
theorem call_int_int (defs : ListDefs) (op : Op) (h : op.arity = 2) (x y : Int) :
    Native.call defs op [.val (.int x), .val (.int y)] =
      (match Native.binary op (.int x) (.int y) with
       | .ok v => .ok (.val v)
       | .err k m => .err k m
       | .panic s => .panic s) := by
  unfold Native.call
  simp only [h, List.length_cons, List.length_nil]
  rfl

theorem int_div_defined (defs : ListDefs) {x y : Int} (hy : y ≠ 0) (hov : ¬(x = i32Min ∧ y = -1)) :
    Native.call defs .divide [.val (.int x), .val (.int y)] = .ok (.val (.int (Int.tdiv x y))) := by
  rw [call_int_int defs .divide rfl]
  have hc : ¬(y = 0 ∨ (x = i32Min ∧ y = -1)) := by
    intro h; rcases h with h | h
    · exact hy h
    · exact hov h
  simp only [Native.binary, hc, if_false]

theorem int_div_fault (defs : ListDefs) {x y : Int} (h : y = 0 ∨ (x = i32Min ∧ y = -1)) :
    ∃ m, Native.call defs .divide [.val (.int x), .val (.int y)] = .err "InvalidStoryState" m := by
  rw [call_int_int defs .divide rfl]
  simp only [Native.binary, h, if_true, Out.invalid]
  exact ⟨_, rfl⟩

theorem int_mod_defined (defs : ListDefs) {x y : Int} (hy : y ≠ 0) (hov : ¬(x = i32Min ∧ y = -1)) :
    Native.call defs .mod [.val (.int x), .val (.int y)] = .ok (.val (.int (Int.tmod x y))) := by
  rw [call_int_int defs .mod rfl]
  have hc : ¬(y = 0 ∨ (x = i32Min ∧ y = -1)) := by
    intro h; rcases h with h | h
    · exact hy h
    · exact hov h
  simp only [Native.binary, hc, if_false]

theorem int_mod_fault (defs : ListDefs) {x y : Int} (h : y = 0 ∨ (x = i32Min ∧ y = -1)) :
    ∃ m, Native.call defs .mod [.val (.int x), .val (.int y)] = .err "InvalidStoryState" m := by
  rw [call_int_int defs .mod rfl]
  simp only [Native.binary, h, if_true, Out.invalid]
  exact ⟨_, rfl⟩

example : Native.call [] .divide [.val (.int 7), .val (.int (-2))] = .ok (.val (.int (-3))) :=
  int_div_defined [] (by decide) (by decide)
example : Native.call [] .mod [.val (.int (-7)), .val (.int 2)] = .ok (.val (.int (-1))) :=
  int_mod_defined [] (by decide) (by decide)
example : ∃ m, Native.call [] .divide [.val (.int 1), .val (.int 0)] = .err "InvalidStoryState" m :=
  int_div_fault [] (Or.inl rfl)
example : ∃ m, Native.call [] .divide [.val (.int i32Min), .val (.int (-1))] = .err "InvalidStoryState" m :=
  int_div_fault [] (Or.inr ⟨rfl, rfl⟩)
example : ∃ m, Native.call [] .mod [.val (.int 1), .val (.int 0)] = .err "InvalidStoryState" m :=
  int_mod_fault [] (Or.inl rfl)
example : ∃ m, Native.call [] .mod [.val (.int i32Min), .val (.int (-1))] = .err "InvalidStoryState" m :=
  int_mod_fault [] (Or.inr ⟨rfl, rfl⟩)

/-! ### 4. Integer results stay inside the 32-bit range -/

theorem tdiv_inRange {x y : Int} (hx : inI32 x = true) (hov : ¬(x = i32Min ∧ y = -1)) :
    inI32 (Int.tdiv x y) = true := by
  rw [inI32_iff] at hx ⊢
  unfold i32Min at hov
  by_cases h1 : y = 1
  · subst h1; rw [Int.tdiv_one]; exact hx
  · by_cases h2 : y = -1
    · subst h2
      rw [show (-1 : Int) = -(1 : Int) from rfl, Int.tdiv_neg, Int.tdiv_one]
      omega
    · by_cases h0 : y = 0
      · subst h0; simp
      · have hk : (Int.tdiv x y).natAbs = x.natAbs / y.natAbs := Int.natAbs_tdiv x y
        have hy2 : 2 ≤ y.natAbs := by omega
        have hle : x.natAbs / y.natAbs ≤ x.natAbs / 2 := Nat.div_le_div_left hy2 (by decide)
        omega

theorem tmod_inRange {x : Int} (hx : inI32 x = true) (y : Int) : inI32 (Int.tmod x y) = true := by
  rw [inI32_iff] at hx ⊢
  have hk : (Int.tmod x y).natAbs = x.natAbs % y.natAbs := Int.natAbs_tmod x y
  have hle : x.natAbs % y.natAbs ≤ x.natAbs := Nat.mod_le _ _
  have hs : 0 ≤ x → 0 ≤ Int.tmod x y := fun h => Int.tmod_nonneg y h
  have hn : x ≤ 0 → Int.tmod x y ≤ 0 := by
    intro h
    have h1 : 0 ≤ Int.tmod (-x) y := Int.tmod_nonneg y (by omega)
    rw [Int.neg_tmod] at h1
    omega
  omega

/-- Every integer result of a binary operation on two in-range integers is in
    range (`y` in range is not even needed). -/
theorem int_results_inRange {op : Op} {x y z : Int} (hx : inI32 x = true) (hy : inI32 y = true)
    (h : Native.binary op (.int x) (.int y) = .ok (.int z)) : inI32 z = true := by
  cases op <;> simp only [Native.binary, Native.notAvailable, Out.invalid, Out.ok.injEq, Val.int.injEq,
    reduceCtorEq] at h
  · -- add
    cases h; exact wrapI32_inRange _
  · -- subtract
    cases h; exact wrapI32_inRange _
  · -- divide
    split at h
    · cases h
    · rename_i hc
      cases h
      exact tdiv_inRange hx (fun hh => hc (Or.inr hh))
  · -- multiply
    cases h; exact wrapI32_inRange _
  · -- mod
    split at h
    · cases h
    · cases h; exact tmod_inRange hx y
  · -- min
    cases h; split <;> assumption
  · -- max
    cases h; split <;> assumption

theorem int_unary_inRange {defs : ListDefs} {op : Op} {x z : Int} (hx : inI32 x = true)
    (h : Native.unary defs op (.int x) = .ok (.int z)) : inI32 z = true := by
  cases op <;> simp only [Native.unary, Native.notAvailable, Out.invalid, Out.ok.injEq, Val.int.injEq,
    reduceCtorEq] at h
  · cases h; exact wrapI32_inRange _
  · cases h; exact hx
  · cases h; exact hx
  · cases h; exact hx

/-- `f32 as i32` (saturating) lands in range, by the bounds of `Int32`. -/
theorem toI32_inRange (f : Float32) : inI32 (F32.toI32 f) = true := by
  rw [inI32_iff]
  unfold F32.toI32
  have h1 := Int32.le_toInt f.toInt32
  have h2 := Int32.toInt_lt f.toInt32
  omega

/-- The unary operations that go through a float (`INT(f)`) also give in-range integers. -/
theorem float_unary_inRange {defs : ListDefs} {op : Op} {f : Float32} {z : Int}
    (h : Native.unary defs op (.float f) = .ok (.int z)) : inI32 z = true := by
  cases op <;> simp only [Native.unary, Native.notAvailable, Out.invalid, Out.ok.injEq, Val.int.injEq,
    reduceCtorEq] at h
  cases h; exact toI32_inRange f

example : inI32 (Int.tdiv (-2147483648) 1) = true := tdiv_inRange (by decide) (by decide)
example : Native.binary .divide (.int (-2147483648)) (.int 1) = .ok (.int (-2147483648)) := rfl
example : Native.unary [] .negate (.int (-2147483648)) = .ok (.int (-2147483648)) := rfl

/-! ### 5. Native calls never panic -/

theorem binary_no_panic (op : Op) (a b : Val) (s : String) : Native.binary op a b ≠ .panic s := by
  unfold Native.binary
  split <;> first
    | (intro h; cases h)
    | (split <;> (intro h; cases h))

theorem unary_no_panic (defs : ListDefs) (op : Op) (a : Val) (s : String) :
    Native.unary defs op a ≠ .panic s := by
  unfold Native.unary
  split <;> (intro h; cases h)

theorem isTruthy_no_panic (v : Val) (s : String) : v.isTruthy ≠ .panic s := by
  cases v <;> (intro h; cases h)

/-- A cast to a destination type at or above the value's own ordinal never
    panics (the `parse().unwrap()` of a string is only reached for a lower type). -/
theorem cast_no_panic (v : Val) (dest : Nat) (h : v.castOrdinal ≤ dest) (s : String) :
    v.cast dest ≠ .panic s := by
  cases v <;> simp only [Val.cast, Val.castOrdinal, Out.invalid] at h ⊢
  all_goals (repeat' split) <;> first
    | (intro h'; cases h'; done)
    | omega

/-- One step of the fold in `Native.destType`. -/
def destStep (d : Nat) (o : Obj) : Nat :=
  match o with
  | .val v => if v.castOrdinal > d then v.castOrdinal else d
  | _ => d

theorem destType_eq (ps : List Obj) : Native.destType ps = ps.foldl destStep 1 := rfl

theorem destStep_ge (d : Nat) (o : Obj) : d ≤ destStep d o := by
  unfold destStep
  split
  · split <;> omega
  · exact Nat.le_refl _

/-- The fold of `destType` is at least its start value and at least the cast
    ordinal of every value in the list. -/
theorem destFold_ge (ps : List Obj) (d : Nat) :
    d ≤ ps.foldl destStep d ∧ ∀ v, Obj.val v ∈ ps → v.castOrdinal ≤ ps.foldl destStep d := by
  induction ps generalizing d with
  | nil => exact ⟨Nat.le_refl _, fun v hv => by cases hv⟩
  | cons p ps ih =>
    simp only [List.foldl_cons]
    obtain ⟨i1, i2⟩ := ih (destStep d p)
    refine ⟨Nat.le_trans (destStep_ge d p) i1, ?_⟩
    intro v hv
    rcases List.mem_cons.mp hv with hv | hv
    · subst hv
      refine Nat.le_trans ?_ i1
      simp only [destStep]
      split <;> omega
    · exact i2 v hv

/-- `coerce_values_to_single_type` chooses a destination no value has to be cast down to. -/
theorem destType_ge (ps : List Obj) (v : Val) (hv : Obj.val v ∈ ps) : v.castOrdinal ≤ Native.destType ps := by
  rw [destType_eq]; exact (destFold_ge ps 1).2 v hv

theorem coerceAll_no_panic (dest : Nat) (ps : List Obj)
    (h : ∀ v, Obj.val v ∈ ps → v.castOrdinal ≤ dest) :
    ∀ s, Native.coerceAll dest ps ≠ .panic s := by
  induction ps with
  | nil => intro s h'; cases h'
  | cons p ps ih =>
    have ih' := ih (fun v hv => h v (List.mem_cons_of_mem _ hv))
    cases p with
    | val v =>
      have hc := cast_no_panic v dest (h v (List.mem_cons_self ..))
      intro s
      unfold Native.coerceAll
      split
      · split
        · intro h'; cases h'
        · intro h'; cases h'
        · rename_i s' heq
          exact absurd heq (ih' s')
      · intro h'; cases h'
      · rename_i s' heq
        exact absurd heq (hc s')
    | _ => intro s h'; cases h'

theorem coerceAll_length (dest : Nat) (ps : List Obj) (vs : List Val)
    (h : Native.coerceAll dest ps = .ok vs) : vs.length = ps.length := by
  induction ps generalizing vs with
  | nil => cases h; rfl
  | cons p ps ih =>
    cases p with
    | val v =>
      unfold Native.coerceAll at h
      split at h
      · split at h
        · rename_i vs' heq
          cases h
          simp only [List.length_cons, ih vs' heq]
        · cases h
        · cases h
      · cases h
      · cases h
    | _ => cases h

theorem binaryList_no_panic (defs : ListDefs) (op : Op) (v0 v1 : Val) (s : String) :
    Native.binaryList defs op (.val v0) (.val v1) ≠ .panic s := by
  unfold Native.binaryList
  split
  · intro h; cases h
  · intro h; cases h
  · rename_i w0 w1 _ _
    split
    · split
      · split
        · split
          · split
            · intro h; cases h
            · intro h; cases h
            · rename_i s' heq; exact absurd heq (isTruthy_no_panic _ s')
          · intro h; cases h
        · split
          · intro h; cases h
          · split
            · intro h; cases h
            · intro h; cases h
            · rename_i s' heq; exact absurd heq (isTruthy_no_panic _ s')
      · intro h; cases h
      · rename_i s' heq; exact absurd heq (isTruthy_no_panic _ s')
    · split
      · exact binary_no_panic _ _ _ s
      · intro h; cases h
  · rename_i hne _ _
    exact absurd rfl (hne v0 v1 rfl)

/-- **The runtime never panics in a native call**: on values (or void) every
    fault — wrong types, wrong arity, void operand, undefined division — is an
    `err`.  The three `panic` sites of `Ink/Native.lean` are unreachable. -/
theorem native_call_no_panic (defs : ListDefs) (op : Op) (ps : List Obj)
    (hps : ∀ p ∈ ps, (∃ v, p = .val v) ∨ p = .void) : ∀ s, Native.call defs op ps ≠ .panic s := by
  intro s
  have hco : ∀ s', Native.coerceAll (Native.destType ps) ps ≠ .panic s' :=
    coerceAll_no_panic _ ps (fun v hv => destType_ge ps v hv)
  unfold Native.call
  split
  · intro h; cases h
  · split
    · intro h; cases h
    · rename_i hvoid
      have hval : ∀ p ∈ ps, ∃ v, p = .val v := by
        intro p hp
        rcases hps p hp with hv | hv
        · exact hv
        · subst hv
          exfalso; apply hvoid
          exact List.any_eq_true.mpr ⟨_, hp, rfl⟩
      rcases ps with _ | ⟨p0, _ | ⟨p1, _ | ⟨p2, rest⟩⟩⟩
      · intro h; cases h
      · simp only
        split
        · split
          · intro h; cases h
          · intro h; cases h
          · rename_i s' heq; exact absurd heq (unary_no_panic _ _ _ s')
        · rename_i vs hne heq
          have hl := coerceAll_length _ _ _ heq
          match vs, hl, hne with
          | [a], _, hne => exact absurd rfl (hne a)
        · intro h; cases h
        · rename_i s' heq; exact absurd heq (hco s')
      · obtain ⟨v0, rfl⟩ := hval p0 (by simp)
        obtain ⟨v1, rfl⟩ := hval p1 (by simp)
        simp only
        split
        · split
          · intro h; cases h
          · intro h; cases h
          · rename_i s' heq; exact absurd heq (binaryList_no_panic defs op v0 v1 s')
        · split
          · split
            · intro h; cases h
            · intro h; cases h
            · rename_i s' heq; exact absurd heq (binary_no_panic _ _ _ s')
          · rename_i vs hne heq
            have hl := coerceAll_length _ _ _ heq
            match vs, hl, hne with
            | [a, b], _, hne => exact absurd rfl (hne a b)
          · intro h; cases h
          · rename_i s' heq; exact absurd heq (hco s')
      · intro h; cases h

/-- Packaged: a native call on values ends in `ok` or `err`. -/
theorem native_call_ok_or_err (defs : ListDefs) (op : Op) (ps : List Obj)
    (hps : ∀ p ∈ ps, (∃ v, p = .val v) ∨ p = .void) :
    (∃ o, Native.call defs op ps = .ok o) ∨ (∃ k m, Native.call defs op ps = .err k m) := by
  cases h : Native.call defs op ps with
  | ok o => exact Or.inl ⟨o, rfl⟩
  | err k m => exact Or.inr ⟨k, m, rfl⟩
  | panic s => exact absurd h (native_call_no_panic defs op ps hps s)

/-- Integer results of a whole native call on two in-range integers are in range. -/
theorem int_call_results_inRange {defs : ListDefs} {op : Op} {x y z : Int}
    (hx : inI32 x = true) (hy : inI32 y = true)
    (h : Native.call defs op [.val (.int x), .val (.int y)] = .ok (.val (.int z))) : inI32 z = true := by
  by_cases ha : op.arity = 2
  · rw [call_int_int defs op ha] at h
    split at h
    · rename_i v heq
      cases h
      exact int_results_inRange hx hy heq
    · cases h
    · cases h
  · unfold Native.call at h
    have : op.arity ≠ [Obj.val (.int x), Obj.val (.int y)].length := ha
    simp only [this, ne_eq, not_false_eq_true, if_true, Out.invalid] at h
    cases h

-- wrong operand types: an error, not a panic
example : Native.call [] .subtract [.val (.str "a"), .val (.str "b")]
    = .err "InvalidStoryState" "Operation not available for type." := rfl
-- void operand
example : ∃ m, Native.call [] .add [.void, .val (.int 1)] = .err "InvalidStoryState" m := ⟨_, rfl⟩
-- wrong arity
example : Native.call [] .add [.val (.int 1)] = .err "InvalidStoryState" "Unexpected number of parameters" := rfl
-- a string cannot be cast up to a divert target: `err`
example : Native.call [] .add [.val (.dtarget ⟨[], false⟩), .val (.str "a")]
    = .err "InvalidStoryState" "Cast not allowed for string" := rfl
-- a string is never parsed: the other operand is cast up to string
example : Native.call [] .add [.val (.str "a"), .val (.int 1)] = .ok (.val (.str ("a" ++ intToString 1))) := rfl
-- the hypothesis of `native_call_no_panic` is instantiated by these calls
example : ∀ s, Native.call [] .subtract [.val (.str "a"), .val (.str "b")] ≠ .panic s :=
  native_call_no_panic [] .subtract _ (by
    intro p hp
    simp only [List.mem_cons, List.mem_nil_iff, or_false] at hp
    rcases hp with rfl | rfl <;> exact Or.inl ⟨_, rfl⟩)
-- and it is needed: a non-value operand next to a list reaches the Rust downcast `unwrap`
example : Native.call [] .add [.val (.list InkList.empty), .glue]
    = .panic "native_function_call.rs:binary_list_downcast" := rfl

/-! ### 6. The evaluation stack never panics on underflow -/

theorem popEval_no_panic (s : Core) : ∀ site, s.popEval ≠ .panic site := by
  intro site
  unfold Core.popEval
  split <;> (intro h; cases h)

theorem popEvalMultiple_no_panic (s : Core) (n : Nat) : ∀ site, s.popEvalMultiple n ≠ .panic site := by
  intro site
  unfold Core.popEvalMultiple
  split <;> (intro h; cases h)

/-- Underflow is reported as a story error. -/
theorem popEval_underflow (s : Core) (h : s.evalStack = []) :
    s.popEval = .err "InvalidStoryState" "Evaluation stack is empty: nothing to pop." := by
  unfold Core.popEval
  rw [h]; rfl

theorem popEvalMultiple_underflow (s : Core) (n : Nat) (h : s.evalStack.length < n) :
    ∃ m, s.popEvalMultiple n = .err "InvalidStoryState" m := by
  unfold Core.popEvalMultiple
  have : ¬ n ≤ s.evalStack.length := by omega
  simp only [this, if_false, Out.invalid]
  exact ⟨_, rfl⟩

theorem popEval_ok (s : Core) (o : Obj) (rest : List Obj) (h : s.evalStack = o :: rest) :
    s.popEval = .ok (o, { s with evalStack := rest }) := by
  unfold Core.popEval
  rw [h]

example : ∀ site, (Core.fresh 0).popEval ≠ .panic site := popEval_no_panic _
example : (Core.fresh 0).popEval = .err "InvalidStoryState" "Evaluation stack is empty: nothing to pop." :=
  popEval_underflow _ rfl
example : ∃ m, (Core.fresh 0).popEvalMultiple 2 = .err "InvalidStoryState" m :=
  popEvalMultiple_underflow _ 2 (by decide)

/-! ### 7. An error inside a step is recorded in the story

  In the model (as in the Rust) `continue_single_step` itself *propagates* a
  step's `Err`; it is its only caller, the loop of `continue_internal`
  (`Story.stepLoop`), that catches it with `add_error(msg, false)` and ends the
  loop normally.  So the recording is a statement about the loop. -/

/-- The model's `continueSingleStep` hands a step's error to its caller unchanged … -/
theorem continueSingleStep_step_err (st : Story) (k m : String) (st1 : Story)
    (h : st.runM (step st.env) = (.err k m, st1)) : st.continueSingleStep = (.err k m, st1) := by
  unfold Story.continueSingleStep
  rw [h]

/-- … and never turns it into a panic or a fabricated error: an `err` of
    `continueSingleStep` is the `err` of the step or of the default-choice follow-up. -/
theorem continueSingleStep_err_origin (st : Story) (k m : String) (st2 : Story)
    (h : st.continueSingleStep = (.err k m, st2)) :
    st.runM (step st.env) = (.err k m, st2)
    ∨ ∃ st1, st.runM (step st.env) = (.ok (), st1)
        ∧ st1.runM (tryFollowDefaultInvisibleChoice st1.env) = (.err k m, st2) := by
  unfold Story.continueSingleStep at h
  split at h
  · rename_i k' m' st1' heq
    simp only [Prod.mk.injEq, Out.err.injEq] at h
    obtain ⟨⟨rfl, rfl⟩, rfl⟩ := h
    left; exact heq
  · cases h
  · rename_i st1 heq
    right
    refine ⟨st1, heq, ?_⟩
    simp only at h
    split at h
    · rename_i k' m' st2' heq2
      simp only [Prod.mk.injEq, Out.err.injEq] at h
      obtain ⟨⟨rfl, rfl⟩, rfl⟩ := h
      split at heq2
      · exact heq2
      · cases heq2
    · cases h
    · exfalso
      split at h
      · cases h
      · split at h
        · cases h
        · split at h
          · split at h <;> cases h
          · cases h

theorem addError_errors (st : Story) (m : String) :
    (st.addError m false).core.errors = st.core.errors ++ [errorText st.root st.core m false] := by
  unfold Story.addError
  simp only [Bool.false_eq_true, if_false, Story.setCore, Story.core, addErrorCore]
  rw [forceEnd_errors]
  rfl

theorem addError_hasError (st : Story) (m : String) : (st.addError m false).state.hasError = true := by
  have h := addError_errors st m
  unfold Story.core at h
  unfold StoryState.hasError Core.hasError
  rw [h]
  simp

/-- **step_error_recorded.**  When a single step of the loop ends in `err k m`
    (the verification budget not being exhausted), the loop stops with `ok`
    (`LoopEnd.error`, neither an `err` nor a `panic`), the message is appended to
    the story's error list, the story has an error and cannot continue. -/
theorem step_error_recorded (b : Option Nat) (fuel steps : Nat) (st : Story) (k m : String) (st1 : Story)
    (hf : (st.fuel == some 0) = false)
    (h : ({ st with fuel := st.fuel.map (· - 1) } : Story).continueSingleStep = (.err k m, st1)) :
    stepLoop b (fuel + 1) steps st = (.ok .error, st1.addError m false)
    ∧ (st1.addError m false).core.errors = st1.core.errors ++ [errorText st1.root st1.core m false]
    ∧ (st1.addError m false).state.hasError = true
    ∧ (st1.addError m false).canContinue = false := by
  refine ⟨?_, addError_errors st1 m, addError_hasError st1 m, addError_cannot_continue st1 m⟩
  unfold stepLoop
  simp only [hf, Bool.false_eq_true, if_false, h]

/-- The same, from the interpreter step proper. -/
theorem step_error_recorded' (b : Option Nat) (fuel steps : Nat) (st : Story) (k m : String) (st1 : Story)
    (hf : (st.fuel == some 0) = false)
    (h : ({ st with fuel := st.fuel.map (· - 1) } : Story).runM (step st.env) = (.err k m, st1)) :
    stepLoop b (fuel + 1) steps st = (.ok .error, st1.addError m false)
    ∧ (st1.addError m false).state.hasError = true
    ∧ (st1.addError m false).canContinue = false := by
  have h' := continueSingleStep_step_err ({ st with fuel := st.fuel.map (· - 1) } : Story) k m st1 h
  obtain ⟨a, _, c, d⟩ := step_error_recorded b fuel steps st k m st1 hf h'
  exact ⟨a, c, d⟩

/-- Whatever a step does, the loop around it never ends in an `err` outcome. -/
theorem loop_never_errs (b : Option Nat) (fuel steps : Nat) (st : Story) (k m : String) (s1 : Story) :
    stepLoop b fuel steps st ≠ (.err k m, s1) := C17.stepLoop_no_err b fuel steps st k m s1


/-! ### Concrete stories for the non-vacuity examples -/

/-- A program whose first instruction is `+` on an empty evaluation stack. -/
def exRoot : Obj := .container none 0 [.native .add] []

def exStory : Story :=
  { root := exRoot, defs := [], state := StoryState.fresh 0, snapshot := none,
    recCount := 0, asyncActive := false, sawUnsafe := false, validated := false,
    allowFallbacks := false, handler := false, observers := [], externals := [], events := [],
    lines := 0, fuel := none, stepClock := false }

/-- The same story after a recorded error. -/
def exFaulted : Story := exStory.addError "boom" false

theorem exFaulted_hasError : exFaulted.state.hasError = true := addError_hasError _ _

theorem exFaulted_quiescent : C17.Quiescent exFaulted :=
  ⟨(addError_snapshot _ _ _).trans rfl, (addError_same exStory "boom" false).recCount.trans rfl,
   (addError_same exStory "boom" false).asyncActive.trans rfl, (addError_sawUnsafe _ _ _).trans rfl⟩

-- the step of `exStory` (a `+` with nothing on the evaluation stack) ends in `err`
example : ∃ m st1, exStory.runM (step exStory.env) = (.err "InvalidStoryState" m, st1) := ⟨_, _, rfl⟩
-- so the hypotheses of `step_error_recorded'` are satisfiable, and the loop records the error
example : ∃ st', stepLoop none 1 0 exStory = (.ok .error, st') ∧ st'.state.hasError = true
    ∧ st'.canContinue = false :=
  ⟨_, step_error_recorded' none 0 0 exStory "InvalidStoryState" _ _ rfl rfl⟩
example : exStory.canContinue = true := rfl

/-! ### 8. A recorded error is reported to the host -/

/-- **error_is_reported.**  A story with a recorded error: without a handler the
    delivery block fails with a `StoryError` that quotes the first error, and
    nothing is cleared; with a handler every recorded error (then every warning)
    is handed to the handler exactly once, in order, and the lists are emptied. -/
theorem error_is_reported (st : Story) (he : st.state.hasError = true) :
    (st.handler = false → st.deliver = (.err "InvalidStoryState" (noHandlerMessage st.state), st))
    ∧ (st.handler = true → ∃ st', st.deliver = (.ok (), st')
        ∧ st'.events = (C13.handlerEvents st.core.errors st.state.warnings).reverse ++ st.events
        ∧ st.core.errors ≠ []
        ∧ st'.core.errors = [] ∧ st'.state.warnings = []) := by
  constructor
  · intro hh
    exact C13.deliver_no_handler_error st hh he
  · intro hh
    obtain ⟨st', h1, h2, h3, h4, _⟩ := C13.deliver_handler_pending st hh (by simp [he])
    refine ⟨st', h1, h2, ?_, h3, h4⟩
    intro hnil
    unfold StoryState.hasError Core.hasError at he
    unfold Story.core at hnil
    simp [hnil] at he

/-- and until then the story stays stopped. -/
theorem error_blocks_continue (st : Story) (he : st.state.hasError = true) (fuel : Nat)
    (ha : st.asyncActive = false) (b : Option Nat) :
    st.continueInternal b fuel = (.err "InvalidStoryState" cannotContinueMsg, st) := by
  unfold Story.continueInternal
  simp [ha, C13.error_stops_story st he, Out.invalid]

example : exFaulted.handler = false ∧ exFaulted.state.hasError = true := ⟨rfl, exFaulted_hasError⟩
example : exFaulted.deliver = (.err "InvalidStoryState" (noHandlerMessage exFaulted.state), exFaulted) :=
  (error_is_reported exFaulted exFaulted_hasError).1 rfl
example : ∃ st', ({ exFaulted with handler := true } : Story).deliver = (.ok (), st') ∧ st'.core.errors = [] := by
  obtain ⟨st', h1, _, _, h4, _⟩ :=
    (error_is_reported ({ exFaulted with handler := true } : Story) exFaulted_hasError).2 rfl
  exact ⟨st', h1, h4⟩

/-! ### 9. Reset after an error -/

theorem blankWith_no_error (st : Story) (seed : Int) :
    (C17.blankWith st seed).state.hasError = false ∧ (C17.blankWith st seed).state.hasWarning = false :=
  ⟨rfl, rfl⟩

/-- **reset_after_error_fresh.**  Resetting a quiescent story that has errors
    recorded gives exactly the freshly constructed story: `reset_globals` run on
    the blank state, which has no error and no warning. -/
theorem reset_after_error_fresh (st : Story) (seed : Int) (hq : C17.Quiescent st)
    (_he : st.state.hasError = true) :
    st.resetState seed = (C17.blankWith st seed).resetGlobals
    ∧ (C17.blankWith st seed).state.hasError = false
    ∧ (C17.blankWith st seed).state.hasWarning = false :=
  ⟨C17.reset_eq_fresh st seed hq, rfl, rfl⟩

/-- Nothing of the old state survives: the reset story does not depend on it. -/
theorem reset_independent_of_state (st : Story) (seed : Int) (hq : C17.Quiescent st) (s' : StoryState) :
    ({ st with state := s' } : Story).resetState seed = st.resetState seed := by
  have hq' : C17.Quiescent ({ st with state := s' } : Story) := ⟨hq.1, hq.2, hq.3, hq.4⟩
  rw [C17.reset_eq_fresh _ seed hq', C17.reset_eq_fresh st seed hq]
  rfl

/-- Corollary: if the freshly constructed story has no errors, the reset story has none. -/
theorem reset_after_error_no_errors (st : Story) (seed : Int) (hq : C17.Quiescent st)
    (he : st.state.hasError = true)
    (hfresh : ((C17.blankWith st seed).resetGlobals).2.state.hasError = false) :
    (st.resetState seed).2.state.hasError = false := by
  rw [(reset_after_error_fresh st seed hq he).1]; exact hfresh

/-- A program without global declarations: the reset story is error-free outright. -/
theorem reset_after_error_no_globals (st : Story) (seed : Int) (hq : C17.Quiescent st)
    (he : st.state.hasError = true) (hg : (st.root.lookupName "global decl").isSome = false) :
    (st.resetState seed).1 = .ok () ∧ (st.resetState seed).2.state.hasError = false
    ∧ (st.resetState seed).2.core.errors = [] := by
  rw [(reset_after_error_fresh st seed hq he).1]
  unfold Story.resetGlobals
  have hg' : ((C17.blankWith st seed).root.lookupName "global decl").isSome = false := hg
  simp only [hg', Bool.false_eq_true, if_false]
  exact ⟨by trivial, by trivial, by trivial⟩

example : (exFaulted.resetState 7).1 = .ok () ∧ (exFaulted.resetState 7).2.state.hasError = false
    ∧ (exFaulted.resetState 7).2.core.errors = [] :=
  reset_after_error_no_globals exFaulted 7 exFaulted_quiescent exFaulted_hasError rfl
example : exFaulted.resetState 7 = (C17.blankWith exFaulted 7).resetGlobals :=
  (reset_after_error_fresh exFaulted 7 exFaulted_quiescent exFaulted_hasError).1

end C04
end Ink
