/-
  C04 — Story faults are reported as errors; the runtime never panics; integer
  arithmetic wraps to 32 bits; after an error a reset story is a fresh story.
-/
import Lean.Elab.Tactic
import Proofs.C13
import Proofs.C17

namespace Ink
namespace C04

open Story

/-! ### 1. Two's-complement wrap -/

theorem wrapI32_inRange (n : Int) : inI32 (wrapI32 n) = true := by
  unfold inI32 wrapI32 i32Min i32Max
  simp only [Bool.and_eq_true, decide_eq_true_eq]
  omega

theorem wrapI32_of_inRange {n : Int} (h : inI32 n = true) : wrapI32 n = n := by
  unfold inI32 i32Min i32Max at h
  simp only [Bool.and_eq_true, decide_eq_true_eq] at h
  unfold wrapI32
  omega

theorem wrapI32_congr (n : Int) : ∃ k : Int, wrapI32 n = n + k * 4294967296 := by
  refine ⟨-((n + 2147483648) / 4294967296), ?_⟩
  unfold wrapI32
  omega

/-- The wrap is the unique in-range representative of the residue class. -/
theorem wrapI32_unique {n m : Int} (hm : inI32 m = true) (k : Int) (h : m = n + k * 4294967296) :
    wrapI32 n = m := by
  unfold inI32 i32Min i32Max at hm
  simp only [Bool.and_eq_true, decide_eq_true_eq] at hm
  unfold wrapI32
  omega

theorem inI32_iff {n : Int} : inI32 n = true ↔ (-2147483648 ≤ n ∧ n ≤ 2147483647) := by
  unfold inI32 i32Min i32Max
  simp only [Bool.and_eq_true, decide_eq_true_eq]

example : wrapI32 (2147483647 + 1) = -2147483648 := by decide
example : wrapI32 (-2147483648 - 1) = 2147483647 := by decide
example : wrapI32 (65536 * 65536) = 0 := by decide
example : wrapI32 (-(-2147483648)) = -2147483648 := by decide
example : inI32 2147483647 = true ∧ inI32 2147483648 = false := by decide

/-! ### 2. Integer arithmetic of the native calls wraps -/

theorem int_add_wraps (defs : ListDefs) (x y : Int) :
    Native.call defs .add [.val (.int x), .val (.int y)] = .ok (.val (.int (wrapI32 (x + y)))) := rfl

theorem int_sub_wraps (defs : ListDefs) (x y : Int) :
    Native.call defs .subtract [.val (.int x), .val (.int y)] = .ok (.val (.int (wrapI32 (x - y)))) := rfl

theorem int_mul_wraps (defs : ListDefs) (x y : Int) :
    Native.call defs .multiply [.val (.int x), .val (.int y)] = .ok (.val (.int (wrapI32 (x * y)))) := rfl

theorem int_neg_wraps (defs : ListDefs) (x : Int) :
    Native.call defs .negate [.val (.int x)] = .ok (.val (.int (wrapI32 (-x)))) := rfl

example : Native.call [] .add [.val (.int 2147483647), .val (.int 1)] = .ok (.val (.int (-2147483648))) := by
  rw [int_add_wraps]; rfl
example : Native.call [] .multiply [.val (.int 65536), .val (.int 65536)] = .ok (.val (.int 0)) := by
  rw [int_mul_wraps]; rfl
example : Native.call [] .subtract [.val (.int (-2147483648)), .val (.int 1)] = .ok (.val (.int 2147483647)) := by
  rw [int_sub_wraps]; rfl
example : Native.call [] .negate [.val (.int (-2147483648))] = .ok (.val (.int (-2147483648))) := by
  rw [int_neg_wraps]; rfl

/-! ### 3. Division and remainder -/

/-- Reduction of an integer binary call to `Native.binary`. -/
theorem call_int_int (defs : ListDefs) (op : Op) (h : op.arity = 2) (x y : Int) :
    Native.call defs op [.val (.int x), .val (.int y)] =
      (match Native.binary op (.int x) (.int y) with
       | .ok v => .ok (.val v)
       | .err k m => .err k m
       | .panic s => .panic s) := by
  unfold Native.call
  simp only [h, List.length_cons, List.length_nil]
  rfl

theorem int_div_defined (defs : ListDefs) {x y : Int} (hy : y ≠ 0) (hov : ¬(x = i32Min ∧ y = -1)) :
    Native.call defs .divide [.val (.int x), .val (.int y)] = .ok (.val (.int (Int.tdiv x y))) := by
  rw [call_int_int defs .divide rfl]
  have hc : ¬(y = 0 ∨ (x = i32Min ∧ y = -1)) := by
    intro h; rcases h with h | h
    · exact hy h
    · exact hov h
  simp only [Native.binary, hc, if_false]

theorem int_div_fault (defs : ListDefs) {x y : Int} (h : y = 0 ∨ (x = i32Min ∧ y = -1)) :
    ∃ m, Native.call defs .divide [.val (.int x), .val (.int y)] = .err "InvalidStoryState" m := by
  rw [call_int_int defs .divide rfl]
  simp only [Native.binary, h, if_true, Out.invalid]
  exact ⟨_, rfl⟩

theorem int_mod_defined (defs : ListDefs) {x y : Int} (hy : y ≠ 0) (hov : ¬(x = i32Min ∧ y = -1)) :
    Native.call defs .mod [.val (.int x), .val (.int y)] = .ok (.val (.int (Int.tmod x y))) := by
  rw [call_int_int defs .mod rfl]
  have hc : ¬(y = 0 ∨ (x = i32Min ∧ y = -1)) := by
    intro h; rcases h with h | h
    · exact hy h
    · exact hov h
  simp only [Native.binary, hc, if_false]

theorem int_mod_fault (defs : ListDefs) {x y : Int} (h : y = 0 ∨ (x = i32Min ∧ y = -1)) :
    ∃ m, Native.call defs .mod [.val (.int x), .val (.int y)] = .err "InvalidStoryState" m := by
  rw [call_int_int defs .mod rfl]
  simp only [Native.binary, h, if_true, Out.invalid]
  exact ⟨_, rfl⟩

example : Native.call [] .divide [.val (.int 7), .val (.int (-2))] = .ok (.val (.int (-3))) :=
  int_div_defined [] (by decide) (by decide)
example : Native.call [] .mod [.val (.int (-7)), .val (.int 2)] = .ok (.val (.int (-1))) :=
  int_mod_defined [] (by decide) (by decide)
example : ∃ m, Native.call [] .divide [.val (.int 1), .val (.int 0)] = .err "InvalidStoryState" m :=
  int_div_fault [] (Or.inl rfl)
example : ∃ m, Native.call [] .divide [.val (.int i32Min), .val (.int (-1))] = .err "InvalidStoryState" m :=
  int_div_fault [] (Or.inr ⟨rfl, rfl⟩)
example : ∃ m, Native.call [] .mod [.val (.int 1), .val (.int 0)] = .err "InvalidStoryState" m :=
  int_mod_fault [] (Or.inl rfl)
example : ∃ m, Native.call [] .mod [.val (.int i32Min), .val (.int (-1))] = .err "InvalidStoryState" m :=
  int_mod_fault [] (Or.inr ⟨rfl, rfl⟩)

/-! ### 4. Integer results stay inside the 32-bit range -/

theorem tdiv_inRange {x y : Int} (hx : inI32 x = true) (hov : ¬(x = i32Min ∧ y = -1)) :
    inI32 (Int.tdiv x y) = true := by
  rw [inI32_iff] at hx ⊢
  unfold i32Min at hov
  by_cases h1 : y = 1
  · subst h1; rw [Int.tdiv_one]; exact hx
  · by_cases h2 : y = -1
    · subst h2
      rw [show (-1 : Int) = -(1 : Int) from rfl, Int.tdiv_neg, Int.tdiv_one]
      omega
    · by_cases h0 : y = 0
      · subst h0; simp
      · have hk : (Int.tdiv x y).natAbs = x.natAbs / y.natAbs := Int.natAbs_tdiv x y
        have hy2 : 2 ≤ y.natAbs := by omega
        have hle : x.natAbs / y.natAbs ≤ x.natAbs / 2 := Nat.div_le_div_left hy2 (by decide)
        omega

theorem tmod_inRange {x : Int} (hx : inI32 x = true) (y : Int) : inI32 (Int.tmod x y) = true := by
  rw [inI32_iff] at hx ⊢
  have hk : (Int.tmod x y).natAbs = x.natAbs % y.natAbs := Int.natAbs_tmod x y
  have hle : x.natAbs % y.natAbs ≤ x.natAbs := Nat.mod_le _ _
  have hs : 0 ≤ x → 0 ≤ Int.tmod x y := fun h => Int.tmod_nonneg y h
  have hn : x ≤ 0 → Int.tmod x y ≤ 0 := by
    intro h
    have h1 : 0 ≤ Int.tmod (-x) y := Int.tmod_nonneg y (by omega)
    rw [Int.neg_tmod] at h1
    omega
  omega

/-- Every integer result of a binary operation on two in-range integers is in
    range (`y` in range is not even needed). -/
theorem int_results_inRange {op : Op} {x y z : Int} (hx : inI32 x = true) (hy : inI32 y = true)
    (h : Native.binary op (.int x) (.int y) = .ok (.int z)) : inI32 z = true := by
  cases op <;> simp only [Native.binary, Native.notAvailable, Out.invalid, Out.ok.injEq, Val.int.injEq,
    reduceCtorEq] at h
  · -- add
    cases h; exact wrapI32_inRange _
  · -- subtract
    cases h; exact wrapI32_inRange _
  · -- divide
    split at h
    · cases h
    · rename_i hc
      cases h
      exact tdiv_inRange hx (fun hh => hc (Or.inr hh))
  · -- multiply
    cases h; exact wrapI32_inRange _
  · -- mod
    split at h
    · cases h
    · cases h; exact tmod_inRange hx y
  · -- min
    cases h; split <;> assumption
  · -- max
    cases h; split <;> assumption

theorem int_unary_inRange {defs : ListDefs} {op : Op} {x z : Int} (hx : inI32 x = true)
    (h : Native.unary defs op (.int x) = .ok (.int z)) : inI32 z = true := by
  cases op <;> simp only [Native.unary, Native.notAvailable, Out.invalid, Out.ok.injEq, Val.int.injEq,
    reduceCtorEq] at h
  · cases h; exact wrapI32_inRange _
  · cases h; exact hx
  · cases h; exact hx
  · cases h; exact hx

/-- `f32 as i32` (saturating) lands in range, by the bounds of `Int32`. -/
theorem toI32_inRange (f : Float32) : inI32 (F32.toI32 f) = true := by
  rw [inI32_iff]
  unfold F32.toI32
  have h1 := Int32.le_toInt f.toInt32
  have h2 := Int32.toInt_lt f.toInt32
  omega

/-- The unary operations that go through a float (`INT(f)`) also give in-range integers. -/
theorem float_unary_inRange {defs : ListDefs} {op : Op} {f : Float32} {z : Int}
    (h : Native.unary defs op (.float f) = .ok (.int z)) : inI32 z = true := by
  cases op <;> simp only [Native.unary, Native.notAvailable, Out.invalid, Out.ok.injEq, Val.int.injEq,
    reduceCtorEq] at h
  cases h; exact toI32_inRange f

example : inI32 (Int.tdiv (-2147483648) 1) = true := tdiv_inRange (by decide) (by decide)
example : Native.binary .divide (.int (-2147483648)) (.int 1) = .ok (.int (-2147483648)) := rfl
example : Native.unary [] .negate (.int (-2147483648)) = .ok (.int (-2147483648)) := rfl

/-! ### 5. Native calls never panic -/

theorem binary_no_panic (op : Op) (a b : Val) (s : String) : Native.binary op a b ≠ .panic s := by
  unfold Native.binary
  split <;> first
    | (intro h; cases h)
    | (split <;> (intro h; cases h))

theorem unary_no_panic (defs : ListDefs) (op : Op) (a : Val) (s : String) :
    Native.unary defs op a ≠ .panic s := by
  unfold Native.unary
  split <;> (intro h; cases h)

theorem isTruthy_no_panic (v : Val) (s : String) : v.isTruthy ≠ .panic s := by
  cases v <;> (intro h; cases h)

/-- A cast to a destination type at or above the value's own ordinal never
    panics (the `parse().unwrap()` of a string is only reached for a lower type). -/
theorem cast_no_panic (v : Val) (dest : Nat) (h : v.castOrdinal ≤ dest) (s : String) :
    v.cast dest ≠ .panic s := by
  cases v <;> simp only [Val.cast, Val.castOrdinal, Out.invalid] at h ⊢
  all_goals (repeat' split) <;> first
    | (intro h'; cases h'; done)
    | omega

/-- One step of the fold in `Native.destType`. -/
def destStep (d : Nat) (o : Obj) : Nat :=
  match o with
  | .val v => if v.castOrdinal > d then v.castOrdinal else d
  | _ => d

theorem destType_eq (ps : List Obj) : Native.destType ps = ps.foldl destStep 1 := rfl

theorem destStep_ge (d : Nat) (o : Obj) : d ≤ destStep d o := by
  unfold destStep
  split
  · split <;> omega
  · exact Nat.le_refl _

/-- The fold of `destType` is at least its start value and at least the cast
    ordinal of every value in the list. -/
theorem destFold_ge (ps : List Obj) (d : Nat) :
    d ≤ ps.foldl destStep d ∧ ∀ v, Obj.val v ∈ ps → v.castOrdinal ≤ ps.foldl destStep d := by
  induction ps generalizing d with
  | nil => exact ⟨Nat.le_refl _, fun v hv => by cases hv⟩
  | cons p ps ih =>
    simp only [List.foldl_cons]
    obtain ⟨i1, i2⟩ := ih (destStep d p)
    refine ⟨Nat.le_trans (destStep_ge d p) i1, ?_⟩
    intro v hv
    rcases List.mem_cons.mp hv with hv | hv
    · subst hv
      refine Nat.le_trans ?_ i1
      simp only [destStep]
      split <;> omega
    · exact i2 v hv

/-- `coerce_values_to_single_type` chooses a destination no value has to be cast down to. -/
theorem destType_ge (ps : List Obj) (v : Val) (hv : Obj.val v ∈ ps) : v.castOrdinal ≤ Native.destType ps := by
  rw [destType_eq]; exact (destFold_ge ps 1).2 v hv

theorem coerceAll_no_panic (dest : Nat) (ps : List Obj)
    (h : ∀ v, Obj.val v ∈ ps → v.castOrdinal ≤ dest) :
    ∀ s, Native.coerceAll dest ps ≠ .panic s := by
  induction ps with
  | nil => intro s h'; cases h'
  | cons p ps ih =>
    have ih' := ih (fun v hv => h v (List.mem_cons_of_mem _ hv))
    cases p with
    | val v =>
      have hc := cast_no_panic v dest (h v (List.mem_cons_self ..))
      intro s
      unfold Native.coerceAll
      split
      · split
        · intro h'; cases h'
        · intro h'; cases h'
        · rename_i s' heq
          exact absurd heq (ih' s')
      · intro h'; cases h'
      · rename_i s' heq
        exact absurd heq (hc s')
    | _ => intro s h'; cases h'

theorem coerceAll_length (dest : Nat) (ps : List Obj) (vs : List Val)
    (h : Native.coerceAll dest ps = .ok vs) : vs.length = ps.length := by
  induction ps generalizing vs with
  | nil => cases h; rfl
  | cons p ps ih =>
    cases p with
    | val v =>
      unfold Native.coerceAll at h
      split at h
      · split at h
        · rename_i vs' heq
          cases h
          simp only [List.length_cons, ih vs' heq]
        · cases h
        · cases h
      · cases h
      · cases h
    | _ => cases h

/-- The list branch never panics, whatever the operands are: an operand that is no value
    (glue, a tag, …) is a story error since the hardening (`RTObject of type Value expected: …`). -/
theorem binaryList_no_panic (defs : ListDefs) (op : Op) (p0 p1 : Obj) (s : String) :
    Native.binaryList defs op p0 p1 ≠ .panic s := by
  unfold Native.binaryList
  split
  · intro h; cases h
  · intro h; cases h
  · rename_i w0 w1 _ _
    split
    · split
      · split
        · split
          · split
            · intro h; cases h
            · intro h; cases h
            · rename_i s' heq; exact absurd heq (isTruthy_no_panic _ s')
          · intro h; cases h
        · split
          · intro h; cases h
          · split
            · intro h; cases h
            · intro h; cases h
            · rename_i s' heq; exact absurd heq (isTruthy_no_panic _ s')
      · intro h; cases h
      · rename_i s' heq; exact absurd heq (isTruthy_no_panic _ s')
    · split
      · exact binary_no_panic _ _ _ s
      · intro h; cases h
  · intro h; cases h
  · intro h; cases h

/-- **The runtime never panics in a native call**, whatever the operands are: every
    fault — wrong types, wrong arity, void operand, undefined division, an operand that is
    no value — is an `err`.  The `panic` sites left in `Ink/Native.lean` are unreachable. -/
theorem native_call_never_panics (defs : ListDefs) (op : Op) (ps : List Obj) :
    ∀ s, Native.call defs op ps ≠ .panic s := by
  intro s
  have hco : ∀ s', Native.coerceAll (Native.destType ps) ps ≠ .panic s' :=
    coerceAll_no_panic _ ps (fun v hv => destType_ge ps v hv)
  unfold Native.call
  split
  · intro h; cases h
  · split
    · intro h; cases h
    · rcases ps with _ | ⟨p0, _ | ⟨p1, _ | ⟨p2, rest⟩⟩⟩
      · intro h; cases h
      · simp only
        split
        · split
          · intro h; cases h
          · intro h; cases h
          · rename_i s' heq; exact absurd heq (unary_no_panic _ _ _ s')
        · rename_i vs hne heq
          have hl := coerceAll_length _ _ _ heq
          match vs, hl, hne with
          | [a], _, hne => exact absurd rfl (hne a)
        · intro h; cases h
        · rename_i s' heq; exact absurd heq (hco s')
      · simp only
        split
        · split
          · intro h; cases h
          · intro h; cases h
          · rename_i s' heq; exact absurd heq (binaryList_no_panic defs op p0 p1 s')
        · split
          · split
            · intro h; cases h
            · intro h; cases h
            · rename_i s' heq; exact absurd heq (binary_no_panic _ _ _ s')
          · rename_i vs hne heq
            have hl := coerceAll_length _ _ _ heq
            match vs, hl, hne with
            | [a, b], _, hne => exact absurd rfl (hne a b)
          · intro h; cases h
          · rename_i s' heq; exact absurd heq (hco s')
      · intro h; cases h

/-- The statement as it was before the hardening (operands restricted to values or void):
    a special case of `native_call_never_panics`. -/
theorem native_call_no_panic (defs : ListDefs) (op : Op) (ps : List Obj)
    (_hps : ∀ p ∈ ps, (∃ v, p = .val v) ∨ p = .void) : ∀ s, Native.call defs op ps ≠ .panic s :=
  native_call_never_panics defs op ps

/-- Packaged: a native call on values ends in `ok` or `err`. -/
theorem native_call_ok_or_err (defs : ListDefs) (op : Op) (ps : List Obj)
    (hps : ∀ p ∈ ps, (∃ v, p = .val v) ∨ p = .void) :
    (∃ o, Native.call defs op ps = .ok o) ∨ (∃ k m, Native.call defs op ps = .err k m) := by
  cases h : Native.call defs op ps with
  | ok o => exact Or.inl ⟨o, rfl⟩
  | err k m => exact Or.inr ⟨k, m, rfl⟩
  | panic s => exact absurd h (native_call_no_panic defs op ps hps s)

/-- Integer results of a whole native call on two in-range integers are in range. -/
theorem int_call_results_inRange {defs : ListDefs} {op : Op} {x y z : Int}
    (hx : inI32 x = true) (hy : inI32 y = true)
    (h : Native.call defs op [.val (.int x), .val (.int y)] = .ok (.val (.int z))) : inI32 z = true := by
  by_cases ha : op.arity = 2
  · rw [call_int_int defs op ha] at h
    split at h
    · rename_i v heq
      cases h
      exact int_results_inRange hx hy heq
    · cases h
    · cases h
  · unfold Native.call at h
    have : op.arity ≠ [Obj.val (.int x), Obj.val (.int y)].length := ha
    simp only [this, ne_eq, not_false_eq_true, if_true, Out.invalid] at h
    cases h

-- wrong operand types: an error, not a panic
example : Native.call [] .subtract [.val (.str "a"), .val (.str "b")]
    = .err "InvalidStoryState" "Operation not available for type." := rfl
-- void operand
example : ∃ m, Native.call [] .add [.void, .val (.int 1)] = .err "InvalidStoryState" m := ⟨_, rfl⟩
-- wrong arity
example : Native.call [] .add [.val (.int 1)] = .err "InvalidStoryState" "Unexpected number of parameters" := rfl
-- a string cannot be cast up to a divert target: `err`
example : Native.call [] .add [.val (.dtarget ⟨[], false⟩), .val (.str "a")]
    = .err "InvalidStoryState" "Cast not allowed for string" := rfl
-- a string is never parsed: the other operand is cast up to string
example : Native.call [] .add [.val (.str "a"), .val (.int 1)] = .ok (.val (.str ("a" ++ intToString 1))) := rfl
-- the hypothesis of `native_call_no_panic` is instantiated by these calls
example : ∀ s, Native.call [] .subtract [.val (.str "a"), .val (.str "b")] ≠ .panic s :=
  native_call_no_panic [] .subtract _ (by
    intro p hp
    simp only [List.mem_cons, List.mem_nil_iff, or_false] at hp
    rcases hp with rfl | rfl <;> exact Or.inl ⟨_, rfl⟩)
-- the hypothesis is not needed any more: a non-value operand next to a list used to reach the
-- Rust downcast `unwrap`; since the hardening it is a story error naming the operand
example : Native.call [] .add [.val (.list InkList.empty), .glue]
    = .err "InvalidStoryState" "RTObject of type Value expected: Glue" := rfl
example : Native.call [] .add [.tag "t", .val (.list InkList.empty)]
    = .err "InvalidStoryState" "RTObject of type Value expected: # t" := rfl
example : Native.call [] .add [.glue, .val (.int 1)]
    = .err "InvalidStoryState" "RTObject of type Value expected: Glue" := rfl

/-! ### 6. The evaluation stack never panics on underflow -/

theorem popEval_no_panic (s : Core) : ∀ site, s.popEval ≠ .panic site := by
  intro site
  unfold Core.popEval
  split <;> (intro h; cases h)

theorem popEvalMultiple_no_panic (s : Core) (n : Nat) : ∀ site, s.popEvalMultiple n ≠ .panic site := by
  intro site
  unfold Core.popEvalMultiple
  split <;> (intro h; cases h)

/-- Underflow is reported as a story error. -/
theorem popEval_underflow (s : Core) (h : s.evalStack = []) :
    s.popEval = .err "InvalidStoryState" "Evaluation stack is empty: nothing to pop." := by
  unfold Core.popEval
  rw [h]; rfl

theorem popEvalMultiple_underflow (s : Core) (n : Nat) (h : s.evalStack.length < n) :
    ∃ m, s.popEvalMultiple n = .err "InvalidStoryState" m := by
  unfold Core.popEvalMultiple
  have : ¬ n ≤ s.evalStack.length := by omega
  simp only [this, if_false, Out.invalid]
  exact ⟨_, rfl⟩

theorem popEval_ok (s : Core) (o : Obj) (rest : List Obj) (h : s.evalStack = o :: rest) :
    s.popEval = .ok (o, { s with evalStack := rest }) := by
  unfold Core.popEval
  rw [h]

example : ∀ site, (Core.fresh 0).popEval ≠ .panic site := popEval_no_panic _
example : (Core.fresh 0).popEval = .err "InvalidStoryState" "Evaluation stack is empty: nothing to pop." :=
  popEval_underflow _ rfl
example : ∃ m, (Core.fresh 0).popEvalMultiple 2 = .err "InvalidStoryState" m :=
  popEvalMultiple_underflow _ 2 (by decide)

/-! ### 7. An error inside a step is recorded in the story

  In the model (as in the Rust) `continue_single_step` itself *propagates* a
  step's `Err`; it is its only caller, the loop of `continue_internal`
  (`Story.stepLoop`), that catches it with `add_error(msg, false)` and ends the
  loop normally.  So the recording is a statement about the loop. -/

/-- The model's `continueSingleStep` hands a step's error to its caller unchanged … -/
theorem continueSingleStep_step_err (st : Story) (k m : String) (st1 : Story)
    (h : st.runM (step st.env) = (.err k m, st1)) : st.continueSingleStep = (.err k m, st1) := by
  unfold Story.continueSingleStep
  rw [h]

/-- … and never turns it into a panic or a fabricated error: an `err` of
    `continueSingleStep` is the `err` of the step or of the default-choice follow-up. -/
theorem continueSingleStep_err_origin (st : Story) (k m : String) (st2 : Story)
    (h : st.continueSingleStep = (.err k m, st2)) :
    st.runM (step st.env) = (.err k m, st2)
    ∨ ∃ st1, st.runM (step st.env) = (.ok (), st1)
        ∧ st1.runM (tryFollowDefaultInvisibleChoice st1.env) = (.err k m, st2) := by
  unfold Story.continueSingleStep at h
  split at h
  · rename_i k' m' st1' heq
    simp only [Prod.mk.injEq, Out.err.injEq] at h
    obtain ⟨⟨rfl, rfl⟩, rfl⟩ := h
    left; exact heq
  · cases h
  · rename_i st1 heq
    right
    refine ⟨st1, heq, ?_⟩
    simp only at h
    split at h
    · rename_i k' m' st2' heq2
      simp only [Prod.mk.injEq, Out.err.injEq] at h
      obtain ⟨⟨rfl, rfl⟩, rfl⟩ := h
      split at heq2
      · exact heq2
      · cases heq2
    · cases h
    · exfalso
      split at h
      · cases h
      · split at h
        · cases h
        · split at h
          · split at h <;> cases h
          · cases h

theorem addError_errors (st : Story) (m : String) :
    (st.addError m false).core.errors = st.core.errors ++ [errorText st.root st.core m false] := by
  unfold Story.addError
  simp only [Bool.false_eq_true, if_false, Story.setCore, Story.core, addErrorCore]
  rw [forceEnd_errors]
  rfl

theorem addError_hasError (st : Story) (m : String) : (st.addError m false).state.hasError = true := by
  have h := addError_errors st m
  unfold Story.core at h
  unfold StoryState.hasError Core.hasError
  rw [h]
  simp

/-- **step_error_recorded.**  When a single step of the loop ends in `err k m`
    (the verification budget not being exhausted), the loop stops with `ok`
    (`LoopEnd.error`, neither an `err` nor a `panic`), the message is appended to
    the story's error list, the story has an error and cannot continue. -/
theorem step_error_recorded (b : Option Nat) (fuel steps : Nat) (st : Story) (k m : String) (st1 : Story)
    (hf : (st.fuel == some 0) = false)
    (h : ({ st with fuel := st.fuel.map (· - 1) } : Story).continueSingleStep = (.err k m, st1)) :
    stepLoop b (fuel + 1) steps st = (.ok .error, st1.addError m false)
    ∧ (st1.addError m false).core.errors = st1.core.errors ++ [errorText st1.root st1.core m false]
    ∧ (st1.addError m false).state.hasError = true
    ∧ (st1.addError m false).canContinue = false := by
  refine ⟨?_, addError_errors st1 m, addError_hasError st1 m, addError_cannot_continue st1 m⟩
  unfold stepLoop
  simp only [hf, Bool.false_eq_true, if_false, h]

/-- The same, from the interpreter step proper. -/
theorem step_error_recorded' (b : Option Nat) (fuel steps : Nat) (st : Story) (k m : String) (st1 : Story)
    (hf : (st.fuel == some 0) = false)
    (h : ({ st with fuel := st.fuel.map (· - 1) } : Story).runM (step st.env) = (.err k m, st1)) :
    stepLoop b (fuel + 1) steps st = (.ok .error, st1.addError m false)
    ∧ (st1.addError m false).state.hasError = true
    ∧ (st1.addError m false).canContinue = false := by
  have h' := continueSingleStep_step_err ({ st with fuel := st.fuel.map (· - 1) } : Story) k m st1 h
  obtain ⟨a, _, c, d⟩ := step_error_recorded b fuel steps st k m st1 hf h'
  exact ⟨a, c, d⟩

/-- Whatever a step does, the loop around it never ends in an `err` outcome. -/
theorem loop_never_errs (b : Option Nat) (fuel steps : Nat) (st : Story) (k m : String) (s1 : Story) :
    stepLoop b fuel steps st ≠ (.err k m, s1) := C17.stepLoop_no_err b fuel steps st k m s1


/-! ### Concrete stories for the non-vacuity examples -/

/-- A program whose first instruction is `+` on an empty evaluation stack. -/
def exRoot : Obj := .container none 0 [.native .add] []

def exStory : Story :=
  { root := exRoot, defs := [], state := StoryState.fresh 0, snapshot := none,
    recCount := 0, asyncActive := false, sawUnsafe := false, validated := false,
    allowFallbacks := false, handler := false, observers := [], externals := [], events := [],
    lines := 0, fuel := none, stepClock := false }

/-- The same story after a recorded error. -/
def exFaulted : Story := exStory.addError "boom" false

theorem exFaulted_hasError : exFaulted.state.hasError = true := addError_hasError _ _

theorem exFaulted_quiescent : C17.Quiescent exFaulted :=
  ⟨(addError_snapshot _ _ _).trans rfl, (addError_same exStory "boom" false).recCount.trans rfl,
   (addError_same exStory "boom" false).asyncActive.trans rfl, (addError_sawUnsafe _ _ _).trans rfl⟩

-- the step of `exStory` (a `+` with nothing on the evaluation stack) ends in `err`
example : ∃ m st1, exStory.runM (step exStory.env) = (.err "InvalidStoryState" m, st1) := ⟨_, _, rfl⟩
-- so the hypotheses of `step_error_recorded'` are satisfiable, and the loop records the error
example : ∃ st', stepLoop none 1 0 exStory = (.ok .error, st') ∧ st'.state.hasError = true
    ∧ st'.canContinue = false :=
  ⟨_, step_error_recorded' none 0 0 exStory "InvalidStoryState" _ _ rfl rfl⟩
example : exStory.canContinue = true := rfl

/-! ### 8. A recorded error is reported to the host -/

/-- **error_is_reported.**  A story with a recorded error: without a handler the
    delivery block fails with a `StoryError` that quotes the first error, and
    nothing is cleared; with a handler every recorded error (then every warning)
    is handed to the handler exactly once, in order, and the lists are emptied. -/
theorem error_is_reported (st : Story) (he : st.state.hasError = true) :
    (st.handler = false → st.deliver = (.err "InvalidStoryState" (noHandlerMessage st.state), st))
    ∧ (st.handler = true → ∃ st', st.deliver = (.ok (), st')
        ∧ st'.events = (C13.handlerEvents st.core.errors st.state.warnings).reverse ++ st.events
        ∧ st.core.errors ≠ []
        ∧ st'.core.errors = [] ∧ st'.state.warnings = []) := by
  constructor
  · intro hh
    exact C13.deliver_no_handler_error st hh he
  · intro hh
    obtain ⟨st', h1, h2, h3, h4, _⟩ := C13.deliver_handler_pending st hh (by simp [he])
    refine ⟨st', h1, h2, ?_, h3, h4⟩
    intro hnil
    unfold StoryState.hasError Core.hasError at he
    unfold Story.core at hnil
    simp [hnil] at he

/-- and until then the story stays stopped. -/
theorem error_blocks_continue (st : Story) (he : st.state.hasError = true) (fuel : Nat)
    (ha : st.asyncActive = false) (b : Option Nat) :
    st.continueInternal b fuel = (.err "InvalidStoryState" cannotContinueMsg, st) := by
  unfold Story.continueInternal
  simp [ha, C13.error_stops_story st he, Out.invalid]

example : exFaulted.handler = false ∧ exFaulted.state.hasError = true := ⟨rfl, exFaulted_hasError⟩
example : exFaulted.deliver = (.err "InvalidStoryState" (noHandlerMessage exFaulted.state), exFaulted) :=
  (error_is_reported exFaulted exFaulted_hasError).1 rfl
example : ∃ st', ({ exFaulted with handler := true } : Story).deliver = (.ok (), st') ∧ st'.core.errors = [] := by
  obtain ⟨st', h1, _, _, h4, _⟩ :=
    (error_is_reported ({ exFaulted with handler := true } : Story) exFaulted_hasError).2 rfl
  exact ⟨st', h1, h4⟩

/-! ### 9. Reset after an error -/

theorem blankWith_no_error (st : Story) (seed : Int) :
    (C17.blankWith st seed).state.hasError = false ∧ (C17.blankWith st seed).state.hasWarning = false :=
  ⟨rfl, rfl⟩

/-- **reset_after_error_fresh.**  Resetting a quiescent story that has errors
    recorded gives exactly the freshly constructed story: `reset_globals` run on
    the blank state, which has no error and no warning. -/
theorem reset_after_error_fresh (st : Story) (seed : Int) (hq : C17.Quiescent st)
    (_he : st.state.hasError = true) :
    st.resetState seed = (C17.blankWith st seed).resetGlobals
    ∧ (C17.blankWith st seed).state.hasError = false
    ∧ (C17.blankWith st seed).state.hasWarning = false :=
  ⟨C17.reset_eq_fresh st seed hq, rfl, rfl⟩

/-- Nothing of the old state survives: the reset story does not depend on it. -/
theorem reset_independent_of_state (st : Story) (seed : Int) (hq : C17.Quiescent st) (s' : StoryState) :
    ({ st with state := s' } : Story).resetState seed = st.resetState seed := by
  have hq' : C17.Quiescent ({ st with state := s' } : Story) := ⟨hq.1, hq.2, hq.3, hq.4⟩
  rw [C17.reset_eq_fresh _ seed hq', C17.reset_eq_fresh st seed hq]
  rfl

/-- Corollary: if the freshly constructed story has no errors, the reset story has none. -/
theorem reset_after_error_no_errors (st : Story) (seed : Int) (hq : C17.Quiescent st)
    (he : st.state.hasError = true)
    (hfresh : ((C17.blankWith st seed).resetGlobals).2.state.hasError = false) :
    (st.resetState seed).2.state.hasError = false := by
  rw [(reset_after_error_fresh st seed hq he).1]; exact hfresh

/-- A program without global declarations: the reset story is error-free outright. -/
theorem reset_after_error_no_globals (st : Story) (seed : Int) (hq : C17.Quiescent st)
    (he : st.state.hasError = true) (hg : (st.root.lookupName "global decl").isSome = false) :
    (st.resetState seed).1 = .ok () ∧ (st.resetState seed).2.state.hasError = false
    ∧ (st.resetState seed).2.core.errors = [] := by
  rw [(reset_after_error_fresh st seed hq he).1]
  unfold Story.resetGlobals
  have hg' : ((C17.blankWith st seed).root.lookupName "global decl").isSome = false := hg
  simp only [hg', Bool.false_eq_true, if_false]
  exact ⟨by trivial, by trivial, by trivial⟩

example : (exFaulted.resetState 7).1 = .ok () ∧ (exFaulted.resetState 7).2.state.hasError = false
    ∧ (exFaulted.resetState 7).2.core.errors = [] :=
  reset_after_error_no_globals exFaulted 7 exFaulted_quiescent exFaulted_hasError rfl
example : exFaulted.resetState 7 = (C17.blankWith exFaulted 7).resetGlobals :=
  (reset_after_error_fresh exFaulted 7 exFaulted_quiescent exFaulted_hasError).1


/-! ### 10. The complete list of panic sites of a step

  Since the hardening of the runtime most `crash` / `unwrap` sites of the step function are
  story errors.  This section lists the site tags that are left and proves the list complete:
  a small logic `NP S m` for the step monad `M` ("if `m` ends in `panic site`, then
  `site ∈ S`") with a head-symbol driven tactic `np_step` (the scheme of `h_step` in
  `Proofs/C10Frame.lean`) is pushed through every `do` block of `Ink/Step.lean` up to
  `step` and `tryFollowDefaultInvisibleChoice`; `step_panic_sites` and
  `continueSingleStep_panic_sites` state the result. -/

open M

/-- The site tags with which one interpreter step (`Ink.step`) can still end in `panic`.
    Every other `crash` / `unwrap` / `.panic` of `Ink/Step.lean`, `Ink/State.lean` and
    `Ink/Native.lean` is unreachable from a step.  Each tag stands for an invariant of the
    Rust that is trusted, not checked (the "(b)" rows of the hardening table):

    * `progress.rs:increment_content_pointer`, `story/mod.rs:shuffle_container`,
      `control_logic.rs:visit_index_container` — the current pointer is not null where
      `step()` uses its container;
    * `object.rs:resolve_path` — an object of the story tree that is not a container has a
      parent (the root is a container);
    * `callstack.rs:push`, `callstack.rs:fork_thread` — a call stack has a thread and every
      thread an element;
    * `divert.rs:get_target_path_string` — a divert without a variable target has a target path;
    * `object.rs:get_path` — a model artefact: the path of an address of the content tree
      that names no node (a pointer of the state into another tree; the Rust holds an `Rc`
      and `Object::get_path` is total).

    The other "(b)" sites of the step function are proved unreachable below, from the
    conditions under which they are reached: `control_logic.rs:pop_names_unwrap` (the name
    table of the pop types), `control_logic.rs:list_random_index` (`next_random % len`
    indexes the `len` ordered items), `story/mod.rs:shuffle_index` (with `1 ≤ n ≤ 10000` and
    `0 ≤ i < n` the list of unpicked indices is not empty in round `i`), and the model
    artefacts `progress.rs:visit_container` and `tree` (the node of an address that was just
    found to be a container). -/
def stepSites : List String :=
  [ "object.rs:get_path",
    "progress.rs:increment_content_pointer", "story/mod.rs:shuffle_container",
    "control_logic.rs:visit_index_container",
    "object.rs:resolve_path",
    "callstack.rs:push", "callstack.rs:fork_thread",
    "divert.rs:get_target_path_string" ]

/-- The sites of `continue_single_step`: those of the step, and the thread of the default
    invisible choice that is followed after it (`choices.rs:thread_at_generation`: a choice
    of the current flow knows its thread). -/
def continueSites : List String := stepSites ++ ["choices.rs:thread_at_generation"]

/-- `m` can only end in `panic` with one of the site tags `S`. -/
def NP (S : List String) {α : Type} (m : M α) : Prop :=
  ∀ (st : St) (site : String) (st' : St), m st = (.panic site, st') → site ∈ S

/-! ### core level: what the lifted functions can panic with -/

theorem isTruthyObj_no_panic (o : Obj) (s : String) : isTruthyObj o ≠ .panic s := by
  unfold isTruthyObj
  split
  · intro h; cases h
  · exact isTruthy_no_panic _ s
  · intro h; cases h

theorem originNames_ne_none (l : InkList) : l.originNames ≠ none := by
  unfold InkList.originNames
  split <;> (intro h; cases h)

theorem pushEval_no_panic (defs : ListDefs) (s : Core) (o : Obj) (site : String) :
    s.pushEval defs o ≠ .panic site := by
  unfold Core.pushEval
  split
  · split
    · rename_i h; exact absurd h (originNames_ne_none _)
    · intro h; cases h
  · intro h; cases h

theorem pointerAtPath_no_panic (root : Obj) (p : Path) (site : String) : pointerAtPath root p ≠ .panic site := by
  unfold pointerAtPath
  split
  · intro h; cases h
  · rename_i last _
    cases last <;> simp only <;> split <;> (intro h; cases h)

theorem visitCountFor_panic (root : Obj) (s : Core) (a : Addr) (site : String)
    (h : s.visitCountFor root a = .panic site) : site ∈ stepSites := by
  unfold Core.visitCountFor at h
  split at h
  · split at h <;> cases h
  · cases h; simp [stepSites]

theorem incrementVisitCount_panic (root : Obj) (s : Core) (a : Addr) (site : String)
    (h : s.incrementVisitCount root a = .panic site) : site ∈ stepSites := by
  unfold Core.incrementVisitCount at h
  split at h
  · cases h
  · cases h; simp [stepSites]

theorem recordTurnIndexVisit_panic (root : Obj) (s : Core) (a : Addr) (site : String)
    (h : s.recordTurnIndexVisit root a = .panic site) : site ∈ stepSites := by
  unfold Core.recordTurnIndexVisit at h
  split at h
  · cases h
  · cases h; simp [stepSites]

theorem pop_no_panic (cs : CallStack) (t : Option PushPop) (site : String) : cs.pop t ≠ .panic site := by
  unfold CallStack.pop
  split <;> (intro h; cases h)

theorem popThread_no_panic (cs : CallStack) (site : String) : cs.popThread ≠ .panic site := by
  unfold CallStack.popThread
  split <;> (intro h; cases h)

theorem popCallstack_no_panic (s : Core) (t : Option PushPop) (site : String) :
    s.popCallstack t ≠ .panic site := by
  unfold Core.popCallstack
  simp only
  split
  · intro h; cases h
  · intro h; cases h
  · rename_i heq; exact absurd heq (pop_no_panic _ _ _)

/-- A context index that names no element of the call stack is a story error since the hardening. -/
theorem setTemp_no_panic (cs : CallStack) (name : String) (v : Val) (d : Bool) (ctx : Int) (site : String) :
    cs.setTemp name v d ctx ≠ .panic site := by
  intro h
  unfold CallStack.setTemp at h
  simp only at h
  repeat' split at h
  all_goals cases h

/-- `VariablesState::assign` never panics (reading through a bad variable pointer finds nothing,
    assigning through it is a story error). -/
theorem assign_no_panic (defs : ListDefs) (s : Core) (name : String) (isNew isGlobal : Bool) (v : Val)
    (site : String) : s.assign defs name isNew isGlobal v ≠ .panic site := by
  unfold Core.assign
  split
  · simp only
    split
    · intro h; cases h
    · split
      · intro h; cases h
      · intro h; cases h
      · rename_i heq; exact absurd heq (setTemp_no_panic _ _ _ _ _ _)
  · split
    split
    · intro h; cases h
    · split
      · intro h; cases h
      · intro h; cases h
      · rename_i heq; exact absurd heq (setTemp_no_panic _ _ _ _ _ _)

theorem targetPointerOf_panic (root : Obj) (a : Addr) (t : Path) (site : String)
    (h : targetPointerOf root a t = .panic site) : site ∈ stepSites := by
  unfold targetPointerOf at h
  split at h
  · cases h
  · split at h
    · cases h; simp [stepSites]
    · split at h
      · cases h
      · split at h <;> cases h

theorem divertTargetPath_panic (root : Obj) (a : Addr) (t : Path) (site : String)
    (h : divertTargetPath root a t = .panic site) : site ∈ stepSites := by
  unfold divertTargetPath at h
  split at h
  · split at h
    · split at h
      · split at h
        · cases h
        · cases h; simp [stepSites]
      · cases h
    · cases h
    · rename_i s heq
      cases h
      exact targetPointerOf_panic _ _ _ _ heq
  · cases h

/-- `path_by_appending_path` is total since the hardening, and so is `compact_path_string`. -/
theorem compact_isSome (own other : Path) : ∃ t, Path.compact own other = some t := by
  unfold Path.compact Path.appendPath
  split
  · exact ⟨_, rfl⟩
  · exact ⟨_, rfl⟩

/-! ### the logic -/

theorem NP_pure {S : List String} {α : Type} {a : α} : NP S (pure a : M α) := by
  intro st site st' h; cases h

theorem NP_bind {S : List String} {α β : Type} {x : M α} {f : α → M β} (hx : NP S x) (hf : ∀ a, NP S (f a)) : NP S (x >>= f) := by
  intro st site st' h
  change (M.bind' x f) st = _ at h
  unfold M.bind' at h
  split at h
  · rename_i a st1 heq
    exact hf a st1 site st' h
  · cases h
  · rename_i p st1 heq
    simp only [Prod.mk.injEq, Out.panic.injEq] at h
    obtain ⟨rfl, rfl⟩ := h
    exact hx st _ _ heq

theorem NP_get {S : List String} : NP S M.get := by intro st site st' h; cases h
theorem NP_getSt {S : List String} : NP S M.getSt := by intro st site st' h; cases h
theorem NP_set {S : List String} {s : Core} : NP S (M.set s) := by intro st site st' h; cases h
theorem NP_setSt {S : List String} {s : St} : NP S (M.setSt s) := by intro st site st' h; cases h
theorem NP_modify {S : List String} {f : Core → Core} : NP S (M.modify f) := by intro st site st' h; cases h
theorem NP_fail {S : List String} {α : Type} {k m : String} : NP S (M.fail k m : M α) := by intro st site st' h; cases h
theorem NP_invalid {S : List String} {α : Type} {m : String} : NP S (M.invalid m : M α) := NP_fail

theorem NP_crash {S : List String} {α : Type} {p : String} (hp : p ∈ S) : NP S (M.crash p : M α) := by
  intro st site st' h
  simp only [M.crash, Prod.mk.injEq, Out.panic.injEq] at h
  obtain ⟨rfl, _⟩ := h
  exact hp

theorem NP_unwrap {S : List String} {α : Type} {site : String} {o : Option α} (hp : site ∈ S) :
    NP S (M.unwrap site o) := by
  cases o with
  | none => exact NP_crash hp
  | some a => exact NP_pure

theorem NP_unwrap_some {S : List String} {α : Type} {site : String} {o : Option α} (h : ∃ a, o = some a) :
    NP S (M.unwrap site o) := by
  obtain ⟨a, rfl⟩ := h
  exact NP_pure

theorem NP_unwrap_compact {S : List String} {site : String} {own other : Path} : NP S (M.unwrap site (Path.compact own other)) := by
  obtain ⟨t, ht⟩ := compact_isSome own other
  rw [ht]; exact NP_pure

theorem NP_lift {S : List String} {α : Type} {o : Out α} (h : ∀ site, o = .panic site → site ∈ S) : NP S (M.lift o) := by
  intro st site st' hh
  simp only [M.lift, Prod.mk.injEq] at hh
  exact h site hh.1

theorem NP_liftS {S : List String} {f : Core → Out Core} (h : ∀ s site, f s = .panic site → site ∈ S) :
    NP S (M.liftS f) := by
  intro st site st' hh
  unfold M.liftS at hh
  split at hh
  · cases hh
  · cases hh
  · rename_i p heq
    simp only [Prod.mk.injEq, Out.panic.injEq] at hh
    obtain ⟨rfl, _⟩ := hh
    exact h _ _ heq

theorem NP_ite {S : List String} {α : Type} {c : Prop} [Decidable c] {x y : M α} (hx : NP S x) (hy : NP S y) :
    NP S (if c then x else y) := by
  split <;> assumption

theorem NP_mono {S S' : List String} {α : Type} {m : M α} (hs : ∀ x, x ∈ S → x ∈ S') (h : NP S m) : NP S' m :=
  fun st site st' hh => hs _ (h st site st' hh)

theorem stepSites_sub_continueSites : ∀ x, x ∈ stepSites → x ∈ continueSites := by
  intro x hx
  unfold continueSites
  exact List.mem_append_left _ hx

theorem NP_of_false {S : List String} {α : Type} {m : M α} (h : False) : NP S m := h.elim

theorem NP_bind_pure {S : List String} {α β : Type} {a : α} {f : α → M β} (hf : NP S (f a)) : NP S ((pure a : M α) >>= f) := by
  intro st site st' h
  exact hf st site st' h

theorem NP_bind_fail {S : List String} {α β : Type} {k m : String} {f : α → M β} : NP S ((M.fail k m : M α) >>= f) := by
  intro st site st' h; cases h

theorem NP_bind_invalid {S : List String} {α β : Type} {m : String} {f : α → M β} : NP S ((M.invalid m : M α) >>= f) := NP_bind_fail

theorem NP_bind_crash {S : List String} {α β : Type} {p : String} {f : α → M β} (hp : p ∈ S) :
    NP S ((M.crash p : M α) >>= f) := by
  intro st site st' h
  change (M.bind' (M.crash p) f) st = _ at h
  simp only [M.bind', M.crash, Prod.mk.injEq, Out.panic.injEq] at h
  obtain ⟨rfl, _⟩ := h
  exact hp

theorem NP_popEvalM {S : List String} : NP S popEvalM := by
  intro st site st' h
  unfold Ink.popEvalM at h
  split at h
  · cases h
  · cases h
  · rename_i p heq; exact absurd heq (popEval_no_panic _ _)

theorem NP_pushEvalM {S : List String} {env : Env} {o : Obj} : NP S (pushEvalM env o) :=
  NP_liftS (fun _ _ h => absurd h (pushEval_no_panic _ _ _ _))

theorem NP_addErrorM {S : List String} {root : Obj} {m : String} {w : Bool} : NP S (addErrorM root m w) := by
  intro st site st' h
  unfold Ink.addErrorM at h
  split at h <;> cases h

theorem NP_pointerAtPathM {S : List String} {env : Env} {p : Path} : NP S (pointerAtPathM env p) :=
  NP_lift (fun _ h => absurd h (pointerAtPath_no_panic _ _ _))

theorem NP_divertTargetPointer {env : Env} {a : Addr} {t : Path} : NP stepSites (divertTargetPointer env a t) :=
  NP_lift (fun _ h => targetPointerOf_panic _ _ _ _ h)

/-! #### the sites that are unreachable for local reasons -/

theorem filter_ne_length (l : List Int) (c : Int) (hn : l.Nodup) (hc : c ∈ l) :
    (l.filter (fun x => x != c)).length + 1 = l.length := by
  induction l with
  | nil => cases hc
  | cons a rest ih =>
    rw [List.nodup_cons] at hn
    by_cases hac : a = c
    · subst hac
      have : rest.filter (fun x => x != a) = rest := by
        apply List.filter_eq_self.mpr
        intro x hx
        have : x ≠ a := fun e => hn.1 (e ▸ hx)
        simpa using this
      simp [this]
    · have hc' : c ∈ rest := by
        rcases List.mem_cons.mp hc with h | h
        · exact absurd h.symm hac
        · exact h
      have := ih hn.2 hc'
      simp [hac]
      omega

theorem pick_ne_none (it seed : Int) :
    ∀ (fuel i : Nat) (unpicked : List Int), unpicked.Nodup → (i : Int) ≤ it →
      it < (i : Int) + unpicked.length → unpicked.length < fuel →
      nextSequenceShuffleIndex.pick it seed fuel i unpicked ≠ none := by
  intro fuel
  induction fuel with
  | zero => intro i u _ _ _ h; omega
  | succ fuel ih =>
    intro i u hnd hle hlt hfuel
    unfold nextSequenceShuffleIndex.pick
    have hlen : 0 < u.length := by omega
    have hne : u.isEmpty = false := by
      cases u with
      | nil => simp at hlen
      | cons _ _ => rfl
    simp only [hne, Bool.false_eq_true, if_false]
    have hpos : (0 : Int) < (u.length : Int) := by omega
    have h1 : 0 ≤ wrapI32 (Rng.nthWord seed i) % (u.length : Int) := Int.emod_nonneg _ (by omega)
    have h2 : wrapI32 (Rng.nthWord seed i) % (u.length : Int) < (u.length : Int) := Int.emod_lt_of_pos _ hpos
    have hidx : (wrapI32 (Rng.nthWord seed i) % (u.length : Int)).toNat < u.length := by omega
    rw [List.getElem?_eq_getElem hidx]
    simp only
    split
    · intro h; cases h
    · rename_i hne'
      have hilt : (i : Int) < it := by
        have : ¬ ((i : Int) = it) := by simpa using hne'
        omega
      have hmem : u[(wrapI32 (Rng.nthWord seed i) % (u.length : Int)).toNat] ∈ u := List.getElem_mem _
      have hfl := filter_ne_length u _ hnd hmem
      apply ih
      · exact hnd.filter _
      · push_cast; omega
      · push_cast; omega
      · omega

theorem shuffle_pick_ne_none (n sc seed : Int)
    (hn : ¬ (decide (n ≤ 0) || decide (n > 10000)) = true) (h0 : ¬ sc.tmod n < 0) :
    nextSequenceShuffleIndex.pick (sc.tmod n) seed (n.toNat + 1) 0 (List.map Int.ofNat (List.range n.toNat)) ≠ none := by
  have hn' : 0 < n := by
    simp only [Bool.or_eq_true, decide_eq_true_eq, not_or, Int.not_le] at hn
    exact hn.1
  apply pick_ne_none
  · rw [List.Nodup, List.pairwise_map]
    exact (List.nodup_range (n := n.toNat)).imp (fun h e => h (Int.ofNat.inj e))
  · simp only [Int.natCast_zero] ; omega
  · have := Int.tmod_lt_of_pos sc hn'
    simp only [List.length_map, List.length_range, Int.natCast_zero]
    omega
  · simp

theorem insertSortedItem_length (x : ListItem × Int) (l : List (ListItem × Int)) :
    (InkList.insertSortedItem x l).length = l.length + 1 := by
  induction l with
  | nil => rfl
  | cons y ys ih =>
    unfold InkList.insertSortedItem
    split
    · simp
    · simp [ih]

theorem ordered_length (l : InkList) : l.ordered.length = l.items.length := by
  unfold InkList.ordered
  have : ∀ (xs acc : List (ListItem × Int)),
      (xs.foldl (fun acc x => InkList.insertSortedItem x acc) acc).length = acc.length + xs.length := by
    intro xs
    induction xs with
    | nil => intro acc; simp
    | cons x xs ih => intro acc; simp only [List.foldl_cons, ih, insertSortedItem_length, List.length_cons]; omega
  simpa using this l.items []

/-- `LIST_RANDOM`: `next_random % len` indexes the `len` ordered items of a non-empty list. -/
theorem listRandom_index_ne_none (l : InkList) (n : Nat) (h : ¬ l.items.isEmpty = true) :
    l.ordered.reverse[n % l.items.length]? ≠ none := by
  have hpos : 0 < l.items.length := by
    cases hl : l.items with
    | nil => simp [hl] at h
    | cons _ _ => simp
  have hlt : n % l.items.length < l.ordered.reverse.length := by
    rw [List.length_reverse, ordered_length]; exact Nat.mod_lt _ hpos
  rw [List.getElem?_eq_getElem hlt]
  intro hh; cases hh

theorem isContainerAt_nodeAt {root : Obj} {a : Addr} (h : isContainerAt root a = true) :
    ∃ o, nodeAt root a = some o := by
  unfold isContainerAt at h
  split at h
  · exact ⟨_, by assumption⟩
  · cases h

/-- the container found by `TURNS_SINCE` / `READ_COUNT` is a node of the tree -/
theorem nodeAt_of_guard {root : Obj} {a ca : Addr} {b : Bool}
    (h : (if (b && isContainerAt root a) = true then some a else none) = some ca) :
    ∃ o, nodeAt root ca = some o := by
  split at h
  · rename_i hc
    cases h
    simp only [Bool.and_eq_true] at hc
    exact isContainerAt_nodeAt hc.2
  · cases h

theorem canPop_currentElement {cs : CallStack} (h : cs.canPop = true) : ∃ e, cs.currentElement = some e := by
  unfold CallStack.canPop CallStack.elements at h
  unfold CallStack.currentElement
  split at h
  · rename_i t ht
    simp only [decide_eq_true_eq] at h
    cases hl : t.callstack.getLast? with
    | some e => exact ⟨e, rfl⟩
    | none =>
      rw [List.getLast?_eq_none_iff] at hl
      rw [hl] at h; simp at h
  · simp at h

/-- the local `nameOf` of the pop commands -/
def popName : PushPop → Option String
  | .function => some "function return statement (~ return)"
  | .tunnel => some "tunnel onwards statement (->->)"
  | .functionEvaluationFromGame => none

/-- The name table of the pop types (`control_logic.rs`, `names.get(..).unwrap()`): the popped
    type is `Function` or `Tunnel`, and when the call stack can be popped and the story did not
    just leave a function evaluation from the game, the current element is one too. -/
theorem popNames_absurd (s : Core) (pt : PushPop) (hpt : pt ≠ .functionEvaluationFromGame)
    (hex : ¬ s.tryExitFunctionEvaluationFromGame.snd = true)
    (hx : ∀ (f e : String), popName pt = some f →
      (if (!s.callstack.canPop) = true then some "end of flow (-> END or choice)"
        else
          match Option.map (fun x => x.kind) s.callstack.currentElement with
          | some k => popName k
          | none => none) = some e → False) : False := by
  have h1 : ∃ f, popName pt = some f := by
    cases pt with
    | function => exact ⟨_, rfl⟩
    | tunnel => exact ⟨_, rfl⟩
    | functionEvaluationFromGame => exact absurd rfl hpt
  obtain ⟨f, hf⟩ := h1
  cases hcp : s.callstack.canPop with
  | false => exact hx f "end of flow (-> END or choice)" hf (by simp [hcp])
  | true =>
    obtain ⟨el, hel⟩ := canPop_currentElement hcp
    have hk : el.kind ≠ .functionEvaluationFromGame := by
      intro hk
      apply hex
      unfold Core.tryExitFunctionEvaluationFromGame CallStack.elementIsEvaluateFromGame
      simp [hel, hk]
    cases hkind : el.kind with
    | function => exact hx f "function return statement (~ return)" hf (by simp [hcp, hel, hkind, popName])
    | tunnel => exact hx f "tunnel onwards statement (->->)" hf (by simp [hcp, hel, hkind, popName])
    | functionEvaluationFromGame => exact absurd hkind hk

theorem popThreadLift_no_panic (s : Core) (site : String) :
    (match s.callstack.popThread with
      | .ok cs => Out.ok (s.setCallstack cs)
      | .err k m => .err k m
      | .panic p => .panic p) ≠ .panic site := by
  split
  · intro h; cases h
  · intro h; cases h
  · rename_i heq; exact absurd heq (popThread_no_panic _ _)

/-- side conditions of `lift` / `liftS`: the lifted function panics with a residual site only -/
macro "np_side" : tactic => `(tactic| first
  | exact absurd (by assumption) (isTruthyObj_no_panic _ _)
  | exact absurd (by assumption) (pushEval_no_panic _ _ _ _)
  | exact absurd (by assumption) (assign_no_panic _ _ _ _ _ _ _)
  | exact absurd (by assumption) (popCallstack_no_panic _ _ _)
  | exact absurd (by assumption) (pointerAtPath_no_panic _ _ _)
  | exact visitCountFor_panic _ _ _ _ (by assumption)
  | exact incrementVisitCount_panic _ _ _ _ (by assumption)
  | exact recordTurnIndexVisit_panic _ _ _ _ (by assumption)
  | exact divertTargetPath_panic _ _ _ _ (by assumption)
  | exact targetPointerOf_panic _ _ _ _ (by assumption)
  | exact absurd (by assumption) (popThreadLift_no_panic _ _)
  | exact absurd (by assumption) (native_call_never_panics _ _ _ _))

/-- the conditions under which a locally unreachable site is reached contradict each other
    (closes a goal `False`) -/
macro "np_absurd" : tactic => `(tactic| first
  | (apply shuffle_pick_ne_none <;> assumption)
  | (apply listRandom_index_ne_none <;> assumption)
  | (apply popNames_absurd _ PushPop.function (by decide) <;> assumption)
  | (apply popNames_absurd _ PushPop.tunnel (by decide) <;> assumption)
  | (simp at *; done))

/-- "this address names a node of the tree" -/
macro "np_node" : tactic => `(tactic| first
  | exact ⟨_, by assumption⟩
  | exact isContainerAt_nodeAt (by assumption)
  | exact nodeAt_of_guard (by assumption))

/-- membership of a literal site tag in the residual list -/
macro "np_mem" : tactic => `(tactic| first | decide | (simp [stepSites]; done))

open Lean Elab Tactic Meta in
/-- One decomposition step of a goal `NP m`, chosen by the head symbol of `m`. -/
elab "np_step" : tactic => withMainContext do
  let g ← getMainGoal
  let tgt := (← instantiateMVars (← g.getType)).consumeMData
  let args := tgt.getAppArgs
  unless tgt.getAppFn.isConstOf ``Ink.C04.NP && args.size == 3 do
    throwError "np_step: not an NP goal"
  let m0 := args[2]!
  let m := m0.consumeMData.headBeta
  if m.isLet then
    let m' := (m.letBody!.instantiate1 m.letValue!).headBeta
    let g' ← g.change (mkAppN tgt.getAppFn (args.set! 2 m'))
    replaceMainGoal [g']
    return
  if m != m0 then
    let g' ← g.change (mkAppN tgt.getAppFn (args.set! 2 m))
    replaceMainGoal [g']
    return
  let run (t : TSyntax `tactic) : TacticM Unit := evalTactic t
  let headName (e : Expr) : Option Name := e.consumeMData.headBeta.getAppFn.constName?
  let lemmaFor (c : Name) : Name := `Ink.C04 ++ Name.mkSimple ("NP_" ++ c.getString!)
  match headName m with
  | some ``Bind.bind =>
    let x := m.getAppArgs[4]!
    match headName x with
    | some ``Pure.pure => run (← `(tactic| refine NP_bind_pure ?_))
    | some ``Ink.M.fail => run (← `(tactic| exact NP_bind_fail))
    | some ``Ink.M.invalid => run (← `(tactic| exact NP_bind_invalid))
    | some ``Ink.M.crash => run (← `(tactic| first | (refine NP_bind_crash ?_; np_mem) | (refine NP_of_false ?_; np_absurd)))
    | _ => run (← `(tactic| refine NP_bind ?_ (fun _ => ?_)))
  | some ``Pure.pure => run (← `(tactic| exact NP_pure))
  | some ``ite => run (← `(tactic| split))
  | some ``dite => run (← `(tactic| split))
  | some ``Ink.M.get => run (← `(tactic| exact NP_get))
  | some ``Ink.M.getSt => run (← `(tactic| exact NP_getSt))
  | some ``Ink.M.set => run (← `(tactic| exact NP_set))
  | some ``Ink.M.setSt => run (← `(tactic| exact NP_setSt))
  | some ``Ink.M.modify => run (← `(tactic| exact NP_modify))
  | some ``Ink.M.fail => run (← `(tactic| exact NP_fail))
  | some ``Ink.M.invalid => run (← `(tactic| exact NP_invalid))
  | some ``Ink.M.crash => run (← `(tactic| first | (refine NP_crash ?_; np_mem) | (refine NP_of_false ?_; np_absurd)))
  | some ``Ink.M.unwrap => run (← `(tactic| first
      | (refine NP_unwrap ?_; np_mem) | exact NP_unwrap_compact | exact NP_unwrap_some (by np_node)))
  -- Lean's `panic` in the branch of a `.panic` outcome that the matched function never has
  | some ``panic => run (← `(tactic| exact NP_of_false (popEvalMultiple_no_panic _ _ _ (by assumption))))
  | some ``Ink.M.lift => run (← `(tactic| (refine NP_lift (fun site hsite => ?_); np_side)))
  | some ``Ink.M.liftS => run (← `(tactic| (refine NP_liftS (fun s site hsite => ?_); np_side)))
  | some c =>
    if (← isMatcher c) then run (← `(tactic| split))
    else
      let l := lemmaFor c
      if (← getEnv).contains l then
        let id := mkIdent l
        run (← `(tactic| first | exact $id | exact $id (by np_node) | exact NP_mono stepSites_sub_continueSites $id))
      else run (← `(tactic| first | assumption | apply_assumption))
  | none =>
    if m.getAppFn.isFVar then run (← `(tactic| first | assumption | (apply_assumption)))
    else throwError "np_step: stuck at {m}"

/-! ### the functions of `Ink/Step.lean` -/

/-- `visit_container` of an address that names a node (the Rust holds the container itself) -/
theorem NP_visitContainer {env : Env} {a : Addr} {b : Bool} (ha : ∃ o, nodeAt env.root a = some o) :
    NP stepSites (visitContainer env a b) := by
  unfold Ink.visitContainer
  split
  · rename_i heq
    obtain ⟨o, ho⟩ := ha
    rw [ho] at heq; cases heq
  · repeat' np_step

theorem NP_loop_aux {env : Env} {prev : List Addr} (fuel : Nat) :
    ∀ (child : Addr) (b : Bool), NP stepSites (visitChangedContainersDueToDivert.loop env prev fuel child b) := by
  induction fuel with
  | zero => intro child b; unfold visitChangedContainersDueToDivert.loop; repeat' np_step
  | succ fuel ih =>
    intro child b
    unfold visitChangedContainersDueToDivert.loop
    repeat' np_step

theorem NP_loop {env : Env} {prev : List Addr} {fuel : Nat} {child : Addr} {b : Bool} :
    NP stepSites (visitChangedContainersDueToDivert.loop env prev fuel child b) := NP_loop_aux fuel child b

theorem NP_visitChangedContainersDueToDivert {env : Env} : NP stepSites (visitChangedContainersDueToDivert env) := by
  unfold Ink.visitChangedContainersDueToDivert
  repeat' np_step

theorem NP_incrementContentPointer {env : Env} : NP stepSites (incrementContentPointer env) := by
  unfold Ink.incrementContentPointer
  repeat' np_step

theorem NP_nextSequenceShuffleIndex {env : Env} : NP stepSites (nextSequenceShuffleIndex env) := by
  unfold Ink.nextSequenceShuffleIndex
  repeat' np_step

theorem NP_choosePath {env : Env} {p : Path} {b : Bool} : NP stepSites (choosePath env p b) := by
  unfold Ink.choosePath
  repeat' np_step

theorem NP_tryFollowDefaultInvisibleChoice {env : Env} : NP continueSites (tryFollowDefaultInvisibleChoice env) := by
  unfold Ink.tryFollowDefaultInvisibleChoice
  repeat' np_step

theorem NP_popArgs_aux {f : String} (k : Nat) :
    ∀ (acc : List Val), NP stepSites (callExternalFunction.popArgs f k acc) := by
  induction k with
  | zero => intro acc; unfold callExternalFunction.popArgs; repeat' np_step
  | succ k ih =>
    intro acc
    unfold callExternalFunction.popArgs
    repeat' np_step

theorem NP_popArgs {f : String} {k : Nat} {acc : List Val} :
    NP stepSites (callExternalFunction.popArgs f k acc) := NP_popArgs_aux k acc

theorem NP_callExternalFunction {env : Env} {f : String} {k : Nat} : NP stepSites (callExternalFunction env f k) := by
  unfold Ink.callExternalFunction
  repeat' np_step

theorem NP_popTags_aux (k : Nat) :
    ∀ (tags : List String), NP stepSites (popChoiceStringAndTags.popTags k tags) := by
  induction k with
  | zero => intro acc; unfold popChoiceStringAndTags.popTags; repeat' np_step
  | succ k ih =>
    intro acc
    unfold popChoiceStringAndTags.popTags
    repeat' np_step

theorem NP_popTags {k : Nat} {tags : List String} :
    NP stepSites (popChoiceStringAndTags.popTags k tags) := NP_popTags_aux k tags

theorem NP_popChoiceStringAndTags {tags : List String} : NP stepSites (popChoiceStringAndTags tags) := by
  unfold Ink.popChoiceStringAndTags
  repeat' np_step

theorem NP_processChoice {env : Env} {a : Addr} {flags : Int} {p : Path} :
    NP stepSites (processChoice env a flags p) := by
  unfold Ink.processChoice
  repeat' np_step

theorem NP_plfc_divert {env : Env} {a : Addr} {d : DivertData} :
    NP stepSites (performLogicAndFlowControl env a (.divert d)) := by
  unfold Ink.performLogicAndFlowControl
  simp only
  repeat' np_step

theorem NP_plfc_cmd {env : Env} {a : Addr} {c : Cmd} :
    NP stepSites (performLogicAndFlowControl env a (.cmd c)) := by
  unfold Ink.performLogicAndFlowControl
  simp only
  repeat' np_step

theorem NP_plfc_native {env : Env} {a : Addr} {op : Op} :
    NP stepSites (performLogicAndFlowControl env a (.native op)) := by
  unfold Ink.performLogicAndFlowControl
  simp only
  repeat' np_step

theorem NP_performLogicAndFlowControl {env : Env} {a : Addr} {o : Obj} :
    NP stepSites (performLogicAndFlowControl env a o) := by
  cases o
  case divert d => exact NP_plfc_divert
  case cmd c => exact NP_plfc_cmd
  case native op => exact NP_plfc_native
  all_goals (unfold Ink.performLogicAndFlowControl; simp only; repeat' np_step)

theorem NP_nextContent_aux {env : Env} (fuel : Nat) : NP stepSites (nextContent env fuel) := by
  induction fuel with
  | zero => unfold Ink.nextContent; repeat' np_step
  | succ fuel ih =>
    unfold Ink.nextContent
    repeat' np_step

theorem NP_nextContent {env : Env} {fuel : Nat} : NP stepSites (nextContent env fuel) := NP_nextContent_aux fuel

theorem NP_descend_aux {env : Env} (fuel : Nat) : ∀ (p : Ptr), NP stepSites (step.descend env fuel p) := by
  induction fuel with
  | zero => intro p; unfold step.descend; repeat' np_step
  | succ fuel ih =>
    intro p
    unfold step.descend
    repeat' np_step

theorem NP_descend {env : Env} {fuel : Nat} {p : Ptr} : NP stepSites (step.descend env fuel p) := NP_descend_aux fuel p

theorem NP_step {env : Env} : NP stepSites (step env) := by
  unfold Ink.step
  repeat' np_step

/-- **step_panic_sites.**  The complete set of site tags with which one interpreter step
    can end in `panic`: every other partial operation of the step function — the evaluation
    stack, variable look-up and assignment (also through malformed variable pointers), the
    native functions on arbitrary operands, diverts with empty or unresolvable targets,
    `du` / `listInt` / `lrnd` / `seq` / `TURNS_SINCE` / `CNT?` on malformed operands, once-only
    choices, content pointers that address nothing — ends in `ok` or in a story error. -/
theorem step_panic_sites (env : Env) (st : St) (site : String) (st' : St)
    (h : step env st = (.panic site, st')) : site ∈ stepSites :=
  NP_step st site st' h

/-- The list, spelled out. -/
theorem step_panic_sites' (env : Env) (st : St) (site : String) (st' : St)
    (h : step env st = (.panic site, st')) :
    site ∈ [ "object.rs:get_path",
             "progress.rs:increment_content_pointer", "story/mod.rs:shuffle_container",
             "control_logic.rs:visit_index_container", "object.rs:resolve_path",
             "callstack.rs:push", "callstack.rs:fork_thread", "divert.rs:get_target_path_string" ] :=
  step_panic_sites env st site st' h

theorem runM_panic {α : Type} (st : Story) (m : M α) (site : String) (st1 : Story)
    (h : st.runM m = (.panic site, st1)) :
    ∃ st', m { s := st.state.core, externals := st.externals, events := st.events,
               sawUnsafe := st.sawUnsafe, newWarnings := [] } = (.panic site, st') := by
  unfold Story.runM at h
  simp only [Prod.mk.injEq] at h
  exact ⟨_, Prod.ext h.1 rfl⟩

/-- **continueSingleStep_panic_sites.**  `continue_single_step` (the step, then the default
    invisible choice if the story cannot go on) ends in `panic` only with one of the sites of
    the step or with `choices.rs:thread_at_generation`. -/
theorem continueSingleStep_panic_sites (st : Story) (site : String) (st1 : Story)
    (h : st.continueSingleStep = (.panic site, st1)) : site ∈ continueSites := by
  unfold Story.continueSingleStep at h
  split at h
  · cases h
  · rename_i p st1' heq
    simp only [Prod.mk.injEq, Out.panic.injEq] at h
    obtain ⟨rfl, _⟩ := h
    obtain ⟨st', hst'⟩ := runM_panic _ _ _ _ heq
    exact stepSites_sub_continueSites _ (NP_step _ _ _ hst')
  · simp only at h
    split at h
    · cases h
    · rename_i p st2' heq2
      simp only [Prod.mk.injEq, Out.panic.injEq] at h
      obtain ⟨rfl, _⟩ := h
      split at heq2
      · obtain ⟨st', hst'⟩ := runM_panic _ _ _ _ heq2
        exact NP_tryFollowDefaultInvisibleChoice _ _ _ hst'
      · cases heq2
    · exfalso
      split at h
      · cases h
      · split at h
        · cases h
        · split at h
          · split at h <;> cases h
          · cases h

/-- A story whose first instruction is an external divert without target path and without
    variable target (no loader builds one: the invariant behind `divert.rs:get_target_path_string`). -/
def exBadDivertRoot : Obj := .container none 0
  [.divert { pushes := false, pushType := .function, external := true, exArgs := 0,
             conditional := false, varName := none, target := none }] []
def exBadDivert : Story := { exStory with root := exBadDivertRoot }

/-- A story whose first instruction is `du`, with nothing on the evaluation stack. -/
def exDu : Story := { exStory with root := .container none 0 [.cmd .duplicate] [] }

-- the listed sites are reachable from states that break the invariant they stand for …
example : ∃ st1, exBadDivert.runM (step exBadDivert.env)
    = (.panic "divert.rs:get_target_path_string", st1) := ⟨_, rfl⟩
example : ∃ st1, exBadDivert.continueSingleStep = (.panic "divert.rs:get_target_path_string", st1) := ⟨_, rfl⟩
-- … and a hardened site is a story error
example : ∃ st1, exDu.runM (step exDu.env)
    = (.err "InvalidStoryState" "Evaluation stack is empty: nothing to duplicate.", st1) := ⟨_, rfl⟩
-- the sites that the hardening turned into story errors are not in the list
example : stepSites.length = 8 := rfl
example : "callstack.rs:get_temporary_variable_with_name" ∉ stepSites := by decide
example : "control_logic.rs:duplicate_peek" ∉ stepSites := by decide
example : "native_function_call.rs:binary_list_downcast" ∉ continueSites := by decide

end C04
end Ink
