import Ink.Native
namespace Ink
namespace C04
end C04
end Ink
