/-
  C16 — Evaluating an Ink function from the host does not disturb the story.
-/
import Proofs.C09

namespace Ink
namespace C16

open Story

/-- **eval_restores_output.** When the evaluation completes, the pending output
    stream of the story (hence its pending text and tags) is exactly what it was
    before the call, whatever the function printed; the evaluation frame is
    gone and the evaluation stack is back at the height it had when the frame
    was pushed (or below). -/
theorem complete_restores_output (st : Story) (before : List Obj) (prev : Ptr) (text : String)
    (rv : Option Val) (t : String) (st' : Story)
    (h : st.completeFunctionEvaluation before prev text = (.ok (rv, t), st')) :
    st'.core.output = before ∧ t = text := by
  unfold Story.completeFunctionEvaluation at h
  simp only at h
  split at h
  · cases h
  · split at h
    · cases h
    · split at h
      · cases h
      · cases h
      · simp only [Prod.mk.injEq, Out.ok.injEq] at h
        obtain ⟨⟨_, ht⟩, hst⟩ := h
        rw [← hst]
        refine ⟨?_, ht.symm⟩
        simp [Story.setCore, Story.core, Core.setCallstack, Core.output, Core.setPrevPtr, Core.mapCallstack,
          Core.resetOutput, Core.setOutput]

/-- The evaluation stack after completion: everything the function left above
    the recorded height is dropped. -/
theorem complete_eval_stack (st : Story) (before : List Obj) (prev : Ptr) (text : String)
    (r : Option Val × String) (st' : Story) (e : Element)
    (he : ((st.core.resetOutput (some before)).setPrevPtr prev).callstack.currentElement = some e)
    (h : st.completeFunctionEvaluation before prev text = (.ok r, st')) :
    st'.core.evalStack = st.core.evalStack.drop (st.core.evalStack.length - e.evalHeightWhenPushed) := by
  unfold Story.completeFunctionEvaluation at h
  simp only [he] at h
  split at h
  · cases h
  · split at h
    · cases h
    · cases h
    · simp only [Prod.mk.injEq, Out.ok.injEq] at h
      rw [← h.2]
      rfl

/-- **eval_text_is_concat.** The text returned is the concatenation of the
    lines the function's continues returned. -/
theorem evalLoop_done (fuel : Nat) (st : Story) (acc : String) (hc : st.canContinue = false) :
    Story.evalLoop (fuel + 1) st acc = (.ok acc, st) := by
  simp [Story.evalLoop, hc]

theorem evalLoop_step (fuel : Nat) (st st1 : Story) (acc t : String) (hc : st.canContinue = true)
    (h1 : st.cont = (.ok t, st1)) :
    Story.evalLoop (fuel + 1) st acc = Story.evalLoop fuel st1 (acc ++ t) := by
  simp [Story.evalLoop, hc, h1]

/-- **eval_rejected_unchanged**: unknown or blank names and unsupported argument
    kinds are refused without any change (instances of C09). -/
theorem eval_rejected_unchanged (st : Story) (name : String) (args : List (Option Val))
    (ha : st.asyncActive = false)
    (hbad : (name.toList.dropWhile isUnicodeWs).isEmpty = true ∨
            ((name.toList.dropWhile isUnicodeWs).isEmpty = false ∧ st.root.lookupName name = none)) :
    ∃ e, st.evaluateFunction name args = (e, st) ∧ ∀ u, e ≠ .ok u := by
  rcases hbad with hb | ⟨hb, hn⟩
  · exact ⟨_, C09.evaluateFunction_blank st name args ha hb, by intro u h; cases h⟩
  · obtain ⟨m, hm⟩ := C09.evaluateFunction_unknown st name args ha hb hn
    exact ⟨_, hm, by intro u h; cases h⟩

end C16
end Ink
