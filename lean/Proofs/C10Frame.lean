import Lean.Elab.Tactic
import Proofs.C10

/-
  C10 (frame part) — operations on the current flow never touch a parked flow,
  and never rename the current one; interleaving host operations on two flows
  gives each flow the record (call stack, output stream, choices) it has when
  run alone, as long as the flows do not talk through the shared state.

  Layout:
   * core level: no function of `Ink/State.lean` changes `flow.name`;
   * step level: a small Hoare logic `H n m Q` for the step monad `M` ("run in
     flow `n`, `m` ends in flow `n`") with a head-symbol driven tactic `h_step`,
     used to push the invariant through every `do` block of `Ink/Step.lean`
     up to `step`, `tryFollowDefaultInvisibleChoice` and `choosePath`;
   * story level: a relation `K π a b` ("`b` is reached from `a` keeping the
     projection `π` and the snapshot invariant for `π`") for every projection
     `π` that only reads the parked flows and the name of the current flow,
     pushed through `continueSingleStep`, `stepLoop`, `continueInternal` and the
     host operations;
   * the numbered deliverables: `FlowOp`/`applyOp`/`applyOps` (1),
     `ops_keep_parked_flows` (2), `other_flow_untouched` (3),
     `interleaving_flow_projection` (4), the examples on `frameStory` (5).

  The switch used in (3) and (4) is `switchTo name st`, i.e.
  `switch_flow_internal` on the story; `switchFlow_eq_switchTo` identifies it
  with the public `Story.switchFlow` outside an asynchronous continue, and
  `other_flow_untouched_public` restates (3) with the public calls.
-/
namespace Ink
namespace C10
open M

/-! ### core-level: nothing renames the current flow -/
section corenames
variable (s : Core)

@[simp] theorem setCallstack_name (cs : CallStack) : (s.setCallstack cs).flow.name = s.flow.name := rfl
@[simp] theorem mapCallstack_name (f : CallStack → CallStack) : (s.mapCallstack f).flow.name = s.flow.name := rfl
@[simp] theorem setCurrentPtr_name (p : Ptr) : (s.setCurrentPtr p).flow.name = s.flow.name := rfl
@[simp] theorem setPrevPtr_name (p : Ptr) : (s.setPrevPtr p).flow.name = s.flow.name := rfl
@[simp] theorem setInExpr_name (b : Bool) : (s.setInExpr b).flow.name = s.flow.name := rfl
@[simp] theorem setOutput_name (o : List Obj) : (s.setOutput o).flow.name = s.flow.name := rfl
@[simp] theorem resetOutput_name (o : Option (List Obj)) : (s.resetOutput o).flow.name = s.flow.name := rfl
@[simp] theorem addErrorMessage_name (m : String) : (s.addErrorMessage m).flow.name = s.flow.name := rfl
@[simp] theorem forceEnd_name : s.forceEnd.flow.name = s.flow.name := rfl

@[simp] theorem popFromOutput_name (n : Nat) : (s.popFromOutput n).flow.name = s.flow.name := by
  unfold Core.popFromOutput; split <;> rfl

@[simp] theorem trimWs_name : s.trimWhitespaceFromFunctionEnd.flow.name = s.flow.name := by
  unfold Core.trimWhitespaceFromFunctionEnd; simp only; split <;> rfl

theorem ite_name {c : Prop} [Decidable c] {a b : Core} {n : String}
    (ha : a.flow.name = n) (hb : b.flow.name = n) : (if c then a else b).flow.name = n := by
  split <;> assumption

@[simp] theorem pushIndividual_name (o : Obj) : (s.pushIndividual o).flow.name = s.flow.name := by
  unfold Core.pushIndividual
  split
  · rfl
  · repeat' (first | rfl | apply ite_name | split)
  · rfl

theorem foldl_name {β : Type} (f : Core → β → Core) (hf : ∀ c b, (f c b).flow.name = c.flow.name)
    (l : List β) (c : Core) : (l.foldl f c).flow.name = c.flow.name := by
  induction l generalizing c with
  | nil => rfl
  | cons x xs ih => simp only [List.foldl_cons]; rw [ih, hf]

@[simp] theorem pushToOutput_name (o : Obj) : (s.pushToOutput o).flow.name = s.flow.name := by
  unfold Core.pushToOutput
  split
  · split
    · exact foldl_name _ (fun c b => pushIndividual_name c _) _ _
    · exact pushIndividual_name _ _
  · exact pushIndividual_name _ _

theorem pushEval_name (defs : ListDefs) (o : Obj) (s' : Core) (h : s.pushEval defs o = .ok s') :
    s'.flow.name = s.flow.name := by
  unfold Core.pushEval at h
  split at h
  · split at h
    · cases h
    · cases h; rfl
  · cases h; rfl

theorem popEval_name (o : Obj) (s' : Core) (h : s.popEval = .ok (o, s')) : s'.flow.name = s.flow.name := by
  unfold Core.popEval at h
  split at h
  · cases h; rfl
  · cases h

theorem popEvalMultiple_name (n : Nat) (os : List Obj) (s' : Core) (h : s.popEvalMultiple n = .ok (os, s')) :
    s'.flow.name = s.flow.name := by
  unfold Core.popEvalMultiple at h
  split at h
  · cases h; rfl
  · cases h

@[simp] theorem setGlobal_name (name : String) (v : Val) : (s.setGlobal name v).1.flow.name = s.flow.name := by
  unfold Core.setGlobal; rfl

theorem assign_name (defs : ListDefs) (name : String) (isNew isGlobal : Bool) (v : Val) (s' : Core)
    (h : s.assign defs name isNew isGlobal v = .ok s') : s'.flow.name = s.flow.name := by
  unfold Core.assign at h
  split at h
  · simp only at h
    split at h
    · cases h; exact setGlobal_name _ _ _
    · split at h
      · cases h; rfl
      · cases h
      · cases h
  · split at h
    split at h
    · cases h; exact setGlobal_name _ _ _
    · split at h
      · cases h; rfl
      · cases h
      · cases h

theorem incrementVisitCount_name (root : Obj) (a : Addr) (s' : Core) (h : s.incrementVisitCount root a = .ok s') :
    s'.flow.name = s.flow.name := by
  unfold Core.incrementVisitCount at h
  split at h
  · cases h; rfl
  · cases h

theorem recordTurnIndexVisit_name (root : Obj) (a : Addr) (s' : Core) (h : s.recordTurnIndexVisit root a = .ok s') :
    s'.flow.name = s.flow.name := by
  unfold Core.recordTurnIndexVisit at h
  split at h
  · cases h; rfl
  · cases h

@[simp] theorem tryExit_name : s.tryExitFunctionEvaluationFromGame.1.flow.name = s.flow.name := by
  unfold Core.tryExitFunctionEvaluationFromGame; split <;> rfl

theorem popCallstack_name (t : Option PushPop) (s' : Core) (h : s.popCallstack t = .ok s') :
    s'.flow.name = s.flow.name := by
  unfold Core.popCallstack at h
  simp only at h
  split at h
  · cases h
    show (Core.setCallstack _ _).flow.name = _
    rw [setCallstack_name]
    split
    · split
      · exact trimWs_name _
      · rfl
    · rfl
  · cases h
  · cases h

@[simp] theorem addErrorCore_name (root : Obj) (m : String) : (addErrorCore root s m).flow.name = s.flow.name := rfl

theorem tryExit_name' (s1 : Core) (e : Bool) (h : s.tryExitFunctionEvaluationFromGame = (s1, e)) :
    s1.flow.name = s.flow.name := by
  have := tryExit_name s
  rw [h] at this; exact this

@[simp] theorem foldl_pushToOutput_name (l : List Obj) :
    (l.foldl (fun st t => st.pushToOutput t) s).flow.name = s.flow.name :=
  foldl_name _ (fun c b => pushToOutput_name c b) l s

@[simp] theorem foldr_pushToOutput_name (l : List Obj) :
    (l.foldr (fun x y => y.pushToOutput x) s).flow.name = s.flow.name := by
  induction l with
  | nil => rfl
  | cons x xs ih => simp only [List.foldr_cons, pushToOutput_name, ih]

theorem popThreadLift_name (s' : Core)
    (h : (match s.callstack.popThread with
      | .ok cs => Out.ok (s.setCallstack cs)
      | .err k m => .err k m
      | .panic p => .panic p) = .ok s') : s'.flow.name = s.flow.name := by
  split at h
  · cases h; rfl
  · cases h
  · cases h

end corenames

/-! ### a small Hoare logic for the step monad: "the name of the current flow stays `n`" -/

/-- Run from a state whose current flow is called `n`, `m` ends in a state whose
    current flow is called `n`; a returned value satisfies `Q`. -/
def H {α : Type} (n : String) (m : M α) (Q : α → Prop) : Prop :=
  ∀ st : St, st.s.flow.name = n → (m st).2.s.flow.name = n ∧ ∀ a, (m st).1 = .ok a → Q a

theorem H_weaken {α : Type} {n : String} {m : M α} {Q Q' : α → Prop} (h : H n m Q) (hq : ∀ a, Q a → Q' a) :
    H n m Q' := fun st hst => ⟨(h st hst).1, fun a ha => hq a ((h st hst).2 a ha)⟩

theorem H_pure {α : Type} {n : String} {a : α} {Q : α → Prop} (h : Q a) : H n (pure a : M α) Q := by
  intro st hst
  refine ⟨hst, ?_⟩
  intro b hb
  cases hb; exact h

theorem H_bind {α β : Type} {n : String} {x : M α} {f : α → M β} {Q : α → Prop} {R : β → Prop}
    (hx : H n x Q) (hf : ∀ a, Q a → H n (f a) R) : H n (x >>= f) R := by
  intro st hst
  show ((M.bind' x f) st).2.s.flow.name = n ∧ ∀ a, ((M.bind' x f) st).1 = .ok a → R a
  unfold M.bind'
  obtain ⟨h1, h2⟩ := hx st hst
  split
  · rename_i a st' heq
    rw [heq] at h1 h2
    exact hf a (h2 a rfl) st' h1
  · rename_i k m st' heq
    rw [heq] at h1
    exact ⟨h1, fun a ha => by cases ha⟩
  · rename_i p st' heq
    rw [heq] at h1
    exact ⟨h1, fun a ha => by cases ha⟩

theorem H_bind_pure {α β : Type} {n : String} {a : α} {f : α → M β} {R : β → Prop}
    (hf : H n (f a) R) : H n ((pure a : M α) >>= f) R :=
  H_bind (Q := fun x => x = a) (H_pure rfl) (fun x hx => by subst hx; exact hf)

theorem H_get {n : String} : H n M.get (fun s => s.flow.name = n) := by
  intro st hst
  exact ⟨hst, fun a ha => by cases ha; exact hst⟩

theorem H_getSt {n : String} : H n M.getSt (fun st => st.s.flow.name = n) := by
  intro st hst
  exact ⟨hst, fun a ha => by cases ha; exact hst⟩

theorem H_set {n : String} {s : Core} {Q : Unit → Prop} (h : s.flow.name = n) (hq : Q ()) : H n (M.set s) Q := by
  intro st _
  exact ⟨h, fun a _ => hq⟩

theorem H_setSt {n : String} {st' : St} {Q : Unit → Prop} (h : st'.s.flow.name = n) (hq : Q ()) :
    H n (M.setSt st') Q := by
  intro st _
  exact ⟨h, fun a _ => hq⟩

theorem H_modify {n : String} {f : Core → Core} {Q : Unit → Prop}
    (h : ∀ s, s.flow.name = n → (f s).flow.name = n) (hq : Q ()) : H n (M.modify f) Q := by
  intro st hst
  exact ⟨h _ hst, fun a _ => hq⟩

theorem H_liftS {n : String} {f : Core → Out Core} {Q : Unit → Prop}
    (h : ∀ s s', s.flow.name = n → f s = .ok s' → s'.flow.name = n) (hq : Q ()) : H n (M.liftS f) Q := by
  intro st hst
  unfold M.liftS
  split
  · rename_i s' heq
    exact ⟨h _ _ hst heq, fun a _ => hq⟩
  · exact ⟨hst, fun a ha => by cases ha⟩
  · exact ⟨hst, fun a ha => by cases ha⟩

theorem H_fail {α : Type} {n k m : String} {Q : α → Prop} : H n (M.fail k m : M α) Q := by
  intro st hst
  exact ⟨hst, fun a ha => by cases ha⟩

theorem H_invalid {α : Type} {n m : String} {Q : α → Prop} : H n (M.invalid m : M α) Q := H_fail

theorem H_crash {α : Type} {n p : String} {Q : α → Prop} : H n (M.crash p : M α) Q := by
  intro st hst
  exact ⟨hst, fun a ha => by cases ha⟩

theorem H_lift {α : Type} {n : String} {o : Out α} : H n (M.lift o) (fun _ => True) := by
  intro st hst
  exact ⟨hst, fun _ _ => trivial⟩

theorem H_unwrap {α : Type} {n site : String} {o : Option α} : H n (M.unwrap site o) (fun _ => True) := by
  cases o with
  | none => exact H_crash
  | some a => exact H_pure trivial

/-- an action that cannot return passes any continuation -/
theorem H_bind_fail {α β : Type} {n k m : String} {f : α → M β} {R : β → Prop} :
    H n ((M.fail k m : M α) >>= f) R := H_bind (Q := fun _ => False) H_fail (fun _ h => h.elim)

theorem H_bind_invalid {α β : Type} {n m : String} {f : α → M β} {R : β → Prop} :
    H n ((M.invalid m : M α) >>= f) R := H_bind_fail

theorem H_bind_crash {α β : Type} {n p : String} {f : α → M β} {R : β → Prop} :
    H n ((M.crash p : M α) >>= f) R := H_bind (Q := fun _ => False) H_crash (fun _ h => h.elim)

theorem H_ite {α : Type} {n : String} {c : Prop} [Decidable c] {x y : M α} {Q : α → Prop}
    (hx : H n x Q) (hy : H n y Q) : H n (if c then x else y) Q := by
  split <;> assumption

theorem H_popEvalM {n : String} : H n popEvalM (fun _ => True) := by
  intro st hst
  unfold Ink.popEvalM
  split
  · rename_i o s' heq
    exact ⟨(popEval_name _ _ _ heq).trans hst, fun _ _ => trivial⟩
  · exact ⟨hst, fun _ _ => trivial⟩
  · exact ⟨hst, fun _ _ => trivial⟩

theorem H_pushEvalM {n : String} {env : Env} {o : Obj} : H n (pushEvalM env o) (fun _ => True) :=
  H_liftS (fun _ _ hs h => (pushEval_name _ _ _ _ h).trans hs) trivial

theorem H_addErrorM {n : String} {root : Obj} {m : String} {w : Bool} : H n (addErrorM root m w) (fun _ => True) := by
  intro st hst
  unfold Ink.addErrorM
  split
  · exact ⟨hst, fun _ _ => trivial⟩
  · exact ⟨hst, fun _ _ => trivial⟩

theorem H_pointerAtPathM {n : String} {env : Env} {p : Path} : H n (pointerAtPathM env p) (fun _ => True) := H_lift


/-- side conditions "this core is still in flow `n`" -/
macro "h_side" : tactic => `(tactic| first
  | (simp [*]; done)
  | (split <;> (simp [*]; done))
  | exact (pushEval_name _ _ _ _ (by assumption)).trans (by assumption)
  | exact (popEval_name _ _ _ (by assumption)).trans (by assumption)
  | exact (popEvalMultiple_name _ _ _ _ (by assumption)).trans (by assumption)
  | exact (assign_name _ _ _ _ _ _ _ (by assumption)).trans (by assumption)
  | exact (incrementVisitCount_name _ _ _ _ (by assumption)).trans (by assumption)
  | exact (recordTurnIndexVisit_name _ _ _ _ (by assumption)).trans (by assumption)
  | exact (popCallstack_name _ _ _ (by assumption)).trans (by assumption)
  | exact (tryExit_name' _ _ _ (by assumption)).trans (by assumption)
  | exact (popThreadLift_name _ _ (by assumption)).trans (by assumption))

open Lean Elab Tactic Meta in
/-- The work-horse: one decomposition step of a goal `H n m Q`, chosen by the
    head symbol of `m` (no unification against program text). -/
elab "h_step" : tactic => withMainContext do
  let g ← getMainGoal
  let tgt := (← instantiateMVars (← g.getType)).consumeMData
  let args := tgt.getAppArgs
  unless tgt.getAppFn.isConstOf ``Ink.C10.H && args.size == 4 do
    throwError "h_step: not an H goal"
  let m0 := args[2]!
  let m := m0.consumeMData.headBeta
  -- zeta / beta normalisation at the head
  if m.isLet then
    let m' := (m.letBody!.instantiate1 m.letValue!).headBeta
    let g' ← g.change (mkAppN tgt.getAppFn (args.set! 2 m'))
    replaceMainGoal [g']
    return
  if m != m0 then
    let g' ← g.change (mkAppN tgt.getAppFn (args.set! 2 m))
    replaceMainGoal [g']
    return
  let run (t : TSyntax `tactic) : TacticM Unit := evalTactic t
  let headName (e : Expr) : Option Name := e.consumeMData.headBeta.getAppFn.constName?
  let lemmaFor (c : Name) : Name := `Ink.C10 ++ Name.mkSimple ("H_" ++ c.getString!)
  match headName m with
  | some ``Bind.bind =>
    let x := m.getAppArgs[4]!
    match headName x with
    | some ``Pure.pure => run (← `(tactic| refine H_bind_pure ?_))
    | some ``Ink.M.get => run (← `(tactic| (refine H_bind H_get ?_; intro s hs)))
    | some ``Ink.M.getSt => run (← `(tactic| (refine H_bind H_getSt ?_; intro st hst)))
    | some ``Ink.M.fail => run (← `(tactic| exact H_bind_fail))
    | some ``Ink.M.invalid => run (← `(tactic| exact H_bind_invalid))
    | some ``Ink.M.crash => run (← `(tactic| exact H_bind_crash))
    | _ => run (← `(tactic| refine H_bind (Q := fun _ => True) ?_ (fun _ _ => ?_)))
  | some ``Pure.pure => run (← `(tactic| first | exact H_pure trivial | exact H_pure (by assumption)))
  | some ``panic => run (← `(tactic| exact H_pure trivial))
  | some ``ite => run (← `(tactic| apply H_ite))
  | some ``dite => run (← `(tactic| split))
  | some ``Ink.M.set => run (← `(tactic| (refine H_set ?_ trivial; try h_side)))
  | some ``Ink.M.setSt => run (← `(tactic| (refine H_setSt ?_ trivial; try h_side)))
  | some ``Ink.M.modify => run (← `(tactic| (refine H_modify (fun s hs => ?_) trivial; try h_side)))
  | some ``Ink.M.liftS => run (← `(tactic| (refine H_liftS (fun s s' hs heq => ?_) trivial; try h_side)))
  | some c =>
    if (← isMatcher c) then run (← `(tactic| split))
    else
      let l := lemmaFor c
      if (← getEnv).contains l then
        let id := mkIdent l
        run (← `(tactic| exact $id))
      else run (← `(tactic| first | assumption | apply_assumption))
  | none =>
    if m.getAppFn.isFVar then run (← `(tactic| first | assumption | (apply_assumption)))
    else throwError "h_step: stuck at {m}"


theorem H_visitContainer {n : String} {env : Env} {a : Addr} {b : Bool} :
    H n (visitContainer env a b) (fun _ => True) := by
  unfold Ink.visitContainer
  repeat' h_step

theorem H_loop_aux {n : String} {env : Env} {prev : List Addr} (fuel : Nat) :
    ∀ (child : Addr) (b : Bool), H n (visitChangedContainersDueToDivert.loop env prev fuel child b) (fun _ => True) := by
  induction fuel with
  | zero => intro child b; unfold visitChangedContainersDueToDivert.loop; repeat' h_step
  | succ fuel ih =>
    intro child b
    unfold visitChangedContainersDueToDivert.loop
    repeat' h_step

theorem H_loop {n : String} {env : Env} {prev : List Addr} {fuel : Nat} {child : Addr} {b : Bool} :
    H n (visitChangedContainersDueToDivert.loop env prev fuel child b) (fun _ => True) := H_loop_aux fuel child b

theorem H_visitChangedContainersDueToDivert {n : String} {env : Env} :
    H n (visitChangedContainersDueToDivert env) (fun _ => True) := by
  unfold Ink.visitChangedContainersDueToDivert
  repeat' h_step

theorem H_incrementContentPointer {n : String} {env : Env} :
    H n (incrementContentPointer env) (fun _ => True) := by
  unfold Ink.incrementContentPointer
  repeat' h_step

theorem H_nextSequenceShuffleIndex {n : String} {env : Env} :
    H n (nextSequenceShuffleIndex env) (fun _ => True) := by
  unfold Ink.nextSequenceShuffleIndex
  repeat' h_step

theorem H_divertTargetPointer {n : String} {env : Env} {a : Addr} {t : Path} :
    H n (divertTargetPointer env a t) (fun _ => True) := by
  unfold Ink.divertTargetPointer
  repeat' h_step

theorem H_choosePath {n : String} {env : Env} {p : Path} {b : Bool} :
    H n (choosePath env p b) (fun _ => True) := by
  unfold Ink.choosePath
  repeat' h_step
  next s hs => cases b <;> exact hs

theorem H_tryFollowDefaultInvisibleChoice {n : String} {env : Env} :
    H n (tryFollowDefaultInvisibleChoice env) (fun _ => True) := by
  unfold Ink.tryFollowDefaultInvisibleChoice
  repeat' h_step

theorem H_popArgs_aux {n : String} {f : String} (k : Nat) :
    ∀ (acc : List Val), H n (callExternalFunction.popArgs f k acc) (fun _ => True) := by
  induction k with
  | zero => intro acc; unfold callExternalFunction.popArgs; repeat' h_step
  | succ k ih =>
    intro acc
    unfold callExternalFunction.popArgs
    repeat' h_step

theorem H_popArgs {n : String} {f : String} {k : Nat} {acc : List Val} :
    H n (callExternalFunction.popArgs f k acc) (fun _ => True) := H_popArgs_aux k acc

theorem H_callExternalFunction {n : String} {env : Env} {f : String} {k : Nat} :
    H n (callExternalFunction env f k) (fun _ => True) := by
  unfold Ink.callExternalFunction
  repeat' h_step

theorem H_popTags_aux {n : String} (k : Nat) :
    ∀ (tags : List String), H n (popChoiceStringAndTags.popTags k tags) (fun _ => True) := by
  induction k with
  | zero => intro acc; unfold popChoiceStringAndTags.popTags; repeat' h_step
  | succ k ih =>
    intro acc
    unfold popChoiceStringAndTags.popTags
    repeat' h_step

theorem H_popTags {n : String} {k : Nat} {tags : List String} :
    H n (popChoiceStringAndTags.popTags k tags) (fun _ => True) := H_popTags_aux k tags

theorem H_popChoiceStringAndTags {n : String} {tags : List String} :
    H n (popChoiceStringAndTags tags) (fun _ => True) := by
  unfold Ink.popChoiceStringAndTags
  repeat' h_step

theorem H_processChoice {n : String} {env : Env} {a : Addr} {flags : Int} {p : Path} :
    H n (processChoice env a flags p) (fun _ => True) := by
  unfold Ink.processChoice
  repeat' h_step

theorem H_plfc_divert {n : String} {env : Env} {a : Addr} {d : DivertData} :
    H n (performLogicAndFlowControl env a (.divert d)) (fun _ => True) := by
  unfold Ink.performLogicAndFlowControl
  simp only
  repeat' h_step

theorem H_plfc_cmd {n : String} {env : Env} {a : Addr} {c : Cmd} :
    H n (performLogicAndFlowControl env a (.cmd c)) (fun _ => True) := by
  unfold Ink.performLogicAndFlowControl
  simp only
  repeat' h_step

theorem H_performLogicAndFlowControl {n : String} {env : Env} {a : Addr} {o : Obj} :
    H n (performLogicAndFlowControl env a o) (fun _ => True) := by
  cases o
  case divert d => exact H_plfc_divert
  case cmd c => exact H_plfc_cmd
  all_goals (unfold Ink.performLogicAndFlowControl; simp only; repeat' h_step)

theorem H_nextContent_aux {n : String} {env : Env} (fuel : Nat) :
    H n (nextContent env fuel) (fun _ => True) := by
  induction fuel with
  | zero => unfold Ink.nextContent; repeat' h_step
  | succ fuel ih =>
    unfold Ink.nextContent
    repeat' h_step

theorem H_nextContent {n : String} {env : Env} {fuel : Nat} :
    H n (nextContent env fuel) (fun _ => True) := H_nextContent_aux fuel

theorem H_descend_aux {n : String} {env : Env} (fuel : Nat) :
    ∀ (p : Ptr), H n (step.descend env fuel p) (fun _ => True) := by
  induction fuel with
  | zero => intro p; unfold step.descend; repeat' h_step
  | succ fuel ih =>
    intro p
    unfold step.descend
    repeat' h_step

theorem H_descend {n : String} {env : Env} {fuel : Nat} {p : Ptr} :
    H n (step.descend env fuel p) (fun _ => True) := H_descend_aux fuel p

theorem H_step {n : String} {env : Env} : H n (step env) (fun _ => True) := by
  unfold Ink.step
  repeat' h_step

open Story

/-! ### story level: projections that only look at the parked flows and the name of the current flow -/

/-- `π` reads nothing of a story state but the parked flows and the name of the current flow. -/
def Framed {β : Type} (π : StoryState → β) : Prop :=
  ∀ s s' : StoryState, s'.namedFlows = s.namedFlows → s'.core.flow.name = s.core.flow.name → π s' = π s

theorem framed_namedFlows : Framed (fun s => s.namedFlows) := fun _ _ h _ => h
theorem framed_name : Framed (fun s => s.core.flow.name) := fun _ _ _ h => h

/-- The look-ahead snapshot, when there is one, has the same `π` as the current state. -/
def SnapInv {β : Type} (π : StoryState → β) (st : Story) : Prop :=
  ∀ sn, st.snapshot = some sn → π sn = π st.state

theorem snapInv_of_none {β : Type} (π : StoryState → β) (st : Story) (h : st.snapshot = none) : SnapInv π st := by
  intro sn hsn; rw [h] at hsn; cases hsn

/-- `b` is reached from `a` keeping `π` (given the snapshot invariant, which is kept too). -/
def K {β : Type} (π : StoryState → β) (a b : Story) : Prop :=
  SnapInv π a → π b.state = π a.state ∧ SnapInv π b

theorem K.refl {β : Type} (π : StoryState → β) (a : Story) : K π a a := fun h => ⟨rfl, h⟩

theorem K.trans {β : Type} {π : StoryState → β} {a b c : Story} (h1 : K π a b) (h2 : K π b c) : K π a c := by
  intro h
  obtain ⟨x, y⟩ := h1 h
  obtain ⟨x', y'⟩ := h2 y
  exact ⟨x'.trans x, y'⟩

theorem K_same {β : Type} {π : StoryState → β} {a b : Story} (h1 : π b.state = π a.state)
    (h2 : b.snapshot = a.snapshot) : K π a b := by
  intro hi
  refine ⟨h1, ?_⟩
  intro sn hsn
  rw [h2] at hsn; rw [h1]; exact hi sn hsn

theorem H_forM {n : String} {α : Type} (f : α → M Unit) (hf : ∀ a, H n (f a) (fun _ => True)) (l : List α) :
    H n (l.forM f) (fun _ => True) := by
  induction l with
  | nil => exact H_pure trivial
  | cons a as ih =>
    exact H_bind (hf a) (fun _ _ => ih)

section
variable {β : Type} {π : StoryState → β} (hπ : Framed π)
include hπ

theorem runM_K {α : Type} (st : Story) (m : M α) (hm : ∀ n, H n m (fun _ => True)) : K π st (st.runM m).2 := by
  refine K_same (hπ _ _ ?_ ?_) ?_
  · unfold Story.runM; rfl
  · unfold Story.runM; exact (hm _ _ rfl).1
  · unfold Story.runM; rfl

theorem restoreSnapshot_K (st : Story) : K π st st.restoreSnapshot := by
  intro hi
  cases hsn : st.snapshot with
  | none =>
    have : st.restoreSnapshot = st := by unfold Story.restoreSnapshot; rw [hsn]
    rw [this]; exact ⟨rfl, hi⟩
  | some sn =>
    have : st.restoreSnapshot = { st with state := { sn with patching := false }, snapshot := none } := by
      unfold Story.restoreSnapshot; rw [hsn]
    rw [this]
    refine ⟨?_, ?_⟩
    · rw [← hi sn hsn]; exact hπ _ _ rfl rfl
    · intro x hx; cases hx

theorem discardSnapshot_K (st : Story) : K π st st.discardSnapshot := by
  intro _
  refine ⟨hπ _ _ rfl rfl, ?_⟩
  intro x hx; cases hx

theorem stateSnapshot_K (st : Story) : K π st st.stateSnapshot := by
  intro _
  refine ⟨hπ _ _ rfl rfl, ?_⟩
  intro x hx
  unfold Story.stateSnapshot at hx
  simp only [Option.some.injEq] at hx
  rw [← hx]; exact hπ _ _ rfl rfl

theorem addError_K (st : Story) (m : String) (w : Bool) : K π st (st.addError m w) := by
  refine K_same ?_ (addError_snapshot st m w)
  unfold Story.addError
  split
  · exact hπ _ _ rfl rfl
  · exact hπ _ _ rfl rfl

theorem continueSingleStep_K (st : Story) : K π st (st.continueSingleStep).2 := by
  unfold Story.continueSingleStep
  have h1 := runM_K hπ st (step st.env) (fun n => H_step)
  have hdef : ∀ s : Story, K π s (s.runM (tryFollowDefaultInvisibleChoice s.env)).2 :=
    fun s => runM_K hπ s _ (fun n => H_tryFollowDefaultInvisibleChoice)
  split
  · rename_i heq; rw [heq] at h1; exact h1
  · rename_i heq; rw [heq] at h1; exact h1
  · rename_i st1 heq
    have h1' : K π st st1 := by rw [heq] at h1; exact h1
    simp only
    split
    · rename_i k m st2 heq2
      split at heq2
      · have := hdef st1
        rw [heq2] at this; exact h1'.trans this
      · cases heq2
    · rename_i p st2 heq2
      split at heq2
      · have := hdef st1
        rw [heq2] at this; exact h1'.trans this
      · cases heq2
    · rename_i st2 heq2
      have h2 : K π st st2 := by
        split at heq2
        · have := hdef st1
          rw [heq2] at this; exact h1'.trans this
        · cases heq2; exact h1'
      split
      · exact h2
      · split
        · rename_i hnone
          exact h2.trans (restoreSnapshot_K hπ st2)
        · rename_i st3 hsome
          have h3 : K π st st3 := by
            split at hsome
            · split at hsome
              · cases hsome
              · split at hsome
                · cases hsome; exact h2.trans (discardSnapshot_K hπ st2)
                · cases hsome; exact h2
            · cases hsome; exact h2
          split
          · split
            · split
              · exact h3.trans (stateSnapshot_K hπ st3)
              · exact h3
            · exact h3.trans (discardSnapshot_K hπ st3)
          · exact h3

theorem stepLoop_K (b : Option Nat) (fuel steps : Nat) (st : Story) : K π st (stepLoop b fuel steps st).2 := by
  induction fuel generalizing steps st with
  | zero => unfold stepLoop; exact K.refl π st
  | succ fuel ih =>
    unfold stepLoop
    simp only
    have hf : K π st { st with fuel := st.fuel.map (· - 1) } := K_same rfl rfl
    have hcs := hf.trans (continueSingleStep_K hπ { st with fuel := st.fuel.map (· - 1) })
    split
    · exact addError_K hπ st _ _
    · split
      · rename_i p st1 heq
        rw [heq] at hcs; exact hcs
      · rename_i k m st1 heq
        rw [heq] at hcs; exact hcs.trans (addError_K hπ st1 _ _)
      · rename_i st1 heq
        rw [heq] at hcs; exact hcs
      · rename_i st1 heq
        rw [heq] at hcs
        cases b with
        | none =>
          simp only [Bool.false_eq_true, if_false]
          split
          · exact hcs
          · exact hcs.trans (ih _ _)
        | some n =>
          simp only
          split
          · exact hcs
          · split
            · exact hcs
            · exact hcs.trans (ih _ _)

theorem beginContinue_K (st : Story) (b : Bool) : K π st (st.beginContinue b) := by
  refine K_same (hπ _ _ ?_ ?_) ?_
  · unfold Story.beginContinue; simp only; repeat' split
    all_goals rfl
  · unfold Story.beginContinue; simp only; repeat' split
    all_goals rfl
  · unfold Story.beginContinue; simp only; repeat' split
    all_goals rfl

theorem endChecks_K (st : Story) : K π st st.endChecks := by
  unfold Story.endChecks
  simp only
  have key : ∀ (s : Story) (m : String), K π s (s.addError m false) := fun s m => addError_K hπ s m false
  split
  · split
    · split
      · exact (key _ _).trans (key _ _)
      · split
        · exact (key _ _).trans (key _ _)
        · split
          · exact (key _ _).trans (key _ _)
          · exact (key _ _).trans (key _ _)
    · exact key _ _
  · split
    · split
      · exact key _ _
      · split
        · exact key _ _
        · split
          · exact key _ _
          · exact key _ _
    · exact K.refl _ _

theorem prepareFinish_K (st : Story) : K π st st.prepareFinish := by
  unfold Story.prepareFinish
  simp only
  have h2 : K π st (if st.snapshot.isSome then st.restoreSnapshot else st) := by
    split
    · exact restoreSnapshot_K hπ st
    · exact K.refl _ _
  have h3 : ∀ s : Story, K π s (if !s.canContinue then s.endChecks else s) := by
    intro s
    split
    · exact endChecks_K hπ s
    · exact K.refl _ _
  exact (h2.trans (h3 _)).trans (K_same (hπ _ _ rfl rfl) rfl)

theorem closeObservation_K (st st' : Story) (changed : List (String × Val))
    (h : st.closeObservation = some (st', changed)) : K π st st' := by
  unfold Story.closeObservation at h
  split at h
  · simp only at h
    split at h
    · simp only [Option.some.injEq, Prod.mk.injEq] at h
      rw [← h.1]
      exact K_same (hπ _ _ rfl rfl) rfl
    · cases h
  · simp only [Option.some.injEq, Prod.mk.injEq] at h
    rw [← h.1]
    exact K_same rfl rfl

theorem finishContinue_K (st st' : Story) (changed : List (String × Val))
    (h : st.finishContinue = some (st', changed)) : K π st st' :=
  (prepareFinish_K hπ st).trans (closeObservation_K hπ _ _ _ h)

theorem deliver_K (st : Story) : K π st st.deliver.2 := by
  unfold Story.deliver
  split
  · split
    · simp only
      intro hi
      refine ⟨hπ _ _ rfl rfl, ?_⟩
      intro sn hsn
      simp only [Option.map_eq_some_iff] at hsn
      obtain ⟨sn0, h0, h1⟩ := hsn
      have e1 : π sn = π sn0 := by rw [← h1]; exact hπ _ _ rfl rfl
      rw [e1, hi sn0 h0]
      refine (hπ _ _ ?_ ?_).symm <;> rfl
    · split
      · exact K.refl _ _
      · exact K.refl _ _
  · exact K.refl _ _

omit hπ in
theorem notify_K (st : Story) (changed : List (String × Val)) : K π st (st.notify changed) := K_same rfl rfl

theorem continueInternal_K (st : Story) (b : Option Nat) (f : Nat) : K π st (st.continueInternal b f).2 := by
  unfold Story.continueInternal
  split
  · exact K.refl _ _
  · simp only
    have h0 := beginContinue_K hπ st b.isSome
    have hl := stepLoop_K hπ (if (st.beginContinue b.isSome).asyncActive then b else none) f 0
      (st.beginContinue b.isSome)
    split
    · rename_i heq; rw [heq] at hl; exact h0.trans hl
    · rename_i heq; rw [heq] at hl; exact h0.trans hl
    · rename_i heq; rw [heq] at hl; exact h0.trans hl
    · rename_i why st1 _ heq
      rw [heq] at hl
      have h1 := h0.trans hl
      split
      · exact h1
      · rename_i st5 changed hfin
        have h5 : K π st1 st5 := by
          split at hfin
          · exact finishContinue_K hπ _ _ _ hfin
          · cases hfin; exact K.refl _ _
        have h6 : K π st5 { st5 with recCount := st5.recCount - 1 } := K_same rfl rfl
        have h7 := deliver_K hπ { st5 with recCount := st5.recCount - 1 }
        have h17 := ((h1.trans h5).trans h6).trans h7
        split
        · rename_i st7 hd
          rw [hd] at h17
          exact h17.trans (notify_K _ _)
        · exact h17

omit hπ in
theorem validateExternalBindings_K (st : Story) : K π st st.validateExternalBindings.2 := by
  unfold Story.validateExternalBindings
  simp only
  split
  · exact K.refl _ _
  · split
    · exact K_same rfl rfl
    · exact K.refl _ _

theorem continueAsync_K (st : Story) (b : Option Nat) : K π st (st.continueAsync b).2 := by
  unfold Story.continueAsync
  have hv : K π st (if !st.validated then st.validateExternalBindings else (.ok (), st)).2 := by
    split
    · exact validateExternalBindings_K st
    · exact K.refl _ _
  generalize (if !st.validated then st.validateExternalBindings else (Out.ok (), st)) = p at hv ⊢
  obtain ⟨v, st1⟩ := p
  simp only at hv ⊢
  split
  · exact hv.trans (continueInternal_K hπ st1 b callFuel)
  · exact hv

theorem cont_K (st : Story) : K π st st.cont.2 := by
  unfold Story.cont
  have h := continueAsync_K hπ st none
  split <;> (rename_i heq; rw [heq] at h; exact h)

theorem continueMaximally_loop_K (fuel : Nat) (st : Story) (acc : String) :
    K π st (continueMaximally.loop fuel st acc).2 := by
  induction fuel generalizing st acc with
  | zero => unfold continueMaximally.loop; exact K.refl _ _
  | succ fuel ih =>
    unfold continueMaximally.loop
    split
    · have h := cont_K hπ st
      split
      · rename_i t st1 heq
        rw [heq] at h
        exact h.trans (ih _ _)
      · exact h
    · exact K.refl _ _

theorem continueMaximally_K (st : Story) : K π st st.continueMaximally.2 := by
  unfold Story.continueMaximally
  split
  · exact K.refl _ _
  · exact K.refl _ _
  · exact continueMaximally_loop_K hπ _ _ _

theorem currentChoices_K (st : Story) : K π st st.currentChoices.2 := by
  unfold Story.currentChoices
  split
  · exact K.refl _ _
  · exact K_same (hπ _ _ rfl rfl) rfl

theorem chooseChoiceIndex_K (st : Story) (i : Nat) : K π st (st.chooseChoiceIndex i).2 := by
  unfold Story.chooseChoiceIndex
  split
  · exact K.refl _ _
  · exact K.refl _ _
  · have hc := currentChoices_K hπ st
    generalize st.currentChoices = p at hc ⊢
    obtain ⟨choices, st1⟩ := p
    simp only at hc ⊢
    split
    · exact hc
    · split
      · exact hc
      · refine (hc.trans ?_).trans (runM_K hπ _ _ (fun n => H_choosePath))
        exact K_same (hπ _ _ rfl rfl) rfl

theorem passArguments_K (st : Story) (args : List Val) : K π st (st.passArguments args).2 := by
  unfold Story.passArguments
  exact runM_K hπ _ _ (fun n => H_forM _ (fun a => H_pushEvalM) _)

theorem choosePathString_K (st : Story) (path : String) (reset : Bool) (args : List (Option Val)) :
    K π st (st.choosePathString path reset args).2 := by
  unfold Story.choosePathString
  split
  · exact K.refl _ _
  · exact K.refl _ _
  · split
    · exact K.refl _ _
    · exact K.refl _ _
    · simp only
      split
      · exact K.refl _ _
      · exact K.refl _ _
      · rename_i argv _ _ _ _
        have hpre : K π st
            (if reset then ((.ok () : Out Unit), st.mapCore Core.forceEnd)
             else match st.core.callstack.currentElement with
              | some e =>
                if e.kind == .function then
                  (.invalid ("Story was running a function when you called ChoosePathString(" ++ path
                    ++ ") - this is almost certainly not what you want!"), st)
                else (.ok (), st)
              | none => (.panic "callstack.rs:get_current_element", st)).2 := by
          split
          · exact K_same (hπ _ _ rfl rfl) rfl
          · split
            · split
              · exact K.refl _ _
              · exact K.refl _ _
            · exact K.refl _ _
        generalize (if reset then ((.ok () : Out Unit), st.mapCore Core.forceEnd)
             else match st.core.callstack.currentElement with
              | some e =>
                if e.kind == .function then
                  (.invalid ("Story was running a function when you called ChoosePathString(" ++ path
                    ++ ") - this is almost certainly not what you want!"), st)
                else (.ok (), st)
              | none => (.panic "callstack.rs:get_current_element", st)) = p at hpre ⊢
        obtain ⟨v, st1⟩ := p
        simp only at hpre ⊢
        split
        · rename_i st1' heq1
          cases heq1
          have h2 := passArguments_K hπ st1 argv
          split
          · rename_i st2 heq
            rw [heq] at h2
            exact (hpre.trans h2).trans (runM_K hπ _ _ (fun n => H_choosePath))
          · exact hpre.trans h2
        · exact hpre
end

/-! ### 1. Host operations on the current flow -/

/-- The host operations that act on the current flow. -/
inductive FlowOp where
  | cont
  | continueMaximally
  | choose (i : Nat)
  | choosePath (path : String) (reset : Bool)
  | readChoices
  deriving Repr

/-- The story after one host operation (the returned value is dropped; `cont`
    and `continueMaximally` carry their own model fuel: `callFuel` = 200000 steps
    per line, 100000 lines). -/
def applyOp (st : Story) : FlowOp → Story
  | .cont => st.cont.2
  | .continueMaximally => st.continueMaximally.2
  | .choose i => (st.chooseChoiceIndex i).2
  | .choosePath path reset => (st.choosePathString path reset []).2
  | .readChoices => st.currentChoices.2

def applyOps (st : Story) (ops : List FlowOp) : Story := ops.foldl applyOp st

theorem applyOp_K {β : Type} {π : StoryState → β} (hπ : Framed π) (st : Story) (op : FlowOp) :
    K π st (applyOp st op) := by
  cases op with
  | cont => exact cont_K hπ st
  | continueMaximally => exact continueMaximally_K hπ st
  | choose i => exact chooseChoiceIndex_K hπ st i
  | choosePath path reset => exact choosePathString_K hπ st path reset []
  | readChoices => exact currentChoices_K hπ st

theorem applyOps_K {β : Type} {π : StoryState → β} (hπ : Framed π) (st : Story) (ops : List FlowOp) :
    K π st (applyOps st ops) := by
  induction ops generalizing st with
  | nil => exact K.refl _ _
  | cons op ops ih => exact (applyOp_K hπ st op).trans (ih _)

/-! ### 2. The frame theorem -/

theorem snapshotAgrees_iff (st : Story) : SnapshotAgrees st ↔ SnapInv (fun s => s.namedFlows) st := Iff.rfl

/-- Invariant preservation: one operation keeps `SnapshotAgrees`. -/
theorem applyOp_snapshotAgrees (st : Story) (op : FlowOp) (h : SnapshotAgrees st) :
    SnapshotAgrees (applyOp st op) := (applyOp_K framed_namedFlows st op h).2

theorem applyOps_snapshotAgrees (st : Story) (ops : List FlowOp) (h : SnapshotAgrees st) :
    SnapshotAgrees (applyOps st ops) := (applyOps_K framed_namedFlows st ops h).2

/-- One operation on the current flow leaves every parked flow alone. -/
theorem op_keeps_parked_flows (st : Story) (hsnap : SnapshotAgrees st) (op : FlowOp) :
    (applyOp st op).state.namedFlows = st.state.namedFlows := (applyOp_K framed_namedFlows st op hsnap).1

/-- **THE FRAME THEOREM.** Nothing done in the current flow touches any parked flow. -/
theorem ops_keep_parked_flows (st : Story) (hsnap : SnapshotAgrees st) (ops : List FlowOp) :
    (applyOps st ops).state.namedFlows = st.state.namedFlows := (applyOps_K framed_namedFlows st ops hsnap).1

/-- The flow map stays well formed (it does not change). -/
theorem applyOps_flowMapWF (st : Story) (hsnap : SnapshotAgrees st) (hwf : FlowMapWF st.state)
    (ops : List FlowOp) : FlowMapWF (applyOps st ops).state := by
  unfold FlowMapWF
  rw [ops_keep_parked_flows st hsnap ops]
  exact hwf

/-- The snapshot, when there is one, is a snapshot of the flow that is current. -/
def SnapshotSameFlow (st : Story) : Prop :=
  ∀ sn, st.snapshot = some sn → sn.core.flow.name = st.state.core.flow.name

theorem applyOps_snapshotSameFlow (st : Story) (ops : List FlowOp) (h : SnapshotSameFlow st) :
    SnapshotSameFlow (applyOps st ops) := (applyOps_K framed_name st ops h).2

/-- No operation renames the current flow. -/
theorem ops_keep_flow_name (st : Story) (hsnap : SnapshotSameFlow st) (ops : List FlowOp) :
    (applyOps st ops).state.core.flow.name = st.state.core.flow.name := (applyOps_K framed_name st ops hsnap).1

/-! ### 3. The interleaving theorem -/

/-- `switch_flow(name)` without the async guard (`switch_flow_internal` on the story). -/
def switchTo (name : String) (st : Story) : Story := { st with state := switchFlowInternal st.state name }

/-- Outside an asynchronous continue the public `switch_flow` is `switchTo`. -/
theorem switchFlow_eq_switchTo (st : Story) (name : String) (ha : st.asyncActive = false) :
    st.switchFlow name = (.ok (), switchTo name st) := by
  unfold Story.switchFlow Story.ifAsyncWeCant switchTo
  simp [ha]

/-- The record of flow `name` in a story: the current flow if it has that name,
    the parked one otherwise (a fresh one if there is none) — what `switch_flow(name)` makes current. -/
def flowOf (name : String) (st : Story) : Flow := (switchTo name st).state.core.flow

theorem flowOf_current (st : Story) : flowOf st.state.core.flow.name st = st.state.core.flow := by
  unfold flowOf switchTo
  rw [switch_same_flow]

theorem flowOf_other (name : String) (st : Story) (h : (name == st.state.core.flow.name) = false) :
    flowOf name st = flowFor st.state name := by
  unfold flowOf switchTo
  exact (switch_parks_current st.state name h).1

theorem bne_symm' {a b : String} (h : (a == b) = false) : (b == a) = false := by
  cases hx : (b == a)
  · rfl
  · have : b = a := by simpa using hx
    rw [this] at h; simp at h

/-- Switching to `b` does not change the record of another flow `a`. -/
theorem flowOf_switchTo (st : Story) (a b : String) (hab : (a == b) = false) (hwf : FlowMapWF st.state) :
    flowOf a (switchTo b st) = flowOf a st
    ∧ (switchTo b st).state.core.flow.name ≠ a := by
  by_cases hb : (b == st.state.core.flow.name) = true
  · have hb' : b = st.state.core.flow.name := by simpa using hb
    have : switchTo b st = st := by
      unfold switchTo; rw [hb', switch_same_flow]
    rw [this]
    refine ⟨rfl, ?_⟩
    intro h; rw [hb', h] at hab; simp at hab
  · have hb' : (b == st.state.core.flow.name) = false := by simpa using hb
    have hname : (switchTo b st).state.core.flow.name = b := by
      show (switchFlowInternal st.state b).core.flow.name = b
      rw [(switch_parks_current st.state b hb').1]
      exact flowFor_name st.state b hwf
    have hne : (a == (switchTo b st).state.core.flow.name) = false := by rw [hname]; exact hab
    refine ⟨?_, ?_⟩
    · rw [flowOf_other a _ hne]
      obtain ⟨_, nf, hnf, hcur, hother⟩ := switch_parks_current st.state b hb'
      unfold flowFor
      show (alGet ((switchFlowInternal st.state b).namedFlows.getD []) a).getD (freshFlow a) = _
      rw [hnf]
      simp only [Option.getD_some]
      by_cases hc : (st.state.core.flow.name == a) = true
      · have hc' : st.state.core.flow.name = a := by simpa using hc
        rw [← hc', hcur, flowOf_current]
        rfl
      · have hc' : (st.state.core.flow.name == a) = false := by simpa using hc
        rw [hother a hc' (bne_symm' hab), flowOf_other a st (bne_symm' hc')]
        rfl
    · rw [hname]; intro h; rw [h] at hab; simp at hab

/-- Operations in the current flow do not change the record of any other flow. -/
theorem flowOf_applyOps (st : Story) (a : String) (hne : st.state.core.flow.name ≠ a)
    (h1 : SnapshotAgrees st) (h2 : SnapshotSameFlow st) (ops : List FlowOp) :
    flowOf a (applyOps st ops) = flowOf a st := by
  have hn := ops_keep_flow_name st h2 ops
  have hf := ops_keep_parked_flows st h1 ops
  have e1 : (a == (applyOps st ops).state.core.flow.name) = false := by
    rw [hn]
    cases hx : (a == st.state.core.flow.name)
    · rfl
    · exact absurd (by simpa using hx : a = st.state.core.flow.name).symm hne
  have e2 : (a == st.state.core.flow.name) = false := by rw [← hn]; exact e1
  rw [flowOf_other a _ e1, flowOf_other a _ e2]
  unfold flowFor
  rw [hf]

/-- **Generalised interleaving theorem**: whatever flow is current, switching to
    `b ≠ a` and doing any operations there leaves the record of flow `a` as it was. -/
theorem flowOf_stepsIn (st : Story) (a b : String) (hab : a ≠ b) (hwf : FlowMapWF st.state)
    (hsnap : st.snapshot = none) (ops : List FlowOp) :
    flowOf a (applyOps (switchTo b st) ops) = flowOf a st := by
  have hab' : (a == b) = false := by simpa using hab
  obtain ⟨e1, e2⟩ := flowOf_switchTo st a b hab' hwf
  have hs : (switchTo b st).snapshot = none := hsnap
  rw [flowOf_applyOps (switchTo b st) a e2 (snapInv_of_none _ _ hs) (snapInv_of_none _ _ hs) ops, e1]

/-- **THE INTERLEAVING THEOREM.** A story whose current flow is `a`: switching
    to another flow `b`, doing ANY operations there, and switching back to `a`
    leaves flow `a` exactly as it was — call stack (position, temporaries,
    threads), output stream (current text and tags) and pending choices. -/
theorem other_flow_untouched (st : Story) (a b : String) (hcur : st.state.core.flow.name = a)
    (hab : a ≠ b) (hwf : FlowMapWF st.state) (hsnap : st.snapshot = none) (ops : List FlowOp) :
    (switchTo a (applyOps (switchTo b st) ops)).state.core.flow = st.state.core.flow := by
  have := flowOf_stepsIn st a b hab hwf hsnap ops
  rw [← hcur, flowOf_current] at this
  rw [← hcur]
  exact this

/-! ### the public `switch_flow`: operations keep the story outside an asynchronous continue -/

theorem deliver_asyncActive (st : Story) : st.deliver.2.asyncActive = st.asyncActive := by
  unfold Story.deliver
  split
  · split
    · rfl
    · split <;> rfl
  · rfl

theorem continueInternal_blocking_async (st : Story) (f : Nat) (h : st.asyncActive = false) :
    (st.continueInternal none f).2.asyncActive = false := by
  unfold Story.continueInternal
  split
  · exact h
  · simp only [Option.isSome_none]
    have hb : (st.beginContinue false).asyncActive = false := by
      unfold Story.beginContinue
      simp only
      split <;> simp
    simp only [hb, Bool.false_eq_true, if_false]
    split
    · rename_i heq; exact (stepLoop_same _ _ _ _ _ _ heq).asyncActive.trans hb
    · rename_i heq; exact (stepLoop_same _ _ _ _ _ _ heq).asyncActive.trans hb
    · rename_i heq; exact (stepLoop_same _ _ _ _ _ _ heq).asyncActive.trans hb
    · rename_i why st1 _ heq
      have h1 : st1.asyncActive = false := (stepLoop_same _ _ _ _ _ _ heq).asyncActive.trans hb
      split
      · exact h1
      · rename_i st5 changed hfin
        have h5 : st5.asyncActive = false := by
          split at hfin
          · exact (finishContinue_fields _ _ _ hfin).2.2.1
          · cases hfin; exact h1
        have h7 := deliver_asyncActive { st5 with recCount := st5.recCount - 1 }
        split
        · rename_i st7 hd
          rw [hd] at h7
          exact h7.trans h5
        · exact h7.trans h5

theorem cont_async (st : Story) (h : st.asyncActive = false) : st.cont.2.asyncActive = false := by
  have hc : (st.continueAsync none).2.asyncActive = false := by
    unfold Story.continueAsync
    have hv : (if !st.validated then st.validateExternalBindings else (.ok (), st)).2.asyncActive = false := by
      split
      · unfold Story.validateExternalBindings
        simp only
        split
        · exact h
        · split
          · exact h
          · exact h
      · exact h
    generalize (if !st.validated then st.validateExternalBindings else (Out.ok (), st)) = p at hv ⊢
    obtain ⟨v, st1⟩ := p
    simp only at hv ⊢
    split
    · exact continueInternal_blocking_async st1 _ hv
    · exact hv
  unfold Story.cont
  split <;> (rename_i heq; rw [heq] at hc; exact hc)

theorem continueMaximally_loop_async (fuel : Nat) (st : Story) (acc : String) (h : st.asyncActive = false) :
    (continueMaximally.loop fuel st acc).2.asyncActive = false := by
  induction fuel generalizing st acc with
  | zero => unfold continueMaximally.loop; exact h
  | succ fuel ih =>
    unfold continueMaximally.loop
    split
    · have hc := cont_async st h
      split
      · rename_i t st1 heq
        rw [heq] at hc
        exact ih _ _ hc
      · exact hc
    · exact h

/-- Operations keep the story outside an asynchronous continue. -/
theorem applyOp_asyncActive (st : Story) (op : FlowOp) (h : st.asyncActive = false) :
    (applyOp st op).asyncActive = false := by
  cases op with
  | cont => exact cont_async st h
  | continueMaximally =>
    show st.continueMaximally.2.asyncActive = false
    unfold Story.continueMaximally
    split
    · exact h
    · exact h
    · exact continueMaximally_loop_async _ _ _ h
  | choose i =>
    show (st.chooseChoiceIndex i).2.asyncActive = false
    unfold Story.chooseChoiceIndex
    split
    · exact h
    · exact h
    · have hc : st.currentChoices.2.asyncActive = false := by
        unfold Story.currentChoices
        split
        · exact h
        · exact h
      generalize st.currentChoices = p at hc ⊢
      obtain ⟨choices, st1⟩ := p
      simp only at hc ⊢
      split
      · exact hc
      · split
        · exact hc
        · exact (runM_same _ _).asyncActive.trans hc
  | choosePath path reset =>
    show (st.choosePathString path reset []).2.asyncActive = false
    unfold Story.choosePathString
    split
    · exact h
    · exact h
    · split
      · exact h
      · exact h
      · simp only
        split
        · exact h
        · exact h
        · rename_i argv _ _ _ _
          have hpre :
              (if reset then ((.ok () : Out Unit), st.mapCore Core.forceEnd)
               else match st.core.callstack.currentElement with
                | some e =>
                  if e.kind == .function then
                    (.invalid ("Story was running a function when you called ChoosePathString(" ++ path
                      ++ ") - this is almost certainly not what you want!"), st)
                  else (.ok (), st)
                | none => (.panic "callstack.rs:get_current_element", st)).2.asyncActive = false := by
            split
            · exact h
            · split
              · split
                · exact h
                · exact h
              · exact h
          generalize (if reset then ((.ok () : Out Unit), st.mapCore Core.forceEnd)
               else match st.core.callstack.currentElement with
                | some e =>
                  if e.kind == .function then
                    (.invalid ("Story was running a function when you called ChoosePathString(" ++ path
                      ++ ") - this is almost certainly not what you want!"), st)
                  else (.ok (), st)
                | none => (.panic "callstack.rs:get_current_element", st)) = p at hpre ⊢
          obtain ⟨v, st1⟩ := p
          simp only at hpre ⊢
          split
          · rename_i st1' heq1
            cases heq1
            have h2 : (st1.passArguments argv).2.asyncActive = false := by
              unfold Story.passArguments
              exact (runM_same _ _).asyncActive.trans hpre
            split
            · rename_i st2 heq
              rw [heq] at h2
              exact (runM_same _ _).asyncActive.trans h2
            · exact h2
          · exact hpre
  | readChoices =>
    show st.currentChoices.2.asyncActive = false
    unfold Story.currentChoices
    split
    · exact h
    · exact h

theorem applyOps_asyncActive (st : Story) (ops : List FlowOp) (h : st.asyncActive = false) :
    (applyOps st ops).asyncActive = false := by
  induction ops generalizing st with
  | nil => exact h
  | cons op ops ih => exact ih _ (applyOp_asyncActive st op h)

/-- **The interleaving theorem with the public API**: outside an asynchronous
    continue both `switch_flow` calls succeed, and flow `a` is exactly as it was. -/
theorem other_flow_untouched_public (st : Story) (a b : String) (hcur : st.state.core.flow.name = a)
    (hab : a ≠ b) (hwf : FlowMapWF st.state) (hsnap : st.snapshot = none) (hasync : st.asyncActive = false)
    (ops : List FlowOp) :
    ∃ st1 st2, st.switchFlow b = (.ok (), st1) ∧ (applyOps st1 ops).switchFlow a = (.ok (), st2)
      ∧ st2.state.core.flow = st.state.core.flow := by
  refine ⟨switchTo b st, switchTo a (applyOps (switchTo b st) ops), switchFlow_eq_switchTo st b hasync, ?_,
    other_flow_untouched st a b hcur hab hwf hsnap ops⟩
  exact switchFlow_eq_switchTo _ a (applyOps_asyncActive _ ops hasync)

/-! ### 4. Interleavings -/

/-- One scheduled host step: make flow `name` current, then do `op` there. -/
def stepIn (name : String) (st : Story) (op : FlowOp) : Story := applyOp (switchTo name st) op

/-- An interleaving of two operation lists: steps tagged `true` are the A-steps
    ("switch to `a`; one operation of A"), steps tagged `false` the B-steps
    ("switch to `b`; one operation of B"). -/
abbrev Schedule := List (Bool × FlowOp)

def runSched (a b : String) (st : Story) (sched : Schedule) : Story :=
  sched.foldl (fun s x => stepIn (if x.1 then a else b) s x.2) st

/-- The A-steps of an interleaving, in order. -/
def Schedule.onlyA (sched : Schedule) : Schedule := sched.filter (fun x => x.1)

/-- Before every step of the schedule the story has no pending look-ahead
    snapshot (true whenever no earlier host call ended in a model panic or ran
    out of model fuel, see `applyOp_quiet`). -/
def Quiet (a b : String) : Story → Schedule → Prop
  | _, [] => True
  | st, x :: xs => st.snapshot = none ∧ Quiet a b (stepIn (if x.1 then a else b) st x.2) xs

/-- THE PROVISO, B-side: the shared part `σ` of the story after every B-step of
    the run equals the shared part before it. -/
def BStepsKeep {S : Type} (σ : Story → S) (a b : String) : Story → Schedule → Prop
  | _, [] => True
  | st, x :: xs =>
    (x.1 = false → σ (stepIn b st x.2) = σ st) ∧ BStepsKeep σ a b (stepIn (if x.1 then a else b) st x.2) xs

/-- THE PROVISO, A-side: the effect of the A-step `op` on the record of flow `a`
    and on the shared part is a function of that record and the shared part. -/
def ADependsOnly {S : Type} (σ : Story → S) (a : String) (op : FlowOp) : Prop :=
  ∀ s s' : Story, flowOf a s = flowOf a s' → σ s = σ s' →
    flowOf a (stepIn a s op) = flowOf a (stepIn a s' op) ∧ σ (stepIn a s op) = σ (stepIn a s' op)

theorem stepIn_wf (name : String) (st : Story) (op : FlowOp) (hwf : FlowMapWF st.state)
    (hsnap : st.snapshot = none) : FlowMapWF (stepIn name st op).state := by
  have hs : (switchTo name st).snapshot = none := hsnap
  have h1 : FlowMapWF (switchTo name st).state := switch_preserves_wf st.state name hwf
  unfold stepIn FlowMapWF
  rw [op_keeps_parked_flows _ (snapInv_of_none _ _ hs) op]
  exact h1

theorem interleaving_aux {S : Type} (σ : Story → S) (a b : String) (hab : a ≠ b) (sched : Schedule) :
    ∀ (X Y : Story), FlowMapWF X.state → Quiet a b X sched →
      (∀ op, (true, op) ∈ sched → ADependsOnly σ a op) → BStepsKeep σ a b X sched →
      flowOf a X = flowOf a Y → σ X = σ Y →
      flowOf a (runSched a b X sched) = flowOf a (runSched a b Y sched.onlyA)
      ∧ σ (runSched a b X sched) = σ (runSched a b Y sched.onlyA) := by
  induction sched with
  | nil => intro X Y _ _ _ _ h1 h2; exact ⟨h1, h2⟩
  | cons x xs ih =>
    intro X Y hwf hq hA hB h1 h2
    obtain ⟨w, op⟩ := x
    obtain ⟨hq1, hq2⟩ := hq
    obtain ⟨hB1, hB2⟩ := hB
    have hA' : ∀ op', (true, op') ∈ xs → ADependsOnly σ a op' :=
      fun op' h => hA op' (List.mem_cons_of_mem _ h)
    cases w with
    | true =>
      obtain ⟨e1, e2⟩ := hA op (List.mem_cons_self) X Y h1 h2
      have := ih (stepIn a X op) (stepIn a Y op) (stepIn_wf a X op hwf hq1) hq2 hA' hB2 e1 e2
      simpa [runSched, Schedule.onlyA, List.filter] using this
    | false =>
      have e1 : flowOf a (stepIn b X op) = flowOf a Y := by
        rw [← h1]
        exact flowOf_stepsIn X a b hab hwf hq1 [op]
      have e2 : σ (stepIn b X op) = σ Y := by rw [← h2]; exact hB1 rfl
      have := ih (stepIn b X op) Y (stepIn_wf b X op hwf hq1) hq2 hA' hB2 e1 e2
      simpa [runSched, Schedule.onlyA, List.filter] using this

/-- **Corollary (interleaving_flow_projection).** For any interleaving of
    "switch to `a`; one op of A" / "switch to `b`; one op of B" steps, the record
    of flow `a` (call stack, output stream, choices) after the interleaving is the
    record of flow `a` after running only the A-steps — provided every A-step's
    effect on that record (and on the shared part `σ`) depends only on the record
    and on `σ`, and every B-step of the run leaves `σ` unchanged. -/
theorem interleaving_flow_projection {S : Type} (σ : Story → S) (a b : String) (hab : a ≠ b)
    (st : Story) (hwf : FlowMapWF st.state) (sched : Schedule) (hquiet : Quiet a b st sched)
    (hA : ∀ op, (true, op) ∈ sched → ADependsOnly σ a op)
    (hB : BStepsKeep σ a b st sched) :
    flowOf a (runSched a b st sched) = flowOf a (runSched a b st sched.onlyA) :=
  (interleaving_aux σ a b hab sched st st hwf hquiet hA hB rfl rfl).1

theorem switchTo_name (a : String) (st : Story) (hwf : FlowMapWF st.state) :
    (switchTo a st).state.core.flow.name = a := by
  by_cases h : (a == st.state.core.flow.name) = true
  · have h' : a = st.state.core.flow.name := by simpa using h
    have : switchTo a st = st := by unfold switchTo; rw [h', switch_same_flow]
    rw [this]; exact h'.symm
  · have h' : (a == st.state.core.flow.name) = false := by simpa using h
    show (switchFlowInternal st.state a).core.flow.name = a
    rw [(switch_parks_current st.state a h').1]
    exact flowFor_name st.state a hwf

/-- While flow `a` is current, the A-steps are plain operations. -/
theorem runSched_A_current (a b : String) (ops : List FlowOp) :
    ∀ s : Story, s.state.core.flow.name = a → SnapshotSameFlow s →
      runSched a b s (ops.map (fun op => (true, op))) = applyOps s ops := by
  induction ops with
  | nil => intro s _ _; rfl
  | cons o os ih =>
    intro s hn hs
    have hsw : switchTo a s = s := by
      unfold switchTo; rw [← hn, switch_same_flow]
    have h1 : (applyOp s o).state.core.flow.name = a := (ops_keep_flow_name s hs [o]).trans hn
    have h2 : SnapshotSameFlow (applyOp s o) := applyOps_snapshotSameFlow s [o] hs
    have := ih (applyOp s o) h1 h2
    simp only [List.map_cons, runSched, List.foldl_cons, applyOps, if_true, stepIn, hsw]
    exact this

/-- "Running only the A-steps" is: switch to `a` once, then do the operations of
    A there; the record of `a` afterwards is the current flow of that story. -/
theorem runSched_onlyA (a b : String) (st : Story) (hwf : FlowMapWF st.state) (hsnap : st.snapshot = none)
    (opsA : List FlowOp) :
    flowOf a (runSched a b st (opsA.map (fun op => (true, op))))
      = (applyOps (switchTo a st) opsA).state.core.flow := by
  have hn : (switchTo a st).state.core.flow.name = a := switchTo_name a st hwf
  have hs : (switchTo a st).snapshot = none := hsnap
  have hsame : SnapshotSameFlow (switchTo a st) := snapInv_of_none _ _ hs
  have hname : (applyOps (switchTo a st) opsA).state.core.flow.name = a :=
    (ops_keep_flow_name _ hsame opsA).trans hn
  have hcur := flowOf_current (applyOps (switchTo a st) opsA)
  rw [hname] at hcur
  cases opsA with
  | nil => rfl
  | cons op ops =>
    have e : runSched a b st ((op :: ops).map (fun op => (true, op)))
        = runSched a b (applyOp (switchTo a st) op) (ops.map (fun op => (true, op))) := rfl
    have h1 : (applyOp (switchTo a st) op).state.core.flow.name = a :=
      (ops_keep_flow_name _ hsame [op]).trans hn
    have h2 : SnapshotSameFlow (applyOp (switchTo a st) op) := applyOps_snapshotSameFlow _ [op] hsame
    rw [e, runSched_A_current a b ops _ h1 h2]
    exact hcur

/-! #### the proviso discharged for B-steps that only read the choices -/

/-- A story state with the flows blanked. -/
def blankFlows (s : StoryState) : StoryState :=
  { s with core := { s.core with flow := freshFlow "" }, namedFlows := none }

/-- Everything in a story except the flows: globals, visit counts, turn indices,
    random state, evaluation stack, errors, warnings, bindings, event log, … -/
def sharedPart (st : Story) : Story :=
  { st with state := blankFlows st.state, snapshot := st.snapshot.map blankFlows }

theorem sharedPart_switchTo (name : String) (st : Story) : sharedPart (switchTo name st) = sharedPart st := by
  unfold switchTo switchFlowInternal
  split <;> rfl

theorem sharedPart_readChoices (st : Story) : sharedPart (applyOp st .readChoices) = sharedPart st := by
  show sharedPart st.currentChoices.2 = _
  unfold Story.currentChoices
  split <;> rfl

theorem bStepsKeep_readChoices (a b : String) (sched : Schedule)
    (h : ∀ op, (false, op) ∈ sched → op = .readChoices) :
    ∀ st : Story, BStepsKeep sharedPart a b st sched := by
  induction sched with
  | nil => intro st; trivial
  | cons x xs ih =>
    intro st
    obtain ⟨w, op⟩ := x
    refine ⟨?_, ih (fun op' h' => h op' (List.mem_cons_of_mem _ h')) _⟩
    intro hw
    simp only at hw
    subst hw
    have : op = .readChoices := h op List.mem_cons_self
    subst this
    unfold stepIn
    rw [sharedPart_readChoices, sharedPart_switchTo]

/-- Example: a host that only polls `current_choices()` of flow `b` between the
    steps of flow `a` never changes what flow `a` shows or where it stands. -/
theorem interleaving_with_readChoices (a b : String) (hab : a ≠ b) (st : Story) (hwf : FlowMapWF st.state)
    (sched : Schedule) (hquiet : Quiet a b st sched)
    (hBops : ∀ op, (false, op) ∈ sched → op = .readChoices)
    (hA : ∀ op, (true, op) ∈ sched → ADependsOnly sharedPart a op) :
    flowOf a (runSched a b st sched) = flowOf a (runSched a b st sched.onlyA) :=
  interleaving_flow_projection sharedPart a b hab st hwf sched hquiet hA
    (bStepsKeep_readChoices a b sched hBops st)

/-! #### when the "no pending snapshot" hypothesis holds -/

/-- Outcomes that exist only in the model: a Rust panic (after which the real
    story object is not used any more) and the model's own fuel bound. -/
def modelFault {α : Type} : Out α → Prop
  | .ok _ => False
  | .err k _ => k = "ModelFuel"
  | .panic _ => True

/-- The outcome of a host operation, value dropped. -/
def opOutcome (st : Story) : FlowOp → Out Unit
  | .cont => st.cont.1.bind (fun _ => .ok ())
  | .continueMaximally => st.continueMaximally.1.bind (fun _ => .ok ())
  | .choose i => (st.chooseChoiceIndex i).1
  | .choosePath path reset => (st.choosePathString path reset []).1
  | .readChoices => .ok ()

theorem modelFault_void {α : Type} (o : Out α) : modelFault (o.bind (fun _ => (.ok () : Out Unit))) ↔ modelFault o := by
  cases o <;> exact Iff.rfl

/-- The loop never fabricates an `err` outcome of its own (as `C17.stepLoop_no_err`). -/
theorem stepLoop_never_err (b : Option Nat) (fuel steps : Nat) (st : Story) (k m : String) (s1 : Story) :
    stepLoop b fuel steps st ≠ (.err k m, s1) := by
  induction fuel generalizing steps st with
  | zero => unfold stepLoop; intro h; cases h
  | succ fuel ih =>
    unfold stepLoop
    simp only
    intro h
    split at h
    · cases h
    · split at h
      · cases h
      · cases h
      · cases h
      · cases b with
        | none =>
          simp only [Bool.false_eq_true, if_false] at h
          split at h
          · cases h
          · exact ih _ _ h
        | some n =>
          simp only at h
          split at h
          · cases h
          · split at h
            · cases h
            · exact ih _ _ h

theorem deliver_snapshot_none (st : Story) (h : st.snapshot = none) : st.deliver.2.snapshot = none := by
  unfold Story.deliver
  split
  · split
    · simp [h]
    · split <;> exact h
  · exact h

theorem continueInternal_quiet (st : Story) (f : Nat) (hs : st.snapshot = none)
    (hok : ¬ modelFault (st.continueInternal none f).1) : (st.continueInternal none f).2.snapshot = none := by
  revert hok
  unfold Story.continueInternal
  split
  · intro _; exact hs
  · simp only [Option.isSome_none]
    have hb : (st.beginContinue false).asyncActive = false := by
      unfold Story.beginContinue
      simp only
      split <;> simp
    simp only [hb, Bool.false_eq_true, if_false]
    split
    · intro hok; exact absurd trivial hok
    · rename_i k m st1 heq
      exact absurd heq (stepLoop_never_err none f 0 _ k m st1)
    · intro hok; exact absurd rfl hok
    · rename_i why st1 hne heq
      have hend := stepLoop_blocking_end f 0 _ why st1 heq
      have hfin : (why == LoopEnd.newline || !st1.canContinue) = true := by
        rcases hend with hw | hw | hc
        · exact absurd hw (by intro hw'; exact hne (by rw [hw']))
        · simp [hw]
        · simp [hc]
      simp only [hfin, if_true]
      split
      · intro hok; exact absurd trivial hok
      · rename_i st5 changed hf
        have f1 := (finishContinue_fields st1 st5 changed hf).1
        intro _
        have hd := deliver_snapshot_none { st5 with recCount := st5.recCount - 1 } f1
        split
        · rename_i st7 hd7
          rw [hd7] at hd
          exact hd
        · exact hd

theorem cont_quiet (st : Story) (hs : st.snapshot = none) (hok : ¬ modelFault st.cont.1) :
    st.cont.2.snapshot = none := by
  have hc : ¬ modelFault (st.continueAsync none).1 → (st.continueAsync none).2.snapshot = none := by
    unfold Story.continueAsync
    have hv : (if !st.validated then st.validateExternalBindings else (.ok (), st)).2.snapshot = none := by
      split
      · unfold Story.validateExternalBindings
        simp only
        split
        · exact hs
        · split
          · exact hs
          · exact hs
      · exact hs
    generalize (if !st.validated then st.validateExternalBindings else (Out.ok (), st)) = p at hv ⊢
    obtain ⟨v, st1⟩ := p
    simp only at hv ⊢
    split
    · exact continueInternal_quiet st1 _ hv
    · intro _; exact hv
  revert hok
  unfold Story.cont
  split
  · rename_i st1 heq
    rw [heq] at hc
    intro _
    exact hc (fun h => h)
  · rename_i k m st1 heq
    rw [heq] at hc
    intro hok; exact hc hok
  · intro hok; exact absurd trivial hok

theorem continueMaximally_loop_quiet (fuel : Nat) (st : Story) (acc : String) (hs : st.snapshot = none)
    (hok : ¬ modelFault (continueMaximally.loop fuel st acc).1) :
    (continueMaximally.loop fuel st acc).2.snapshot = none := by
  induction fuel generalizing st acc with
  | zero => unfold continueMaximally.loop; exact hs
  | succ fuel ih =>
    revert hok
    unfold continueMaximally.loop
    split
    · have hc := cont_quiet st hs
      split
      · rename_i t st1 heq
        rw [heq] at hc
        intro hok
        exact ih st1 _ (hc (fun h => h)) hok
      · intro hok; exact hc hok
    · intro _; exact hs

theorem chooseChoiceIndex_snapshot (st : Story) (i : Nat) : (st.chooseChoiceIndex i).2.snapshot = st.snapshot := by
  unfold Story.chooseChoiceIndex
  split
  · rfl
  · rfl
  · have hc : st.currentChoices.2.snapshot = st.snapshot := by
      unfold Story.currentChoices
      split <;> rfl
    generalize st.currentChoices = p at hc ⊢
    obtain ⟨choices, st1⟩ := p
    simp only at hc ⊢
    split
    · exact hc
    · split
      · exact hc
      · exact (runM_snapshot _ _).trans hc

theorem choosePathString_snapshot (st : Story) (path : String) (reset : Bool) (args : List (Option Val)) :
    (st.choosePathString path reset args).2.snapshot = st.snapshot := by
  unfold Story.choosePathString
  split
  · rfl
  · rfl
  · split
    · rfl
    · rfl
    · simp only
      split
      · rfl
      · rfl
      · rename_i argv _ _ _ _
        have hpre :
            (if reset then ((.ok () : Out Unit), st.mapCore Core.forceEnd)
             else match st.core.callstack.currentElement with
              | some e =>
                if e.kind == .function then
                  (.invalid ("Story was running a function when you called ChoosePathString(" ++ path
                    ++ ") - this is almost certainly not what you want!"), st)
                else (.ok (), st)
              | none => (.panic "callstack.rs:get_current_element", st)).2.snapshot = st.snapshot := by
          split
          · rfl
          · split
            · split <;> rfl
            · rfl
        generalize (if reset then ((.ok () : Out Unit), st.mapCore Core.forceEnd)
             else match st.core.callstack.currentElement with
              | some e =>
                if e.kind == .function then
                  (.invalid ("Story was running a function when you called ChoosePathString(" ++ path
                    ++ ") - this is almost certainly not what you want!"), st)
                else (.ok (), st)
              | none => (.panic "callstack.rs:get_current_element", st)) = p at hpre ⊢
        obtain ⟨v, st1⟩ := p
        simp only at hpre ⊢
        split
        · rename_i st1' heq1
          cases heq1
          have h2 : (st1.passArguments argv).2.snapshot = st.snapshot := by
            unfold Story.passArguments
            exact (runM_snapshot _ _).trans hpre
          split
          · rename_i st2 heq
            rw [heq] at h2
            exact (runM_snapshot _ _).trans h2
          · exact h2
        · exact hpre

/-- The "no pending snapshot" hypothesis is preserved by every operation that
    does not end in a model fault. -/
theorem applyOp_quiet (st : Story) (op : FlowOp) (hs : st.snapshot = none)
    (hok : ¬ modelFault (opOutcome st op)) : (applyOp st op).snapshot = none := by
  cases op with
  | cont => exact cont_quiet st hs (fun h => hok ((modelFault_void _).2 h))
  | continueMaximally =>
    have hok' : ¬ modelFault st.continueMaximally.1 := fun h => hok ((modelFault_void _).2 h)
    show st.continueMaximally.2.snapshot = none
    revert hok'
    unfold Story.continueMaximally
    split
    · intro _; exact hs
    · intro _; exact hs
    · exact continueMaximally_loop_quiet _ _ _ hs
  | choose i =>
    exact (chooseChoiceIndex_snapshot st i).trans hs
  | choosePath path reset => exact (choosePathString_snapshot st path reset []).trans hs
  | readChoices =>
    show st.currentChoices.2.snapshot = none
    unfold Story.currentChoices
    split
    · exact hs
    · exact hs

/-- No step of the run ends in a model fault. -/
def NoFault (a b : String) : Story → Schedule → Prop
  | _, [] => True
  | st, x :: xs =>
    ¬ modelFault (opOutcome (switchTo (if x.1 then a else b) st) x.2)
      ∧ NoFault a b (stepIn (if x.1 then a else b) st x.2) xs

/-- A run without model faults from a story without a pending snapshot is quiet. -/
theorem quiet_of_noFault (a b : String) (sched : Schedule) :
    ∀ st : Story, st.snapshot = none → NoFault a b st sched → Quiet a b st sched := by
  induction sched with
  | nil => intro _ _ _; trivial
  | cons x xs ih =>
    intro st hs hnf
    refine ⟨hs, ih _ ?_ hnf.2⟩
    exact applyOp_quiet (switchTo (if x.1 then a else b) st) x.2 hs hnf.1

/-! ### 5. Non-vacuity -/

/-- A two-line program: `hello`, newline, `world`, newline, `-> DONE`. -/
def frameRoot : Obj :=
  .container none 0 [.val (.str "hello"), .val (.str "\n"), .val (.str "world"), .val (.str "\n"), .cmd .done] []

def frameStory : Story :=
  { root := frameRoot, defs := [], state := StoryState.fresh 0, snapshot := none,
    recCount := 0, asyncActive := false, sawUnsafe := false, validated := false,
    allowFallbacks := false, handler := false, observers := [], externals := [], events := [],
    lines := 0, fuel := none, stepClock := false }

-- the hypotheses of the frame theorem and of the interleaving theorem hold for it
example : SnapshotAgrees frameStory := snapInv_of_none _ _ rfl
example : FlowMapWF frameStory.state := by intro k fl h; cases h
example : frameStory.state.core.flow.name = defaultFlowName := rfl
example : frameStory.snapshot = none ∧ frameStory.asyncActive = false := ⟨rfl, rfl⟩
example : defaultFlowName ≠ "side" := by decide

example (ops : List FlowOp) : (applyOps frameStory ops).state.namedFlows = frameStory.state.namedFlows :=
  ops_keep_parked_flows frameStory (snapInv_of_none _ _ rfl) ops

example (ops : List FlowOp) :
    (switchTo defaultFlowName (applyOps (switchTo "side" frameStory) ops)).state.core.flow
      = frameStory.state.core.flow :=
  other_flow_untouched frameStory defaultFlowName "side" rfl (by decide) (by intro k fl h; cases h) rfl ops

example (ops : List FlowOp) :
    ∃ st1 st2, frameStory.switchFlow "side" = (.ok (), st1) ∧ (applyOps st1 ops).switchFlow defaultFlowName = (.ok (), st2)
      ∧ st2.state.core.flow = frameStory.state.core.flow :=
  other_flow_untouched_public frameStory defaultFlowName "side" rfl (by decide) (by intro k fl h; cases h) rfl rfl ops

/-! #### the snapshot hypotheses cannot be dropped (for arbitrary, also unreachable, stories) -/

/-- A story value (not reachable through the API) whose look-ahead snapshot parks
    other flows than the current state does; its step budget (hook H2) is used up,
    so that the next continue stops at once and rewinds to the snapshot. -/
def strayStory : Story :=
  { frameStory with
    fuel := some 0, snapshot := some { (StoryState.fresh 0) with namedFlows := some [] } }

-- without `SnapshotAgrees` a continue replaces the parked flows by the snapshot's
example : ¬ SnapshotAgrees strayStory := by
  intro h
  have := h _ rfl
  cases this
example : strayStory.state.namedFlows.isSome = false := rfl
example : (applyOps strayStory [.cont]).state.namedFlows.isSome = true := by decide

/-- The same with a snapshot of the default flow that already holds output. -/
def strayStory2 : Story :=
  { frameStory with
    fuel := some 0,
    snapshot := some { (StoryState.fresh 0) with
      core := { (Core.fresh 0) with flow := { (Core.fresh 0).flow with output := [.glue] } } } }

-- with a pending snapshot, work in flow "side" rewinds into the snapshot's copy of the default flow
example : strayStory2.state.core.flow.name = defaultFlowName ∧ FlowMapWF strayStory2.state :=
  ⟨rfl, by intro k fl h; cases h⟩
example : strayStory2.state.core.flow.output.length = 0 := rfl
example : (switchTo defaultFlowName (applyOps (switchTo "side" strayStory2) [.cont])).state.core.flow.output.length = 1 := by
  decide
end C10
end Ink
