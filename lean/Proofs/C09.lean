/-
  C09 — A rejected host call leaves the story exactly as it was.
  One frame theorem per entry point of Ink/Api: when the call is rejected the
  story returned is literally the story given (so every later call behaves as
  if the rejected one had never been made), and the outcome is an error, not a
  panic.
-/
import Ink.Api
import Ink.Save

namespace Ink
namespace C09

open Story

/-- Continuing a story that cannot continue (and is not in the middle of a
    time-limited continue) is refused and nothing changes. -/
theorem continueInternal_rejected (st : Story) (b : Option Nat) (fuel : Nat)
    (ha : st.asyncActive = false) (hc : st.canContinue = false) :
    st.continueInternal b fuel = (.invalid cannotContinueMsg, st) := by
  simp [Story.continueInternal, ha, hc]

/-- `cont()` / `continue_async()` on a story that cannot continue: the external
    bindings have been validated by an earlier continue (`validated`). -/
theorem continueAsync_rejected (st : Story) (b : Option Nat)
    (hv : st.validated = true) (ha : st.asyncActive = false) (hc : st.canContinue = false) :
    st.continueAsync b = (.invalid cannotContinueMsg, st) := by
  simp [Story.continueAsync, hv, continueInternal_rejected st b callFuel ha hc]

theorem cont_rejected (st : Story)
    (hv : st.validated = true) (ha : st.asyncActive = false) (hc : st.canContinue = false) :
    st.cont = (.invalid cannotContinueMsg, st) := by
  simp [Story.cont, continueAsync_rejected st none hv ha hc, Out.invalid]

/-- Validation of the external bindings either fails and changes nothing, or
    succeeds and only records that it succeeded. -/
theorem validate_cases (st : Story) :
    (∃ e, st.validateExternalBindings = (e, st) ∧ ∀ u, e ≠ .ok u)
    ∨ st.validateExternalBindings = (.ok (), { st with validated := true }) := by
  unfold Story.validateExternalBindings
  simp only
  split
  · left; exact ⟨_, rfl, by intro u h; cases h⟩
  · split
    · right; rfl
    · left; exact ⟨_, rfl, by intro u h; cases h⟩

/-- Before the first successful validation a rejected continue may only record
    that the bindings were validated; the state itself is untouched and the
    outcome is not `ok`. -/
theorem continueAsync_rejected_state (st : Story) (b : Option Nat)
    (ha : st.asyncActive = false) (hc : st.canContinue = false) :
    (st.continueAsync b).2.state = st.state ∧ ∀ u, (st.continueAsync b).1 ≠ .ok u := by
  unfold Story.continueAsync
  by_cases hv : st.validated = true
  · simp [hv, continueInternal_rejected st b callFuel ha hc, Out.invalid]
  · have hv' : st.validated = false := by simpa using hv
    simp only [hv', Bool.not_false, if_true]
    rcases validate_cases st with ⟨e, he, hne⟩ | hok
    · rw [he]
      cases e with
      | ok u => exact absurd rfl (hne u)
      | err k m => simp
      | panic p => simp
    · rw [hok]
      have hc' : ({ st with validated := true } : Story).canContinue = false := hc
      have ha' : ({ st with validated := true } : Story).asyncActive = false := ha
      have h := continueInternal_rejected ({ st with validated := true } : Story) b callFuel ha' hc'
      simp [h, Out.invalid]

/-- A choice with its cosmetic `index` erased. -/
def eraseIndex (c : Choice) : Choice := { c with index := 0 }

theorem renumber_eraseIndex (l : List Choice) (n : Nat) :
    (Story.currentChoices.renumber l n).map eraseIndex = l.map eraseIndex := by
  induction l generalizing n with
  | nil => simp [Story.currentChoices.renumber]
  | cons c rest ih =>
    simp only [Story.currentChoices.renumber]
    split <;> simp [ih, eraseIndex]

/-- Reading the choices keeps everything of the story but the `index` of each choice. -/
theorem currentChoices_state (st : Story) :
    (st.currentChoices).2 = st ∨
    ∃ cs, (st.currentChoices).2 = st.mapCore (fun c => { c with flow := { c.flow with choices := cs } })
      ∧ cs.map eraseIndex = st.core.flow.choices.map eraseIndex := by
  unfold Story.currentChoices
  split
  · left; rfl
  · right; exact ⟨_, rfl, renumber_eraseIndex _ _⟩

/-- An out-of-range choice index is refused; the story is what reading the
    choices leaves (the same story up to the cosmetic `index` of each choice). -/
theorem chooseChoiceIndex_out_of_range (st : Story) (i : Nat)
    (ha : st.asyncActive = false) (hi : (st.currentChoices).1[i]? = none) :
    st.chooseChoiceIndex i = (.badArg "choice out of range", (st.currentChoices).2) := by
  unfold Story.chooseChoiceIndex
  simp [Story.ifAsyncWeCant, ha, hi]

theorem setVariable_undeclared (st : Story) (name : String) (v : Val)
    (ha : st.asyncActive = false) (hn : alHas st.core.defaultGlobals name = false) :
    ∃ m, st.setVariable name v = (.badArg m, st) := by
  unfold Story.setVariable
  simp [Story.ifAsyncWeCant, ha, hn, Out.badArg]

theorem observeVariable_undeclared (st : Story) (name id : String)
    (ha : st.asyncActive = false) (hn : st.core.globalExists name = false) :
    ∃ m, st.observeVariable name id = (.badArg m, st) := by
  unfold Story.observeVariable
  simp [Story.ifAsyncWeCant, ha, hn, Out.badArg]

theorem evaluateFunction_blank (st : Story) (name : String) (args : List (Option Val))
    (ha : st.asyncActive = false) (hb : (name.toList.dropWhile isUnicodeWs).isEmpty = true) :
    st.evaluateFunction name args = (.invalid "Function is empty or white space.", st) := by
  unfold Story.evaluateFunction
  simp [Story.ifAsyncWeCant, ha, hb]

theorem evaluateFunction_unknown (st : Story) (name : String) (args : List (Option Val))
    (ha : st.asyncActive = false) (hb : (name.toList.dropWhile isUnicodeWs).isEmpty = false)
    (hn : st.root.lookupName name = none) :
    ∃ m, st.evaluateFunction name args = (.badArg m, st) := by
  unfold Story.evaluateFunction
  simp [Story.ifAsyncWeCant, ha, hb, hn, Out.badArg]

theorem evaluateFunction_bad_argument (st : Story) (name : String) (args : List (Option Val)) (stp : Step)
    (ha : st.asyncActive = false) (hb : (name.toList.dropWhile isUnicodeWs).isEmpty = false)
    (hn : st.root.lookupName name = some stp) (hargs : args.all Option.isSome = false) :
    ∃ m, st.evaluateFunction name args = (.invalid m, st) := by
  unfold Story.evaluateFunction
  simp [Story.ifAsyncWeCant, ha, hb, hn, Story.checkArguments, hargs, Out.invalid]

theorem choosePathString_unknown_path (st : Story) (path : String) (reset : Bool) (args : List (Option Val))
    (ha : st.asyncActive = false) (hargs : args.all Option.isSome = true) (k m : String)
    (hp : pointerAtPath st.root (Path.parse path.toList) = .err k m) :
    st.choosePathString path reset args = (.err k m, st) := by
  unfold Story.choosePathString
  simp [Story.ifAsyncWeCant, ha, Story.checkArguments, hargs, hp]

theorem choosePathString_bad_argument (st : Story) (path : String) (reset : Bool) (args : List (Option Val))
    (ha : st.asyncActive = false) (hargs : args.all Option.isSome = false) :
    ∃ m, st.choosePathString path reset args = (.invalid m, st) := by
  unfold Story.choosePathString
  simp [Story.ifAsyncWeCant, ha, Story.checkArguments, hargs, Out.invalid]

theorem removeFlow_default (st : Story) (ha : st.asyncActive = false) :
    ∃ m, st.removeFlow defaultFlowName = (.badArg m, st) := by
  unfold Story.removeFlow
  simp [Story.ifAsyncWeCant, ha, Out.badArg]

theorem bindExternal_twice (st : Story) (name : String) (d : ExtDef)
    (ha : st.asyncActive = false) (hb : alHas st.externals name = true) :
    ∃ m, st.bindExternal name d = (.badArg m, st) := by
  unfold Story.bindExternal
  simp [Story.ifAsyncWeCant, ha, hb, Out.badArg]

theorem unbindExternal_missing (st : Story) (name : String)
    (ha : st.asyncActive = false) (hb : alHas st.externals name = false) :
    ∃ m, st.unbindExternal name = (.badArg m, st) := by
  unfold Story.unbindExternal
  simp [Story.ifAsyncWeCant, ha, hb, Out.badArg]

/-! While a time-limited continue is unfinished every state-changing entry
    point is refused and leaves the story untouched (also C08). -/

theorem async_refuses (st : Story) (ha : st.asyncActive = true) :
    (∃ m, st.continueMaximally = (.invalid m, st))
    ∧ (∀ i, ∃ m, st.chooseChoiceIndex i = (.invalid m, st))
    ∧ (∀ p r a, ∃ m, st.choosePathString p r a = (.invalid m, st))
    ∧ (∀ n a, ∃ m, st.evaluateFunction n a = (.invalid m, st))
    ∧ (∀ n, ∃ m, st.switchFlow n = (.invalid m, st))
    ∧ (∀ n, ∃ m, st.removeFlow n = (.invalid m, st))
    ∧ st.switchToDefaultFlow = st
    ∧ (∀ n v, ∃ m, st.setVariable n v = (.invalid m, st))
    ∧ (∀ n i, ∃ m, st.observeVariable n i = (.invalid m, st))
    ∧ (∀ i n, ∃ m, st.removeVariableObserver i n = (.invalid m, st))
    ∧ (∀ n d, ∃ m, st.bindExternal n d = (.invalid m, st))
    ∧ (∀ n, ∃ m, st.unbindExternal n = (.invalid m, st))
    ∧ (∀ s, ∃ m, st.resetState s = (.invalid m, st))
    ∧ (∀ d, ∃ m, Save.loadState st d = (.invalid m, st))
    ∧ (∃ m, st.getCurrentText = .invalid m) ∧ (∃ m, st.getCurrentTags = .invalid m) := by
  refine ⟨?_, ?_, ?_, ?_, ?_, ?_, ?_, ?_, ?_, ?_, ?_, ?_, ?_, ?_, ?_, ?_⟩
  · simp [Story.continueMaximally, Story.ifAsyncWeCant, ha, Out.invalid]
  · intro i; simp [Story.chooseChoiceIndex, Story.ifAsyncWeCant, ha, Out.invalid]
  · intro p r a; simp [Story.choosePathString, Story.ifAsyncWeCant, ha, Out.invalid]
  · intro n a; simp [Story.evaluateFunction, Story.ifAsyncWeCant, ha, Out.invalid]
  · intro n; simp [Story.switchFlow, Story.ifAsyncWeCant, ha, Out.invalid]
  · intro n; simp [Story.removeFlow, Story.ifAsyncWeCant, ha, Out.invalid]
  · simp [Story.switchToDefaultFlow, ha]
  · intro n v; simp [Story.setVariable, Story.ifAsyncWeCant, ha, Out.invalid]
  · intro n i; simp [Story.observeVariable, Story.ifAsyncWeCant, ha, Out.invalid]
  · intro i n; simp [Story.removeVariableObserver, Story.ifAsyncWeCant, ha, Out.invalid]
  · intro n d; simp [Story.bindExternal, Story.ifAsyncWeCant, ha, Out.invalid]
  · intro n; simp [Story.unbindExternal, Story.ifAsyncWeCant, ha, Out.invalid]
  · intro s; simp [Story.resetState, Story.ifAsyncWeCant, ha, Out.invalid]
  · intro d; simp [Save.loadState, Story.ifAsyncWeCant, ha, Out.invalid]
  · simp [Story.getCurrentText, Story.ifAsyncWeCant, ha, Out.invalid]
  · simp [Story.getCurrentTags, Story.ifAsyncWeCant, ha, Out.invalid]

end C09
end Ink
