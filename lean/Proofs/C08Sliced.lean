/-
  C08 — How the host slices continuation never changes the story: sliced = blocking.

  1. `AsyncEq` (equal except for the `asyncActive` flag) and `continueSingleStep_asyncEq`:
     a step neither reads nor writes the flag (`css_setAsync`).  A step does not read
     `recCount`, `validated`, `handler`, `observers`, `fuel`, `stepClock` either, but the loop
     reads `fuel` and the final theorem gives equality of all of them anyway.
  2. The loop: `stepLoop_resume` (a paused time-limited loop is a prefix of the blocking
     loop, which goes on from the paused state, or ends right there if the story cannot
     continue), `stepLoop_budget_no_pause`, `stepLoop_none_fuel_mono`, and the iterate
     `stepLoop_sliced`.
  2b. `unsafeConsumed`: the `sawUnsafe` flag is consumed by the step that raises it
     (proved from the step function: `Proofs/Lemmas/StepUnsafe.lean`), hence it is down at
     every pause (`stepLoop_pause_sawUnsafe`) and the reset of the flag by the next
     `continue_internal` changes nothing.
  3. Host calls: `sliced_eq_blocking` (`slicedRun` = any number of time-limited continues,
     then a blocking one if the line is still unfinished) under two hypotheses:
       * the blocking continue does not exhaust the MODEL fuel (every call of the sliced run
         gets fresh model fuel, so it gets further than an exhausted blocking run);
       * `QuietPauses`: at every pause no warning is pending while an error handler is
         installed (`handler = false ∨ hasWarning = false`).  Errors cannot be pending at a
         pause (a story with an error cannot continue, the call finishes the line instead).
         Otherwise the warnings are handed to the handler AT THE PAUSE
         (`pause_delivers_warnings`) and removed from the state and the snapshot: the event
         order differs from the blocking continue, and a warning raised during look-ahead
         is delivered although the blocking continue would rewind over it.
     Without a handler no hypothesis but the fuel is needed (`sliced_eq_blocking_noHandler`).
  5. Non-vacuity: `exStory2`, `exStory3`.
-/
import Proofs.C08
import Proofs.C13
import Proofs.Lemmas.StepUnsafe

namespace Ink
namespace C08

open Story

set_option linter.unusedSimpArgs false

/-! ### 1. `AsyncEq`: equal except for the `asyncActive` flag -/

/-- Overwrite the `asyncActive` flag. -/
def setAsync (st : Story) (f : Bool) : Story := { st with asyncActive := f }

/-- Equal except for the `asyncActive` flag. -/
def AsyncEq (a b : Story) : Prop := setAsync a false = setAsync b false

@[simp] theorem setAsync_setAsync (st : Story) (f g : Bool) : setAsync (setAsync st f) g = setAsync st g := rfl
@[simp] theorem setAsync_asyncActive (st : Story) (f : Bool) : (setAsync st f).asyncActive = f := rfl
theorem setAsync_self (st : Story) : setAsync st st.asyncActive = st := rfl

theorem runM_setAsync {α : Type} (st : Story) (f : Bool) (m : M α) :
    (setAsync st f).runM m = ((st.runM m).1, setAsync (st.runM m).2 f) := rfl

/-- The part of `continueSingleStep` after the step proper and the default-choice
    attempt (verbatim). -/
def cssTail (st2 : Story) : Out Bool × Story :=
  if st2.core.inStringEvaluation then (.ok false, st2)
  else
    let afterCheck : Option Story :=
      match st2.snapshot with
      | some snap =>
        let change := calcNewlineChange (utf8 snap.currentText) (utf8 st2.state.currentText)
          snap.currentTags.length st2.state.currentTags.length
        if change == .extendedBeyondNewline || st2.sawUnsafe then none
        else if change == .newlineRemoved then some st2.discardSnapshot
        else some st2
      | none => some st2
    match afterCheck with
    | none => (.ok true, st2.restoreSnapshot)
    | some st3 =>
      if st3.core.outputEndsInNewline then
        if st3.canContinue then
          (.ok false, if st3.snapshot.isNone then st3.stateSnapshot else st3)
        else (.ok false, st3.discardSnapshot)
      else (.ok false, st3)

/-- The part after the step proper. -/
def cssMid (st1 : Story) : Out Bool × Story :=
  let r2 : Out Unit × Story :=
    if !st1.canContinue && !st1.core.callstack.elementIsEvaluateFromGame then
      st1.runM (tryFollowDefaultInvisibleChoice st1.env)
    else (.ok (), st1)
  match r2 with
  | (.err k m, st2) => (.err k m, st2)
  | (.panic p, st2) => (.panic p, st2)
  | (.ok (), st2) => cssTail st2

theorem css_eq (st : Story) :
    st.continueSingleStep =
      match st.runM (step st.env) with
      | (.err k m, st1) => (.err k m, st1)
      | (.panic p, st1) => (.panic p, st1)
      | (.ok (), st1) => cssMid st1 := by
  unfold Story.continueSingleStep cssMid cssTail
  rfl

theorem restoreSnapshot_setAsync (st : Story) (f : Bool) :
    (setAsync st f).restoreSnapshot = setAsync st.restoreSnapshot f := by
  unfold Story.restoreSnapshot
  have : (setAsync st f).snapshot = st.snapshot := rfl
  rw [this]
  cases st.snapshot <;> rfl

/-- what `cssTail` does once the snapshot check has been passed -/
def cssEnd (st3 : Story) : Out Bool × Story :=
  if st3.core.outputEndsInNewline then
    if st3.canContinue then
      (.ok false, if st3.snapshot.isNone then st3.stateSnapshot else st3)
    else (.ok false, st3.discardSnapshot)
  else (.ok false, st3)

theorem cssEnd_setAsync (st3 : Story) (f : Bool) :
    cssEnd (setAsync st3 f) = ((cssEnd st3).1, setAsync (cssEnd st3).2 f) := by
  unfold cssEnd
  have e1 : (setAsync st3 f).core = st3.core := rfl
  have e2 : (setAsync st3 f).canContinue = st3.canContinue := rfl
  have e3 : (setAsync st3 f).snapshot = st3.snapshot := rfl
  rw [e1, e2, e3]
  by_cases h1 : st3.core.outputEndsInNewline = true
  · simp only [h1, Bool.false_eq_true, ↓reduceIte]
    by_cases h2 : st3.canContinue = true
    · simp only [h2, Bool.false_eq_true, ↓reduceIte]
      by_cases h3 : st3.snapshot.isNone = true
      · simp only [h3, Bool.false_eq_true, ↓reduceIte]; rfl
      · simp only [h3, Bool.false_eq_true, ↓reduceIte]
    · simp only [h2, Bool.false_eq_true, ↓reduceIte]; rfl
  · simp only [h1, Bool.false_eq_true, ↓reduceIte]

theorem cssTail_setAsync (st2 : Story) (f : Bool) :
    cssTail (setAsync st2 f) = ((cssTail st2).1, setAsync (cssTail st2).2 f) := by
  unfold cssTail
  have e1 : (setAsync st2 f).core = st2.core := rfl
  have e3 : (setAsync st2 f).snapshot = st2.snapshot := rfl
  have e4 : (setAsync st2 f).state = st2.state := rfl
  have e5 : (setAsync st2 f).sawUnsafe = st2.sawUnsafe := rfl
  rw [e1, e3, e4, e5]
  by_cases h1 : st2.core.inStringEvaluation = true
  · simp only [h1, Bool.false_eq_true, ↓reduceIte]
  · simp only [h1, Bool.false_eq_true, ↓reduceIte]
    cases hs : st2.snapshot with
    | none =>
      simp only
      exact cssEnd_setAsync st2 f
    | some snap =>
      simp only
      by_cases h2 : (calcNewlineChange (utf8 snap.currentText) (utf8 st2.state.currentText)
          snap.currentTags.length st2.state.currentTags.length == .extendedBeyondNewline
          || st2.sawUnsafe) = true
      · simp only [h2, Bool.false_eq_true, ↓reduceIte]
        rw [restoreSnapshot_setAsync]
      · simp only [h2, Bool.false_eq_true, ↓reduceIte]
        by_cases h3 : (calcNewlineChange (utf8 snap.currentText) (utf8 st2.state.currentText)
          snap.currentTags.length st2.state.currentTags.length == .newlineRemoved) = true
        · simp only [h3, Bool.false_eq_true, ↓reduceIte]
          exact cssEnd_setAsync st2.discardSnapshot f
        · simp only [h3, Bool.false_eq_true, ↓reduceIte]
          exact cssEnd_setAsync st2 f

theorem cssMid_setAsync (st1 : Story) (f : Bool) :
    cssMid (setAsync st1 f) = ((cssMid st1).1, setAsync (cssMid st1).2 f) := by
  unfold cssMid
  have e1 : (setAsync st1 f).core = st1.core := rfl
  have e2 : (setAsync st1 f).canContinue = st1.canContinue := rfl
  have e3 : (setAsync st1 f).env = st1.env := rfl
  rw [e1, e2, e3]
  by_cases h1 : (!st1.canContinue && !st1.core.callstack.elementIsEvaluateFromGame) = true
  · simp only [h1, Bool.false_eq_true, ↓reduceIte]
    rw [runM_setAsync]
    rcases h : st1.runM (tryFollowDefaultInvisibleChoice st1.env) with ⟨r, st2⟩
    cases r with
    | err k m => rfl
    | panic p => rfl
    | ok u => cases u; exact cssTail_setAsync st2 f
  · simp only [h1, Bool.false_eq_true, ↓reduceIte]
    exact cssTail_setAsync st1 f

/-- `continueSingleStep` commutes with overwriting the `asyncActive` flag. -/
theorem css_setAsync (st : Story) (f : Bool) :
    (setAsync st f).continueSingleStep
      = ((st.continueSingleStep).1, setAsync (st.continueSingleStep).2 f) := by
  rw [css_eq, css_eq]
  rw [runM_setAsync]
  have henv : (setAsync st f).env = st.env := rfl
  rw [henv]
  rcases h : st.runM (step st.env) with ⟨r, st1⟩
  cases r with
  | err k m => rfl
  | panic p => rfl
  | ok u => cases u; exact cssMid_setAsync st1 f

/-! ### 2. The loop -/

/-- One iteration of the loop of `continue_internal`, up to the point where the
    budget is looked at: either the loop is over, or the step returned `ok false`. -/
inductive Iter where
  | done (r : Out LoopEnd) (s : Story)
  | more (s : Story)

/-- The verification step budget (hook H2) is charged. -/
def decFuel (st : Story) : Story := { st with fuel := st.fuel.map (· - 1) }

def iter (st : Story) : Iter :=
  if st.fuel == some 0 then .done (.ok .error) (st.addError "VERIF_FUEL" false)
  else
    match (decFuel st).continueSingleStep with
    | (.panic p, st1) => .done (.panic p) st1
    | (.err _ m, st1) => .done (.ok .error) (st1.addError m false)
    | (.ok true, st1) => .done (.ok .newline) st1
    | (.ok false, st1) => .more st1

def timeUp (budget : Option Nat) (steps : Nat) (st1 : Story) : Bool :=
  match budget with
  | some n => st1.asyncActive && steps ≥ n
  | none => false

theorem stepLoop_zero (b : Option Nat) (k : Nat) (st : Story) :
    stepLoop b 0 k st = (.ok .outOfFuel, st) := rfl

theorem stepLoop_succ (b : Option Nat) (F k : Nat) (st : Story) :
    stepLoop b (F + 1) k st =
      match iter st with
      | .done r s => (r, s)
      | .more st1 =>
        if timeUp b (k + 1) st1 then (.ok .outOfTime, st1)
        else if !st1.canContinue then (.ok .cannotContinue, st1)
        else stepLoop b F (k + 1) st1 := by
  rw [stepLoop]
  unfold iter timeUp decFuel
  simp only
  split
  · rfl
  · split <;> simp only [*] <;> rfl

theorem addError_setAsync (st : Story) (f : Bool) (m : String) (w : Bool) :
    (setAsync st f).addError m w = setAsync (st.addError m w) f := by
  unfold Story.addError
  split <;> rfl

def Iter.mapS (g : Story → Story) : Iter → Iter
  | .done r s => .done r (g s)
  | .more s => .more (g s)

theorem iter_setAsync (st : Story) (f : Bool) :
    iter (setAsync st f) = (iter st).mapS (setAsync · f) := by
  unfold iter
  have e1 : (setAsync st f).fuel = st.fuel := rfl
  have e2 : decFuel (setAsync st f) = setAsync (decFuel st) f := rfl
  rw [e1, e2, css_setAsync]
  split
  · exact congrArg _ (addError_setAsync st f _ _)
  · rcases h : (decFuel st).continueSingleStep with ⟨r, s1⟩
    cases r with
    | panic p => rfl
    | err k m => simp only [Iter.mapS]; rw [addError_setAsync]
    | ok b => cases b <;> rfl

/-- the results with which an iteration can end the loop by itself -/
theorem iter_done (st : Story) (r : Out LoopEnd) (s : Story) (h : iter st = .done r s) :
    r ≠ .ok .outOfTime ∧ r ≠ .ok .outOfFuel ∧ r ≠ .ok .cannotContinue := by
  unfold iter at h
  split at h
  · cases h; simp
  · split at h <;> cases h <;> simp

/-- The blocking loop ignores the step counter and commutes with the flag. -/
theorem stepLoop_none_setAsync (F k k' : Nat) (st : Story) (f : Bool) :
    stepLoop none F k (setAsync st f)
      = ((stepLoop none F k' st).1, setAsync (stepLoop none F k' st).2 f) := by
  induction F generalizing k k' st with
  | zero => rfl
  | succ F ih =>
    rw [stepLoop_succ, stepLoop_succ, iter_setAsync]
    cases iter st with
    | done r s => rfl
    | more s1 =>
      simp only [Iter.mapS, timeUp, Bool.false_eq_true, ↓reduceIte]
      have e : (setAsync s1 f).canContinue = s1.canContinue := rfl
      rw [e]
      cases s1.canContinue with
      | false => rfl
      | true => simp only [Bool.not_true, Bool.false_eq_true, ↓reduceIte]; exact ih _ _ _

theorem stepLoop_none_steps (F k k' : Nat) (st : Story) :
    stepLoop none F k st = stepLoop none F k' st := by
  have := stepLoop_none_setAsync F k k' st st.asyncActive
  rw [setAsync_self] at this
  rw [this]
  have hs := stepLoop_same none F k' st (stepLoop none F k' st).1 (stepLoop none F k' st).2 rfl
  rw [← hs.asyncActive]
  rfl


theorem timeUp_none (k : Nat) (s : Story) : timeUp none k s = false := rfl

theorem canContinue_setAsync (s : Story) (f : Bool) : (setAsync s f).canContinue = s.canContinue := rfl

/-- One more blocking iteration, on a flag-modified state, when the iteration goes on. -/
theorem stepLoop_none_more (G k' : Nat) (st s1 : Story) (f : Bool) (hi : iter st = .more s1) :
    stepLoop none (G + 1) k' (setAsync st f) =
      if s1.canContinue then stepLoop none G 0 (setAsync s1 f)
      else (.ok .cannotContinue, setAsync s1 f) := by
  rw [stepLoop_succ, iter_setAsync, hi]
  simp only [Iter.mapS, timeUp_none, Bool.false_eq_true, ↓reduceIte, canContinue_setAsync]
  by_cases hc : s1.canContinue = true
  · simp only [hc, Bool.not_true, Bool.false_eq_true, ↓reduceIte]
    exact stepLoop_none_steps _ _ _ _
  · have hc' : s1.canContinue = false := by simpa using hc
    simp only [hc', Bool.not_false, Bool.false_eq_true, ↓reduceIte]

theorem stepLoop_resume_aux (n F k : Nat) (st st1 : Story)
    (h : stepLoop (some n) F k st = (.ok .outOfTime, st1)) :
    ∃ j, 1 ≤ j ∧ j ≤ F ∧ st1.asyncActive = true ∧
      ∀ (G k' : Nat) (f : Bool),
        stepLoop none (j + G) k' (setAsync st f) =
          if st1.canContinue then stepLoop none G 0 (setAsync st1 f)
          else (.ok .cannotContinue, setAsync st1 f) := by
  induction F generalizing k st with
  | zero => rw [stepLoop_zero] at h; cases h
  | succ F ih =>
    rw [stepLoop_succ] at h
    cases hi : iter st with
    | done r s =>
      rw [hi] at h
      simp only [Prod.mk.injEq] at h
      exact absurd h.1 (iter_done st r s hi).1
    | more s1 =>
      rw [hi] at h
      simp only at h
      by_cases ht : timeUp (some n) (k + 1) s1 = true
      · simp only [ht, ↓reduceIte, Prod.mk.injEq, true_and] at h
        subst h
        refine ⟨1, Nat.le_refl 1, Nat.succ_le_succ (Nat.zero_le F), ?_, ?_⟩
        · unfold timeUp at ht
          simp only [Bool.and_eq_true] at ht
          exact ht.1
        · intro G k' f
          rw [Nat.add_comm 1 G]
          exact stepLoop_none_more G k' st s1 f hi
      · simp only [ht, Bool.false_eq_true, ↓reduceIte] at h
        cases hc : s1.canContinue with
        | false =>
          simp only [hc, Bool.not_false, ↓reduceIte, Prod.mk.injEq, Out.ok.injEq, reduceCtorEq, false_and] at h
        | true =>
          simp only [hc, Bool.not_true, Bool.false_eq_true, ↓reduceIte] at h
          obtain ⟨j, hj1, hjF, ha, hj⟩ := ih (k + 1) s1 h
          refine ⟨j + 1, Nat.succ_le_succ (Nat.zero_le j), Nat.succ_le_succ hjF, ha, ?_⟩
          intro G k' f
          have e : j + 1 + G = (j + G) + 1 := by omega
          rw [e, stepLoop_none_more (j + G) k' st s1 f hi, hc]
          simp only [↓reduceIte]
          exact hj G 0 f

/-- A time-limited loop that does not pause is the blocking loop. -/
theorem stepLoop_budget_no_pause (n F k : Nat) (st : Story) (r : Out LoopEnd) (s : Story)
    (h : stepLoop (some n) F k st = (r, s)) (hr : r ≠ .ok .outOfTime) :
    stepLoop none F k st = (r, s) := by
  induction F generalizing k st with
  | zero => exact h
  | succ F ih =>
    rw [stepLoop_succ] at h ⊢
    cases hi : iter st with
    | done r' s' => rw [hi] at h; exact h
    | more s1 =>
      rw [hi] at h
      simp only at h ⊢
      by_cases ht : timeUp (some n) (k + 1) s1 = true
      · simp only [ht, ↓reduceIte, Prod.mk.injEq] at h
        exact absurd h.1.symm hr
      · simp only [ht, Bool.false_eq_true, ↓reduceIte] at h
        simp only [timeUp_none, Bool.false_eq_true, ↓reduceIte]
        cases hc : s1.canContinue with
        | false =>
          simp only [hc, Bool.not_false, ↓reduceIte] at h ⊢
          exact h
        | true =>
          simp only [hc, Bool.not_true, Bool.false_eq_true, ↓reduceIte] at h ⊢
          exact ih _ _ h

/-- More model fuel does not change a blocking loop that did not run out of it. -/
theorem stepLoop_none_fuel_mono (F G k k' : Nat) (st : Story) (r : Out LoopEnd) (s : Story)
    (h : stepLoop none F k st = (r, s)) (hr : r ≠ .ok .outOfFuel) :
    stepLoop none (F + G) k' st = (r, s) := by
  induction F generalizing k k' st with
  | zero =>
    rw [stepLoop_zero] at h
    simp only [Prod.mk.injEq] at h
    exact absurd h.1.symm hr
  | succ F ih =>
    have e : F + 1 + G = (F + G) + 1 := by omega
    rw [e]
    rw [stepLoop_succ] at h ⊢
    cases hi : iter st with
    | done r' s' => rw [hi] at h; exact h
    | more s1 =>
      rw [hi] at h
      simp only [timeUp_none, Bool.false_eq_true, ↓reduceIte] at h ⊢
      cases hc : s1.canContinue with
      | false =>
        simp only [hc, Bool.not_false, ↓reduceIte] at h ⊢
        exact h
      | true =>
        simp only [hc, Bool.not_true, Bool.false_eq_true, ↓reduceIte] at h ⊢
        exact ih _ _ _ h

theorem asyncEq_iff (a b : Story) : AsyncEq a b ↔ b = setAsync a b.asyncActive := by
  constructor
  · intro h
    have := congrArg (setAsync · b.asyncActive) h
    simp only [setAsync_setAsync, setAsync_self] at this
    exact this.symm
  · intro h
    rw [h]
    rfl

theorem AsyncEq.refl (a : Story) : AsyncEq a a := rfl
theorem AsyncEq.symm {a b : Story} (h : AsyncEq a b) : AsyncEq b a := Eq.symm h
theorem AsyncEq.trans {a b c : Story} (h1 : AsyncEq a b) (h2 : AsyncEq b c) : AsyncEq a c := Eq.trans h1 h2
theorem asyncEq_setAsync (a : Story) (f : Bool) : AsyncEq a (setAsync a f) := rfl

/-- `AsyncEq` spelled out field by field. -/
theorem asyncEq_fields {a b : Story} (h : AsyncEq a b) :
    a.root = b.root ∧ a.defs = b.defs ∧ a.state = b.state ∧ a.snapshot = b.snapshot
    ∧ a.recCount = b.recCount ∧ a.sawUnsafe = b.sawUnsafe ∧ a.validated = b.validated
    ∧ a.allowFallbacks = b.allowFallbacks ∧ a.handler = b.handler ∧ a.observers = b.observers
    ∧ a.externals = b.externals ∧ a.events = b.events ∧ a.lines = b.lines ∧ a.fuel = b.fuel
    ∧ a.stepClock = b.stepClock := by
  rw [asyncEq_iff] at h
  rw [h]
  exact ⟨rfl, rfl, rfl, rfl, rfl, rfl, rfl, rfl, rfl, rfl, rfl, rfl, rfl, rfl, rfl⟩

/-- **continueSingleStep_asyncEq.** -/
theorem continueSingleStep_asyncEq (a b : Story) (h : AsyncEq a b) :
    (a.continueSingleStep).1 = (b.continueSingleStep).1
    ∧ AsyncEq (a.continueSingleStep).2 (b.continueSingleStep).2 := by
  rw [asyncEq_iff] at h
  rw [h, css_setAsync]
  exact ⟨rfl, asyncEq_setAsync _ _⟩

theorem stepLoop_resume (n F k : Nat) (st st1 : Story)
    (h : stepLoop (some n) F k st = (.ok .outOfTime, st1)) :
    ∃ F' k', F' < F ∧
      (st1.canContinue = true → stepLoop none F k st = stepLoop none F' k' st1) ∧
      (st1.canContinue = false → stepLoop none F k st = (.ok .cannotContinue, st1)) := by
  obtain ⟨j, hj1, hjF, _, hj⟩ := stepLoop_resume_aux n F k st st1 h
  have hs := stepLoop_same _ _ _ _ _ _ h
  have key := hj (F - j) k st.asyncActive
  have e : j + (F - j) = F := by omega
  rw [e, setAsync_self, ← hs.asyncActive, setAsync_self] at key
  refine ⟨F - j, k + j, by omega, ?_, ?_⟩
  · intro hc
    rw [key, hc]
    simp only [↓reduceIte]
    exact stepLoop_none_steps _ _ _ _
  · intro hc
    rw [key, hc]
    simp only [Bool.false_eq_true, ↓reduceIte]

theorem stepLoop_resume_asyncEq (n F k : Nat) (st st1 st' : Story)
    (h : stepLoop (some n) F k st = (.ok .outOfTime, st1)) (he : AsyncEq st st') :
    ∃ F' k' st1', F' < F ∧ AsyncEq st1 st1' ∧
      (st1.canContinue = true → stepLoop none F k st' = stepLoop none F' k' st1') ∧
      (st1.canContinue = false → stepLoop none F k st' = (.ok .cannotContinue, st1')) := by
  obtain ⟨j, hj1, hjF, _, hj⟩ := stepLoop_resume_aux n F k st st1 h
  rw [asyncEq_iff] at he
  have key := hj (F - j) k st'.asyncActive
  have e : j + (F - j) = F := by omega
  rw [e, ← he] at key
  refine ⟨F - j, k + j, setAsync st1 st'.asyncActive, by omega, asyncEq_setAsync _ _, ?_, ?_⟩
  · intro hc
    rw [key, hc]
    simp only [↓reduceIte]
    exact stepLoop_none_steps _ _ _ _
  · intro hc
    rw [key, hc]
    simp only [Bool.false_eq_true, ↓reduceIte]

/-- Run the loop with the budgets `ns`, resuming from the paused state each time
    (fresh model fuel, step counter 0), then without budget. A pause in a story
    that cannot continue ends the run (the host call finishes the line there). -/
def slicedLoop (F : Nat) : List Nat → Story → Out LoopEnd × Story
  | [], st => stepLoop none F 0 st
  | n :: ns, st =>
    match stepLoop (some n) F 0 st with
    | (.ok .outOfTime, st1) =>
      if st1.canContinue then slicedLoop F ns st1 else (.ok .outOfTime, st1)
    | other => other

theorem slicedLoop_cons_other (F n : Nat) (ns : List Nat) (st : Story) (r : Out LoopEnd) (s : Story)
    (h : stepLoop (some n) F 0 st = (r, s)) (hr : r ≠ .ok .outOfTime) :
    slicedLoop F (n :: ns) st = (r, s) := by
  rw [slicedLoop, h]
  split
  · rename_i heq
    simp only [Prod.mk.injEq] at heq
    exact absurd heq.1 hr
  · rfl

theorem stepLoop_sliced (F : Nat) (ns : List Nat) (st st' : Story) (he : AsyncEq st st')
    (rb : Out LoopEnd) (sb : Story)
    (hb : stepLoop none F 0 st' = (rb, sb)) (hfuel : rb ≠ .ok .outOfFuel) :
    ∃ r s, slicedLoop F ns st = (r, s) ∧ AsyncEq s sb ∧
      (r = rb ∨ (r = .ok .outOfTime ∧ rb = .ok .cannotContinue ∧ s.canContinue = false)) := by
  induction ns generalizing st st' with
  | nil =>
    rw [asyncEq_iff] at he
    rw [he, stepLoop_none_setAsync F 0 0 st] at hb
    simp only [Prod.mk.injEq] at hb
    refine ⟨(stepLoop none F 0 st).1, (stepLoop none F 0 st).2, rfl, ?_, Or.inl hb.1⟩
    rw [← hb.2]
    exact asyncEq_setAsync _ _
  | cons n ns ih =>
    rcases hL : stepLoop (some n) F 0 st with ⟨r, s1⟩
    by_cases hr : r = .ok .outOfTime
    · subst hr
      obtain ⟨j, hj1, hjF, _, hj⟩ := stepLoop_resume_aux n F 0 st s1 hL
      have he' := he
      rw [asyncEq_iff] at he'
      have key := hj (F - j) 0 st'.asyncActive
      have e : j + (F - j) = F := by omega
      rw [e, ← he', hb] at key
      by_cases hc : s1.canContinue = true
      · simp only [hc, ↓reduceIte] at key
        have h2 := stepLoop_none_fuel_mono (F - j) j 0 0 _ _ _ key.symm hfuel
        have e2 : F - j + j = F := by omega
        rw [e2] at h2
        obtain ⟨r, s, h3, h4, h5⟩ := ih s1 _ (asyncEq_setAsync s1 st'.asyncActive) h2
        refine ⟨r, s, ?_, h4, h5⟩
        rw [slicedLoop, hL]
        simp only [hc, ↓reduceIte]
        exact h3
      · have hc' : s1.canContinue = false := by simpa using hc
        simp only [hc', Bool.false_eq_true, ↓reduceIte, Prod.mk.injEq] at key
        refine ⟨.ok .outOfTime, s1, ?_, ?_, Or.inr ⟨rfl, key.1, hc'⟩⟩
        · rw [slicedLoop, hL]
          simp only [hc', Bool.false_eq_true, ↓reduceIte]
        · rw [key.2]; exact asyncEq_setAsync _ _
    · have h1 := stepLoop_budget_no_pause n F 0 st r s1 hL hr
      rw [asyncEq_iff] at he
      rw [he, stepLoop_none_setAsync F 0 0 st, h1] at hb
      simp only [Prod.mk.injEq] at hb
      refine ⟨r, s1, slicedLoop_cons_other F n ns st r s1 hL hr, ?_, Or.inl hb.1⟩
      rw [← hb.2]; exact asyncEq_setAsync _ _

/-! ### 2b. The `sawUnsafe` flag -/

/-- "The `sawUnsafe` flag is consumed by the step that raises it": a step
    that does not end the line leaves the flag as it found it. -/
def UnsafeConsumed : Prop :=
  ∀ (st s1 : Story), st.continueSingleStep = (.ok false, s1) → st.sawUnsafe = false → s1.sawUnsafe = false

theorem iter_more (st s1 : Story) (h : iter st = .more s1) :
    (decFuel st).continueSingleStep = (.ok false, s1) := by
  unfold iter at h
  split at h
  · cases h
  · rcases hc : (decFuel st).continueSingleStep with ⟨r, s⟩
    rw [hc] at h
    cases r with
    | panic p => cases h
    | err k m => cases h
    | ok b =>
      cases b with
      | true => cases h
      | false => cases h; rfl

/-- The step-level state a story hands to an action. -/
def stOf (st : Story) : St :=
  { s := st.state.core, externals := st.externals, events := st.events,
    sawUnsafe := st.sawUnsafe, newWarnings := [] }

theorem runM_fields {α : Type} (st : Story) (m : M α) :
    (st.runM m).1 = (m (stOf st)).1
    ∧ (st.runM m).2.sawUnsafe = (m (stOf st)).2.sawUnsafe
    ∧ (st.runM m).2.core = (m (stOf st)).2.s
    ∧ (st.runM m).2.snapshot = st.snapshot := ⟨rfl, rfl, rfl, rfl⟩

theorem cssEnd_sawUnsafe (st3 : Story) : (cssEnd st3).2.sawUnsafe = st3.sawUnsafe := by
  unfold cssEnd
  split
  · split
    · split <;> rfl
    · rfl
  · rfl

theorem restoreSnapshot_sawUnsafe (st : Story) : st.restoreSnapshot.sawUnsafe = st.sawUnsafe := by
  unfold Story.restoreSnapshot
  split <;> rfl

theorem cssTail_eq (st2 : Story) :
    cssTail st2 =
      if st2.core.inStringEvaluation then (.ok false, st2)
      else match st2.snapshot with
        | some snap =>
          if (calcNewlineChange (utf8 snap.currentText) (utf8 st2.state.currentText)
              snap.currentTags.length st2.state.currentTags.length == .extendedBeyondNewline
              || st2.sawUnsafe) then (.ok true, st2.restoreSnapshot)
          else if (calcNewlineChange (utf8 snap.currentText) (utf8 st2.state.currentText)
              snap.currentTags.length st2.state.currentTags.length == .newlineRemoved)
            then cssEnd st2.discardSnapshot
          else cssEnd st2
        | none => cssEnd st2 := by
  unfold cssTail
  by_cases h1 : st2.core.inStringEvaluation = true
  · simp only [h1, ↓reduceIte]
  · simp only [h1, Bool.false_eq_true, ↓reduceIte]
    cases hs : st2.snapshot with
    | none => rfl
    | some snap =>
      simp only
      by_cases h2 : (calcNewlineChange (utf8 snap.currentText) (utf8 st2.state.currentText)
          snap.currentTags.length st2.state.currentTags.length == .extendedBeyondNewline
          || st2.sawUnsafe) = true
      · simp only [h2, ↓reduceIte]
      · simp only [h2, Bool.false_eq_true, ↓reduceIte]
        by_cases h3 : (calcNewlineChange (utf8 snap.currentText) (utf8 st2.state.currentText)
          snap.currentTags.length st2.state.currentTags.length == .newlineRemoved) = true
        · simp only [h3, ↓reduceIte]; rfl
        · simp only [h3, Bool.false_eq_true, ↓reduceIte]; rfl

theorem cssTail_sawUnsafe (st2 : Story) : (cssTail st2).2.sawUnsafe = st2.sawUnsafe := by
  rw [cssTail_eq]
  split
  · rfl
  · split
    · split
      · exact restoreSnapshot_sawUnsafe st2
      · split
        · exact cssEnd_sawUnsafe _
        · exact cssEnd_sawUnsafe _
    · exact cssEnd_sawUnsafe _

theorem cssTail_raised (st2 : Story) (hu : st2.sawUnsafe = true) (hs : st2.snapshot.isSome = true)
    (hn : st2.core.inStringEvaluation = false) : (cssTail st2).1 = .ok true := by
  rw [cssTail_eq]
  simp only [hn, Bool.false_eq_true, ↓reduceIte, hu, Bool.or_true]
  cases h : st2.snapshot with
  | none => rw [h] at hs; cases hs
  | some snap => rfl

/-- **The `sawUnsafe` flag is consumed by the step that raises it.** -/
theorem unsafeConsumed : UnsafeConsumed := by
  intro st s1 h h0
  rw [css_eq] at h
  obtain ⟨r1, r2, r3, r4⟩ := runM_fields st (step st.env)
  have hw := (step_weak st.env).weak (stOf st)
  rcases hst : st.runM (step st.env) with ⟨r, st1⟩
  rw [hst] at h r2 r3 r4
  simp only at r2 r3 r4
  -- the state after the step proper
  have h1 : st1.sawUnsafe = false ∨ (st1.snapshot.isSome = true ∧ st1.core.inStringEvaluation = false) := by
    rcases hw with hw | ⟨hw1, hw2⟩
    · left; rw [r2, hw]; exact h0
    · right
      refine ⟨by rw [r4]; exact hw1, ?_⟩
      rw [r3]; exact hw2
  cases r with
  | err k m => cases h
  | panic p => cases h
  | ok u =>
    cases u
    simp only at h
    unfold cssMid at h
    simp only at h
    -- the default-choice attempt keeps all that
    have key : ∀ st2 : Story, (st2.sawUnsafe = false ∨ (st2.snapshot.isSome = true ∧ st2.core.inStringEvaluation = false)) →
        cssTail st2 = (.ok false, s1) → s1.sawUnsafe = false := by
      intro st2 h2 ht
      have e := cssTail_sawUnsafe st2
      rw [ht] at e
      simp only at e
      rcases h2 with h2 | ⟨h2, h3⟩
      · rw [e, h2]
      · cases hu : st2.sawUnsafe with
        | false => rw [e, hu]
        | true =>
          have := cssTail_raised st2 hu h2 h3
          rw [ht] at this
          cases this
    split at h
    · cases h
    · cases h
    · rename_i st2 heq
      apply key st2 ?_ h
      split at heq
      · obtain ⟨t1, t2, t3, t4⟩ := runM_fields st1 (tryFollowDefaultInvisibleChoice st1.env)
        rw [heq] at t2 t3 t4
        simp only at t2 t3 t4
        have f1 := frame_of (tryFollowDefaultInvisibleChoice st1.env) (stOf st1)
        rcases h1 with h1 | ⟨h1a, h1b⟩
        · left; rw [t2, f1]; exact h1
        · right
          refine ⟨by rw [t4]; exact h1a, ?_⟩
          rw [t3]
          exact NoStr.nostr (m := tryFollowDefaultInvisibleChoice st1.env) (stOf st1) h1b
      · simp only [Prod.mk.injEq, true_and] at heq
        rw [← heq]; exact h1

theorem stepLoop_pause_sawUnsafe (b : Option Nat) (F k : Nat) (st s : Story)
    (h : stepLoop b F k st = (.ok .outOfTime, s)) (h0 : st.sawUnsafe = false) : s.sawUnsafe = false := by
  induction F generalizing k st with
  | zero => rw [stepLoop_zero] at h; cases h
  | succ F ih =>
    rw [stepLoop_succ] at h
    cases hi : iter st with
    | done r s' =>
      rw [hi] at h
      simp only [Prod.mk.injEq] at h
      exact absurd h.1 (iter_done st r s' hi).1
    | more s1 =>
      rw [hi] at h
      have h1 : s1.sawUnsafe = false := unsafeConsumed _ _ (iter_more st s1 hi) h0
      simp only at h
      split at h
      · simp only [Prod.mk.injEq, true_and] at h
        rw [← h]; exact h1
      · split at h
        · cases h
        · exact ih _ _ h h1

/-! ### 3. Host calls -/

/-- What `continue_internal` does with the outcome of the loop (verbatim). -/
def finishCall : Out LoopEnd × Story → Out Unit × Story
  | (.panic p, st1) => (.panic p, st1)
  | (.err k m, st1) => (.err k m, st1)
  | (.ok .outOfFuel, st1) => (.err "ModelFuel" "model fuel exhausted", st1)
  | (.ok why, st1) =>
    let fin : Option (Story × List (String × Val)) :=
      if why == .newline || !st1.canContinue then st1.finishContinue else some (st1, [])
    match fin with
    | none => (.panic "variables_state.rs:complete_variable_observation", st1)
    | some (st5, changed) =>
      match ({ st5 with recCount := st5.recCount - 1 } : Story).deliver with
      | (.ok (), st7) => (.ok (), st7.notify changed)
      | other => other

theorem continueInternal_eq (st : Story) (b : Option Nat) (F : Nat) :
    st.continueInternal b F =
      if !st.asyncActive && !st.canContinue then (.invalid cannotContinueMsg, st)
      else finishCall (stepLoop (if (st.beginContinue b.isSome).asyncActive then b else none) F 0
        (st.beginContinue b.isSome)) := rfl


/-- The finishing path of a host call. -/
def finishTail (st1 : Story) : Out Unit × Story :=
  match st1.finishContinue with
  | none => (.panic "variables_state.rs:complete_variable_observation", st1)
  | some (st5, changed) =>
    match ({ st5 with recCount := st5.recCount - 1 } : Story).deliver with
    | (.ok (), st7) => (.ok (), st7.notify changed)
    | other => other

theorem finishCall_finishing (why : LoopEnd) (st1 : Story) (hw : why ≠ .outOfFuel)
    (hf : (why == .newline || !st1.canContinue) = true) :
    finishCall (.ok why, st1) = finishTail st1 := by
  cases why <;> first | exact absurd rfl hw | (simp only [finishCall, hf, ↓reduceIte]; rfl)

theorem endChecks_setAsync (s : Story) (f : Bool) :
    (setAsync s f).endChecks = setAsync s.endChecks f := by
  unfold Story.endChecks
  have e1 : (setAsync s f).core = s.core := rfl
  simp only [e1, addError_setAsync]
  split
  · have e2 : (setAsync (s.addError "Thread available to pop, threads should always be flat by the end of evaluation?" false) f).core
        = (s.addError "Thread available to pop, threads should always be flat by the end of evaluation?" false).core := rfl
    simp only [e2, addError_setAsync]
    repeat' split
    all_goals rfl
  · simp only [e1, addError_setAsync]
    repeat' split
    all_goals rfl

theorem prepareFinish_setAsync (s : Story) (f : Bool) :
    (setAsync s f).prepareFinish = setAsync s.prepareFinish f := by
  unfold Story.prepareFinish
  have e1 : (setAsync s f).snapshot = s.snapshot := rfl
  simp only [e1, restoreSnapshot_setAsync]
  split
  · have e2 : (setAsync s.restoreSnapshot f).canContinue = s.restoreSnapshot.canContinue := rfl
    simp only [e2, endChecks_setAsync]
    split <;> rfl
  · have e2 : (setAsync s f).canContinue = s.canContinue := rfl
    simp only [e2, endChecks_setAsync]
    split <;> rfl

theorem closeObservation_setAsync (s : Story) (f : Bool) :
    (setAsync s f).closeObservation = s.closeObservation := rfl

theorem finishContinue_setAsync (s : Story) (f : Bool) :
    (setAsync s f).finishContinue = s.finishContinue := by
  unfold Story.finishContinue
  rw [prepareFinish_setAsync, closeObservation_setAsync]

/-- Two outcomes of host calls agree: same result, same story up to the flag,
    and the same story altogether unless the call ended in a (Rust) panic. -/
def ResEq (x y : Out Unit × Story) : Prop :=
  x.1 = y.1 ∧ AsyncEq x.2 y.2 ∧ ((∀ p, y.1 ≠ .panic p) → x.2 = y.2)

theorem ResEq.refl (x : Out Unit × Story) : ResEq x x := ⟨rfl, AsyncEq.refl _, fun _ => rfl⟩

theorem ResEq.trans {x y z : Out Unit × Story} (h1 : ResEq x y) (h2 : ResEq y z) : ResEq x z :=
  ⟨h1.1.trans h2.1, h1.2.1.trans h2.2.1, fun hz => (h1.2.2 (by rw [h2.1]; exact hz)).trans (h2.2.2 hz)⟩

theorem finishTail_setAsync (s : Story) (f : Bool) : ResEq (finishTail (setAsync s f)) (finishTail s) := by
  unfold finishTail
  rw [finishContinue_setAsync]
  cases s.finishContinue with
  | none => exact ⟨rfl, (asyncEq_setAsync s f).symm, fun h => absurd rfl (h _)⟩
  | some x => exact ResEq.refl _


theorem beginContinue_true (st : Story) :
    st.beginContinue true = setAsync (st.beginContinue false) true := by
  obtain ⟨root, defs, state, snapshot, recCount, asyncActive, sawUnsafe, validated, allowFallbacks,
    handler, observers, externals, events, lines, fuel, stepClock⟩ := st
  cases asyncActive <;> rfl

theorem beginContinue_false_async (st : Story) : (st.beginContinue false).asyncActive = false := by
  unfold Story.beginContinue
  simp only
  split <;> simp

theorem beginContinue_recCount (st : Story) (b : Bool) : (st.beginContinue b).recCount = st.recCount + 1 := by
  unfold Story.beginContinue
  simp only
  split
  · simp [Story.setCore]
  · split <;> rfl

theorem beginContinue_sawUnsafe (st : Story) (b : Bool) : (st.beginContinue b).sawUnsafe = false := rfl

/-- The outcome of the stepping loop of the host call `continueInternal st b F`. -/
def loopExit (st : Story) (b : Option Nat) (F : Nat) : Out LoopEnd × Story :=
  stepLoop (if (st.beginContinue b.isSome).asyncActive then b else none) F 0 (st.beginContinue b.isSome)

theorem loopExit_none (st : Story) (F : Nat) :
    loopExit st none F = stepLoop none F 0 (st.beginContinue false) := by
  unfold loopExit
  simp

theorem loopExit_some (st : Story) (n F : Nat) :
    loopExit st (some n) F = stepLoop (some n) F 0 (setAsync (st.beginContinue false) true) := by
  unfold loopExit
  simp only [Option.isSome_some, beginContinue_true, setAsync_asyncActive, ↓reduceIte]

/-- The host call is refused ("can't continue"). -/
def Refused (st : Story) : Prop := (!st.asyncActive && !st.canContinue) = true

instance (st : Story) : Decidable (Refused st) := by unfold Refused; infer_instance

theorem continueInternal_refused (st : Story) (b : Option Nat) (F : Nat) (h : Refused st) :
    st.continueInternal b F = (.invalid cannotContinueMsg, st) := by
  rw [continueInternal_eq]
  unfold Refused at h
  simp only [h, ↓reduceIte]

theorem continueInternal_loopExit (st : Story) (b : Option Nat) (F : Nat) (h : ¬ Refused st) :
    st.continueInternal b F = finishCall (loopExit st b F) := by
  rw [continueInternal_eq]
  unfold Refused at h
  simp only [h, ↓reduceIte]
  rfl

/-- Nothing is delivered when the host call pauses in `s`: no warning is waiting
    for an error handler.  (No error can be pending: the story can continue.  The
    `sawUnsafe` flag, which the next call resets, is down: `stepLoop_pause_sawUnsafe`.) -/
def QuietAt (s : Story) : Prop :=
  s.handler = false ∨ s.state.hasWarning = false

theorem deliver_quiet (s : Story) (hc : s.canContinue = true)
    (hq : s.handler = false ∨ s.state.hasWarning = false) : s.deliver = (.ok (), s) := by
  have he : s.state.hasError = false := by
    cases h : s.state.hasError with
    | false => rfl
    | true => rw [C13.error_stops_story s h] at hc; cases hc
  rcases hq with hh | hw
  · exact C13.deliver_no_handler_warning_only s hh he
  · exact (C13.deliver_nothing_pending s (by simp [he, hw])).1

theorem notify_nil (s : Story) : s.notify [] = s := rfl

/-- A blocking loop ends the line, or the story cannot continue, or model fuel ran out. -/
theorem blocking_finishing (F k : Nat) (st : Story) (why : LoopEnd) (s : Story)
    (h : stepLoop none F k st = (.ok why, s)) (hw : why ≠ .outOfFuel) :
    (why == .newline || !s.canContinue) = true := by
  rcases stepLoop_blocking_end F k st why s h with h1 | h1 | h1
  · exact absurd h1 hw
  · simp [h1]
  · simp [h1]

/-- **A time-limited call that does not pause is the blocking call.** -/
theorem call_no_pause (st : Story) (n F : Nat) (r : Out LoopEnd) (s : Story)
    (hL : loopExit st (some n) F = (r, s))
    (hnp : ¬ (r = .ok .outOfTime ∧ s.canContinue = true))
    (hfuel : (loopExit st none F).1 ≠ .ok .outOfFuel) :
    ResEq (st.continueInternal (some n) F) (st.continueInternal none F) := by
  by_cases hrej : Refused st
  · rw [continueInternal_refused _ _ _ hrej, continueInternal_refused _ _ _ hrej]
    exact ResEq.refl _
  rw [continueInternal_loopExit _ _ _ hrej, continueInternal_loopExit _ _ _ hrej, hL]
  rw [loopExit_some] at hL
  rw [loopExit_none] at hfuel ⊢
  have hBa := beginContinue_false_async st
  generalize st.beginContinue false = B at hL hfuel hBa ⊢
  rcases hb : stepLoop none F 0 B with ⟨rb, sb⟩
  rw [hb] at hfuel
  simp only at hfuel
  by_cases hr : r = .ok .outOfTime
  · subst hr
    have hc : s.canContinue = false := by
      cases h : s.canContinue with
      | false => rfl
      | true => exact absurd ⟨rfl, h⟩ hnp
    obtain ⟨j, hj1, hjF, ha, hj⟩ := stepLoop_resume_aux n F 0 _ s hL
    have key := hj (F - j) 0 false
    have e : j + (F - j) = F := by omega
    have eB : setAsync (setAsync B true) false = B := by
      rw [setAsync_setAsync, ← hBa]; rfl
    rw [e, eB, hb, hc] at key
    simp only [Bool.false_eq_true, ↓reduceIte, Prod.mk.injEq] at key
    obtain ⟨k1, k2⟩ := key
    subst k1 k2
    have es : s = setAsync (setAsync s false) true := by
      rw [setAsync_setAsync, ← ha]; rfl
    rw [finishCall_finishing _ _ (by decide) (by simp [hc]),
        finishCall_finishing _ _ (by decide) (by
          have : (setAsync s false).canContinue = false := hc
          simp [this])]
    rw [es]
    exact finishTail_setAsync _ _
  · have h1 := stepLoop_budget_no_pause n F 0 _ r s hL hr
    rw [stepLoop_none_setAsync F 0 0 B true, hb] at h1
    simp only [Prod.mk.injEq] at h1
    obtain ⟨k1, k2⟩ := h1
    subst k1 k2
    cases rb with
    | panic p => exact ⟨rfl, (asyncEq_setAsync sb true).symm, fun h => absurd rfl (h _)⟩
    | err k m => exact absurd hb (C17.stepLoop_no_err none F 0 B k m sb)
    | ok why =>
      have hw : why ≠ .outOfFuel := fun h => hfuel (by rw [h])
      have hf := blocking_finishing F 0 B why sb hb hw
      rw [finishCall_finishing why sb hw hf, finishCall_finishing why (setAsync sb true) hw hf]
      exact finishTail_setAsync _ _

theorem resume_beginContinue (s : Story) (ha : s.asyncActive = true) (hr : 1 ≤ s.recCount)
    (hu : s.sawUnsafe = false) :
    ({ s with recCount := s.recCount - 1 } : Story).beginContinue false = setAsync s false := by
  cases s
  simp only at ha hr hu
  subst ha hu
  simp only [Story.beginContinue, setAsync, Bool.not_true, Bool.false_eq_true, ↓reduceIte, Bool.not_false,
    Story.mk.injEq, true_and, and_true]
  omega

/-- **A quiet pause followed by a blocking call is the blocking call.** -/
theorem call_pause (st : Story) (n F : Nat) (s : Story)
    (hrej : ¬ Refused st)
    (hL : loopExit st (some n) F = (.ok .outOfTime, s)) (hc : s.canContinue = true)
    (hq : QuietAt s)
    (hfuel : (loopExit st none F).1 ≠ .ok .outOfFuel) :
    st.continueInternal (some n) F = (.ok (), { s with recCount := s.recCount - 1 })
    ∧ s.asyncActive = true
    ∧ ({ s with recCount := s.recCount - 1 } : Story).continueInternal none F = st.continueInternal none F
    ∧ loopExit { s with recCount := s.recCount - 1 } none F = loopExit st none F := by
  have hL0 := hL
  rw [loopExit_some] at hL
  obtain ⟨j, hj1, hjF, ha, hj⟩ := stepLoop_resume_aux n F 0 _ s hL
  have hsame := stepLoop_same _ _ _ _ _ _ hL
  have hrec : 1 ≤ s.recCount := by
    rw [hsame.recCount]
    show 1 ≤ (st.beginContinue false).recCount
    rw [beginContinue_recCount]; omega
  have hBa := beginContinue_false_async st
  have key := hj (F - j) 0 false
  have e : j + (F - j) = F := by omega
  have eB : setAsync (setAsync (st.beginContinue false) true) false = st.beginContinue false := by
    have := setAsync_self (st.beginContinue false)
    rw [hBa] at this
    exact this
  rw [e, eB, hc] at key
  simp only [↓reduceIte] at key
  rw [loopExit_none] at hfuel
  have h2 := stepLoop_none_fuel_mono (F - j) j 0 0 (setAsync s false)
    (stepLoop none F 0 (st.beginContinue false)).1 (stepLoop none F 0 (st.beginContinue false)).2
    key.symm hfuel
  have e2 : F - j + j = F := by omega
  rw [e2] at h2
  have hloop : loopExit { s with recCount := s.recCount - 1 } none F = loopExit st none F := by
    rw [loopExit_none, loopExit_none, resume_beginContinue s ha hrec (stepLoop_pause_sawUnsafe _ _ _ _ _ hL rfl)]
    exact h2
  have hnr : ¬ Refused { s with recCount := s.recCount - 1 } := by
    unfold Refused
    simp [ha]
  refine ⟨?_, ha, ?_, hloop⟩
  · rw [continueInternal_loopExit _ _ _ hrej, hL0]
    simp only [finishCall, hc, Bool.not_true, Bool.or_false]
    have : (LoopEnd.outOfTime == LoopEnd.newline) = false := by decide
    simp only [this, Bool.false_eq_true, ↓reduceIte]
    rw [deliver_quiet ({ s with recCount := s.recCount - 1 }) hc hq]
    rfl
  · rw [continueInternal_loopExit _ _ _ hnr, continueInternal_loopExit _ _ _ hrej, hloop]


/-- The host finishes a line with time-limited continues with budgets `ns`
    (stopping as soon as one of them finishes the line or fails) and then, if
    the line is still unfinished, one blocking continue.  Every call gets the
    model fuel `F`; the event log is not cleared between the calls, so the final
    `events` is the concatenation of the events of all the calls. -/
def slicedRun (F : Nat) : List Nat → Story → Out Unit × Story
  | [], st => st.continueInternal none F
  | n :: ns, st =>
    match st.continueInternal (some n) F with
    | (.ok (), st1) => if st1.asyncActive then slicedRun F ns st1 else (.ok (), st1)
    | other => other

/-- Every pause of the sliced run is quiet. -/
def QuietPauses (F : Nat) : List Nat → Story → Prop
  | [], _ => True
  | n :: ns, st =>
    ¬ Refused st → (loopExit st (some n) F).1 = .ok .outOfTime →
      (loopExit st (some n) F).2.canContinue = true →
      QuietAt (loopExit st (some n) F).2 ∧ QuietPauses F ns (st.continueInternal (some n) F).2

def modelFuelErr : Out Unit := .err "ModelFuel" "model fuel exhausted"

theorem loopExit_fuel (st : Story) (F : Nat) (hrej : ¬ Refused st)
    (h : (st.continueInternal none F).1 ≠ modelFuelErr) :
    (loopExit st none F).1 ≠ .ok .outOfFuel := by
  intro hc
  apply h
  rw [continueInternal_loopExit _ _ _ hrej]
  rcases hl : loopExit st none F with ⟨r, s⟩
  rw [hl] at hc
  simp only at hc
  subst hc
  rfl

theorem finishTail_ok_async (s x : Story) (h : finishTail s = (.ok (), x)) : x.asyncActive = false := by
  unfold finishTail at h
  split at h
  · cases h
  · rename_i st5 changed hfin
    obtain ⟨_, _, f3, _, _⟩ := finishContinue_fields s st5 changed hfin
    rcases hd : ({ st5 with recCount := st5.recCount - 1 } : Story).deliver with ⟨r7, st7⟩
    obtain ⟨_, _, d3, _⟩ := C17.deliver_fields _ _ _ hd
    rw [hd] at h
    cases r7 with
    | ok u =>
      cases u
      simp only [Prod.mk.injEq, true_and] at h
      rw [← h]
      show st7.asyncActive = false
      rw [d3]; exact f3
    | err k m => cases h
    | panic p => cases h

theorem blocking_ok_not_async (st : Story) (F : Nat) (st' : Story)
    (h : st.continueInternal none F = (.ok (), st')) : st'.asyncActive = false := by
  by_cases hrej : Refused st
  · rw [continueInternal_refused _ _ _ hrej] at h; cases h
  · rw [continueInternal_loopExit _ _ _ hrej, loopExit_none] at h
    rcases hb : stepLoop none F 0 (st.beginContinue false) with ⟨rb, sb⟩
    rw [hb] at h
    cases rb with
    | panic p => cases h
    | err k m => cases h
    | ok why =>
      by_cases hw : why = .outOfFuel
      · subst hw; cases h
      · rw [finishCall_finishing why sb hw (blocking_finishing F 0 _ why sb hb hw)] at h
        exact finishTail_ok_async sb st' h

theorem slicedRun_resEq (F : Nat) (ns : List Nat) (st : Story)
    (hfuel : (st.continueInternal none F).1 ≠ modelFuelErr)
    (hq : QuietPauses F ns st) :
    ResEq (slicedRun F ns st) (st.continueInternal none F) := by
  induction ns generalizing st with
  | nil => exact ResEq.refl _
  | cons n ns ih =>
    by_cases hrej : Refused st
    · rw [slicedRun, continueInternal_refused _ _ _ hrej, continueInternal_refused _ _ _ hrej]
      exact ResEq.refl _
    have hlf := loopExit_fuel st F hrej hfuel
    rcases hL : loopExit st (some n) F with ⟨r, s⟩
    by_cases hp : r = .ok .outOfTime ∧ s.canContinue = true
    · obtain ⟨hr, hc⟩ := hp
      subst hr
      have hq' := hq hrej (by rw [hL]) (by rw [hL]; exact hc)
      rw [hL] at hq'
      obtain ⟨c1, c2, c3, c4⟩ := call_pause st n F s hrej hL hc hq'.1 hlf
      rw [c1] at hq'
      rw [slicedRun, c1]
      have c2' : ({ s with recCount := s.recCount - 1 } : Story).asyncActive = true := c2
      simp only
      rw [if_pos c2', ← c3]
      exact ih _ (by rw [c3]; exact hfuel) hq'.2
    · have h1 := call_no_pause st n F r s hL hp hlf
      rw [slicedRun]
      rcases hS : st.continueInternal (some n) F with ⟨r1, s1⟩
      rcases hB : st.continueInternal none F with ⟨rB, sB⟩
      rw [hS, hB] at h1
      obtain ⟨e1, e2, e3⟩ := h1
      simp only at e1 e2 e3
      cases r1 with
      | ok u =>
        cases u
        have hs1 : s1 = sB := e3 (by rw [← e1]; intro p hp; cases hp)
        have hnot : s1.asyncActive = false := by
          rw [hs1]; exact blocking_ok_not_async st F sB (by rw [hB, ← e1])
        simp only [hnot, Bool.false_eq_true, ↓reduceIte]
        exact ⟨e1, e2, e3⟩
      | err k m => exact ⟨e1, e2, e3⟩
      | panic p => exact ⟨e1, e2, e3⟩


/-- **sliced_eq_blocking.**  `st`: any story (in particular one that is not in an
    asynchronous continue and can continue).  `stS`: after the time-limited
    continues with budgets `ns` — as many of them as it takes to finish the line —
    and, if the line is still unfinished, one blocking continue.  `stB`: after a
    single blocking continue.  If the blocking continue does not exhaust the model
    fuel and every pause is quiet, the two host-visible outcomes are the same and
    the two stories are equal in every field (up to the `asyncActive` flag if the
    outcome is a Rust panic). -/
theorem sliced_eq_blocking (F : Nat) (ns : List Nat) (st stS stB : Story) (rS rB : Out Unit)
    (hS : slicedRun F ns st = (rS, stS)) (hB : st.continueInternal none F = (rB, stB))
    (hfuel : rB ≠ modelFuelErr) (hq : QuietPauses F ns st) :
    rS = rB ∧ AsyncEq stS stB ∧ ((∀ p, rB ≠ .panic p) → stS = stB) := by
  have h := slicedRun_resEq F ns st (by rw [hB]; exact hfuel) hq
  rw [hS, hB] at h
  exact h

/-- The same, spelled out for a blocking continue that returns: everything the
    property lists is the same. -/
theorem sliced_eq_blocking_ok (F : Nat) (ns : List Nat) (st stS stB : Story) (rS : Out Unit)
    (hS : slicedRun F ns st = (rS, stS)) (hB : st.continueInternal none F = (.ok (), stB))
    (hq : QuietPauses F ns st) :
    rS = .ok () ∧ stS = stB
    ∧ stS.state = stB.state                                  -- output stream (text, tags), choices,
    ∧ stS.state.currentText = stB.state.currentText          --   variables, visit counts, call stack …
    ∧ stS.state.currentTags = stB.state.currentTags
    ∧ stS.core.flow.choices = stB.core.flow.choices
    ∧ stS.core.vars = stB.core.vars
    ∧ stS.core.visitCounts = stB.core.visitCounts
    ∧ stS.snapshot = stB.snapshot ∧ stS.recCount = stB.recCount
    ∧ stS.asyncActive = false ∧ stB.asyncActive = false
    ∧ stS.sawUnsafe = stB.sawUnsafe
    ∧ stS.externals = stB.externals                          -- call counters of the bound functions
    ∧ stS.events = stB.events := by                          -- observer notifications, external calls
  obtain ⟨h1, _, h3⟩ := sliced_eq_blocking F ns st stS stB rS (.ok ()) hS hB
    (by intro h; cases h) hq
  have e : stS = stB := h3 (by intro p hp; cases hp)
  have ha := blocking_ok_not_async st F stB hB
  subst e
  exact ⟨h1, rfl, rfl, rfl, rfl, rfl, rfl, rfl, rfl, rfl, ha, ha, rfl, rfl, rfl⟩

/-- The API entry points `continue_async(limit)` / `cont()` are `continueInternal` with the
    model fuel `callFuel` once the external bindings have been validated. -/
theorem continueAsync_validated (st : Story) (b : Option Nat) (h : st.validated = true) :
    st.continueAsync b = st.continueInternal b callFuel := by
  unfold Story.continueAsync
  simp [h]

/-! ### 4. When are the pauses quiet? -/

/-- The result of a pausing call, whatever the fuel. -/
theorem call_pause_result (st : Story) (n F : Nat) (s : Story)
    (hrej : ¬ Refused st)
    (hL : loopExit st (some n) F = (.ok .outOfTime, s)) (hc : s.canContinue = true)
    (hq : s.handler = false ∨ s.state.hasWarning = false) :
    st.continueInternal (some n) F = (.ok (), { s with recCount := s.recCount - 1 }) := by
  rw [continueInternal_loopExit _ _ _ hrej, hL]
  simp only [finishCall, hc, Bool.not_true, Bool.or_false]
  have : (LoopEnd.outOfTime == LoopEnd.newline) = false := by decide
  simp only [this, Bool.false_eq_true, ↓reduceIte]
  rw [deliver_quiet ({ s with recCount := s.recCount - 1 }) hc hq]
  rfl

/-- Without an error handler every pause is quiet. -/
theorem quietPauses_of_noHandler (F : Nat) (ns : List Nat) (st : Story)
    (hh : st.handler = false) : QuietPauses F ns st := by
  induction ns generalizing st with
  | nil => trivial
  | cons n ns ih =>
    intro hrej hr hc
    rcases hL : loopExit st (some n) F with ⟨r, s⟩
    rw [hL] at hr hc
    simp only at hr hc ⊢
    subst hr
    have hL' := hL
    rw [loopExit_some] at hL'
    have hsame := stepLoop_same _ _ _ _ _ _ hL'
    have hsh : s.handler = false := by
      rw [hsame.handler]
      show (st.beginContinue false).handler = false
      rw [beginContinue_handler]; exact hh
    refine ⟨Or.inl hsh, ?_⟩
    rw [call_pause_result st n F s hrej hL hc (Or.inl hsh)]
    exact ih _ hsh

/-- Sliced = blocking for a host without an error handler. -/
theorem sliced_eq_blocking_noHandler (F : Nat) (ns : List Nat)
    (st stS stB : Story) (rS rB : Out Unit) (hh : st.handler = false)
    (hS : slicedRun F ns st = (rS, stS)) (hB : st.continueInternal none F = (rB, stB))
    (hfuel : rB ≠ modelFuelErr) :
    rS = rB ∧ AsyncEq stS stB ∧ ((∀ p, rB ≠ .panic p) → stS = stB) :=
  sliced_eq_blocking F ns st stS stB rS rB hS hB hfuel (quietPauses_of_noHandler F ns st hh)

/-- What happens at a pause that is NOT quiet because a handler is installed and
    warnings are pending: the warnings are handed to the handler at the pause
    (the blocking continue hands them over at the end of the line, after the
    external-function calls of the rest of the line) and are forgotten, also in
    the look-ahead snapshot; everything else is as at a quiet pause. -/
theorem pause_delivers_warnings (st : Story) (n F : Nat) (s : Story)
    (hrej : ¬ Refused st)
    (hL : loopExit st (some n) F = (.ok .outOfTime, s)) (hc : s.canContinue = true)
    (hh : s.handler = true) (hw : s.state.hasWarning = true) :
    ∃ p, st.continueInternal (some n) F = (.ok (), p)
      ∧ p.events = (C13.handlerEvents [] s.state.warnings).reverse ++ s.events
      ∧ p.state.warnings = [] ∧ p.core = s.core
      ∧ p.asyncActive = s.asyncActive ∧ p.sawUnsafe = s.sawUnsafe ∧ p.externals = s.externals
      ∧ p.recCount = s.recCount - 1 := by
  rw [continueInternal_loopExit _ _ _ hrej, hL]
  simp only [finishCall, hc, Bool.not_true, Bool.or_false]
  have : (LoopEnd.outOfTime == LoopEnd.newline) = false := by decide
  simp only [this, Bool.false_eq_true, ↓reduceIte]
  have he : s.state.hasError = false := by
    cases h : s.state.hasError with
    | false => rfl
    | true => rw [C13.error_stops_story s h] at hc; cases hc
  have hen : s.core.errors = [] := C13.errors_nil_of_not_hasError he
  unfold Story.deliver
  have h1 : (({ s with recCount := s.recCount - 1 } : Story).state.hasError
      || ({ s with recCount := s.recCount - 1 } : Story).state.hasWarning) = true := by
    show (s.state.hasError || s.state.hasWarning) = true
    simp [hw]
  have h2 : ({ s with recCount := s.recCount - 1 } : Story).handler = true := hh
  simp only [h1, h2, hh, ↓reduceIte]
  refine ⟨_, rfl, ?_, rfl, ?_, rfl, rfl, rfl, rfl⟩
  · show (List.map _ s.core.errors ++ _).reverse ++ s.events = _
    rw [hen]; rfl
  · show ({ s.core with errors := [] } : Core) = s.core
    rw [← hen]

/-! ### 5. Non-vacuity -/

/-- "a", "b", done: three steps, no newline. -/
def exRoot2 : Obj := .container none 0 [.val (.str "a"), .val (.str "b"), .cmd .done] []

def exStory2 : Story :=
  { root := exRoot2, defs := [], state := StoryState.fresh 0, snapshot := none,
    recCount := 0, asyncActive := false, sawUnsafe := false, validated := true,
    allowFallbacks := false, handler := false, observers := [], externals := [], events := [],
    lines := 0, fuel := none, stepClock := false }

example : exStory2.canContinue = true ∧ exStory2.asyncActive = false := ⟨rfl, rfl⟩
-- a budget of one step pauses after "a" …
example : ∃ s, stepLoop (some 1) 10 0 (exStory2.beginContinue true) = (.ok .outOfTime, s)
    ∧ s.canContinue = true := ⟨_, rfl, rfl⟩
example : ∃ s, loopExit exStory2 (some 1) 10 = (.ok .outOfTime, s) ∧ s.canContinue = true := ⟨_, rfl, rfl⟩
-- … the pause is quiet …
theorem exStory2_quiet : QuietPauses 10 [1] exStory2 :=
  fun _ _ _ => ⟨Or.inl rfl, trivial⟩
-- … the blocking continue returns …
def isOk : Out Unit → Bool
  | .ok () => true
  | _ => false
theorem exStory2_blocking : isOk (exStory2.continueInternal none 10).1 = true := by decide +kernel


theorem exStory2_fuel : (exStory2.continueInternal none 10).1 ≠ modelFuelErr := by
  intro h
  have := exStory2_blocking
  rw [h] at this
  cases this

theorem exStory2_no_panic : ∀ p, (exStory2.continueInternal none 10).1 ≠ .panic p := by
  intro p h
  have := exStory2_blocking
  rw [h] at this
  cases this

-- … so the theorem applies: one pause and a blocking continue give the story of the blocking continue
example : slicedRun 10 [1] exStory2 = exStory2.continueInternal none 10 := by
  obtain ⟨h1, _, h3⟩ := slicedRun_resEq 10 [1] exStory2 exStory2_fuel exStory2_quiet
  exact Prod.ext h1 (h3 exStory2_no_panic)


/-- A story with a complete line: "a", "b", newline, done. -/
def exRoot3 : Obj :=
  .container none 0 [.val (.str "a"), .val (.str "b"), .val (.str "\n"), .cmd .done] []
def exStory3 : Story := { exStory2 with root := exRoot3 }

-- a budget of two steps pauses in the middle of the line, quietly
theorem exStory3_pause :
    (match loopExit exStory3 (some 2) 10 with
     | (.ok .outOfTime, s) => s.canContinue && !s.sawUnsafe && !s.handler
     | _ => false) = true := by decide +kernel
theorem exStory3_quiet : QuietPauses 10 [2] exStory3 := by
  intro _ h1 _
  have h := exStory3_pause
  rcases hL : loopExit exStory3 (some 2) 10 with ⟨r, s⟩
  rw [hL] at h h1
  simp only at h1
  subst h1
  simp only [Bool.and_eq_true, Bool.not_eq_true'] at h
  exact ⟨Or.inl h.2, trivial⟩
-- the blocking continue returns the line
theorem exStory3_blocking' :
    (isOk (exStory3.continueInternal none 10).1
      && (exStory3.continueInternal none 10).2.state.currentText == "ab\n") = true := by decide +kernel
theorem exStory3_blocking : isOk (exStory3.continueInternal none 10).1 = true := by
  have h := exStory3_blocking'
  simp only [Bool.and_eq_true] at h
  exact h.1
-- and so does the sliced run
example : slicedRun 10 [2] exStory3 = exStory3.continueInternal none 10 := by
  have hf : (exStory3.continueInternal none 10).1 ≠ modelFuelErr := by
    intro h; have := exStory3_blocking; rw [h] at this; cases this
  have hp : ∀ p, (exStory3.continueInternal none 10).1 ≠ .panic p := by
    intro p h; have := exStory3_blocking; rw [h] at this; cases this
  obtain ⟨h1, _, h3⟩ := slicedRun_resEq 10 [2] exStory3 hf exStory3_quiet
  exact Prod.ext h1 (h3 hp)

end C08
end Ink
