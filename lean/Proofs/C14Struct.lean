/-
  Proofs/C14Struct.lean — C14 above the string level: the rest of the streaming tokenizer
  (Ink/StreamLoad.lean, model of json_tokenizer.rs + json_read_stream.rs) against the reference
  JSON parser (Ink/Json.lean, the specification of serde_json used by the model of the default
  loader, Ink/Load.lean).  Core Lean only.
-/
import Ink.StreamLoad

namespace Ink.StreamLoad

/-! ### (b) whitespace skipping -/

theorem isJsonWhitespace_eq (c : Char) : isJsonWhitespace c = Json.isWs c := by
  simp only [isJsonWhitespace, Json.isWs]
  by_cases h1 : c = ' ' <;> by_cases h2 : c = '\n' <;> by_cases h3 : c = '\t' <;>
    by_cases h4 : c = '\r' <;> simp [h1, h2, h3, h4]

/-- (b) The skipping `read_no_lookahead` loop is the reference `skipWs` followed by one read. -/
theorem readSkip_eq_skipWs (inp : List Char) :
    readSkip inp = (match Json.skipWs inp with | [] => none | c :: r => some (c, r)) := by
  induction inp with
  | nil => rfl
  | cons c r ih =>
    simp only [readSkip, Json.skipWs, isJsonWhitespace_eq]
    by_cases h : Json.isWs c = true
    · simp only [h, if_true]; exact ih
    · simp only [h]; rfl

/-- `peek` leaves exactly the reference's `skipWs` of the input. -/
theorem peek_eq (t : Tok) :
    peek t = (match Json.skipWs t.inp with
      | [] => .badJson eofMsg
      | c :: r => .ok (c, { t with inp := c :: r })) := by
  unfold peek; rw [readSkip_eq_skipWs]
  cases Json.skipWs t.inp <;> rfl

/-! ### (a) numbers: grammar -/

theorem takeDigits_eq (s : List Char) :
    Json.takeDigits s = (s.takeWhile isAsciiDigit, s.dropWhile isAsciiDigit) := by
  induction s with
  | nil => rfl
  | cons c cs ih =>
    simp only [Json.takeDigits, List.takeWhile, List.dropWhile]
    by_cases h : Json.isDigit c = true
    · have h' : isAsciiDigit c = true := h
      simp only [h, h', if_true, ih]
    · have h' : isAsciiDigit c = false := by simpa [isAsciiDigit, Json.isDigit] using h
      simp [h, h']

theorem drop_digits (s : List Char) : s.drop (digits s) = s.dropWhile isAsciiDigit := by
  induction s with
  | nil => rfl
  | cons c cs ih =>
    simp only [digits, List.takeWhile, List.dropWhile]
    cases h : isAsciiDigit c
    · simp
    · simp only [List.length_cons, List.drop_succ_cons]; exact ih

theorem digits_zero_iff (s : List Char) : digits s = 0 ↔ s.takeWhile isAsciiDigit = [] := by
  simp [digits]

/-! The reference `Json.parseNumber`, cut into its phases (definitionally the same function). -/

def negOf (inp : List Char) : Bool × List Char :=
  match inp with
  | '-' :: r => (true, r)
  | r => (false, r)

def fracOf (r1 : List Char) : List Char × List Char :=
  match r1 with
  | '.' :: r => let (f, r') := Json.takeDigits r; ('.' :: f, r')
  | r => ([], r)

def sgnOf (r : List Char) : List Char × List Char :=
  match r with
  | '+' :: r' => (['+'], r')
  | '-' :: r' => (['-'], r')
  | r' => ([], r')

def exOf (r2 : List Char) : List Char × List Char :=
  match r2 with
  | e :: r =>
    if e = 'e' ∨ e = 'E' then
      let (sgn, r') : (List Char × List Char) := sgnOf r
      let (d, r'') := Json.takeDigits r'
      if d.isEmpty then ([e], e :: r) else (e :: sgn ++ d, r'')
    else ([], r2)
  | [] => ([], [])

theorem sgnOf_snd (r : List Char) : (sgnOf r).2 = stripSign r := by
  unfold sgnOf stripSign
  split
  · rfl
  · rfl
  · rename_i x1 x2
    split
    · exact absurd rfl (x1 _)
    · exact absurd rfl (x2 _)
    · rfl

def numOf (inp : List Char) : Option (Json × List Char) :=
  let p := negOf inp
  let d := Json.takeDigits p.2
  if d.1.isEmpty then none
  else if d.1.length > 1 ∧ d.1.head? = some '0' then none
  else
    let fr := fracOf d.2
    if fr.1.length = 1 then none else
    let ex := exOf fr.2
    if ex.1.length = 1 then none else
    if fr.1.isEmpty ∧ ex.1.isEmpty then
      let n : Int := Json.digitsToNat d.1
      some (Json.num (if p.1 then -n else n), ex.2)
    else
      some (Json.flt (String.ofList ((if p.1 then ['-'] else []) ++ d.1 ++ fr.1 ++ ex.1)), ex.2)

theorem parseNumber_eq_numOf (inp : List Char) : Json.parseNumber inp = numOf inp := rfl

/-- Fraction phase: the tokenizer's `fracPart` is the reference's, `none` = rejection. -/
theorem frac_agree (r1 : List Char) :
    fracPart r1 = (if (fracOf r1).1.length = 1 then none else some (fracOf r1).2) := by
  unfold fracPart fracOf
  split
  · rename_i rest
    simp only [takeDigits_eq, List.length_cons]
    split
    · rename_i h
      rw [digits_zero_iff] at h; simp [h]
    · rename_i n h
      have h' : ¬ (List.takeWhile isAsciiDigit rest = []) := fun h0 => h ((digits_zero_iff rest).2 h0)
      have : (List.takeWhile isAsciiDigit rest).length ≠ 0 := by
        intro h0; exact h' (List.length_eq_zero_iff.mp h0)
      rw [drop_digits]; simp [this]
  · rename_i x
    split
    · exact absurd rfl (x _)
    · simp

/-- Exponent phase. -/
theorem exp_agree (r2 : List Char) :
    expPart r2 = (if (exOf r2).1.length = 1 then none else some (exOf r2).2) := by
  cases r2 with
  | nil => simp [expPart, exOf]
  | cons e r =>
    unfold expPart exOf
    by_cases he : e = 'e' ∨ e = 'E'
    · simp only [he, if_true, takeDigits_eq]
      have key : ∀ (sgn rest : List Char),
          (match digits rest with
            | 0 => none
            | n => some (rest.drop n)) =
          (if (if (List.takeWhile isAsciiDigit rest).isEmpty = true then ([e], e :: r)
               else (e :: sgn ++ List.takeWhile isAsciiDigit rest, List.dropWhile isAsciiDigit rest)).1.length = 1
           then none
           else some (if (List.takeWhile isAsciiDigit rest).isEmpty = true then ([e], e :: r)
               else (e :: sgn ++ List.takeWhile isAsciiDigit rest, List.dropWhile isAsciiDigit rest)).2) := by
        intro sgn rest
        split
        · rename_i h
          rw [digits_zero_iff] at h; simp [h]
        · rename_i n h
          have h' : ¬ (List.takeWhile isAsciiDigit rest = []) := fun h0 => h ((digits_zero_iff rest).2 h0)
          have hl : (List.takeWhile isAsciiDigit rest).length ≠ 0 := by
            intro h0; exact h' (List.length_eq_zero_iff.mp h0)
          rw [drop_digits]
          simp only [List.isEmpty_iff, h', if_false, List.length_cons, List.length_append]
          have : ¬ (sgn.length + 1 + (List.takeWhile isAsciiDigit rest).length = 1) := by omega
          simp [this]
      rw [← sgnOf_snd]; exact key _ _
    · simp [he]

theorem negOf_snd (s : List Char) : (negOf s).2 = stripMinus s := by
  unfold negOf stripMinus
  split
  · rfl
  · rename_i x; split
    · exact absurd rfl (x _)
    · rfl

theorem digit_not_special {c : Char} (h : isAsciiDigit c = true) :
    c ≠ '.' ∧ c ≠ 'e' ∧ c ≠ 'E' := by
  refine ⟨?_, ?_, ?_⟩ <;> (intro hc; subst hc; revert h; decide)

theorem digit_passthrough {c : Char} (rest : List Char) (h : isAsciiDigit c = true) :
    fracPart (c :: rest) = some (c :: rest) ∧ expPart (c :: rest) = some (c :: rest) := by
  obtain ⟨h1, h2, h3⟩ := digit_not_special h
  constructor
  · unfold fracPart; split
    · rename_i heq; injection heq with a b; exact absurd a h1
    · rfl
  · unfold expPart
    have : ¬ (c = 'e' ∨ c = 'E') := by intro h'; cases h' <;> contradiction
    simp [this]

/-- Integer phase: three cases. -/
theorem int_cases (s0 : List Char) :
    (s0.takeWhile isAsciiDigit = [] ∧ intPart s0 = none) ∨
    (s0.takeWhile isAsciiDigit ≠ [] ∧
      ¬ ((s0.takeWhile isAsciiDigit).length > 1 ∧ (s0.takeWhile isAsciiDigit).head? = some '0') ∧
      intPart s0 = some (s0.dropWhile isAsciiDigit)) ∨
    (((s0.takeWhile isAsciiDigit).length > 1 ∧ (s0.takeWhile isAsciiDigit).head? = some '0') ∧
      ∃ c rest, isAsciiDigit c = true ∧ intPart s0 = some (c :: rest)) := by
  cases s0 with
  | nil => left; exact ⟨rfl, rfl⟩
  | cons c cs =>
    by_cases hc : isAsciiDigit c = true
    · right
      have hd : digits (c :: cs) = (cs.takeWhile isAsciiDigit).length + 1 := by
        simp [digits, List.takeWhile, hc]
      have htw : (c :: cs).takeWhile isAsciiDigit = c :: cs.takeWhile isAsciiDigit := by
        simp [List.takeWhile, hc]
      have hdw : (c :: cs).dropWhile isAsciiDigit = cs.dropWhile isAsciiDigit := by
        simp [List.dropWhile, hc]
      by_cases h0 : c = '0'
      · subst h0
        have hi : intPart ('0' :: cs) = some cs := by
          unfold intPart; rw [hd]; rfl
        cases cs with
        | nil => left; refine ⟨by simp [htw], ?_, ?_⟩
                 · simp [List.takeWhile, hc]
                 · rw [hi]; simp [List.dropWhile, hc]
        | cons c' cs' =>
          by_cases hc' : isAsciiDigit c' = true
          · right
            refine ⟨⟨?_, ?_⟩, c', cs', hc', hi⟩
            · simp [List.takeWhile, hc, hc']
            · simp [List.takeWhile, hc]
          · left
            have hc'' : isAsciiDigit c' = false := by simpa using hc'
            refine ⟨by simp [htw], ?_, ?_⟩
            · simp [List.takeWhile, hc, hc'']
            · rw [hi]; simp [List.dropWhile, hc, hc'']
      · left
        refine ⟨by simp [htw], ?_, ?_⟩
        · rw [htw]; simp; intro _ h; exact h0 h
        · have : intPart (c :: cs) = some ((c :: cs).drop (digits (c :: cs))) := by
            unfold intPart; rw [hd]
            simp only [List.head?_cons]
            split
            · rename_i h; simp at h
            · rename_i h _; simp at h; exact absurd h h0
            · rfl
          rw [this, drop_digits]
    · left
      have hc' : isAsciiDigit c = false := by simpa using hc
      have hd : digits (c :: cs) = 0 := by simp [digits, List.takeWhile, hc']
      refine ⟨by simp [List.takeWhile, hc'], ?_⟩
      unfold intPart; rw [hd]; rfl

/-- (a), grammar: the tokenizer's `is_json_number` accepts exactly the texts that the reference
    number parser consumes entirely. -/
theorem isJsonNumber_eq (s : List Char) :
    isJsonNumber s = (match Json.parseNumber s with
      | some (_, []) => true
      | _ => false) := by
  rw [parseNumber_eq_numOf]
  unfold isJsonNumber numOf
  simp only [takeDigits_eq, ← negOf_snd]
  generalize (negOf s).2 = s0
  rcases int_cases s0 with ⟨hd, hi⟩ | ⟨hd, hz, hi⟩ | ⟨hz, c, rest, hc, hi⟩
  · simp [hd, hi]
  · rw [hi]
    simp only [List.isEmpty_iff, hd, if_false, hz]
    rw [frac_agree]
    by_cases hf : (fracOf (List.dropWhile isAsciiDigit s0)).1.length = 1
    · simp [hf]
    · simp only [hf, if_false]
      rw [exp_agree]
      by_cases he : (exOf (fracOf (List.dropWhile isAsciiDigit s0)).2).1.length = 1
      · simp [he]
      · simp only [he, if_false]
        by_cases hfe : (fracOf (List.dropWhile isAsciiDigit s0)).1 = [] ∧
            (exOf (fracOf (List.dropWhile isAsciiDigit s0)).2).1 = []
        · simp only [hfe, and_self, if_true]
          cases (exOf (fracOf (List.dropWhile isAsciiDigit s0)).2).2 <;> rfl
        · simp only [hfe, if_false]
          cases (exOf (fracOf (List.dropWhile isAsciiDigit s0)).2).2 <;> rfl
  · rw [hi]
    have hne : ¬ (List.takeWhile isAsciiDigit s0 = []) := by
      intro h; rw [h] at hz; simp at hz
    simp only [List.isEmpty_iff, hne, if_false, hz]
    obtain ⟨h1, h2⟩ := digit_passthrough rest hc
    simp [h1, h2]


/-- The same, as an equivalence. -/
theorem isJsonNumber_iff (s : List Char) :
    isJsonNumber s = true ↔ ∃ j, Json.parseNumber s = some (j, []) := by
  rw [isJsonNumber_eq]
  constructor
  · intro h
    split at h
    · rename_i j heq; exact ⟨j, heq⟩
    · cases h
  · rintro ⟨j, hj⟩; rw [hj]

/-! Non-vacuity: texts on both sides of the grammar (accepted, rejected by each rule). -/
example : isJsonNumber "-12.50e+3".toList = true := by decide
example : ∃ j, Json.parseNumber "-12.50e+3".toList = some (j, []) := (isJsonNumber_iff _).1 (by decide)
example : isJsonNumber "0".toList = true ∧ isJsonNumber "-0".toList = true := by decide
example : isJsonNumber "01".toList = false ∧ isJsonNumber "1.".toList = false ∧
    isJsonNumber "1e".toList = false ∧ isJsonNumber "+1".toList = false ∧
    isJsonNumber ".5".toList = false ∧ isJsonNumber "-".toList = false ∧
    isJsonNumber "1 2".toList = false ∧ isJsonNumber "".toList = false := by decide
example : readSkip " \t\r\n x y".toList = some ('x', " y".toList) := by decide

theorem fracOf_fst_nil (r : List Char) (h : (fracOf r).1 = []) : (fracOf r).2 = r := by
  unfold fracOf at h ⊢
  split
  · simp at h
  · rfl

theorem exOf_fst_nil (r : List Char) (h : (exOf r).1 = []) : (exOf r).2 = r := by
  cases r with
  | nil => rfl
  | cons e r =>
    unfold exOf at h ⊢
    by_cases he : e = 'e' ∨ e = 'E'
    · simp only [he, if_true] at h
      split at h <;> simp at h
    · simp [he]

theorem mem_takeWhile_digit (l : List Char) (c : Char) (h : c ∈ l.takeWhile isAsciiDigit) :
    isAsciiDigit c = true := by
  induction l with
  | nil => simp at h
  | cons a l ih =>
    simp only [List.takeWhile] at h
    cases ha : isAsciiDigit a
    · simp [ha] at h
    · simp only [ha, List.mem_cons] at h
      rcases h with h | h
      · rw [h]; exact ha
      · exact ih h

/-- What `parseNumber s = some (.num n, [])` says about the text. -/
theorem num_text (s : List Char) (n : Int) (h : Json.parseNumber s = some (.num n, [])) :
    ∃ d : List Char, d ≠ [] ∧ (∀ c ∈ d, isAsciiDigit c = true) ∧
      ((s = d ∧ n = Json.digitsToNat d) ∨ (s = '-' :: d ∧ n = -(Json.digitsToNat d : Int))) := by
  rw [parseNumber_eq_numOf] at h
  unfold numOf at h
  simp only [takeDigits_eq] at h
  split at h; · cases h
  rename_i hd
  split at h; · cases h
  split at h; · cases h
  split at h; · cases h
  split at h
  · rename_i hfe
    simp only [List.isEmpty_iff] at hfe hd
    simp only [Option.some.injEq, Prod.mk.injEq, Json.num.injEq] at h
    obtain ⟨hn, hr⟩ := h
    rw [exOf_fst_nil _ hfe.2, fracOf_fst_nil _ hfe.1] at hr
    have hall : List.takeWhile isAsciiDigit (negOf s).2 = (negOf s).2 := by
      have := List.takeWhile_append_dropWhile (p := isAsciiDigit) (l := (negOf s).2)
      rw [hr, List.append_nil] at this; exact this
    refine ⟨(negOf s).2, ?_, ?_, ?_⟩
    · rw [← hall]; exact hd
    · intro c hc; rw [← hall] at hc; exact mem_takeWhile_digit _ c hc
    · rw [hall] at hn
      unfold negOf at hn ⊢
      split at hn
      · right; simp at hn; exact ⟨rfl, hn.symm⟩
      · left; simp at hn; exact ⟨rfl, hn.symm⟩
  · simp at h


/-- (a), integer values: on an integer text the tokenizer's classification is the reference's
    value, except that (1) `-0` is a float for the tokenizer (as for serde_json; the reference
    `Json.parseNumber` answers `num 0`), (2) an integer of the `i64` range outside the `i32`
    range is refused at once (the default loader refuses it only where it needs an `i32`). -/
theorem classifyNumber_int (s : List Char) (n : Int)
    (h : Json.parseNumber s = some (.num n, [])) (h32 : inI32 n = true)
    (hz : ¬ (n = 0 ∧ s.head? = some '-')) :
    classifyNumber s = .ok (.int n) := by
  obtain ⟨d, hne, hall, hs⟩ := num_text s n h
  have hany : ∀ l : List Char, (∀ c ∈ l, isAsciiDigit c = true) →
      l.any (fun c => c = '.' || c = 'e' || c = 'E') = false := by
    intro l hl
    rw [List.any_eq_false]
    intro c hc
    obtain ⟨h1, h2, h3⟩ := digit_not_special (hl c hc)
    simp [h1, h2, h3]
  have hhead : d.head? ≠ some '-' := by
    cases d with
    | nil => simp
    | cons c r =>
      have := hall c (by simp)
      intro h'; simp at h'; subst h'; revert this; decide
  rcases hs with ⟨hs, hn⟩ | ⟨hs, hn⟩
  · subst hs
    unfold classifyNumber
    simp only [hany s hall, Bool.not_false, if_true, hhead, if_false, ← hn, h32,
      and_false]
  · subst hs
    have hn0 : ¬ (n = 0 ∧ True) := by simpa using hz
    unfold classifyNumber
    have : ('-' :: d).any (fun c => c = '.' || c = 'e' || c = 'E') = false := by
      simp only [List.any_cons, hany d hall, Bool.or_false]; decide
    simp only [this, Bool.not_false, if_true, List.head?_cons, List.drop_succ_cons, List.drop_zero,
      ← hn, h32]
    simp at hn0
    simp [hn0]


/-! Non-vacuity of `classifyNumber_int`, and the two documented exceptions, computed. -/
example : classifyNumber "-17".toList = .ok (.int (-17)) :=
  classifyNumber_int _ _ rfl rfl (by decide)
example : classifyNumber "2147483647".toList = .ok (.int 2147483647) :=
  classifyNumber_int _ _ rfl rfl (by decide)
/-- `-0`: the reference parser answers the integer 0, the tokenizer does not answer an integer. -/
example : Json.parseNumber "-0".toList = some (.num 0, []) := rfl
example : (match classifyNumber "-0".toList with | .ok (.int _) => true | _ => false) = false := by
  unfold classifyNumber; simp; decide
/-- An `i64` that is not an `i32`: refused by the tokenizer wherever it stands. -/
example : (classifyNumber "4294967296".toList).isOk = false := by decide

/-! ### floats: both models convert a number text with the same function -/

/-- The default loader's `as_f64() as f32` of a float text is the tokenizer's `parse::<f64>() as f32`. -/
theorem floatOfRaw_eq (raw : String) : Load.floatOfRaw raw = (f64OfText raw.toList).toFloat32 := by
  unfold Load.floatOfRaw f64OfText
  rfl

/-- The default loader's float of an integer beyond `i64` (non-negative case). -/
theorem floatOfInt_eq (n : Nat) : Load.floatOfInt n = (Float.ofScientific n false 0).toFloat32 := by
  unfold Load.floatOfInt
  rfl

/-! ### (c) the structural equality — what holds and what does not

  Full statement aimed at (NOT proved, and FALSE as it stands):
    ∀ text, (StreamLoad.load text) = (Load.loadStory fuel (Json.parse text))   (up to error messages)

  It fails on the real code as well as on the two models (each line checked with
  `rt audit` of both builds and `inkmodel audit / saudit`, documents `{"inkVersion":21,"root":R,"listDefs":{}}`):
   1. text that is not JSON but is accepted by the streaming loader: a member value that is ignored
      is never read beyond its first token, and `expect('}')` also closes a `[`:
        R = [{"->":"a","c":[},"done",null]      R = [{"^->":[},"done",null]
        R = [{"VAR=":"x","re":{},"done",null]          (default: "Story not in JSON format."; stream: loads)
   2. the final array of a container is built, then dropped, by the streaming loader; the default
      loader never looks at it:   R = ["^a",["unknown",null]]   R = ["^a",[]]   (default loads, stream refuses)
   3. the kind of an object is decided by its FIRST key in the streaming loader, by key priority in
      the default one:            R = [{"c":true,"->":"a"},"done",null]            (default loads, stream refuses)
      and members that the default loader ignores are refused:
                                  R = [{"VAR?":"x","zz":1},"done",null]  R = [{"->":"a","other":[1,2]},"done",null]
   4. top level key order:        {"root":["done",null],"inkVersion":21,"listDefs":{}}  (default loads, stream refuses)
   5. integers of the i64 range outside i32: refused by the tokenizer, wrapped (`as i32`) by the
      default loader in "ci", "flg", list item values:
                                  R = [{"^var":"v","ci":4294967296},"done",null]   (default loads with ci = 0)
   6. duplicate keys: the default loader sees the last value only, the streaming loader converts
      every one:                  R = ["done",{"a":["^x",null],"a":5,"a":["^y",null]}]   (default loads, stream refuses)
   7. nesting: the streaming loader refuses depth > 127 (as serde_json does); the reference
      `Json.parse` of the model has no limit (model/Rust difference of the existing model).
  Hence the relation that can hold is: for `text` with `Json.parse text = some doc`, `doc` in the
  canonical shape written by the ink compiler (first key = kind key, optional members in the fixed
  order, no duplicate keys, no ignored members with array/object values, final element of every
  array an object or a scalar, integers in i32, no `-0`, no number that overflows f64, depth ≤ 127,
  top-level keys in the order inkVersion, root, listDefs): `load text` and
  `loadStory fuel (some doc)` are equal up to the error message.  Proved here: the token level below
  that statement — whitespace (`readSkip_eq_skipWs`, `peek_eq`), strings (Proofs/C14.lean),
  the number grammar on every text (`isJsonNumber_eq`, `isJsonNumber_iff`) and integer values
  (`classifyNumber_int`).  The statement itself is checked by execution only (`inkmodel saudit` =
  `inkmodel audit` = `rt audit` of both builds on the 211 documents of the corpus).
-/

end Ink.StreamLoad

#print axioms Ink.StreamLoad.readSkip_eq_skipWs
#print axioms Ink.StreamLoad.peek_eq
#print axioms Ink.StreamLoad.parseNumber_eq_numOf
#print axioms Ink.StreamLoad.frac_agree
#print axioms Ink.StreamLoad.exp_agree
#print axioms Ink.StreamLoad.int_cases
#print axioms Ink.StreamLoad.isJsonNumber_eq
#print axioms Ink.StreamLoad.isJsonNumber_iff
#print axioms Ink.StreamLoad.num_text
#print axioms Ink.StreamLoad.classifyNumber_int
#print axioms Ink.StreamLoad.floatOfRaw_eq
#print axioms Ink.StreamLoad.floatOfInt_eq

