/-
  The `sawUnsafe` flag inside a step (used by C08, `Proofs/C08Sliced.lean`).

  * `Frame m`: the action `m` of the step monad leaves the flag alone — proved for every
    action of `Ink/Step.lean` (by the tactic `frame`, which walks the `do` block) except
    `callExternalFunction` and what calls it.
  * `Raises env Q m`: `m` leaves the flag alone, or raises it under a look-ahead snapshot,
    outside string evaluation, returning `ok a` with `Q a`: `callExternal_raises`,
    `perform_divert_raises`.
  * `NoStr m`: `m` does not put a `BeginString` into the output stream — proved for
    `nextContent` (which follows the external-function divert inside the same step) and for
    `tryFollowDefaultInvisibleChoice`.
  * `step_weak`: a step leaves the flag alone, or raises it under a snapshot and ends
    outside string evaluation.
-/
import Ink.Continue

namespace Ink
namespace C08
open M

/-- The action leaves the `sawUnsafe` flag alone. -/
class Frame {α : Type} (m : M α) : Prop where
  frame : ∀ st, (m st).2.sawUnsafe = st.sawUnsafe

theorem frame_of {α : Type} (m : M α) [h : Frame m] (st : St) : (m st).2.sawUnsafe = st.sawUnsafe :=
  h.frame st

instance {α : Type} (a : α) : Frame (pure a : M α) := ⟨fun _ => rfl⟩

theorem Frame.bind_intro {α β : Type} {x : M α} {f : α → M β} (hx : Frame x) (hf : ∀ a, Frame (f a)) :
    Frame (x >>= f) := by
  constructor
  intro st
  show (M.bind' x f st).2.sawUnsafe = st.sawUnsafe
  unfold M.bind'
  have h1 := hx.frame st
  rcases h : x st with ⟨r, st'⟩
  rw [h] at h1
  cases r with
  | ok a => exact ((hf a).frame st').trans h1
  | err k m => exact h1
  | panic p => exact h1

instance {α β : Type} (x : M α) (f : α → M β) [hx : Frame x] [hf : ∀ a, Frame (f a)] : Frame (x >>= f) :=
  Frame.bind_intro hx hf

instance {α : Type} (c : Prop) [Decidable c] (a b : M α) [ha : Frame a] [hb : Frame b] :
    Frame (if c then a else b) := by
  split <;> assumption

instance : Frame M.get := ⟨fun _ => rfl⟩
instance (s : Core) : Frame (M.set s) := ⟨fun _ => rfl⟩
instance (f : Core → Core) : Frame (M.modify f) := ⟨fun _ => rfl⟩
instance : Frame M.getSt := ⟨fun _ => rfl⟩
instance {α : Type} (k m : String) : Frame (M.fail k m : M α) := ⟨fun _ => rfl⟩
instance {α : Type} (m : String) : Frame (M.invalid m : M α) := ⟨fun _ => rfl⟩
instance {α : Type} (m : String) : Frame (M.crash m : M α) := ⟨fun _ => rfl⟩
instance {α : Type} (o : Out α) : Frame (M.lift o) := ⟨fun _ => rfl⟩
instance (f : Core → Out Core) : Frame (M.liftS f) := by
  constructor
  intro st
  unfold M.liftS
  split <;> rfl
instance {α : Type} (site : String) (o : Option α) : Frame (M.unwrap site o) := by
  cases o
  · exact ⟨fun _ => rfl⟩
  · exact ⟨fun _ => rfl⟩
instance : Frame popEvalM := by
  constructor
  intro st
  unfold popEvalM
  split <;> rfl
instance (env : Env) (o : Obj) : Frame (pushEvalM env o) := by
  unfold pushEvalM; infer_instance
instance (root : Obj) (m : String) (w : Bool) : Frame (addErrorM root m w) := by
  constructor
  intro st
  unfold addErrorM
  split <;> rfl

theorem Frame.ite_intro {α : Type} {c : Prop} [Decidable c] {a b : M α} (ha : Frame a) (hb : Frame b) :
    Frame (if c then a else b) := by
  split <;> assumption

/-- Decompose a `Frame` goal along the structure of the action. -/
macro "frame" : tactic => `(tactic| repeat (first
  | infer_instance
  | apply Frame.bind_intro
  | apply Frame.ite_intro
  | intro _
  | split
  | dsimp only))

instance (env : Env) (a : Addr) (atStart : Bool) : Frame (visitContainer env a atStart) := by
  unfold visitContainer
  frame


instance (env : Env) (prevContainers : List Addr) (fuel : Nat) (child : Addr) (b : Bool) :
    Frame (visitChangedContainersDueToDivert.loop env prevContainers fuel child b) := by
  induction fuel generalizing child b with
  | zero => unfold visitChangedContainersDueToDivert.loop; infer_instance
  | succ fuel ih =>
    unfold visitChangedContainersDueToDivert.loop
    frame

instance (env : Env) : Frame (visitChangedContainersDueToDivert env) := by
  unfold visitChangedContainersDueToDivert
  frame

instance (env : Env) : Frame (incrementContentPointer env) := by
  unfold incrementContentPointer
  frame

instance (env : Env) : Frame (nextSequenceShuffleIndex env) := by
  unfold nextSequenceShuffleIndex
  frame

instance (env : Env) (a : Addr) (t : Path) : Frame (divertTargetPointer env a t) := by
  unfold divertTargetPointer
  frame

instance (env : Env) (p : Path) : Frame (pointerAtPathM env p) := by
  unfold pointerAtPathM; infer_instance

instance (fuel : Nat) (tags : List String) : Frame (popChoiceStringAndTags.popTags fuel tags) := by
  induction fuel generalizing tags with
  | zero => unfold popChoiceStringAndTags.popTags; infer_instance
  | succ fuel ih =>
    unfold popChoiceStringAndTags.popTags
    frame

instance (tags : List String) : Frame (popChoiceStringAndTags tags) := by
  unfold popChoiceStringAndTags
  frame

instance (env : Env) (a : Addr) (flags : Int) (p : Path) : Frame (processChoice env a flags p) := by
  unfold processChoice
  frame

instance (env : Env) (p : Path) (b : Bool) : Frame (choosePath env p b) := by
  unfold choosePath
  frame

instance (env : Env) : Frame (tryFollowDefaultInvisibleChoice env) := by
  unfold tryFollowDefaultInvisibleChoice
  frame


instance (f : String) (n : Nat) (acc : List Val) : Frame (callExternalFunction.popArgs f n acc) := by
  induction n generalizing acc with
  | zero => unfold callExternalFunction.popArgs; infer_instance
  | succ n ih =>
    unfold callExternalFunction.popArgs
    frame

instance (env : Env) (fuel : Nat) (p : Ptr) : Frame (step.descend env fuel p) := by
  induction fuel generalizing p with
  | zero => unfold step.descend; infer_instance
  | succ n ih =>
    unfold step.descend
    frame

instance (env : Env) (fuel : Nat) : Frame (nextContent env fuel) := by
  induction fuel with
  | zero => unfold nextContent; infer_instance
  | succ n ih =>
    unfold nextContent
    frame

theorem perform_frame_varAss (env : Env) (a : Addr) (n : String) (b1 b2 : Bool) :
    Frame (performLogicAndFlowControl env a (.varAss n b1 b2)) := by
  unfold performLogicAndFlowControl
  dsimp only
  frame

theorem perform_frame_varRef (env : Env) (a : Addr) (n : String) (c : Option Path) :
    Frame (performLogicAndFlowControl env a (.varRef n c)) := by
  unfold performLogicAndFlowControl
  dsimp only
  frame

theorem perform_frame_native (env : Env) (a : Addr) (op : Op) :
    Frame (performLogicAndFlowControl env a (.native op)) := by
  unfold performLogicAndFlowControl
  dsimp only
  constructor
  intro st
  simp only [bind, M.bind', M.getSt]
  unfold Core.popEvalMultiple
  split
  · have : Frame (do
        let r ← M.lift (Native.call env.defs op (List.take op.arity st.s.evalStack).reverse)
        pushEvalM env r
        pure true : M Bool) := by frame
    exact this.frame _
  · rfl


theorem perform_frame_cmd (env : Env) (a : Addr) (c : Cmd) :
    Frame (performLogicAndFlowControl env a (.cmd c)) := by
  unfold performLogicAndFlowControl
  cases c <;> frame

theorem perform_frame_other (env : Env) (a : Addr) (obj : Obj) (hd : ∀ d, obj ≠ .divert d) :
    Frame (performLogicAndFlowControl env a obj) := by
  cases obj with
  | divert d => exact absurd rfl (hd d)
  | cmd c => exact perform_frame_cmd env a c
  | varAss n b1 b2 => exact perform_frame_varAss env a n b1 b2
  | varRef n c => exact perform_frame_varRef env a n c
  | native op => exact perform_frame_native env a op
  | _ => unfold performLogicAndFlowControl; dsimp only; infer_instance

/-- The action leaves the flag alone, or raises it — under a look-ahead snapshot,
    outside string evaluation — and returns `ok a` with `Q a`. -/
structure Raises (env : Env) {α : Type} (Q : α → Prop) (m : M α) : Prop where
  raises : ∀ st, (m st).2.sawUnsafe = st.sawUnsafe ∨
    (env.snapshotActive = true ∧ (m st).2.s.inStringEvaluation = false ∧ ∃ a, (m st).1 = .ok a ∧ Q a)

theorem Raises.of_frame {env : Env} {α : Type} {Q : α → Prop} {m : M α} (h : Frame m) : Raises env Q m :=
  ⟨fun st => Or.inl (h.frame st)⟩

theorem Raises.bind_left {env : Env} {α β : Type} {Q : β → Prop} {x : M α} {f : α → M β}
    (hx : Frame x) (hf : ∀ a, Raises env Q (f a)) : Raises env Q (x >>= f) := by
  constructor
  intro st
  show (M.bind' x f st).2.sawUnsafe = st.sawUnsafe ∨
    (env.snapshotActive = true ∧ (M.bind' x f st).2.s.inStringEvaluation = false ∧ ∃ a, (M.bind' x f st).1 = .ok a ∧ Q a)
  unfold M.bind'
  have h1 := hx.frame st
  rcases h : x st with ⟨r, st'⟩
  rw [h] at h1
  cases r with
  | ok a =>
    rcases (hf a).raises st' with h2 | h2
    · exact Or.inl (h2.trans h1)
    · exact Or.inr h2
  | err k m => exact Or.inl h1
  | panic p => exact Or.inl h1

theorem Raises.then_pure {env : Env} {α β : Type} {P : α → Prop} {Q : β → Prop} {x : M α}
    (hx : Raises env P x) (b : β) (hb : Q b) : Raises env Q (x >>= fun _ => pure b) := by
  constructor
  intro st
  show (M.bind' x (fun _ => pure b) st).2.sawUnsafe = st.sawUnsafe ∨
    (env.snapshotActive = true ∧ (M.bind' x (fun _ => pure b) st).2.s.inStringEvaluation = false
      ∧ ∃ a, (M.bind' x (fun _ => pure b) st).1 = .ok a ∧ Q a)
  unfold M.bind'
  have h1 := hx.raises st
  rcases h : x st with ⟨r, st'⟩
  rw [h] at h1
  cases r with
  | ok a =>
    rcases h1 with h1 | ⟨h1, h2, _⟩
    · exact Or.inl h1
    · exact Or.inr ⟨h1, h2, b, rfl, hb⟩
  | err k m =>
    rcases h1 with h1 | ⟨_, _, a, h3, _⟩
    · exact Or.inl h1
    · cases h3
  | panic p =>
    rcases h1 with h1 | ⟨_, _, a, h3, _⟩
    · exact Or.inl h1
    · cases h3

theorem Frame.getSt_setSt {β : Type} (g : St → St) (hg : ∀ st, (g st).sawUnsafe = st.sawUnsafe)
    (K : St → Unit → M β) (hK : ∀ st u, Frame (K st u)) :
    Frame (M.getSt >>= fun st => M.setSt (g st) >>= K st) := by
  constructor
  intro st
  show ((K st () (g st)).2.sawUnsafe) = st.sawUnsafe
  rw [(hK st ()).frame (g st), hg]

instance {α β : Type} (x : M α) (f : α → M β) [hx : Frame x] [hf : ∀ a, Frame (f a)] : Frame (M.bind' x f) :=
  Frame.bind_intro hx hf

theorem Frame.getSt_setSt' {β : Type} (g : St → St) (hg : ∀ st, (g st).sawUnsafe = st.sawUnsafe)
    (K : St → Unit → M β) (hK : ∀ st u, Frame (K st u)) :
    Frame (M.bind' M.getSt fun st => M.bind' (M.setSt (g st)) (K st)) :=
  Frame.getSt_setSt g hg K hK

theorem callExternal_raises (env : Env) (f : String) (n : Nat) :
    Raises env (fun _ => True) (callExternalFunction env f n) := by
  constructor
  intro st
  unfold callExternalFunction
  simp only [bind, M.bind', M.getSt]
  cases hd : alGet st.externals f with
  | none =>
    simp only
    left
    split
    · cases env.root.lookupName f with
      | none => rfl
      | some stp => exact Frame.frame (m := M.bind' M.get _) st
    · rfl
  | some d =>
    simp only
    by_cases h1 : (!d.safe && st.s.inStringEvaluation) = true
    · simp only [h1, ↓reduceIte]
      left
      exact Frame.frame (m := M.bind' (addErrorM _ _ _) _) st
    · simp only [h1, Bool.false_eq_true, ↓reduceIte]
      by_cases h2 : (!d.safe && env.snapshotActive) = true
      · simp only [h2, ↓reduceIte]
        right
        simp only [Bool.and_eq_true, Bool.not_eq_true'] at h1 h2
        refine ⟨h2.2, ?_, (), rfl, trivial⟩
        show st.s.inStringEvaluation = false
        cases hs : st.s.inStringEvaluation with
        | false => rfl
        | true => exact absurd ⟨h2.1, hs⟩ h1
      · simp only [h2, Bool.false_eq_true, ↓reduceIte]
        left
        have : Frame (M.bind' (callExternalFunction.popArgs f n []) fun args =>
            M.bind' M.getSt fun st =>
              M.bind' (M.setSt { st with
                  externals := alSet st.externals f { d with calls := d.calls + 1 },
                  events := Json.arr [Json.str "ext", Json.str d.id, Json.str f,
                    Json.arr (List.map encVal args), Json.num ↑env.lines] :: st.events })
                fun _ => pushEvalM env (match extReturn d args with
                  | some v => Obj.val v
                  | none => Obj.void)) := by
          apply Frame.bind_intro inferInstance
          intro args
          exact Frame.getSt_setSt' (fun st => { st with
                  externals := alSet st.externals f { d with calls := d.calls + 1 },
                  events := Json.arr [Json.str "ext", Json.str d.id, Json.str f,
                    Json.arr (List.map encVal args), Json.num ↑env.lines] :: st.events })
            (fun _ => rfl) _ (fun _ _ => inferInstance)
        exact this.frame st


theorem Raises.ite_intro {env : Env} {α : Type} {Q : α → Prop} {c : Prop} [Decidable c] {a b : M α}
    (ha : Raises env Q a) (hb : Raises env Q b) : Raises env Q (if c then a else b) := by
  split <;> assumption

macro "raises" : tactic => `(tactic| repeat (first
  | exact Raises.of_frame inferInstance
  | exact Raises.then_pure (callExternal_raises _ _ _) _ rfl
  | apply Raises.ite_intro
  | apply Raises.bind_left
  | infer_instance
  | intro _
  | split
  | dsimp only))

theorem perform_divert_raises (env : Env) (a : Addr) (d : DivertData) :
    Raises env (· = true) (performLogicAndFlowControl env a (.divert d)) := by
  unfold performLogicAndFlowControl
  dsimp only
  raises

/-! ### Actions that do not start a string evaluation -/

/-- No `BeginString` in the output stream. -/
def NoBS (s : Core) : Prop := s.inStringEvaluation = false

/-- The action does not start a string evaluation. -/
class NoStr {α : Type} (m : M α) : Prop where
  nostr : ∀ st, NoBS st.s → NoBS (m st).2.s

instance {α : Type} (a : α) : NoStr (pure a : M α) := ⟨fun _ h => h⟩

theorem NoStr.bind_intro {α β : Type} {x : M α} {f : α → M β} (hx : NoStr x) (hf : ∀ a, NoStr (f a)) :
    NoStr (x >>= f) := by
  constructor
  intro st h0
  show NoBS (M.bind' x f st).2.s
  unfold M.bind'
  have h1 := hx.nostr st h0
  rcases h : x st with ⟨r, st'⟩
  rw [h] at h1
  cases r with
  | ok a => exact (hf a).nostr st' h1
  | err k m => exact h1
  | panic p => exact h1

instance {α β : Type} (x : M α) (f : α → M β) [hx : NoStr x] [hf : ∀ a, NoStr (f a)] : NoStr (x >>= f) :=
  NoStr.bind_intro hx hf

theorem NoStr.ite_intro {α : Type} {c : Prop} [Decidable c] {a b : M α} (ha : NoStr a) (hb : NoStr b) :
    NoStr (if c then a else b) := by
  split <;> assumption

instance {α : Type} (c : Prop) [Decidable c] (a b : M α) [ha : NoStr a] [hb : NoStr b] :
    NoStr (if c then a else b) := NoStr.ite_intro ha hb

instance : NoStr M.get := ⟨fun _ h => h⟩
instance {α : Type} (k m : String) : NoStr (M.fail k m : M α) := ⟨fun _ h => h⟩
instance {α : Type} (m : String) : NoStr (M.invalid m : M α) := ⟨fun _ h => h⟩
instance {α : Type} (m : String) : NoStr (M.crash m : M α) := ⟨fun _ h => h⟩
instance {α : Type} (o : Out α) : NoStr (M.lift o) := ⟨fun _ h => h⟩
instance {α : Type} (site : String) (o : Option α) : NoStr (M.unwrap site o) := by
  cases o
  · exact ⟨fun _ h => h⟩
  · exact ⟨fun _ h => h⟩

theorem NoStr.modify_intro (f : Core → Core) (hf : ∀ s, NoBS s → NoBS (f s)) : NoStr (M.modify f) :=
  ⟨fun st h => hf st.s h⟩

theorem NoStr.liftS_intro (f : Core → Out Core) (hf : ∀ s s', f s = .ok s' → NoBS s → NoBS s') :
    NoStr (M.liftS f) := by
  constructor
  intro st h
  unfold M.liftS
  split
  · rename_i s' heq
    exact hf _ _ heq h
  · exact h
  · exact h

/-- A core transformer that keeps the output stream. -/
theorem NoStr.modify_output (f : Core → Core) (hf : ∀ s, (f s).output = s.output) : NoStr (M.modify f) :=
  NoStr.modify_intro f (fun s h => by unfold NoBS Core.inStringEvaluation at *; rw [hf]; exact h)

theorem NoStr.liftS_output (f : Core → Out Core) (hf : ∀ s s', f s = .ok s' → s'.output = s.output) :
    NoStr (M.liftS f) :=
  NoStr.liftS_intro f (fun s s' he h => by unfold NoBS Core.inStringEvaluation at *; rw [hf s s' he]; exact h)

theorem pushEval_output (defs : ListDefs) (s : Core) (o : Obj) (s' : Core) (h : s.pushEval defs o = .ok s') :
    s'.output = s.output := by
  unfold Core.pushEval at h
  split at h
  · split at h
    · cases h
    · cases h; rfl
  · cases h; rfl

instance (env : Env) (o : Obj) : NoStr (pushEvalM env o) :=
  NoStr.liftS_output _ (fun s s' h => pushEval_output env.defs s o s' h)

instance (env : Env) (a : Addr) (b : Bool) : NoStr (visitContainer env a b) := by
  unfold visitContainer
  have h1 : NoStr (M.liftS fun s => Core.incrementVisitCount env.root s a) :=
    NoStr.liftS_output _ (fun s s' h => by
      unfold Core.incrementVisitCount at h
      split at h
      · cases h; rfl
      · cases h)
  have h2 : NoStr (M.liftS fun s => Core.recordTurnIndexVisit env.root s a) :=
    NoStr.liftS_output _ (fun s s' h => by
      unfold Core.recordTurnIndexVisit at h
      split at h
      · cases h; rfl
      · cases h)
  split
  · infer_instance
  · dsimp only
    infer_instance


macro "nostr" : tactic => `(tactic| repeat' (first
  | infer_instance
  | apply NoStr.bind_intro
  | apply NoStr.ite_intro
  | exact NoStr.modify_output _ (fun _ => rfl)
  | intro _
  | split
  | dsimp only))

instance (env : Env) (prevContainers : List Addr) (fuel : Nat) (child : Addr) (b : Bool) :
    NoStr (visitChangedContainersDueToDivert.loop env prevContainers fuel child b) := by
  induction fuel generalizing child b with
  | zero => unfold visitChangedContainersDueToDivert.loop; infer_instance
  | succ fuel ih =>
    unfold visitChangedContainersDueToDivert.loop
    nostr

instance (env : Env) : NoStr (visitChangedContainersDueToDivert env) := by
  unfold visitChangedContainersDueToDivert
  nostr

instance (env : Env) : NoStr (incrementContentPointer env) := by
  unfold incrementContentPointer
  nostr

/-- trimming whitespace only removes objects -/
theorem trim_go_mem (start : Nat) (rev : List Obj) (i : Nat) (acc : List Obj) (x : Obj)
    (hx : x ∈ Core.trimWhitespaceFromFunctionEnd.go start rev i acc) : x ∈ rev ∨ x ∈ acc := by
  induction rev generalizing i acc with
  | nil =>
    unfold Core.trimWhitespaceFromFunctionEnd.go at hx
    exact Or.inr hx
  | cons o rest ih =>
    unfold Core.trimWhitespaceFromFunctionEnd.go at hx
    have key : x ∈ (o :: rest).reverse ++ acc → x ∈ o :: rest ∨ x ∈ acc := by
      intro h
      rcases List.mem_append.mp h with h | h
      · exact Or.inl (List.mem_reverse.mp h)
      · exact Or.inr h
    split at hx
    · exact key hx
    · split at hx
      · exact key hx
      · split at hx
        · rcases ih _ _ hx with h | h
          · exact Or.inl (List.mem_cons_of_mem _ h)
          · exact Or.inr h
        · exact key hx
      · rcases ih _ _ hx with h | h
        · exact Or.inl (List.mem_cons_of_mem _ h)
        · rcases List.mem_cons.mp h with h | h
          · exact Or.inl (by rw [h]; exact List.mem_cons_self)
          · exact Or.inr h

theorem trim_noBS (s : Core) (h : NoBS s) : NoBS s.trimWhitespaceFromFunctionEnd := by
  unfold Core.trimWhitespaceFromFunctionEnd
  dsimp only
  split
  · exact h
  · unfold NoBS Core.inStringEvaluation at *
    cases hb : (List.any (Core.setOutput s _).output fun o => o.isCmdOf Cmd.beginString) with
    | false => rfl
    | true =>
      rw [List.any_eq_true] at hb
      obtain ⟨x, hx, hx2⟩ := hb
      have hx' : x ∈ s.output := by
        rcases trim_go_mem _ _ _ _ x hx with h1 | h1
        · exact List.mem_reverse.mp h1
        · cases h1
      have : (List.any s.output fun o => o.isCmdOf Cmd.beginString) = true :=
        List.any_eq_true.mpr ⟨x, hx', hx2⟩
      rw [h] at this
      cases this

theorem popCallstack_noBS (s : Core) (t : Option PushPop) (s' : Core) (he : s.popCallstack t = .ok s')
    (h : NoBS s) : NoBS s' := by
  unfold Core.popCallstack at he
  dsimp only at he
  split at he
  · cases he
    rename_i cs _
    show NoBS (Core.setCallstack _ cs)
    have : ∀ c : Core, NoBS c → NoBS (c.setCallstack cs) := fun c hc => hc
    apply this
    split
    · split
      · exact trim_noBS s h
      · exact h
    · exact h
  · cases he
  · cases he


/-- `get`, then an action that may depend on the core it saw. -/
theorem NoStr.get_bind {β : Type} (K : Core → M β)
    (hK : ∀ s, NoBS s → ∀ st, st.s = s → NoBS (K s st).2.s) : NoStr (M.get >>= K) := by
  constructor
  intro st h
  exact hK st.s h st rfl

instance : NoStr (M.liftS fun s => s.popCallstack (some PushPop.function)) :=
  NoStr.liftS_intro _ (fun s s' he h => popCallstack_noBS s _ s' he h)

instance : NoStr (M.liftS fun s => match s.callstack.popThread with
    | Out.ok cs => Out.ok (s.setCallstack cs)
    | Out.err k m => Out.err k m
    | Out.panic p => Out.panic p) :=
  NoStr.liftS_output _ (fun s s' he => by
    split at he
    · cases he; rfl
    · cases he
    · cases he)

instance : NoStr (M.modify fun s => s.tryExitFunctionEvaluationFromGame.fst) :=
  NoStr.modify_output _ (fun s => by
    unfold Core.tryExitFunctionEvaluationFromGame
    split <;> rfl)

theorem NoStr.set_bind {β : Type} (s' : Core) (R : Unit → M β) (hR : ∀ u, NoStr (R u)) (h : NoBS s')
    (st : St) : NoBS ((M.set s' >>= R) st).2.s :=
  (hR ()).nostr { st with s := s' } h

instance (env : Env) (fuel : Nat) : NoStr (nextContent env fuel) := by
  induction fuel with
  | zero => unfold nextContent; infer_instance
  | succ n ih =>
    unfold nextContent
    apply NoStr.bind_intro
    · exact NoStr.modify_output _ (fun _ => rfl)
    intro _
    dsimp only
    apply NoStr.get_bind
    intro s hs st hst
    split
    · apply NoStr.set_bind
      · intro u
        nostr
      · exact hs
    · refine @NoStr.nostr _ _ ?_ st (by rw [hst]; exact hs)
      nostr


/-! ### The step -/

/-- The action leaves the flag alone, or it raises it under a look-ahead
    snapshot and ends outside string evaluation. -/
structure Weak (env : Env) {α : Type} (m : M α) : Prop where
  weak : ∀ st, (m st).2.sawUnsafe = st.sawUnsafe ∨ (env.snapshotActive = true ∧ NoBS (m st).2.s)

theorem Weak.of_frame {env : Env} {α : Type} {m : M α} (h : Frame m) : Weak env m :=
  ⟨fun st => Or.inl (h.frame st)⟩

theorem Weak.bind_left {env : Env} {α β : Type} {x : M α} {f : α → M β}
    (hx : Frame x) (hf : ∀ a, Weak env (f a)) : Weak env (x >>= f) := by
  constructor
  intro st
  show (M.bind' x f st).2.sawUnsafe = st.sawUnsafe ∨ (env.snapshotActive = true ∧ NoBS (M.bind' x f st).2.s)
  unfold M.bind'
  have h1 := hx.frame st
  rcases h : x st with ⟨r, st'⟩
  rw [h] at h1
  cases r with
  | ok a =>
    rcases (hf a).weak st' with h2 | h2
    · exact Or.inl (h2.trans h1)
    · exact Or.inr h2
  | err k m => exact Or.inl h1
  | panic p => exact Or.inl h1

theorem Weak.bind_right {env : Env} {α β : Type} {P : α → Prop} {x : M α} {f : α → M β}
    (hx : Raises env P x) (hf : ∀ a, Frame (f a)) (hn : ∀ a, P a → NoStr (f a)) : Weak env (x >>= f) := by
  constructor
  intro st
  show (M.bind' x f st).2.sawUnsafe = st.sawUnsafe ∨ (env.snapshotActive = true ∧ NoBS (M.bind' x f st).2.s)
  unfold M.bind'
  have h1 := hx.raises st
  rcases h : x st with ⟨r, st'⟩
  rw [h] at h1
  cases r with
  | ok a =>
    rcases h1 with h1 | ⟨h1, h2, b, h3, h4⟩
    · exact Or.inl (((hf a).frame st').trans h1)
    · simp only [Out.ok.injEq] at h3
      subst h3
      exact Or.inr ⟨h1, (hn a h4).nostr st' h2⟩
  | err k m =>
    rcases h1 with h1 | ⟨_, _, b, h3, _⟩
    · exact Or.inl h1
    · cases h3
  | panic p =>
    rcases h1 with h1 | ⟨_, _, b, h3, _⟩
    · exact Or.inl h1
    · cases h3

theorem Weak.ite_intro {env : Env} {α : Type} {c : Prop} [Decidable c] {a b : M α}
    (ha : Weak env a) (hb : Weak env b) : Weak env (if c then a else b) := by
  split <;> assumption

theorem step_weak (env : Env) : Weak env (step env) := by
  unfold step
  apply Weak.bind_left inferInstance
  intro s
  dsimp only
  apply Weak.ite_intro (Weak.of_frame inferInstance)
  apply Weak.bind_left inferInstance
  intro pointer
  apply Weak.bind_left inferInstance
  intro _
  split
  · rename_i a o _ _
    by_cases hd : ∃ d, o = .divert d
    · obtain ⟨d, rfl⟩ := hd
      apply Weak.bind_right (perform_divert_raises env a d)
      · intro b
        frame
      · intro b hb
        subst hb
        dsimp only
        simp only [Bool.not_true, Bool.false_eq_true, ↓reduceIte, Obj.isContainer]
        nostr
    · apply Weak.of_frame
      apply Frame.bind_intro (perform_frame_other env a o (fun d h => hd ⟨d, h⟩))
      intro b
      frame
  · apply Weak.of_frame
    frame


instance (env : Env) (p : Path) : NoStr (pointerAtPathM env p) := by
  unfold pointerAtPathM; infer_instance

instance (env : Env) (p : Path) (b : Bool) : NoStr (choosePath env p b) := by
  unfold choosePath
  apply NoStr.bind_intro inferInstance
  intro ptr
  dsimp only
  apply NoStr.bind_intro
  · apply NoStr.modify_output
    intro s
    split <;> rfl
  · intro _
    infer_instance

theorem NoStr.set_intro (s' : Core) (h : NoBS s') : NoStr (M.set s') := ⟨fun _ _ => h⟩

theorem NoStr.pure_bind {α β : Type} (a : α) (f : α → M β) (h : NoStr (f a)) : NoStr (pure a >>= f) := h

theorem NoStr.crash_bind {α β : Type} (site : String) (f : α → M β) : NoStr (M.crash site >>= f) :=
  ⟨fun _ h => h⟩

instance (env : Env) : NoStr (tryFollowDefaultInvisibleChoice env) := by
  unfold tryFollowDefaultInvisibleChoice
  apply NoStr.get_bind
  intro s hs st hst
  refine @NoStr.nostr _ _ ?_ st (by rw [hst]; exact hs)
  dsimp only
  apply NoStr.ite_intro inferInstance
  apply NoStr.ite_intro inferInstance
  split
  · infer_instance
  · rename_i choice _
    apply NoStr.bind_intro inferInstance
    intro th
    have hset : ∀ s2 : Core, NoBS s2 → NoStr (M.set s2 >>= fun _ => choosePath env choice.targetPath false) :=
      fun s2 h2 => NoStr.bind_intro (NoStr.set_intro s2 h2) (fun _ => inferInstance)
    by_cases hsn : env.snapshotActive = true
    · simp only [hsn, ↓reduceIte]
      split
      · exact NoStr.pure_bind _ _ (hset _ hs)
      · exact NoStr.crash_bind _ _
    · simp only [hsn, Bool.false_eq_true, ↓reduceIte]
      exact NoStr.pure_bind _ _ (hset _ hs)

end C08
end Ink
