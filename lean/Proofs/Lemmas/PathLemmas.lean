/-
  Helper lemmas for C19: decimal printing/parsing, split/join on '.'.
-/
import Ink.Path

namespace Ink

/-! ### digits -/

theorem digitChar_isDigit : ∀ d, d < 10 → isAsciiDigit (digitChar d) = true := by decide
theorem digitChar_val : ∀ d, d < 10 → digitVal (digitChar d) = d := by decide
theorem digitChar_ne_dot : ∀ d, d < 10 → digitChar d ≠ '.' := by decide
theorem digitChar_ne_plus : ∀ d, d < 10 → digitChar d ≠ '+' := by decide

theorem digitsVal_append (xs ys : List Char) :
    digitsVal (xs ++ ys) = ys.foldl (fun n c => n * 10 + digitVal c) (digitsVal xs) := by
  simp [digitsVal, List.foldl_append]

theorem foldl_digits_shift (ys : List Char) (a : Nat) :
    ys.foldl (fun n c => n * 10 + digitVal c) a
      = a * 10 ^ ys.length + ys.foldl (fun n c => n * 10 + digitVal c) 0 := by
  induction ys generalizing a with
  | nil => simp
  | cons y ys ih =>
    simp only [List.foldl_cons, List.length_cons]
    rw [ih (a * 10 + digitVal y), ih (0 * 10 + digitVal y)]
    simp [Nat.pow_succ, Nat.add_mul, Nat.mul_assoc, Nat.mul_comm 10, Nat.add_assoc]

/-- Invariant of `decimalAux`: the result is digits(n) ++ acc. -/
theorem decimalAux_spec (fuel n : Nat) (acc : List Char) (h : n < fuel) :
    ∃ ds : List Char, decimalAux fuel n acc = ds ++ acc ∧ ds ≠ [] ∧
      (∀ c ∈ ds, isAsciiDigit c = true) ∧ digitsVal ds = n := by
  induction fuel generalizing n acc with
  | zero => omega
  | succ fuel ih =>
    unfold decimalAux
    simp only
    split
    · rename_i hlt
      refine ⟨[digitChar (n % 10)], rfl, by simp, ?_, ?_⟩
      · intro c hc; simp at hc; subst hc; exact digitChar_isDigit _ (Nat.mod_lt _ (by omega))
      · simp [digitsVal, digitChar_val _ (Nat.mod_lt n (by omega : 10 > 0))]; omega
    · rename_i hge
      have hdiv : n / 10 < fuel := by omega
      obtain ⟨ds, heq, hne, hdig, hval⟩ := ih (n / 10) (digitChar (n % 10) :: acc) hdiv
      refine ⟨ds ++ [digitChar (n % 10)], by simp [heq], by simp, ?_, ?_⟩
      · intro c hc
        rcases List.mem_append.mp hc with h | h
        · exact hdig c h
        · simp at h; subst h; exact digitChar_isDigit _ (Nat.mod_lt _ (by omega))
      · rw [digitsVal_append, hval]
        simp [digitChar_val _ (Nat.mod_lt n (by omega : 10 > 0))]
        omega

theorem decimal_spec (n : Nat) :
    decimal n ≠ [] ∧ (∀ c ∈ decimal n, isAsciiDigit c = true) ∧ digitsVal (decimal n) = n := by
  obtain ⟨ds, heq, hne, hdig, hval⟩ := decimalAux_spec (n + 1) n [] (by omega)
  simp only [List.append_nil] at heq
  unfold decimal
  rw [heq]
  exact ⟨hne, hdig, hval⟩

theorem isAsciiDigit_ne_dot {c : Char} (h : isAsciiDigit c = true) : c ≠ '.' := by
  intro hc; subst hc; revert h; decide

theorem isAsciiDigit_ne_plus {c : Char} (h : isAsciiDigit c = true) : c ≠ '+' := by
  intro hc; subst hc; revert h; decide

theorem parseUsize_decimal (n : Nat) (h : n ≤ usizeMax) : parseUsize (decimal n) = some n := by
  obtain ⟨hne, hdig, hval⟩ := decimal_spec n
  unfold parseUsize
  cases hd : decimal n with
  | nil => exact absurd hd hne
  | cons c cs =>
    have hc : isAsciiDigit c = true := hdig c (by rw [hd]; simp)
    have hplus : c ≠ '+' := isAsciiDigit_ne_plus hc
    have hall : (c :: cs).all isAsciiDigit = true := by
      rw [List.all_eq_true]; intro x hx; exact hdig x (by rw [hd]; exact hx)
    have hv : digitsVal (c :: cs) = n := by rw [← hd]; exact hval
    split
    · rename_i r heq
      simp only [List.cons.injEq] at heq
      exact absurd heq.1 hplus
    · simp [hall, hv, h]

theorem decimal_no_dot (n : Nat) : '.' ∉ decimal n := by
  intro h
  exact isAsciiDigit_ne_dot ((decimal_spec n).2.1 _ h) rfl

/-! ### split / join -/

theorem splitDot_ne_nil (l : List Char) : splitDot l ≠ [] := by
  induction l with
  | nil => simp [splitDot]
  | cons c cs ih =>
    unfold splitDot
    split
    · simp
    · split <;> simp

theorem splitDot_no_dot (p : List Char) (h : '.' ∉ p) : splitDot p = [p] := by
  induction p with
  | nil => simp [splitDot]
  | cons c cs ih =>
    have hc : c ≠ '.' := by intro hc; apply h; simp [hc]
    have hcs : '.' ∉ cs := by intro hcs; apply h; simp [hcs]
    unfold splitDot
    simp [hc, ih hcs]

theorem splitDot_append_dot (p rest : List Char) (h : '.' ∉ p) :
    splitDot (p ++ '.' :: rest) = p :: splitDot rest := by
  induction p with
  | nil => simp [splitDot]
  | cons c cs ih =>
    have hc : c ≠ '.' := by intro hc; apply h; simp [hc]
    have hcs : '.' ∉ cs := by intro hcs; apply h; simp [hcs]
    simp only [List.cons_append, splitDot, hc, if_false, ih hcs]

theorem splitDot_joinDot (ps : List (List Char)) (hne : ps ≠ [])
    (h : ∀ p ∈ ps, '.' ∉ p) : splitDot (joinDot ps) = ps := by
  induction ps with
  | nil => exact absurd rfl hne
  | cons p qs ih =>
    cases qs with
    | nil => simp [joinDot, splitDot_no_dot p (h p (by simp))]
    | cons q rs =>
      simp only [joinDot]
      rw [splitDot_append_dot p _ (h p (by simp))]
      rw [ih (by simp) (fun x hx => h x (by simp [hx]))]

theorem joinDot_cons_head (t : List Char) (ts : List (List Char)) (c : Char) (r : List Char)
    (ht : t = c :: r) : ∃ r', joinDot (t :: ts) = c :: r' := by
  subst ht
  cases ts with
  | nil => exact ⟨r, rfl⟩
  | cons q qs => exact ⟨r ++ '.' :: joinDot (q :: qs), by simp [joinDot]⟩

end Ink
