/-
  Proofs/Lemmas/NativePerm.lean — order independence lifted from the list operations
  (`Proofs/Lemmas/ListPerm.lean`) to the native operators (`Ink/Native.lean`) and to whole
  expression trees (`Ink/Expr.lean`): values that differ only in the (hash) order of the items /
  origin names of their lists give results that differ only in that order, and every
  observation (`display`, truthiness, casts, errors, panics) is the same.
-/
import Proofs.Lemmas.ListPerm
import Ink.Expr
import Batteries.Data.List.Basic

namespace Ink
open InkList

/-! ## 0. The relations -/

/-- Two list values that differ only in the (hash) order of their items / origin names. -/
def InkList.Equiv (a b : InkList) : Prop :=
  a.items.Perm b.items ∧ a.origins.Perm b.origins ∧ a.initialOrigins.Perm b.initialOrigins

def Val.Equiv : Val → Val → Prop
  | .list a, .list b => InkList.Equiv a b
  | .list _, _ => False
  | _, .list _ => False
  | a, b => a = b

def Obj.Equiv : Obj → Obj → Prop
  | .val a, .val b => Val.Equiv a b
  | .val _, _ => False
  | _, .val _ => False
  | a, b => a = b

/-- reachable list values have unique keys -/
def Val.WF : Val → Prop
  | .list l => KeysNodup l.items
  | _ => True

def Out.Equiv {α : Type} (r : α → α → Prop) : Out α → Out α → Prop
  | .ok a, .ok b => r a b
  | .err k m, .err k' m' => k = k' ∧ m = m'
  | .panic s, .panic s' => s = s'
  | _, _ => False

/-- An `.ok` outcome carries a well-formed value. -/
def Out.WF : Out Val → Prop
  | .ok v => v.WF
  | _ => True

/-- Result relation of `Val.cast` (`none` = no cast needed). -/
def OptEquiv : Option Val → Option Val → Prop
  | none, none => True
  | some a, some b => Val.Equiv a b
  | _, _ => False

/-! ### Basic facts -/

theorem InkList.Equiv.refl (a : InkList) : InkList.Equiv a a :=
  ⟨List.Perm.refl _, List.Perm.refl _, List.Perm.refl _⟩

theorem InkList.Equiv.symm {a b : InkList} (h : InkList.Equiv a b) : InkList.Equiv b a :=
  ⟨h.1.symm, h.2.1.symm, h.2.2.symm⟩

theorem InkList.Equiv.trans {a b c : InkList} (h : InkList.Equiv a b) (h' : InkList.Equiv b c) :
    InkList.Equiv a c :=
  ⟨h.1.trans h'.1, h.2.1.trans h'.2.1, h.2.2.trans h'.2.2⟩

/-- Equal items, and all origin names empty on both sides. -/
theorem InkList.Equiv.of_items {a b : InkList} (h : a.items.Perm b.items)
    (ho : a.origins.Perm b.origins) (hio : a.initialOrigins.Perm b.initialOrigins) :
    InkList.Equiv a b := ⟨h, ho, hio⟩

theorem Val.Equiv.refl (a : Val) : Val.Equiv a a := by
  cases a <;> first | rfl | exact InkList.Equiv.refl _

theorem Val.Equiv.symm {a b : Val} (h : Val.Equiv a b) : Val.Equiv b a := by
  cases a <;> cases b <;> first | exact InkList.Equiv.symm h | exact h.elim | exact Eq.symm h

theorem Val.Equiv.of_eq {a b : Val} (h : a = b) : Val.Equiv a b := h ▸ Val.Equiv.refl a

theorem Val.equiv_list_list {a b : InkList} : Val.Equiv (.list a) (.list b) ↔ InkList.Equiv a b :=
  Iff.rfl

/-- A list value is only equivalent to a list value. -/
theorem Val.Equiv.list_left {a : InkList} {w : Val} (h : Val.Equiv (.list a) w) :
    ∃ b, w = .list b ∧ InkList.Equiv a b := by
  cases w <;> first | exact h.elim | exact ⟨_, rfl, h⟩

theorem Val.Equiv.list_right {v : Val} {b : InkList} (h : Val.Equiv v (.list b)) :
    ∃ a, v = .list a ∧ InkList.Equiv a b := by
  cases v <;> first | exact h.elim | exact ⟨_, rfl, h⟩

/-- A non-list value is only equivalent to itself. -/
theorem Val.Equiv.eq_of_not_list {v w : Val} (h : Val.Equiv v w) (hv : ∀ l, v ≠ .list l) : v = w := by
  cases v <;> cases w <;> first | exact h | exact h.elim | exact absurd rfl (hv _)

/-- Either both are lists (equivalent ones) or the two values are equal non-lists. -/
theorem Val.Equiv.cases {v w : Val} (h : Val.Equiv v w) :
    (∃ a b, v = .list a ∧ w = .list b ∧ InkList.Equiv a b) ∨ ((∀ l, v ≠ .list l) ∧ v = w) := by
  cases v with
  | list a => obtain ⟨b, rfl, hb⟩ := h.list_left; exact Or.inl ⟨a, b, rfl, rfl, hb⟩
  | _ => exact Or.inr ⟨(fun l hl => nomatch hl), h.eq_of_not_list (fun l hl => nomatch hl)⟩

theorem Val.wf_of_not_list {v : Val} (hv : ∀ l, v ≠ .list l) : v.WF := by
  cases v <;> first | trivial | exact absurd rfl (hv _)

theorem Val.WF.equiv {v w : Val} (hv : v.WF) (h : Val.Equiv v w) : w.WF := by
  rcases h.cases with ⟨a, b, rfl, rfl, hab⟩ | ⟨_, rfl⟩
  · exact KeysNodup.perm hv hab.1
  · exact hv

theorem Obj.Equiv.refl (a : Obj) : Obj.Equiv a a := by
  cases a <;> first | rfl | exact Val.Equiv.refl _

theorem Obj.equiv_val_val {a b : Val} : Obj.Equiv (.val a) (.val b) ↔ Val.Equiv a b := Iff.rfl

theorem Obj.Equiv.val_left {a : Val} {o : Obj} (h : Obj.Equiv (.val a) o) :
    ∃ b, o = .val b ∧ Val.Equiv a b := by
  cases o <;> first | exact h.elim | exact ⟨_, rfl, h⟩

theorem Obj.Equiv.eq_of_not_val {o o' : Obj} (h : Obj.Equiv o o') (ho : ∀ v, o ≠ .val v) : o = o' := by
  cases o <;> cases o' <;> first | exact h | exact h.elim | exact absurd rfl (ho _)

/-- Either both are values (equivalent ones) or the two objects are equal non-values. -/
theorem Obj.Equiv.cases {o o' : Obj} (h : Obj.Equiv o o') :
    (∃ a b, o = .val a ∧ o' = .val b ∧ Val.Equiv a b) ∨ ((∀ v, o ≠ .val v) ∧ o = o') := by
  cases o with
  | val a => obtain ⟨b, rfl, hb⟩ := h.val_left; exact Or.inl ⟨a, b, rfl, rfl, hb⟩
  | _ => exact Or.inr ⟨(fun l hl => nomatch hl), h.eq_of_not_val (fun l hl => nomatch hl)⟩

theorem Out.Equiv.refl {α : Type} {r : α → α → Prop} (hr : ∀ a, r a a) (o : Out α) :
    Out.Equiv r o o := by
  cases o with
  | ok a => exact hr a
  | err k m => exact ⟨rfl, rfl⟩
  | panic s => rfl

theorem Out.Equiv.of_eq {α : Type} {r : α → α → Prop} (hr : ∀ a, r a a) {o o' : Out α}
    (h : o = o') : Out.Equiv r o o' := h ▸ Out.Equiv.refl hr o

theorem Out.equiv_val_refl (o : Out Val) : Out.Equiv Val.Equiv o o := Out.Equiv.refl Val.Equiv.refl o

/-- Equivalence with `=` as the relation is equality. -/
theorem Out.equiv_eq_iff {α : Type} {o o' : Out α} : Out.Equiv (· = ·) o o' ↔ o = o' := by
  cases o <;> cases o' <;> simp [Out.Equiv]

theorem Out.Equiv.mono {α : Type} {r r' : α → α → Prop} (h : ∀ a b, r a b → r' a b) {o o' : Out α}
    (ho : Out.Equiv r o o') : Out.Equiv r' o o' := by
  cases o <;> cases o' <;> first | exact h _ _ ho | exact ho

theorem Out.Equiv.ok_left {α : Type} {r : α → α → Prop} {a : α} {o' : Out α}
    (h : Out.Equiv r (.ok a) o') : ∃ b, o' = .ok b ∧ r a b := by
  cases o' <;> first | exact ⟨_, rfl, h⟩ | exact h.elim

theorem Out.Equiv.err_left {α : Type} {r : α → α → Prop} {k m : String} {o' : Out α}
    (h : Out.Equiv r (.err k m) o') : o' = .err k m := by
  cases o' with
  | err k' m' => obtain ⟨rfl, rfl⟩ := h; rfl
  | _ => exact h.elim

theorem Out.Equiv.panic_left {α : Type} {r : α → α → Prop} {s : String} {o' : Out α}
    (h : Out.Equiv r (.panic s) o') : o' = .panic s := by
  cases o' with
  | panic s' => cases (show s = s' from h); rfl
  | _ => exact h.elim

/-- The three possible shapes of two equivalent outcomes. -/
theorem Out.Equiv.cases {α : Type} {r : α → α → Prop} {o o' : Out α} (h : Out.Equiv r o o') :
    (∃ a b, o = .ok a ∧ o' = .ok b ∧ r a b) ∨ (∃ k m, o = .err k m ∧ o' = .err k m) ∨
      (∃ s, o = .panic s ∧ o' = .panic s) := by
  cases o with
  | ok a => obtain ⟨b, rfl, hb⟩ := h.ok_left; exact Or.inl ⟨a, b, rfl, rfl, hb⟩
  | err k m => exact Or.inr (Or.inl ⟨k, m, rfl, h.err_left⟩)
  | panic s => exact Or.inr (Or.inr ⟨s, rfl, h.panic_left⟩)

/-! ## 1. Observations on values -/

theorem Val.castOrdinal_equiv {a b : Val} (h : Val.Equiv a b) : a.castOrdinal = b.castOrdinal := by
  rcases h.cases with ⟨x, y, rfl, rfl, _⟩ | ⟨_, rfl⟩ <;> rfl

theorem Val.display_equiv {a b : Val} (h : Val.Equiv a b) : a.display = b.display := by
  rcases h.cases with ⟨x, y, rfl, rfl, hxy⟩ | ⟨_, rfl⟩
  · exact display_perm hxy.1
  · rfl

theorem Val.isTruthy_equiv {a b : Val} (h : Val.Equiv a b) : a.isTruthy = b.isTruthy := by
  rcases h.cases with ⟨x, y, rfl, rfl, hxy⟩ | ⟨_, rfl⟩
  · show Out.ok (!x.items.isEmpty) = Out.ok (!y.items.isEmpty)
    rw [perm_isEmpty hxy.1]
  · rfl

theorem OptEquiv.refl (o : Option Val) : OptEquiv o o := by
  cases o with
  | none => trivial
  | some v => exact Val.Equiv.refl v

/-- Casting a list value only looks at its maximum item. -/
theorem Val.cast_list_eq {x y : InkList} (h : x.items.Perm y.items) (d : Nat) :
    (Val.list x).cast d = (Val.list y).cast d := by
  simp only [Val.cast, maxVal_perm h, maxItem_perm h]

theorem Val.cast_equiv {a b : Val} (h : Val.Equiv a b) (d : Nat) :
    Out.Equiv OptEquiv (a.cast d) (b.cast d) := by
  rcases h.cases with ⟨x, y, rfl, rfl, hxy⟩ | ⟨_, rfl⟩
  · rw [Val.cast_list_eq hxy.1]; exact Out.Equiv.refl OptEquiv.refl _
  · exact Out.Equiv.refl OptEquiv.refl _

/-- A cast never produces a list. -/
theorem Val.cast_not_list {v w : Val} {d : Nat} (h : v.cast d = .ok (some w)) : ∀ l, w ≠ .list l := by
  intro l hl
  subst hl
  cases v <;> simp only [Val.cast] at h <;> (repeat' split at h) <;> cases h

theorem Val.cast_wf {v w : Val} {d : Nat} (h : v.cast d = .ok (some w)) : w.WF :=
  Val.wf_of_not_list (Val.cast_not_list h)

/-! ## 2. Unique keys of the results of the list operations -/

theorem keysNodup_single (k : ListItem) (v : Int) : KeysNodup (single k v).items := by
  show ([(k, v)].map (·.1)).Nodup
  simp

theorem keysNodup_empty : KeysNodup InkList.empty.items := keysNodup_nil

theorem keysNodup_maxAsList (l : InkList) : KeysNodup l.maxAsList.items := by
  unfold InkList.maxAsList
  split
  · exact keysNodup_single _ _
  · exact keysNodup_empty

theorem keysNodup_minAsList (l : InkList) : KeysNodup l.minAsList.items := by
  unfold InkList.minAsList
  split
  · exact keysNodup_single _ _
  · exact keysNodup_empty

theorem keysNodup_all (defs : ListDefs) (l : InkList) : KeysNodup (InkList.all defs l).items :=
  keysNodup_originItems defs l

theorem keysNodup_inverse (defs : ListDefs) (l : InkList) : KeysNodup (inverse defs l).items :=
  (keysNodup_originItems defs l).filter _

theorem keysNodup_ordered {l : InkList} (h : KeysNodup l.items) : KeysNodup l.ordered :=
  h.perm (ordered_perm_self l).symm

theorem keysNodup_subRange {l : InkList} (h : KeysNodup l.items) (lo hi : Val) :
    KeysNodup (l.subRange lo hi).items := by
  rw [subRange_eq]
  split
  · exact keysNodup_empty
  · exact (keysNodup_ordered h).filter _

/-! ## 3. Unary operators -/

theorem Native.unary_equiv (defs : ListDefs) (op : Op) {a a' : Val} (h : Val.Equiv a a') :
    Out.Equiv Val.Equiv (Native.unary defs op a) (Native.unary defs op a') := by
  rcases h.cases with ⟨x, y, rfl, rfl, hxy⟩ | ⟨_, rfl⟩
  · cases op <;> try exact Out.equiv_val_refl _
    case not =>
      show Val.int (if x.items.isEmpty then 1 else 0) = Val.int (if y.items.isEmpty then 1 else 0)
      rw [perm_isEmpty hxy.1]
    case listMin =>
      show InkList.Equiv x.minAsList y.minAsList
      rw [minAsList_perm hxy.1]; exact InkList.Equiv.refl _
    case listMax =>
      show InkList.Equiv x.maxAsList y.maxAsList
      rw [maxAsList_perm hxy.1]; exact InkList.Equiv.refl _
    case all => exact ⟨all_perm defs hxy.2.1, List.Perm.refl _, List.Perm.refl _⟩
    case count =>
      show Val.int x.items.length = Val.int y.items.length
      rw [hxy.1.length_eq]
    case valueOfList =>
      show Val.int x.maxVal = Val.int y.maxVal
      rw [maxVal_perm hxy.1]
    case invert => exact ⟨inverse_perm defs hxy.2.1 hxy.1, List.Perm.refl _, List.Perm.refl _⟩
  · exact Out.equiv_val_refl _

theorem Native.unary_wf (defs : ListDefs) (op : Op) {a : Val} (_h : a.WF) :
    Out.WF (Native.unary defs op a) := by
  cases op <;> cases a <;> try trivial
  case listMin.list l => exact keysNodup_minAsList l
  case listMax.list l => exact keysNodup_maxAsList l
  case all.list l => exact keysNodup_all defs l
  case invert.list l => exact keysNodup_inverse defs l

/-! ## 4. Binary operators on coerced values -/

theorem Native.binary_list_left {x : InkList} {b : Val} (hb : ∀ l, b ≠ .list l) (op : Op) :
    Native.binary op (.list x) b = Native.notAvailable := by
  cases b <;> first | exact absurd rfl (hb _) | (cases op <;> rfl)

theorem Native.binary_list_right {a : Val} {y : InkList} (ha : ∀ l, a ≠ .list l) (op : Op) :
    Native.binary op a (.list y) = Native.notAvailable := by
  cases a <;> first | exact absurd rfl (ha _) | (cases op <;> rfl)

theorem Native.binary_wf (op : Op) {a b : Val} (wa : a.WF) (wb : b.WF) :
    Out.WF (Native.binary op a b) := by
  unfold Native.binary
  split <;> try trivial
  · exact keysNodup_union wa _
  · exact keysNodup_without wa _
  · split <;> trivial
  · split <;> trivial
  · exact keysNodup_intersect wa _

theorem Native.binary_wf' {op : Op} {a b v : Val} (wa : a.WF) (wb : b.WF)
    (h : Native.binary op a b = .ok v) : v.WF := by
  have := Native.binary_wf op wa wb
  rwa [h] at this

/-- Both arguments are lists. -/
theorem Native.binary_list_list_equiv (op : Op) {x x' y y' : InkList} (hx : InkList.Equiv x x')
    (hy : InkList.Equiv y y') (wx : KeysNodup x.items) (wy : KeysNodup y.items) :
    Out.Equiv Val.Equiv (Native.binary op (.list x) (.list y))
      (Native.binary op (.list x') (.list y')) := by
  cases op <;> try exact Out.equiv_val_refl _
  case add => exact ⟨union_perm wx wy hx.1 hy.1, hx.2.1, hx.2.2⟩
  case subtract => exact ⟨without_perm hx.1 hy.1, hx.2.1, hx.2.2⟩
  case equal =>
    show Val.bool (x.eq y) = Val.bool (x'.eq y')
    rw [eq_perm hx.1 hy.1]
  case notEquals =>
    show Val.bool (!(x.eq y)) = Val.bool (!(x'.eq y'))
    rw [eq_perm hx.1 hy.1]
  case greater =>
    show Val.bool (x.greaterThan y) = Val.bool (x'.greaterThan y')
    rw [greaterThan_perm hx.1 hy.1]
  case less =>
    show Val.bool (x.lessThan y) = Val.bool (x'.lessThan y')
    rw [lessThan_perm hx.1 hy.1]
  case greaterEq =>
    show Val.bool (x.greaterThanOrEquals y) = Val.bool (x'.greaterThanOrEquals y')
    rw [greaterThanOrEquals_perm hx.1 hy.1]
  case lessEq =>
    show Val.bool (x.lessThanOrEquals y) = Val.bool (x'.lessThanOrEquals y')
    rw [lessThanOrEquals_perm hx.1 hy.1]
  case and =>
    show Val.bool (!x.items.isEmpty && !y.items.isEmpty) = Val.bool (!x'.items.isEmpty && !y'.items.isEmpty)
    rw [perm_isEmpty hx.1, perm_isEmpty hy.1]
  case or =>
    show Val.bool (!x.items.isEmpty || !y.items.isEmpty) = Val.bool (!x'.items.isEmpty || !y'.items.isEmpty)
    rw [perm_isEmpty hx.1, perm_isEmpty hy.1]
  case has =>
    show Val.bool (x.contains y) = Val.bool (x'.contains y')
    rw [contains_perm hx.1 hy.1]
  case hasnt =>
    show Val.bool (!(x.contains y)) = Val.bool (!(x'.contains y'))
    rw [contains_perm hx.1 hy.1]
  case intersect => exact ⟨intersect_perm hx.1 hy.1, List.Perm.refl _, List.Perm.refl _⟩

theorem Native.binary_equiv (op : Op) {a a' b b' : Val} (ha : Val.Equiv a a') (hb : Val.Equiv b b')
    (wa : a.WF) (wb : b.WF) :
    Out.Equiv Val.Equiv (Native.binary op a b) (Native.binary op a' b') := by
  rcases ha.cases with ⟨x, x', rfl, rfl, hx⟩ | ⟨na, rfl⟩
  · rcases hb.cases with ⟨y, y', rfl, rfl, hy⟩ | ⟨nb, rfl⟩
    · exact Native.binary_list_list_equiv op hx hy wa wb
    · rw [Native.binary_list_left nb, Native.binary_list_left nb]; exact Out.equiv_val_refl _
  · rcases hb.cases with ⟨y, y', rfl, rfl, hy⟩ | ⟨nb, rfl⟩
    · rw [Native.binary_list_right na, Native.binary_list_right na]; exact Out.equiv_val_refl _
    · exact Out.equiv_val_refl _

/-! ## 5. `binaryList` -/

/-- The part of `binaryList` that is not a list increment. -/
def Native.binaryListGeneric (op : Op) (v1 v2 : Val) : Out Val :=
  if (op = .and ∨ op = .or) ∧ (!Native.isList (.val v1) || !Native.isList (.val v2)) then
    match v1.isTruthy with
    | .ok t1 =>
      if op = .and then
        (if t1 then (match v2.isTruthy with
          | .ok t2 => .ok (.bool t2)
          | .err k m => .err k m
          | .panic s => .panic s) else .ok (.bool false))
      else
        (if t1 then .ok (.bool true) else (match v2.isTruthy with
          | .ok t2 => .ok (.bool t2)
          | .err k m => .err k m
          | .panic s => .panic s))
    | .err k m => .err k m
    | .panic s => .panic s
  else if Native.isList (.val v1) && Native.isList (.val v2) then Native.binary op v1 v2
  else .invalid ("Can not call use '" ++ op.name ++ "' operation on " ++ v1.display ++ " and " ++ v2.display)

/-- `list + int` / `list - int`. -/
def Native.IsIncrement (op : Op) (v1 v2 : Val) : Prop :=
  (op = .add ∨ op = .subtract) ∧ (∃ l, v1 = .list l) ∧ (∃ n, v2 = .int n)

theorem Native.binaryList_generic {op : Op} {v1 v2 : Val} (h : ¬ Native.IsIncrement op v1 v2)
    (defs : ListDefs) :
    Native.binaryList defs op (.val v1) (.val v2) = Native.binaryListGeneric op v1 v2 := by
  unfold Native.binaryList
  split
  · rename_i e1 e2; cases e1; cases e2
    exact absurd ⟨Or.inl rfl, ⟨_, rfl⟩, ⟨_, rfl⟩⟩ h
  · rename_i e1 e2; cases e1; cases e2
    exact absurd ⟨Or.inr rfl, ⟨_, rfl⟩, ⟨_, rfl⟩⟩ h
  · rename_i e1 e2; cases e1; cases e2
    rfl
  · rename_i hx _ _
    exact (hx _ rfl).elim
  · rename_i hx _ _ _
    exact (hx _ rfl).elim

/-- A first operand that is no value: the error names it. -/
theorem Native.binaryList_nonval_left {p0 : Obj} (h : ∀ v, p0 ≠ .val v) (defs : ListDefs) (op : Op)
    (p1 : Obj) :
    Native.binaryList defs op p0 p1
      = .invalid ("RTObject of type Value expected: " ++ Native.describe p0) := by
  unfold Native.binaryList
  split
  · exact absurd rfl (h _)
  · exact absurd rfl (h _)
  · exact absurd rfl (h _)
  · exact absurd rfl (h _)
  · rfl

/-- A value as first operand and a second operand that is no value: the error names the second. -/
theorem Native.binaryList_nonval_right {p1 : Obj} (h : ∀ v, p1 ≠ .val v) (defs : ListDefs) (op : Op)
    (v0 : Val) :
    Native.binaryList defs op (.val v0) p1
      = .invalid ("RTObject of type Value expected: " ++ Native.describe p1) := by
  unfold Native.binaryList
  split
  · exact absurd rfl (h _)
  · exact absurd rfl (h _)
  · exact absurd rfl (h _)
  · rfl
  · rename_i hx _ _ _
    exact (hx _ rfl).elim

theorem Native.isList_val_equiv {v w : Val} (h : Val.Equiv v w) :
    Native.isList (.val v) = Native.isList (.val w) := by
  rcases h.cases with ⟨x, y, rfl, rfl, _⟩ | ⟨_, rfl⟩ <;> rfl

theorem Native.isIncrement_equiv {op : Op} {v1 v1' v2 v2' : Val} (h1 : Val.Equiv v1 v1')
    (h2 : Val.Equiv v2 v2') (h : Native.IsIncrement op v1 v2) : Native.IsIncrement op v1' v2' := by
  obtain ⟨ho, ⟨l, rfl⟩, ⟨n, rfl⟩⟩ := h
  obtain ⟨l', rfl, _⟩ := h1.list_left
  cases h2.eq_of_not_list (fun _ e => nomatch e)
  exact ⟨ho, ⟨_, rfl⟩, ⟨_, rfl⟩⟩

theorem Native.binaryListGeneric_equiv (op : Op) {v1 v1' v2 v2' : Val} (h1 : Val.Equiv v1 v1')
    (h2 : Val.Equiv v2 v2') (w1 : v1.WF) (w2 : v2.WF) :
    Out.Equiv Val.Equiv (Native.binaryListGeneric op v1 v2) (Native.binaryListGeneric op v1' v2') := by
  unfold Native.binaryListGeneric
  rw [← Native.isList_val_equiv h1, ← Native.isList_val_equiv h2, ← Val.isTruthy_equiv h1,
    ← Val.isTruthy_equiv h2, ← Val.display_equiv h1, ← Val.display_equiv h2]
  split
  · exact Out.equiv_val_refl _
  · split
    · exact Native.binary_equiv op h1 h2 w1 w2
    · exact Out.equiv_val_refl _

theorem Native.binaryListGeneric_wf (op : Op) {v1 v2 : Val} (w1 : v1.WF) (w2 : v2.WF) :
    Out.WF (Native.binaryListGeneric op v1 v2) := by
  unfold Native.binaryListGeneric
  split
  · cases v1.isTruthy with
    | ok t1 =>
      cases v2.isTruthy <;> cases t1 <;> simp only [] <;> (repeat' split) <;> trivial
    | err k m => trivial
    | panic s => trivial
  · split
    · exact Native.binary_wf op w1 w2
    · trivial

theorem Native.binaryList_equiv {defs : ListDefs} (hd : DefsFunctional defs) (op : Op)
    {p0 p0' p1 p1' : Obj} (h0 : Obj.Equiv p0 p0') (h1 : Obj.Equiv p1 p1')
    (w0 : ∀ v, p0 = .val v → v.WF) (w1 : ∀ v, p1 = .val v → v.WF) :
    Out.Equiv Val.Equiv (Native.binaryList defs op p0 p1) (Native.binaryList defs op p0' p1') := by
  rcases h0.cases with ⟨v1, v1', rfl, rfl, e1⟩ | ⟨n0, rfl⟩
  · rcases h1.cases with ⟨v2, v2', rfl, rfl, e2⟩ | ⟨n1, rfl⟩
    · by_cases hi : Native.IsIncrement op v1 v2
      · obtain ⟨ho, ⟨l, rfl⟩, ⟨n, rfl⟩⟩ := hi
        obtain ⟨l', rfl, hl⟩ := e1.list_left
        cases e2.eq_of_not_list (fun _ e => nomatch e)
        rcases ho with rfl | rfl
        · exact ⟨increment_perm hd hl.1 hl.2.1 n true, List.Perm.refl _, List.Perm.refl _⟩
        · exact ⟨increment_perm hd hl.1 hl.2.1 n false, List.Perm.refl _, List.Perm.refl _⟩
      · have hi' : ¬ Native.IsIncrement op v1' v2' :=
          fun h => hi (Native.isIncrement_equiv e1.symm e2.symm h)
        rw [Native.binaryList_generic hi, Native.binaryList_generic hi']
        exact Native.binaryListGeneric_equiv op e1 e2 (w0 _ rfl) (w1 _ rfl)
    · rw [Native.binaryList_nonval_right n1, Native.binaryList_nonval_right n1]; exact ⟨rfl, rfl⟩
  · rw [Native.binaryList_nonval_left n0, Native.binaryList_nonval_left n0]; exact ⟨rfl, rfl⟩

theorem Native.binaryList_wf (defs : ListDefs) (op : Op) {p0 p1 : Obj}
    (w0 : ∀ v, p0 = .val v → v.WF) (w1 : ∀ v, p1 = .val v → v.WF) :
    Out.WF (Native.binaryList defs op p0 p1) := by
  by_cases n0 : ∀ v, p0 ≠ .val v
  · rw [Native.binaryList_nonval_left n0]; trivial
  · obtain ⟨v1, rfl⟩ : ∃ v, p0 = .val v := by
      apply Classical.byContradiction; intro h; exact n0 (fun v e => h ⟨v, e⟩)
    by_cases n1 : ∀ v, p1 ≠ .val v
    · rw [Native.binaryList_nonval_right n1]; trivial
    · obtain ⟨v2, rfl⟩ : ∃ v, p1 = .val v := by
        apply Classical.byContradiction; intro h; exact n1 (fun v e => h ⟨v, e⟩)
      by_cases hi : Native.IsIncrement op v1 v2
      · obtain ⟨ho, ⟨l, rfl⟩, ⟨n, rfl⟩⟩ := hi
        rcases ho with rfl | rfl
        · exact keysNodup_increment defs l n true
        · exact keysNodup_increment defs l n false
      · rw [Native.binaryList_generic hi]
        exact Native.binaryListGeneric_wf op (w0 _ rfl) (w1 _ rfl)

/-! ## 6. `Native.call` -/

theorem Out.Equiv.bind {α β : Type} {r : α → α → Prop} {s : β → β → Prop} {x x' : Out α}
    {f f' : α → Out β} (hx : Out.Equiv r x x') (hf : ∀ a a', r a a' → Out.Equiv s (f a) (f' a')) :
    Out.Equiv s (x.bind f) (x'.bind f') := by
  rcases hx.cases with ⟨a, a', rfl, rfl, h⟩ | ⟨k, m, rfl, rfl⟩ | ⟨s, rfl, rfl⟩
  · exact hf a a' h
  · exact ⟨rfl, rfl⟩
  · rfl

/-- `match x with | .ok v => .ok (.val v) | .err k m => .err k m | .panic s => .panic s` -/
def Out.toObj (x : Out Val) : Out Obj := x.bind (fun v => .ok (.val v))

theorem Out.toObj_equiv {x x' : Out Val} (h : Out.Equiv Val.Equiv x x') :
    Out.Equiv Obj.Equiv x.toObj x'.toObj :=
  Out.Equiv.bind h (fun _ _ h => h)

/-- An `.ok` outcome that is a value carries a well-formed value. -/
def Out.WFObj : Out Obj → Prop
  | .ok (.val v) => v.WF
  | _ => True

theorem Out.toObj_wf {x : Out Val} (h : Out.WF x) : Out.WFObj x.toObj := by
  cases x <;> first | exact h | trivial

theorem forall₂_length_eq {α β : Type} {R : α → β → Prop} {l₁ : List α} {l₂ : List β}
    (h : List.Forall₂ R l₁ l₂) : l₁.length = l₂.length := by
  induction h with
  | nil => rfl
  | cons _ _ ih => simp [ih]

theorem Native.destType_equiv {ps ps' : List Obj} (h : List.Forall₂ Obj.Equiv ps ps') :
    Native.destType ps = Native.destType ps' := by
  unfold Native.destType
  generalize (1 : Nat) = d
  induction h generalizing d with
  | nil => rfl
  | cons hab _ ih =>
    rename_i a b l₁ l₂
    simp only [List.foldl_cons]
    rcases hab.cases with ⟨v, v', rfl, rfl, e⟩ | ⟨_, rfl⟩
    · simp only [Val.castOrdinal_equiv e]; exact ih _
    · exact ih _

theorem Native.coerceAll_val_cons (d : Nat) (v : Val) (rest : List Obj) :
    Native.coerceAll d (.val v :: rest) =
      (v.cast d).bind (fun c => (Native.coerceAll d rest).bind (fun vs => .ok (c.getD v :: vs))) := by
  rw [Native.coerceAll]
  cases v.cast d with
  | ok c => cases Native.coerceAll d rest <;> rfl
  | err k m => rfl
  | panic s => rfl

theorem Native.coerceAll_nonval_cons (d : Nat) {o : Obj} (h : ∀ v, o ≠ .val v) (rest : List Obj) :
    Native.coerceAll d (o :: rest) = .invalid ("RTObject of type Value expected: " ++ Native.describe o) := by
  cases o <;> first | exact absurd rfl (h _) | rfl

theorem Native.coerceAll_equiv (d : Nat) {ps ps' : List Obj} (h : List.Forall₂ Obj.Equiv ps ps') :
    Out.Equiv (List.Forall₂ Val.Equiv) (Native.coerceAll d ps) (Native.coerceAll d ps') := by
  induction h with
  | nil => exact List.Forall₂.nil
  | cons hab _ ih =>
    rcases hab.cases with ⟨v, v', rfl, rfl, e⟩ | ⟨n, rfl⟩
    · rw [Native.coerceAll_val_cons, Native.coerceAll_val_cons]
      refine Out.Equiv.bind (Val.cast_equiv e d) ?_
      intro c c' hc
      refine Out.Equiv.bind ih ?_
      intro vs vs' hvs
      refine List.Forall₂.cons ?_ hvs
      cases c <;> cases c' <;> first | exact e | exact hc | exact hc.elim
    · rw [Native.coerceAll_nonval_cons d n, Native.coerceAll_nonval_cons d n]
      exact ⟨rfl, rfl⟩

theorem Native.coerceAll_wf (d : Nat) {ps : List Obj} (w : ∀ p ∈ ps, ∀ v, p = .val v → v.WF)
    {vs : List Val} (h : Native.coerceAll d ps = .ok vs) : ∀ v ∈ vs, v.WF := by
  induction ps generalizing vs with
  | nil => cases h; intro v hv; cases hv
  | cons o rest ih =>
    by_cases n : ∀ v, o ≠ .val v
    · rw [Native.coerceAll_nonval_cons d n] at h; cases h
    · obtain ⟨v, rfl⟩ : ∃ v, o = .val v := by
        apply Classical.byContradiction; intro h; exact n (fun v e => h ⟨v, e⟩)
      rw [Native.coerceAll_val_cons] at h
      cases hc : v.cast d with
      | ok c =>
        rw [hc] at h
        cases hr : Native.coerceAll d rest with
        | ok vs' =>
          rw [hr] at h
          cases h
          intro x hx
          rcases List.mem_cons.1 hx with rfl | hx
          · cases c with
            | none => exact w _ (List.mem_cons_self ..) _ rfl
            | some c => exact Val.cast_wf hc
          · exact ih (fun p hp => w p (List.mem_cons_of_mem _ hp)) hr x hx
        | err k m => rw [hr] at h; cases h
        | panic s => rw [hr] at h; cases h
      | err k m => rw [hc] at h; cases h
      | panic s => rw [hc] at h; cases h

/-- The one-parameter branch of `Native.call`. -/
def Native.callUnary (defs : ListDefs) (op : Op) (p0 : Obj) : Out Obj :=
  match Native.coerceAll (Native.destType [p0]) [p0] with
  | .ok [a] => (Native.unary defs op a).toObj
  | .ok _ => .panic "unreachable"
  | .err k m => .err k m
  | .panic s => .panic s

/-- The two-parameter branch of `Native.call`. -/
def Native.callBinary (defs : ListDefs) (op : Op) (p0 p1 : Obj) : Out Obj :=
  if Native.isList p0 || Native.isList p1 then (Native.binaryList defs op p0 p1).toObj
  else
    match Native.coerceAll (Native.destType [p0, p1]) [p0, p1] with
    | .ok [a, b] => (Native.binary op a b).toObj
    | .ok _ => .panic "unreachable"
    | .err k m => .err k m
    | .panic s => .panic s

def Native.isVoid : Obj → Bool
  | .void => true
  | _ => false


theorem any_forall₂ {α : Type} {R : α → α → Prop} {l₁ l₂ : List α} (h : List.Forall₂ R l₁ l₂)
    {f : α → Bool} (hf : ∀ a b, R a b → f a = f b) : l₁.any f = l₂.any f := by
  induction h with
  | nil => rfl
  | cons hab _ ih => simp only [List.any_cons, hf _ _ hab, ih]



/-- `Native.call` with its branches named. -/
theorem Native.call_eq (defs : ListDefs) (op : Op) (ps : List Obj) :
    Native.call defs op ps =
      if op.arity ≠ ps.length then .invalid "Unexpected number of parameters"
      else if ps.any Native.isVoid then
        .invalid ("Attempting to perform " ++ op.name
          ++ " on a void value. Did you forget to 'return' a value from a function you called here?")
      else
        match ps with
        | [p0, p1] => Native.callBinary defs op p0 p1
        | [p0] => Native.callUnary defs op p0
        | _ => .invalid "Unexpected number of parameters" := by
  unfold Native.call
  refine ite_congr rfl (fun _ => rfl) (fun _ => ite_congr ?_ (fun _ => rfl) (fun _ => ?_))
  · congr 2
  · match ps with
    | [] => rfl
    | [p0] =>
      simp only [Native.callUnary]
      generalize Native.coerceAll (Native.destType [p0]) [p0] = x
      match x with
      | .ok [] => rfl
      | .ok [a] => simp only [Out.toObj]; cases Native.unary defs op a <;> rfl
      | .ok (_ :: _ :: _) => rfl
      | .err _ _ => rfl
      | .panic _ => rfl
    | [p0, p1] =>
      simp only [Native.callBinary]
      split
      · simp only [Out.toObj]; cases Native.binaryList defs op p0 p1 <;> rfl
      · generalize Native.coerceAll (Native.destType [p0, p1]) [p0, p1] = x
        match x with
        | .ok [] => rfl
        | .ok [a] => rfl
        | .ok [a, b] => simp only [Out.toObj]; cases Native.binary op a b <;> rfl
        | .ok (_ :: _ :: _ :: _) => rfl
        | .err _ _ => rfl
        | .panic _ => rfl
    | _ :: _ :: _ :: _ => rfl

theorem Native.isVoid_equiv {a b : Obj} (h : Obj.Equiv a b) : Native.isVoid a = Native.isVoid b := by
  rcases h.cases with ⟨v, v', rfl, rfl, _⟩ | ⟨_, rfl⟩ <;> rfl

theorem Native.isList_equiv {a b : Obj} (h : Obj.Equiv a b) : Native.isList a = Native.isList b := by
  rcases h.cases with ⟨v, v', rfl, rfl, e⟩ | ⟨_, rfl⟩
  · exact Native.isList_val_equiv e
  · rfl

theorem Native.callUnary_equiv (defs : ListDefs) (op : Op) {p0 p0' : Obj} (h : Obj.Equiv p0 p0') :
    Out.Equiv Obj.Equiv (Native.callUnary defs op p0) (Native.callUnary defs op p0') := by
  have hl : List.Forall₂ Obj.Equiv [p0] [p0'] := .cons h .nil
  unfold Native.callUnary
  rw [← Native.destType_equiv hl]
  rcases (Native.coerceAll_equiv (Native.destType [p0]) hl).cases with
    ⟨vs, vs', e, e', hvs⟩ | ⟨k, m, e, e'⟩ | ⟨s, e, e'⟩
  · rw [e, e']
    cases hvs with
    | nil => rfl
    | cons hab ht =>
      cases ht with
      | nil => exact Out.toObj_equiv (Native.unary_equiv defs op hab)
      | cons _ _ => rfl
  · rw [e, e']; exact ⟨rfl, rfl⟩
  · rw [e, e']; rfl

theorem Native.callUnary_wf (defs : ListDefs) (op : Op) {p0 : Obj} (w0 : ∀ v, p0 = .val v → v.WF) :
    Out.WFObj (Native.callUnary defs op p0) := by
  unfold Native.callUnary
  split
  · rename_i a e
    refine Out.toObj_wf (Native.unary_wf defs op ?_)
    refine Native.coerceAll_wf _ ?_ e a (List.mem_cons_self ..)
    intro p hp v hv
    cases List.mem_singleton.1 hp
    exact w0 v hv
  all_goals trivial

theorem Native.callBinary_equiv {defs : ListDefs} (hd : DefsFunctional defs) (op : Op)
    {p0 p0' p1 p1' : Obj} (h0 : Obj.Equiv p0 p0') (h1 : Obj.Equiv p1 p1')
    (w0 : ∀ v, p0 = .val v → v.WF) (w1 : ∀ v, p1 = .val v → v.WF) :
    Out.Equiv Obj.Equiv (Native.callBinary defs op p0 p1) (Native.callBinary defs op p0' p1') := by
  have hl : List.Forall₂ Obj.Equiv [p0, p1] [p0', p1'] := .cons h0 (.cons h1 .nil)
  have w : ∀ p ∈ [p0, p1], ∀ v, p = .val v → v.WF := by
    intro p hp v hv
    rcases List.mem_cons.1 hp with rfl | hp
    · exact w0 v hv
    · cases List.mem_singleton.1 hp; exact w1 v hv
  unfold Native.callBinary
  rw [← Native.isList_equiv h0, ← Native.isList_equiv h1, ← Native.destType_equiv hl]
  split
  · exact Out.toObj_equiv (Native.binaryList_equiv hd op h0 h1 w0 w1)
  · rcases (Native.coerceAll_equiv (Native.destType [p0, p1]) hl).cases with
      ⟨vs, vs', e, e', hvs⟩ | ⟨k, m, e, e'⟩ | ⟨s, e, e'⟩
    · rw [e, e']
      have wvs := Native.coerceAll_wf _ w e
      cases hvs with
      | nil => rfl
      | cons hab ht =>
        cases ht with
        | nil => rfl
        | cons hab2 ht2 =>
          cases ht2 with
          | nil =>
            exact Out.toObj_equiv (Native.binary_equiv op hab hab2 (wvs _ (List.mem_cons_self ..))
              (wvs _ (List.mem_cons_of_mem _ (List.mem_cons_self ..))))
          | cons _ _ => rfl
    · rw [e, e']; exact ⟨rfl, rfl⟩
    · rw [e, e']; rfl

theorem Native.callBinary_wf (defs : ListDefs) (op : Op) {p0 p1 : Obj}
    (w0 : ∀ v, p0 = .val v → v.WF) (w1 : ∀ v, p1 = .val v → v.WF) :
    Out.WFObj (Native.callBinary defs op p0 p1) := by
  have w : ∀ p ∈ [p0, p1], ∀ v, p = .val v → v.WF := by
    intro p hp v hv
    rcases List.mem_cons.1 hp with rfl | hp
    · exact w0 v hv
    · cases List.mem_singleton.1 hp; exact w1 v hv
  unfold Native.callBinary
  split
  · exact Out.toObj_wf (Native.binaryList_wf defs op w0 w1)
  · split
    · rename_i a b e
      have wvs := Native.coerceAll_wf _ w e
      exact Out.toObj_wf (Native.binary_wf op (wvs _ (List.mem_cons_self ..))
        (wvs _ (List.mem_cons_of_mem _ (List.mem_cons_self ..))))
    all_goals trivial

/-- **Operator level.**  Equivalent, well-formed parameters give equivalent outcomes. -/
theorem Native.call_equiv {defs : ListDefs} (hd : DefsFunctional defs) (op : Op) {ps ps' : List Obj}
    (h : List.Forall₂ Obj.Equiv ps ps') (w : ∀ p ∈ ps, ∀ v, p = .val v → v.WF)
    (_w' : ∀ p ∈ ps', ∀ v, p = .val v → v.WF) :
    Out.Equiv Obj.Equiv (Native.call defs op ps) (Native.call defs op ps') := by
  rw [Native.call_eq, Native.call_eq, ← forall₂_length_eq h,
    ← any_forall₂ h (fun _ _ => Native.isVoid_equiv)]
  split
  · exact ⟨rfl, rfl⟩
  · split
    · exact ⟨rfl, rfl⟩
    · cases h with
      | nil => exact ⟨rfl, rfl⟩
      | cons h0 ht =>
        cases ht with
        | nil => exact Native.callUnary_equiv defs op h0
        | cons h1 ht =>
          cases ht with
          | nil =>
            exact Native.callBinary_equiv hd op h0 h1 (fun v hv => w _ (List.mem_cons_self ..) v hv)
              (fun v hv => w _ (List.mem_cons_of_mem _ (List.mem_cons_self ..)) v hv)
          | cons _ _ => exact ⟨rfl, rfl⟩

/-- An `.ok` value result of well-formed parameters is well-formed. -/
theorem Native.call_wf' (defs : ListDefs) (op : Op) {ps : List Obj}
    (w : ∀ p ∈ ps, ∀ v, p = .val v → v.WF) : Out.WFObj (Native.call defs op ps) := by
  rw [Native.call_eq]
  split
  · trivial
  · split
    · trivial
    · match ps, w with
      | [], _ => trivial
      | [p0], w => exact Native.callUnary_wf defs op (fun v hv => w _ (List.mem_cons_self ..) v hv)
      | [p0, p1], w =>
        exact Native.callBinary_wf defs op (fun v hv => w _ (List.mem_cons_self ..) v hv)
          (fun v hv => w _ (List.mem_cons_of_mem _ (List.mem_cons_self ..)) v hv)
      | _ :: _ :: _ :: _, _ => trivial

theorem Native.call_wf (defs : ListDefs) (op : Op) {ps : List Obj}
    (w : ∀ p ∈ ps, ∀ v, p = .val v → v.WF) {v : Val} (h : Native.call defs op ps = .ok (.val v)) :
    v.WF := by
  have := Native.call_wf' defs op w
  rwa [h] at this

/-! ## 7. Expression trees -/

theorem originNames_equiv {a b : InkList} (h : InkList.Equiv a b) :
    (a.originNames = none ∧ b.originNames = none) ∨
      ∃ x y, a.originNames = some x ∧ b.originNames = some y ∧ x.Perm y := by
  unfold InkList.originNames
  rw [← perm_isEmpty h.1]
  split
  · exact Or.inr ⟨_, _, rfl, rfl, h.2.2⟩
  · exact Or.inr ⟨_, _, rfl, rfl, h.1.filterMap _⟩

theorem Expr.pushNorm_equiv (defs : ListDefs) {v v' : Val} (h : Val.Equiv v v') :
    Out.Equiv Val.Equiv (Expr.pushNorm defs v) (Expr.pushNorm defs v') := by
  rcases h.cases with ⟨l, l', rfl, rfl, hl⟩ | ⟨_, rfl⟩
  · simp only [Expr.pushNorm]
    rcases originNames_equiv hl with ⟨e, e'⟩ | ⟨x, y, e, e', hp⟩
    · rw [e, e']; rfl
    · rw [e, e']
      exact ⟨hl.1, hp.filter _, hl.2.2⟩
  · exact Out.equiv_val_refl _

theorem Expr.pushNorm_wf (defs : ListDefs) {v : Val} (h : v.WF) : Out.WF (Expr.pushNorm defs v) := by
  cases v with
  | list l =>
    simp only [Expr.pushNorm]
    split
    · trivial
    · exact h
  | _ => exact h

theorem forall₂_map_val {args args' : List Val} (h : List.Forall₂ Val.Equiv args args') :
    List.Forall₂ Obj.Equiv (args.map Obj.val) (args'.map Obj.val) := by
  induction h with
  | nil => exact .nil
  | cons hab _ ih => exact .cons hab ih

theorem wf_map_val {args : List Val} (w : ∀ v ∈ args, v.WF) :
    ∀ p ∈ args.map Obj.val, ∀ v, p = .val v → v.WF := by
  intro p hp v hv
  obtain ⟨a, ha, rfl⟩ := List.mem_map.1 hp
  cases hv
  exact w _ ha

theorem forall₂_wf {args args' : List Val} (h : List.Forall₂ Val.Equiv args args')
    (w : ∀ v ∈ args, v.WF) : ∀ v ∈ args', v.WF := by
  induction h with
  | nil => intro v hv; cases hv
  | cons hab _ ih =>
    intro v hv
    rcases List.mem_cons.1 hv with rfl | hv
    · exact (w _ (List.mem_cons_self ..)).equiv hab
    · exact ih (fun v hv => w v (List.mem_cons_of_mem _ hv)) v hv

theorem Expr.nativeVal_equiv {defs : ListDefs} (hd : DefsFunctional defs) (op : Op)
    {args args' : List Val} (h : List.Forall₂ Val.Equiv args args') (w : ∀ v ∈ args, v.WF) :
    Out.Equiv Val.Equiv (Expr.nativeVal defs op args) (Expr.nativeVal defs op args') := by
  unfold Expr.nativeVal
  rcases (Native.call_equiv hd op (forall₂_map_val h) (wf_map_val w)
      (wf_map_val (forall₂_wf h w))).cases with ⟨o, o', e, e', ho⟩ | ⟨k, m, e, e'⟩ | ⟨s, e, e'⟩
  · rw [e, e']
    rcases ho.cases with ⟨v, v', rfl, rfl, hv⟩ | ⟨n, rfl⟩
    · exact Expr.pushNorm_equiv defs hv
    · cases o <;> first | exact absurd rfl (n _) | rfl
  · rw [e, e']; exact ⟨rfl, rfl⟩
  · rw [e, e']; rfl

theorem Expr.nativeVal_wf (defs : ListDefs) (op : Op) {args : List Val} (w : ∀ v ∈ args, v.WF) :
    Out.WF (Expr.nativeVal defs op args) := by
  unfold Expr.nativeVal
  split
  · rename_i v e
    exact Expr.pushNorm_wf defs (Native.call_wf defs op (wf_map_val w) e)
  all_goals trivial

/-! ### `Expr.eval` -/

def EnvEquiv (env env' : List (String × Val)) : Prop :=
  List.Forall₂ (fun a b => a.1 = b.1 ∧ Val.Equiv a.2 b.2) env env'

def EnvWF (env : List (String × Val)) : Prop := ∀ kv ∈ env, kv.2.WF

/-- Every literal list in the tree has unique keys. -/
def Expr.LitWF : Expr → Prop
  | .lit v => v.WF
  | .var _ => True
  | .un _ e => e.LitWF
  | .bin _ l r => l.LitWF ∧ r.LitWF
  | .fromInt _ e => e.LitWF
  | .range l lo hi => l.LitWF ∧ lo.LitWF ∧ hi.LitWF

theorem Out.Equiv.bind' {α β : Type} {r : α → α → Prop} {s : β → β → Prop} {x x' : Out α}
    {f f' : α → Out β} (hx : Out.Equiv r x x')
    (hf : ∀ a a', x = .ok a → r a a' → Out.Equiv s (f a) (f' a')) :
    Out.Equiv s (x.bind f) (x'.bind f') := by
  rcases hx.cases with ⟨a, a', rfl, rfl, h⟩ | ⟨k, m, rfl, rfl⟩ | ⟨s, rfl, rfl⟩
  · exact hf a a' rfl h
  · exact ⟨rfl, rfl⟩
  · rfl

theorem Out.WF.bind {x : Out Val} {f : Val → Out Val} (hf : ∀ a, x = .ok a → Out.WF (f a)) :
    Out.WF (x.bind f) := by
  cases x with
  | ok a => exact hf a rfl
  | err k m => trivial
  | panic s => trivial

/-- The `ListName(n)` step of `eval`. -/
def Expr.fromIntVal (defs : ListDefs) (ln : String) : Val → Out Val
  | .int iv =>
    (match defs.find ln with
    | none => .invalid ("Failed to find List called " ++ ln)
    | some items =>
      Expr.pushNorm defs (.list (match ListDefs.itemWithValue items iv with
        | some nm => InkList.single { origin := some ln, name := nm } iv
        | none => InkList.empty)))
  | _ => .invalid "Passed non-integer when creating a list element from a numerical value."

/-- The `LIST_RANGE` step of `eval`. -/
def Expr.rangeVal (defs : ListDefs) (lv lov hiv : Val) : Out Val :=
  match lv with
  | .list ll => Expr.pushNorm defs (.list (ll.subRange lov hiv))
  | _ => .invalid "Expected List, minimum and maximum for LIST_RANGE"

theorem Expr.eval_un (defs : ListDefs) (env : List (String × Val)) (op : Op) (e : Expr) :
    (Expr.un op e).eval defs env = (e.eval defs env).bind (fun v => Expr.nativeVal defs op [v]) := by
  simp only [Expr.eval]
  cases e.eval defs env <;> rfl

theorem Expr.eval_bin (defs : ListDefs) (env : List (String × Val)) (op : Op) (l r : Expr) :
    (Expr.bin op l r).eval defs env =
      (l.eval defs env).bind (fun a => (r.eval defs env).bind (fun b =>
        Expr.nativeVal defs op [a, b])) := by
  simp only [Expr.eval]
  cases l.eval defs env with
  | ok a => cases r.eval defs env <;> rfl
  | err k m => rfl
  | panic s => rfl

theorem Expr.eval_fromInt (defs : ListDefs) (env : List (String × Val)) (ln : String) (e : Expr) :
    (Expr.fromInt ln e).eval defs env = (e.eval defs env).bind (Expr.fromIntVal defs ln) := by
  simp only [Expr.eval]
  cases e.eval defs env with
  | ok a => cases a <;> rfl
  | err k m => rfl
  | panic s => rfl

theorem Expr.eval_range (defs : ListDefs) (env : List (String × Val)) (l lo hi : Expr) :
    (Expr.range l lo hi).eval defs env =
      (l.eval defs env).bind (fun lv => (lo.eval defs env).bind (fun lov =>
        (hi.eval defs env).bind (fun hiv => Expr.rangeVal defs lv lov hiv))) := by
  simp only [Expr.eval]
  cases l.eval defs env with
  | ok a =>
    cases lo.eval defs env with
    | ok b =>
      cases hi.eval defs env with
      | ok c => cases a <;> rfl
      | err k m => rfl
      | panic s => rfl
    | err k m => rfl
    | panic s => rfl
  | err k m => rfl
  | panic s => rfl

theorem env_find_equiv {env env' : List (String × Val)} (h : EnvEquiv env env') (n : String) :
    (env.find? (fun kv => kv.1 == n) = none ∧ env'.find? (fun kv => kv.1 == n) = none) ∨
      ∃ kv kv', env.find? (fun kv => kv.1 == n) = some kv ∧
        env'.find? (fun kv => kv.1 == n) = some kv' ∧ Val.Equiv kv.2 kv'.2 := by
  induction h with
  | nil => exact Or.inl ⟨rfl, rfl⟩
  | @cons a b l₁ l₂ hab _ ih =>
    simp only [List.find?_cons, ← hab.1]
    cases a.1 == n with
    | true => exact Or.inr ⟨a, b, rfl, rfl, hab.2⟩
    | false => exact ih

theorem Expr.fromIntVal_equiv (defs : ListDefs) (ln : String) {v v' : Val} (h : Val.Equiv v v') :
    Out.Equiv Val.Equiv (Expr.fromIntVal defs ln v) (Expr.fromIntVal defs ln v') := by
  rcases h.cases with ⟨l, l', rfl, rfl, _⟩ | ⟨_, rfl⟩
  · exact ⟨rfl, rfl⟩
  · exact Out.equiv_val_refl _

theorem Expr.fromIntVal_wf (defs : ListDefs) (ln : String) (v : Val) :
    Out.WF (Expr.fromIntVal defs ln v) := by
  unfold Expr.fromIntVal
  split
  · split
    · trivial
    · refine Expr.pushNorm_wf defs ?_
      show KeysNodup _
      split
      · exact keysNodup_single _ _
      · exact keysNodup_empty
  · trivial

theorem subRange_equiv {l l' : InkList} (h : InkList.Equiv l l') {lo lo' hi hi' : Val}
    (hlo : Val.Equiv lo lo') (hhi : Val.Equiv hi hi') :
    InkList.Equiv (l.subRange lo hi) (l'.subRange lo' hi') := by
  have blo : BoundPerm lo lo' := by
    rcases hlo.cases with ⟨x, y, rfl, rfl, hxy⟩ | ⟨_, rfl⟩
    · exact .list hxy.1
    · exact .refl _
  have bhi : BoundPerm hi hi' := by
    rcases hhi.cases with ⟨x, y, rfl, rfl, hxy⟩ | ⟨_, rfl⟩
    · exact .list hxy.1
    · exact .refl _
  refine ⟨?_, ?_, ?_⟩
  · rw [subRange_perm_bounds h.1 blo bhi]
  · rw [subRange_eq, subRange_eq, perm_isEmpty h.1]; split <;> exact List.Perm.refl _
  · rw [subRange_eq, subRange_eq, perm_isEmpty h.1]
    split
    · exact List.Perm.refl _
    · exact h.2.2

theorem Expr.rangeVal_equiv (defs : ListDefs) {lv lv' lo lo' hi hi' : Val} (hl : Val.Equiv lv lv')
    (hlo : Val.Equiv lo lo') (hhi : Val.Equiv hi hi') :
    Out.Equiv Val.Equiv (Expr.rangeVal defs lv lo hi) (Expr.rangeVal defs lv' lo' hi') := by
  rcases hl.cases with ⟨l, l', rfl, rfl, h⟩ | ⟨n, rfl⟩
  · exact Expr.pushNorm_equiv defs
      (show Val.Equiv (.list _) (.list _) from subRange_equiv h hlo hhi)
  · cases lv <;> first | exact absurd rfl (n _) | exact ⟨rfl, rfl⟩

theorem Expr.rangeVal_wf (defs : ListDefs) {lv : Val} (w : lv.WF) (lo hi : Val) :
    Out.WF (Expr.rangeVal defs lv lo hi) := by
  cases lv with
  | list l =>
    exact Expr.pushNorm_wf defs (show Val.WF (.list _) from keysNodup_subRange w lo hi)
  | _ => trivial

/-- An `.ok` result of `eval` is well-formed. -/
theorem Expr.eval_wf' (defs : ListDefs) {env : List (String × Val)} (hw : EnvWF env) :
    ∀ {e : Expr}, e.LitWF → Out.WF (e.eval defs env)
  | .lit v, hl => Expr.pushNorm_wf defs hl
  | .var n, _ => by
    simp only [Expr.eval]
    cases hf : env.find? (fun kv => kv.1 == n) with
    | none => trivial
    | some kv => exact Expr.pushNorm_wf defs (hw kv (List.mem_of_find?_eq_some hf))
  | .un op e, hl => by
    rw [Expr.eval_un]
    refine Out.WF.bind (fun a ha => Expr.nativeVal_wf defs op ?_)
    have := Expr.eval_wf' defs hw (e := e) hl
    rw [ha] at this
    intro v hv
    cases List.mem_singleton.1 hv
    exact this
  | .bin op l r, hl => by
    rw [Expr.eval_bin]
    refine Out.WF.bind (fun a ha => Out.WF.bind (fun b hb => Expr.nativeVal_wf defs op ?_))
    have h1 := Expr.eval_wf' defs hw (e := l) hl.1
    have h2 := Expr.eval_wf' defs hw (e := r) hl.2
    rw [ha] at h1
    rw [hb] at h2
    intro v hv
    rcases List.mem_cons.1 hv with rfl | hv
    · exact h1
    · cases List.mem_singleton.1 hv; exact h2
  | .fromInt ln e, _ => by
    rw [Expr.eval_fromInt]
    exact Out.WF.bind (fun a _ => Expr.fromIntVal_wf defs ln a)
  | .range l lo hi, hl => by
    rw [Expr.eval_range]
    refine Out.WF.bind (fun a ha => Out.WF.bind (fun b _ => Out.WF.bind (fun c _ => ?_)))
    have h1 := Expr.eval_wf' defs hw (e := l) hl.1
    rw [ha] at h1
    exact Expr.rangeVal_wf defs h1 b c

theorem Expr.eval_wf (defs : ListDefs) {env : List (String × Val)} (hw : EnvWF env) {e : Expr}
    (hl : e.LitWF) {v : Val} (h : e.eval defs env = .ok v) : v.WF := by
  have := Expr.eval_wf' defs hw hl
  rwa [h] at this

/-- **Expression level.**  Environments that differ only in the order of the items / origin
    names of their list values give equivalent outcomes for every expression tree. -/
theorem Expr.eval_equiv {defs : ListDefs} (hd : DefsFunctional defs) {env env' : List (String × Val)}
    (he : EnvEquiv env env') (hw : EnvWF env) (hw' : EnvWF env') :
    ∀ {e : Expr}, e.LitWF → Out.Equiv Val.Equiv (e.eval defs env) (e.eval defs env')
  | .lit v, _ => Out.equiv_val_refl _
  | .var n, _ => by
    simp only [Expr.eval]
    rcases env_find_equiv he n with ⟨e, e'⟩ | ⟨kv, kv', e, e', h⟩
    · rw [e, e']; exact ⟨rfl, rfl⟩
    · rw [e, e']; exact Expr.pushNorm_equiv defs h
  | .un op e, hl => by
    rw [Expr.eval_un, Expr.eval_un]
    refine Out.Equiv.bind' (Expr.eval_equiv hd he hw hw' (e := e) hl) ?_
    intro a a' ha h
    refine Expr.nativeVal_equiv hd op (.cons h .nil) ?_
    intro v hv
    cases List.mem_singleton.1 hv
    exact Expr.eval_wf defs hw (e := e) hl ha
  | .bin op l r, hl => by
    rw [Expr.eval_bin, Expr.eval_bin]
    refine Out.Equiv.bind' (Expr.eval_equiv hd he hw hw' (e := l) hl.1) ?_
    intro a a' ha h
    refine Out.Equiv.bind' (Expr.eval_equiv hd he hw hw' (e := r) hl.2) ?_
    intro b b' hb h'
    refine Expr.nativeVal_equiv hd op (.cons h (.cons h' .nil)) ?_
    intro v hv
    rcases List.mem_cons.1 hv with rfl | hv
    · exact Expr.eval_wf defs hw (e := l) hl.1 ha
    · cases List.mem_singleton.1 hv; exact Expr.eval_wf defs hw (e := r) hl.2 hb
  | .fromInt ln e, hl => by
    rw [Expr.eval_fromInt, Expr.eval_fromInt]
    exact Out.Equiv.bind (Expr.eval_equiv hd he hw hw' (e := e) hl)
      (fun _ _ h => Expr.fromIntVal_equiv defs ln h)
  | .range l lo hi, hl => by
    rw [Expr.eval_range, Expr.eval_range]
    refine Out.Equiv.bind (Expr.eval_equiv hd he hw hw' (e := l) hl.1) (fun _ _ h1 => ?_)
    refine Out.Equiv.bind (Expr.eval_equiv hd he hw hw' (e := lo) hl.2.1) (fun _ _ h2 => ?_)
    refine Out.Equiv.bind (Expr.eval_equiv hd he hw hw' (e := hi) hl.2.2) (fun _ _ h3 => ?_)
    exact Expr.rangeVal_equiv defs h1 h2 h3

/-- **Headline.**  The outcome of evaluating an expression tree does not depend on the hash
    order of the list values in the environment: an `.ok` value is matched by an `.ok` value with
    the same printed form (and equal up to the order of items / origin names); an error or a
    panic is matched by the very same error / panic. -/
theorem Expr.eval_order_independent {defs : ListDefs} (hd : DefsFunctional defs)
    {env env' : List (String × Val)} (he : EnvEquiv env env') (hw : EnvWF env) (hw' : EnvWF env')
    {e : Expr} (hl : e.LitWF) :
    (∀ v, e.eval defs env = .ok v →
      ∃ v', e.eval defs env' = .ok v' ∧ v'.display = v.display ∧ Val.Equiv v v') ∧
    (∀ k m, e.eval defs env = .err k m → e.eval defs env' = .err k m) ∧
    (∀ s, e.eval defs env = .panic s → e.eval defs env' = .panic s) := by
  have h := Expr.eval_equiv hd he hw hw' hl
  refine ⟨?_, ?_, ?_⟩
  · intro v hv
    rw [hv] at h
    obtain ⟨v', e', hvv⟩ := h.ok_left
    exact ⟨v', e', (Val.display_equiv hvv).symm, hvv⟩
  · intro k m hv
    rw [hv] at h
    exact h.err_left
  · intro s hv
    rw [hv] at h
    exact h.panic_left

/-! ## 8. Non-vacuity -/

namespace NativePermExample

def defs : ListDefs := [("L", [("a", 1), ("b", 2)])]
def a : ListItem := { origin := some "L", name := "a" }
def b : ListItem := { origin := some "L", name := "b" }
def l₁ : InkList := { items := [(a, 1), (b, 2)], origins := ["L"], initialOrigins := [] }
def l₂ : InkList := { items := [(b, 2), (a, 1)], origins := ["L"], initialOrigins := [] }
def env₁ : List (String × Val) := [("x", .list l₁)]
def env₂ : List (String × Val) := [("x", .list l₂)]

theorem a_ne_b : a ≠ b := by
  intro h
  have : a.name = b.name := by rw [h]
  exact absurd this (by decide)

theorem defsFunctional : DefsFunctional defs := by
  refine defsFunctional_of_nodup ?_
  intro d hd
  cases List.mem_singleton.1 hd
  show (["a", "b"] : List String).Nodup
  decide

theorem envEquiv : EnvEquiv env₁ env₂ :=
  .cons ⟨rfl, List.Perm.swap _ _ _, List.Perm.refl _, List.Perm.refl _⟩ .nil

theorem envWF₁ : EnvWF env₁ := by
  intro kv hkv
  cases List.mem_singleton.1 hkv
  show ([a, b] : List ListItem).Nodup
  simp [a_ne_b]

theorem envWF₂ : EnvWF env₂ := by
  intro kv hkv
  cases List.mem_singleton.1 hkv
  show ([b, a] : List ListItem).Nodup
  simp [Ne.symm a_ne_b]

/-- The two environments really differ. -/
example : l₁.items ≠ l₂.items := by
  intro h
  have : a = b := congrArg (fun l => (l.headD (a, 0)).1) h
  exact a_ne_b this

/-- The hypotheses of `Expr.eval_order_independent` are satisfiable with environments that
    differ in item order, for every expression whose literals are well-formed. -/
example (e : Expr) (hl : e.LitWF) :
    Out.Equiv Val.Equiv (e.eval defs env₁) (e.eval defs env₂) :=
  Expr.eval_equiv defsFunctional envEquiv envWF₁ envWF₂ hl

example : (Expr.bin .add (.var "x") (.lit (.int 1))).LitWF := ⟨trivial, trivial⟩


/-- Evaluation really succeeds on both sides, with values that differ in item order. -/
example : (Expr.var "x").eval defs env₁ = .ok (.list { l₁ with origins := ["L", "L"] }) ∧
    (Expr.var "x").eval defs env₂ = .ok (.list { l₂ with origins := ["L", "L"] }) := by
  constructor
  · simp [Expr.eval, env₁, l₁, Expr.pushNorm, InkList.originNames, defs, ListDefs.find, a, b]
  · simp [Expr.eval, env₂, l₂, Expr.pushNorm, InkList.originNames, defs, ListDefs.find, a, b]

end NativePermExample

end Ink
