/-
  Proofs/Lemmas/ListPerm.lean — the list operations of `Ink/InkList.lean` are
  functions of the *set* of (item, value) pairs: every observable result is
  independent of the order of the association lists that stand for the hash
  iteration order.  Core Lean only.
-/
import Ink.InkList

namespace Ink
open InkList

/-! ## General helpers -/

theorem ListItem.beq_iff (a b : ListItem) : (a == b) = true ↔ a = b := by
  cases a with | mk o n => cases b with | mk o' n' =>
  show instBEqListItem.beq _ _ = true ↔ _
  simp [instBEqListItem.beq]

instance : LawfulBEq ListItem where
  eq_of_beq h := (ListItem.beq_iff _ _).1 h
  rfl := (ListItem.beq_iff _ _).2 rfl

theorem perm_isEmpty {α : Type} {l₁ l₂ : List α} (h : l₁.Perm l₂) : l₁.isEmpty = l₂.isEmpty := by
  cases l₁ <;> cases l₂ <;> simp_all

theorem optStrLt_irrefl (a : Option String) : optStrLt a a = false := by
  cases a <;> simp [optStrLt, String.lt_irrefl]

theorem optStrLt_trans {a b c : Option String} (h1 : optStrLt a b = true) (h2 : optStrLt b c = true) :
    optStrLt a c = true := by
  cases a <;> cases b <;> cases c <;> simp_all [optStrLt]
  exact String.lt_trans h1 h2

theorem optStrLt_asymm {a b : Option String} (h1 : optStrLt a b = true) : optStrLt b a = false := by
  cases a <;> cases b <;> simp_all [optStrLt]
  exact String.not_lt.1 (String.lt_asymm h1)

theorem str_lt_total {a b : String} (h : a ≠ b) : a < b ∨ b < a := by
  rcases Classical.em (a < b) with h1 | h1
  · exact Or.inl h1
  · rcases Classical.em (b < a) with h2 | h2
    · exact Or.inr h2
    · exact absurd (String.le_antisymm (String.not_lt.1 h2) (String.not_lt.1 h1)) h

theorem optStrLt_total {a b : Option String} (h : a ≠ b) : optStrLt a b = true ∨ optStrLt b a = true := by
  cases a <;> cases b <;> simp_all [optStrLt]
  exact str_lt_total h

theorem itemLt_iff (a b : ListItem × Int) : itemLt a b = true ↔
    (a.2 < b.2 ∨ (a.2 = b.2 ∧ (optStrLt a.1.origin b.1.origin = true ∨
      (a.1.origin = b.1.origin ∧ a.1.name < b.1.name)))) := by
  simp [itemLt]

theorem itemLt_irrefl (a : ListItem × Int) : itemLt a a = false := by
  rw [← Bool.not_eq_true, itemLt_iff]
  simp [optStrLt_irrefl, String.lt_irrefl]

theorem itemLt_trans {a b c : ListItem × Int} (h1 : itemLt a b = true) (h2 : itemLt b c = true) :
    itemLt a c = true := by
  rw [itemLt_iff] at *
  rcases h1 with h1 | ⟨e1, h1⟩ <;> rcases h2 with h2 | ⟨e2, h2⟩
  · left; omega
  · left; omega
  · left; omega
  · right; refine ⟨by omega, ?_⟩
    rcases h1 with h1 | ⟨o1, h1⟩ <;> rcases h2 with h2 | ⟨o2, h2⟩
    · exact Or.inl (optStrLt_trans h1 h2)
    · left; rw [← o2]; exact h1
    · left; rw [o1]; exact h2
    · right; exact ⟨o1.trans o2, String.lt_trans h1 h2⟩

theorem itemLt_asymm {a b : ListItem × Int} (h1 : itemLt a b = true) : itemLt b a = false := by
  rw [← Bool.not_eq_true]
  intro h2
  have := itemLt_trans h1 h2
  rw [itemLt_irrefl] at this
  cases this

theorem itemLt_total {a b : ListItem × Int} (h : a ≠ b) : itemLt a b = true ∨ itemLt b a = true := by
  rw [itemLt_iff, itemLt_iff]
  obtain ⟨⟨ao, an⟩, av⟩ := a
  obtain ⟨⟨bo, bn⟩, bv⟩ := b
  simp only at *
  rcases Int.lt_trichotomy av bv with hv | hv | hv
  · exact Or.inl (Or.inl hv)
  · subst hv
    by_cases ho : ao = bo
    · subst ho
      have hn : an ≠ bn := by
        intro e; subst e; exact h rfl
      rcases str_lt_total hn with h3 | h3
      · exact Or.inl (Or.inr ⟨rfl, Or.inr ⟨rfl, h3⟩⟩)
      · exact Or.inr (Or.inr ⟨rfl, Or.inr ⟨rfl, h3⟩⟩)
    · rcases optStrLt_total ho with h3 | h3
      · exact Or.inl (Or.inr ⟨rfl, Or.inl h3⟩)
      · exact Or.inr (Or.inr ⟨rfl, Or.inl h3⟩)
  · exact Or.inr (Or.inl hv)

/-! ## 2. `maxItem` / `minItem` -/

/-- A Boolean strict total order. -/
structure StrictTotal {T : Type} (lt : T → T → Bool) : Prop where
  irrefl : ∀ a, lt a a = false
  trans : ∀ {a b c}, lt a b = true → lt b c = true → lt a c = true
  total : ∀ {a b}, a ≠ b → lt a b = true ∨ lt b a = true

theorem itemLt_strictTotal : StrictTotal itemLt :=
  ⟨itemLt_irrefl, itemLt_trans, itemLt_total⟩

theorem itemGt_strictTotal : StrictTotal (fun a b : ListItem × Int => itemLt b a) :=
  ⟨itemLt_irrefl, fun h1 h2 => itemLt_trans h2 h1, fun h => (itemLt_total h).symm⟩

theorem StrictTotal.asymm {T : Type} {lt : T → T → Bool} (h : StrictTotal lt) {a b : T}
    (h1 : lt a b = true) : lt b a = false := by
  rw [← Bool.not_eq_true]
  intro h2
  have := h.trans h1 h2
  rw [h.irrefl] at this
  cases this

/-- `¬ a < b → ¬ b < c → ¬ a < c` (negative transitivity). -/
theorem StrictTotal.not_lt_trans {T : Type} {lt : T → T → Bool} (h : StrictTotal lt) {a b c : T}
    (h1 : lt a b = false) (h2 : lt b c = false) : lt a c = false := by
  rw [← Bool.not_eq_true]
  intro h3
  by_cases hab : a = b
  · subst hab; rw [h2] at h3; cases h3
  · rcases h.total hab with h4 | h4
    · rw [h1] at h4; cases h4
    · have := h.trans h4 h3
      rw [h2] at this; cases this

/-- The fold shared by `maxItem` and `minItem`. -/
def foldBest {T : Type} (lt : T → T → Bool) (init : Option T) (l : List T) : Option T :=
  l.foldl (fun best kv => match best with
    | none => some kv
    | some b => if lt b kv then some kv else some b) init

theorem maxItem_eq_foldBest (l : InkList) : l.maxItem = foldBest itemLt none l.items := by
  unfold InkList.maxItem foldBest
  congr 1
  funext best kv
  cases best <;> rfl

theorem minItem_eq_foldBest (l : InkList) :
    l.minItem = foldBest (fun a b => itemLt b a) none l.items := by
  unfold InkList.minItem foldBest
  congr 1
  funext best kv
  cases best <;> rfl

theorem foldBest_nil {T : Type} (lt : T → T → Bool) (init : Option T) : foldBest lt init [] = init := rfl

theorem foldBest_cons_none {T : Type} (lt : T → T → Bool) (x : T) (l : List T) :
    foldBest lt none (x :: l) = foldBest lt (some x) l := rfl

theorem foldBest_cons_some {T : Type} (lt : T → T → Bool) (b x : T) (l : List T) :
    foldBest lt (some b) (x :: l) = foldBest lt (some (if lt b x then x else b)) l := by
  simp only [foldBest, List.foldl_cons]
  split <;> rfl

theorem foldBest_some_spec {T : Type} {lt : T → T → Bool} (h : StrictTotal lt) (b : T) (l : List T) :
    ∃ m, foldBest lt (some b) l = some m ∧ m ∈ b :: l ∧ ∀ x ∈ b :: l, lt m x = false := by
  induction l generalizing b with
  | nil =>
    refine ⟨b, rfl, List.mem_singleton.2 rfl, ?_⟩
    intro x hx
    rw [List.mem_singleton.1 hx]; exact h.irrefl b
  | cons y ys ih =>
    rw [foldBest_cons_some]
    by_cases hby : lt b y = true
    · rw [if_pos hby]
      obtain ⟨m, hm, hmem, hge⟩ := ih y
      refine ⟨m, hm, List.mem_cons_of_mem _ hmem, ?_⟩
      intro x hx
      rcases List.mem_cons.1 hx with rfl | hx
      · have hmy := hge y (List.mem_cons_self)
        rw [← Bool.not_eq_true]
        intro hmx
        have := h.trans hmx hby
        rw [hmy] at this; cases this
      · exact hge x hx
    · rw [if_neg hby]
      have hby' : lt b y = false := by simpa using hby
      obtain ⟨m, hm, hmem, hge⟩ := ih b
      refine ⟨m, hm, ?_, ?_⟩
      · rcases List.mem_cons.1 hmem with rfl | hmem
        · exact List.mem_cons_self
        · exact List.mem_cons_of_mem _ (List.mem_cons_of_mem _ hmem)
      · intro x hx
        rcases List.mem_cons.1 hx with rfl | hx
        · exact hge _ List.mem_cons_self
        · rcases List.mem_cons.1 hx with rfl | hx
          · exact h.not_lt_trans (hge b List.mem_cons_self) hby'
          · exact hge x (List.mem_cons_of_mem _ hx)

theorem foldBest_none_spec {T : Type} {lt : T → T → Bool} (h : StrictTotal lt) (l : List T) {m : T}
    (hm : foldBest lt none l = some m) : m ∈ l ∧ ∀ x ∈ l, lt m x = false := by
  cases l with
  | nil => cases hm
  | cons y ys =>
    rw [foldBest_cons_none] at hm
    obtain ⟨m', hm', hmem, hge⟩ := foldBest_some_spec h y ys
    rw [hm'] at hm
    cases hm
    exact ⟨hmem, hge⟩

theorem foldBest_none_iff {T : Type} {lt : T → T → Bool} (h : StrictTotal lt) (l : List T) :
    foldBest lt none l = none ↔ l = [] := by
  cases l with
  | nil => simp [foldBest_nil]
  | cons y ys =>
    rw [foldBest_cons_none]
    obtain ⟨m', hm', _, _⟩ := foldBest_some_spec h y ys
    simp [hm']

theorem foldBest_perm {T : Type} {lt : T → T → Bool} (h : StrictTotal lt) {l₁ l₂ : List T}
    (hp : l₁.Perm l₂) : foldBest lt none l₁ = foldBest lt none l₂ := by
  cases h1 : foldBest lt none l₁ with
  | none =>
    have := (foldBest_none_iff h l₁).1 h1
    subst this
    have : l₂ = [] := hp.symm.eq_nil
    subst this
    rfl
  | some m₁ =>
    cases h2 : foldBest lt none l₂ with
    | none =>
      have := (foldBest_none_iff h l₂).1 h2
      subst this
      have : l₁ = [] := hp.eq_nil
      subst this
      cases h1
    | some m₂ =>
      obtain ⟨hm1, hg1⟩ := foldBest_none_spec h l₁ h1
      obtain ⟨hm2, hg2⟩ := foldBest_none_spec h l₂ h2
      have e1 := hg1 m₂ (hp.mem_iff.2 hm2)
      have e2 := hg2 m₁ (hp.mem_iff.1 hm1)
      by_cases hne : m₁ = m₂
      · rw [hne]
      · rcases h.total hne with h3 | h3
        · rw [e1] at h3; cases h3
        · rw [e2] at h3; cases h3

theorem maxItem_mem {l : InkList} {m : ListItem × Int} (h : l.maxItem = some m) : m ∈ l.items :=
  (foldBest_none_spec itemLt_strictTotal l.items (maxItem_eq_foldBest l ▸ h)).1

theorem maxItem_ge {l : InkList} {m : ListItem × Int} (h : l.maxItem = some m) :
    ∀ x ∈ l.items, itemLt m x = false :=
  (foldBest_none_spec itemLt_strictTotal l.items (maxItem_eq_foldBest l ▸ h)).2

theorem maxItem_none (l : InkList) : l.maxItem = none ↔ l.items = [] := by
  rw [maxItem_eq_foldBest]; exact foldBest_none_iff itemLt_strictTotal l.items

theorem maxItem_perm {a b : InkList} (h : a.items.Perm b.items) : a.maxItem = b.maxItem := by
  rw [maxItem_eq_foldBest, maxItem_eq_foldBest]; exact foldBest_perm itemLt_strictTotal h

theorem minItem_mem {l : InkList} {m : ListItem × Int} (h : l.minItem = some m) : m ∈ l.items :=
  (foldBest_none_spec itemGt_strictTotal l.items (minItem_eq_foldBest l ▸ h)).1

/-- The minimum is below every item. -/
theorem minItem_le {l : InkList} {m : ListItem × Int} (h : l.minItem = some m) :
    ∀ x ∈ l.items, itemLt x m = false :=
  (foldBest_none_spec itemGt_strictTotal l.items (minItem_eq_foldBest l ▸ h)).2

theorem minItem_none (l : InkList) : l.minItem = none ↔ l.items = [] := by
  rw [minItem_eq_foldBest]; exact foldBest_none_iff itemGt_strictTotal l.items

theorem minItem_perm {a b : InkList} (h : a.items.Perm b.items) : a.minItem = b.minItem := by
  rw [minItem_eq_foldBest, minItem_eq_foldBest]; exact foldBest_perm itemGt_strictTotal h

/-- Uniqueness: the characterisation determines the maximum. -/
theorem maxItem_unique {l : InkList} {m : ListItem × Int} (hm : m ∈ l.items)
    (hge : ∀ x ∈ l.items, itemLt m x = false) : l.maxItem = some m := by
  cases h : l.maxItem with
  | none => rw [(maxItem_none l).1 h] at hm; cases hm
  | some m' =>
    by_cases hne : m' = m
    · rw [hne]
    · have e1 := hge m' (maxItem_mem h)
      have e2 := maxItem_ge h m hm
      rcases itemLt_total hne with h3 | h3
      · rw [e2] at h3; cases h3
      · rw [e1] at h3; cases h3

theorem minItem_unique {l : InkList} {m : ListItem × Int} (hm : m ∈ l.items)
    (hle : ∀ x ∈ l.items, itemLt x m = false) : l.minItem = some m := by
  cases h : l.minItem with
  | none => rw [(minItem_none l).1 h] at hm; cases hm
  | some m' =>
    by_cases hne : m' = m
    · rw [hne]
    · have e1 := hle m' (minItem_mem h)
      have e2 := minItem_le h m hm
      rcases itemLt_total hne with h3 | h3
      · rw [e1] at h3; cases h3
      · rw [e2] at h3; cases h3

/-- Alias of `minItem_le` under the name of the `maxItem` analogue. -/
theorem minItem_ge {l : InkList} {m : ListItem × Int} (h : l.minItem = some m) :
    ∀ x ∈ l.items, itemLt x m = false := minItem_le h

/-! ## 3. `ordered` and `display` -/

/-- Sortedness in the order of `ordered`: no later element is strictly below an earlier one. -/
def ItemSorted (l : List (ListItem × Int)) : Prop := l.Pairwise (fun x y => itemLt y x = false)

theorem insertSortedItem_perm (x : ListItem × Int) (l : List (ListItem × Int)) :
    (insertSortedItem x l).Perm (x :: l) := by
  induction l with
  | nil => exact List.Perm.refl _
  | cons y ys ih =>
    unfold insertSortedItem
    split
    · exact List.Perm.refl _
    · exact ((List.Perm.cons y ih).trans (List.Perm.swap x y ys))

theorem insertSortedItem_sorted (x : ListItem × Int) {l : List (ListItem × Int)} (h : ItemSorted l) :
    ItemSorted (insertSortedItem x l) := by
  induction l with
  | nil => exact List.pairwise_singleton _ _
  | cons y ys ih =>
    have hy := List.pairwise_cons.1 h
    unfold insertSortedItem
    split
    · rename_i hxy
      refine List.pairwise_cons.2 ⟨?_, h⟩
      intro z hz
      rcases List.mem_cons.1 hz with rfl | hz
      · exact itemLt_asymm hxy
      · have hzy := hy.1 z hz
        rw [← Bool.not_eq_true]
        intro hzx
        have := itemLt_trans hzx hxy
        rw [hzy] at this; cases this
    · rename_i hxy
      refine List.pairwise_cons.2 ⟨?_, ih hy.2⟩
      intro z hz
      rcases List.mem_cons.1 ((insertSortedItem_perm x ys).mem_iff.1 hz) with rfl | hz
      · simpa using hxy
      · exact hy.1 z hz

theorem foldl_insertSorted_perm (l acc : List (ListItem × Int)) :
    (l.foldl (fun acc x => insertSortedItem x acc) acc).Perm (l ++ acc) := by
  induction l generalizing acc with
  | nil => exact List.Perm.refl _
  | cons x xs ih =>
    rw [List.foldl_cons]
    refine (ih _).trans ?_
    refine ((insertSortedItem_perm x acc).append_left xs).trans ?_
    exact List.perm_middle

theorem foldl_insertSorted_sorted (l : List (ListItem × Int)) {acc : List (ListItem × Int)}
    (h : ItemSorted acc) : ItemSorted (l.foldl (fun acc x => insertSortedItem x acc) acc) := by
  induction l generalizing acc with
  | nil => exact h
  | cons x xs ih =>
    rw [List.foldl_cons]
    exact ih (insertSortedItem_sorted x h)

theorem ordered_perm_self (l : InkList) : l.ordered.Perm l.items := by
  have := foldl_insertSorted_perm l.items []
  rwa [List.append_nil] at this

theorem ordered_sorted (l : InkList) : l.ordered.Pairwise (fun x y => itemLt y x = false) :=
  foldl_insertSorted_sorted l.items List.Pairwise.nil

/-- Two sorted permutations of each other are equal. -/
theorem eq_of_perm_of_itemSorted {l₁ l₂ : List (ListItem × Int)} (hp : l₁.Perm l₂)
    (h1 : ItemSorted l₁) (h2 : ItemSorted l₂) : l₁ = l₂ := by
  refine List.Perm.eq_of_pairwise ?_ h1 h2 hp
  intro a b _ _ hab hba
  by_cases hne : a = b
  · exact hne
  · rcases itemLt_total hne with h3 | h3
    · rw [hba] at h3; cases h3
    · rw [hab] at h3; cases h3

theorem ordered_perm {a b : InkList} (h : a.items.Perm b.items) : a.ordered = b.ordered :=
  eq_of_perm_of_itemSorted
    ((ordered_perm_self a).trans (h.trans (ordered_perm_self b).symm))
    (ordered_sorted a) (ordered_sorted b)

theorem display_perm {a b : InkList} (h : a.items.Perm b.items) : a.display = b.display := by
  unfold InkList.display
  rw [ordered_perm h]

/-- `ordered` is the identity on a list that is already sorted. -/
theorem ordered_eq_self_of_sorted {l : InkList} (h : ItemSorted l.items) : l.ordered = l.items :=
  eq_of_perm_of_itemSorted (ordered_perm_self l) (ordered_sorted l) h

/-! ## 4. Association-list view: `lookup`, `KeysNodup` -/

/-- The keys of the association list are pairwise distinct (it is a map). -/
def KeysNodup (items : List (ListItem × Int)) : Prop := (items.map (·.1)).Nodup

/-- The map denoted by the association list (first binding wins). -/
def lookup (items : List (ListItem × Int)) (k : ListItem) : Option Int :=
  (items.find? (fun kv => kv.1 == k)).map (·.2)

/-- Equal keys carry equal values (weaker than `KeysNodup`; allows repeated pairs). -/
def Functional (items : List (ListItem × Int)) : Prop :=
  ∀ k v v', (k, v) ∈ items → (k, v') ∈ items → v = v'

@[simp] theorem lookup_nil (k : ListItem) : lookup [] k = none := rfl

theorem lookup_cons (k' : ListItem) (v : Int) (l : List (ListItem × Int)) (k : ListItem) :
    lookup ((k', v) :: l) k = if k' = k then some v else lookup l k := by
  unfold lookup
  rw [List.find?_cons]
  by_cases h : k' = k
  · simp [h]
  · have : (k' == k) = false := by simpa using h
    simp [h, this]

theorem lookup_append (l₁ l₂ : List (ListItem × Int)) (k : ListItem) :
    lookup (l₁ ++ l₂) k = (lookup l₁ k).or (lookup l₂ k) := by
  induction l₁ with
  | nil => simp
  | cons x xs ih =>
    obtain ⟨k', v⟩ := x
    rw [List.cons_append, lookup_cons, lookup_cons, ih]
    split <;> simp

theorem lookup_mem {l : List (ListItem × Int)} {k : ListItem} {v : Int} (h : lookup l k = some v) :
    (k, v) ∈ l := by
  induction l with
  | nil => cases h
  | cons x xs ih =>
    obtain ⟨k', v'⟩ := x
    rw [lookup_cons] at h
    split at h
    · rename_i hk; subst hk; cases h; exact List.mem_cons_self
    · exact List.mem_cons_of_mem _ (ih h)

theorem lookup_isSome_of_mem {l : List (ListItem × Int)} {k : ListItem} {v : Int} (h : (k, v) ∈ l) :
    ∃ v', lookup l k = some v' := by
  induction l with
  | nil => cases h
  | cons x xs ih =>
    obtain ⟨k', v'⟩ := x
    rw [lookup_cons]
    by_cases hk : k' = k
    · exact ⟨v', by rw [if_pos hk]⟩
    · rw [if_neg hk]
      rcases List.mem_cons.1 h with h | h
      · cases h; exact absurd rfl hk
      · exact ih h

theorem lookup_eq_none_iff {l : List (ListItem × Int)} {k : ListItem} :
    lookup l k = none ↔ k ∉ l.map (·.1) := by
  induction l with
  | nil => simp
  | cons x xs ih =>
    obtain ⟨k', v'⟩ := x
    rw [lookup_cons, List.map_cons, List.mem_cons]
    by_cases hk : k' = k
    · simp [hk]
    · rw [if_neg hk, ih]
      constructor
      · intro h1 h2
        rcases h2 with h2 | h2
        · exact hk h2.symm
        · exact h1 h2
      · intro h1 h2
        exact h1 (Or.inr h2)

theorem keysNodup_nil : KeysNodup [] := List.Pairwise.nil

theorem keysNodup_cons {k : ListItem} {v : Int} {l : List (ListItem × Int)} :
    KeysNodup ((k, v) :: l) ↔ lookup l k = none ∧ KeysNodup l := by
  unfold KeysNodup
  rw [List.map_cons, List.nodup_cons, lookup_eq_none_iff]

theorem keysNodup_iff_pairwise {l : List (ListItem × Int)} :
    KeysNodup l ↔ l.Pairwise (fun a b => a.1 ≠ b.1) := by
  unfold KeysNodup List.Nodup
  rw [List.pairwise_map]

theorem KeysNodup.perm {l₁ l₂ : List (ListItem × Int)} (h : KeysNodup l₁) (hp : l₁.Perm l₂) :
    KeysNodup l₂ :=
  ((hp.map (fun kv : ListItem × Int => kv.1)).nodup_iff).1 h

theorem KeysNodup.filter {l : List (ListItem × Int)} (h : KeysNodup l) (p : ListItem × Int → Bool) :
    KeysNodup (l.filter p) :=
  keysNodup_iff_pairwise.2 ((keysNodup_iff_pairwise.1 h).filter p)

theorem KeysNodup.nodup {l : List (ListItem × Int)} (h : KeysNodup l) : l.Nodup := by
  refine (keysNodup_iff_pairwise.1 h).imp ?_
  intro a b hab e
  exact hab (by rw [e])

theorem KeysNodup.functional {l : List (ListItem × Int)} (h : KeysNodup l) : Functional l := by
  induction l with
  | nil => intro k v v' h1; cases h1
  | cons x xs ih =>
    obtain ⟨k0, v0⟩ := x
    obtain ⟨hnone, hxs⟩ := keysNodup_cons.1 h
    intro k v v' h1 h2
    rcases List.mem_cons.1 h1 with h1 | h1 <;> rcases List.mem_cons.1 h2 with h2 | h2
    · cases h1; cases h2; rfl
    · cases h1
      obtain ⟨w, hw⟩ := lookup_isSome_of_mem h2
      rw [hnone] at hw; cases hw
    · cases h2
      obtain ⟨w, hw⟩ := lookup_isSome_of_mem h1
      rw [hnone] at hw; cases hw
    · exact ih hxs k v v' h1 h2

theorem Functional.perm {l₁ l₂ : List (ListItem × Int)} (h : Functional l₁) (hp : l₁.Perm l₂) :
    Functional l₂ :=
  fun k v v' h1 h2 => h k v v' (hp.mem_iff.2 h1) (hp.mem_iff.2 h2)

theorem lookup_eq_some_iff {l : List (ListItem × Int)} (h : Functional l) {k : ListItem} {v : Int} :
    lookup l k = some v ↔ (k, v) ∈ l := by
  constructor
  · exact lookup_mem
  · intro hm
    obtain ⟨v', hv'⟩ := lookup_isSome_of_mem hm
    rw [hv', h k v' v (lookup_mem hv') hm]

/-- `lookup` only depends on the set of pairs, for functional lists. -/
theorem lookup_perm_of_functional {l₁ l₂ : List (ListItem × Int)} (h : Functional l₁)
    (hp : l₁.Perm l₂) (k : ListItem) : lookup l₁ k = lookup l₂ k := by
  apply Option.ext
  intro v
  rw [lookup_eq_some_iff h, lookup_eq_some_iff (h.perm hp), hp.mem_iff]

theorem lookup_perm {l₁ l₂ : List (ListItem × Int)} (h : KeysNodup l₁) (hp : l₁.Perm l₂)
    (k : ListItem) : lookup l₁ k = lookup l₂ k :=
  lookup_perm_of_functional h.functional hp k

theorem perm_of_lookup_eq {l₁ l₂ : List (ListItem × Int)} (h1 : KeysNodup l₁) (h2 : KeysNodup l₂)
    (h : ∀ k, lookup l₁ k = lookup l₂ k) : l₁.Perm l₂ := by
  rw [List.perm_ext_iff_of_nodup h1.nodup h2.nodup]
  intro ⟨k, v⟩
  rw [← lookup_eq_some_iff h1.functional, ← lookup_eq_some_iff h2.functional, h k]

theorem containsKey_eq_lookup (l : InkList) (k : ListItem) :
    l.containsKey k = (lookup l.items k).isSome := by
  unfold InkList.containsKey
  induction l.items with
  | nil => rfl
  | cons x xs ih =>
    obtain ⟨k', v'⟩ := x
    rw [List.any_cons, lookup_cons, ih]
    by_cases hk : k' = k
    · simp [hk]
    · have : (k' == k) = false := by simpa using hk
      simp [hk, this]

/-! ### `insertItem` / `removeItem` -/

theorem lookup_insertItem (items : List (ListItem × Int)) (k : ListItem) (v : Int) (k' : ListItem) :
    lookup (insertItem items k v) k' = if k = k' then some v else lookup items k' := by
  induction items with
  | nil => rw [insertItem, lookup_cons]
  | cons x xs ih =>
    obtain ⟨k0, v0⟩ := x
    rw [insertItem]
    by_cases h0 : k0 = k
    · subst h0
      simp only [beq_self_eq_true, if_true, lookup_cons]
      split <;> rfl
    · have : (k0 == k) = false := by simpa using h0
      simp only [this, Bool.false_eq_true, if_false, lookup_cons, ih]
      by_cases h1 : k0 = k'
      · subst h1; simp [Ne.symm h0]
      · simp [h1]

theorem lookup_removeItem (items : List (ListItem × Int)) (k k' : ListItem) :
    lookup (removeItem items k) k' = if k = k' then none else lookup items k' := by
  unfold removeItem
  induction items with
  | nil => simp
  | cons x xs ih =>
    obtain ⟨k0, v0⟩ := x
    rw [List.filter_cons]
    by_cases h0 : k0 = k
    · subst h0
      simp only [beq_self_eq_true, Bool.not_true, Bool.false_eq_true, if_false, ih, lookup_cons]
      split <;> rfl
    · have : (k0 == k) = false := by simpa using h0
      simp only [this, Bool.not_false, if_true, lookup_cons, ih]
      by_cases h1 : k0 = k'
      · subst h1; simp [Ne.symm h0]
      · simp [h1]

theorem keysNodup_insertItem {items : List (ListItem × Int)} (h : KeysNodup items) (k : ListItem)
    (v : Int) : KeysNodup (insertItem items k v) := by
  induction items with
  | nil => exact keysNodup_cons.2 ⟨rfl, keysNodup_nil⟩
  | cons x xs ih =>
    obtain ⟨k0, v0⟩ := x
    obtain ⟨hnone, hxs⟩ := keysNodup_cons.1 h
    rw [insertItem]
    by_cases h0 : k0 = k
    · subst h0
      simp only [beq_self_eq_true, if_true]
      exact keysNodup_cons.2 ⟨hnone, hxs⟩
    · have : (k0 == k) = false := by simpa using h0
      simp only [this, Bool.false_eq_true, if_false]
      refine keysNodup_cons.2 ⟨?_, ih hxs⟩
      rw [lookup_insertItem, if_neg (Ne.symm h0), hnone]

theorem keysNodup_removeItem {items : List (ListItem × Int)} (h : KeysNodup items) (k : ListItem) :
    KeysNodup (removeItem items k) :=
  h.filter _

/-- Membership in `insertItem`, for a map. -/
theorem insertItem_perm {items : List (ListItem × Int)} (h : KeysNodup items) (k : ListItem)
    (v : Int) : (insertItem items k v).Perm ((k, v) :: removeItem items k) := by
  refine perm_of_lookup_eq (keysNodup_insertItem h k v)
    (keysNodup_cons.2 ⟨?_, keysNodup_removeItem h k⟩) ?_
  · rw [lookup_removeItem, if_pos rfl]
  · intro k'
    rw [lookup_insertItem, lookup_cons, lookup_removeItem]
    split <;> rfl

/-! ### Set operations -/

/-- The fold of `union`, for an arbitrary accumulator and without any uniqueness assumption:
    the *last* binding of the added list wins. -/
theorem lookup_foldl_insertItem (bs acc : List (ListItem × Int)) (k : ListItem) :
    lookup (bs.foldl (fun acc kv => insertItem acc kv.1 kv.2) acc) k
      = (lookup bs.reverse k).or (lookup acc k) := by
  induction bs generalizing acc with
  | nil => simp
  | cons x xs ih =>
    obtain ⟨k0, v0⟩ := x
    rw [List.foldl_cons, ih, List.reverse_cons, lookup_append, lookup_insertItem, lookup_cons,
      lookup_nil]
    cases lookup xs.reverse k with
    | none => simp only [Option.none_or]; split <;> simp
    | some w => simp

theorem keysNodup_foldl_insertItem (bs : List (ListItem × Int)) {acc : List (ListItem × Int)}
    (h : KeysNodup acc) : KeysNodup (bs.foldl (fun acc kv => insertItem acc kv.1 kv.2) acc) := by
  induction bs generalizing acc with
  | nil => exact h
  | cons x xs ih => exact ih (keysNodup_insertItem h _ _)

theorem lookup_reverse_of_functional {l : List (ListItem × Int)} (h : Functional l) (k : ListItem) :
    lookup l.reverse k = lookup l k :=
  (lookup_perm_of_functional h (List.reverse_perm l).symm k).symm

/-- `union` without the uniqueness assumption on `b`. -/
theorem lookup_union_reverse (a b : InkList) (k : ListItem) :
    lookup (a.union b).items k = (lookup b.items.reverse k).or (lookup a.items k) :=
  lookup_foldl_insertItem b.items a.items k

/-- Hypothesis `KeysNodup b.items` is needed: with `b.items = [(k,1),(k,2)]` the fold keeps `2`
    while `lookup` sees `1`.  (`Functional b.items` would be enough.) -/
theorem lookup_union {a b : InkList} (hb : KeysNodup b.items) (k : ListItem) :
    lookup (a.union b).items k =
      match lookup b.items k with
      | some v => some v
      | none => lookup a.items k := by
  rw [lookup_union_reverse, lookup_reverse_of_functional hb.functional]
  cases lookup b.items k <;> rfl

theorem keysNodup_union {a : InkList} (ha : KeysNodup a.items) (b : InkList) :
    KeysNodup (a.union b).items :=
  keysNodup_foldl_insertItem b.items ha

theorem lookup_foldl_removeItem (bs acc : List (ListItem × Int)) (k : ListItem) :
    lookup (bs.foldl (fun acc kv => removeItem acc kv.1) acc) k
      = if (lookup bs k).isSome then none else lookup acc k := by
  induction bs generalizing acc with
  | nil => simp
  | cons x xs ih =>
    obtain ⟨k0, v0⟩ := x
    rw [List.foldl_cons, ih, lookup_removeItem, lookup_cons]
    by_cases h0 : k0 = k
    · simp [h0]
    · simp [h0]

theorem lookup_without (a b : InkList) (k : ListItem) :
    lookup (a.without b).items k = if (lookup b.items k).isSome then none else lookup a.items k :=
  lookup_foldl_removeItem b.items a.items k

theorem foldl_removeItem_eq_filter (bs acc : List (ListItem × Int)) :
    bs.foldl (fun acc kv => removeItem acc kv.1) acc
      = acc.filter (fun kv => !(bs.any (fun x => x.1 == kv.1))) := by
  induction bs generalizing acc with
  | nil =>
    simp only [List.foldl_nil, List.any_nil, Bool.not_false]
    exact (List.filter_eq_self.2 (fun _ _ => rfl)).symm
  | cons x xs ih =>
    rw [List.foldl_cons, ih, removeItem, List.filter_filter]
    congr 1
    funext kv
    rw [List.any_cons, Bool.not_or, Bool.and_comm, BEq.comm (a := kv.1)]

/-- `without` is a filter of `a.items`. -/
theorem without_items (a b : InkList) :
    (a.without b).items = a.items.filter (fun kv => !(b.containsKey kv.1)) :=
  foldl_removeItem_eq_filter b.items a.items

theorem keysNodup_without {a : InkList} (ha : KeysNodup a.items) (b : InkList) :
    KeysNodup (a.without b).items := by
  rw [without_items]; exact ha.filter _

theorem lookup_filter_key (p : ListItem → Bool) (l : List (ListItem × Int)) (k : ListItem) :
    lookup (l.filter (fun kv => p kv.1)) k = if p k then lookup l k else none := by
  induction l with
  | nil => simp
  | cons x xs ih =>
    obtain ⟨k0, v0⟩ := x
    rw [List.filter_cons]
    by_cases h0 : k0 = k
    · subst h0
      cases hp : p k0 <;> simp [hp, lookup_cons, ih]
    · cases hp : p k0 <;> cases hp' : p k <;> simp [hp', lookup_cons, ih, h0]

/-- `lookup_intersect` needs no hypothesis at all. -/
theorem lookup_intersect' (a b : InkList) (k : ListItem) :
    lookup (a.intersect b).items k = if (lookup b.items k).isSome then lookup a.items k else none := by
  show lookup (a.items.filter (fun kv => b.containsKey kv.1)) k = _
  rw [lookup_filter_key (fun k => b.containsKey k), containsKey_eq_lookup]

theorem lookup_intersect {a b : InkList} (_ha : KeysNodup a.items) (k : ListItem) :
    lookup (a.intersect b).items k = if (lookup b.items k).isSome then lookup a.items k else none :=
  lookup_intersect' a b k

theorem keysNodup_intersect {a : InkList} (ha : KeysNodup a.items) (b : InkList) :
    KeysNodup (a.intersect b).items :=
  ha.filter _

/-! ### Permutation invariance of the set operations -/

theorem containsKey_perm {a a' : InkList} (h : a.items.Perm a'.items) (k : ListItem) :
    a.containsKey k = a'.containsKey k :=
  h.any_eq

theorem union_perm {a a' b b' : InkList} (ha : KeysNodup a.items) (hb : KeysNodup b.items)
    (hpa : a.items.Perm a'.items) (hpb : b.items.Perm b'.items) :
    (a.union b).items.Perm (a'.union b').items := by
  refine perm_of_lookup_eq (keysNodup_union ha b) (keysNodup_union (ha.perm hpa) b') ?_
  intro k
  rw [lookup_union hb, lookup_union (hb.perm hpb), lookup_perm ha hpa, lookup_perm hb hpb]

/-- No uniqueness assumption needed. -/
theorem without_perm {a a' b b' : InkList}
    (hpa : a.items.Perm a'.items) (hpb : b.items.Perm b'.items) :
    (a.without b).items.Perm (a'.without b').items := by
  rw [without_items, without_items]
  have : (fun kv : ListItem × Int => !(b.containsKey kv.1)) = (fun kv => !(b'.containsKey kv.1)) := by
    funext kv; rw [containsKey_perm hpb]
  rw [this]
  exact hpa.filter _

/-- No uniqueness assumption needed. -/
theorem intersect_perm {a a' b b' : InkList}
    (hpa : a.items.Perm a'.items) (hpb : b.items.Perm b'.items) :
    (a.intersect b).items.Perm (a'.intersect b').items := by
  show (a.items.filter (fun kv => b.containsKey kv.1)).Perm
    (a'.items.filter (fun kv => b'.containsKey kv.1))
  have : (fun kv : ListItem × Int => b.containsKey kv.1) = (fun kv => b'.containsKey kv.1) := by
    funext kv; rw [containsKey_perm hpb]
  rw [this]
  exact hpa.filter _

/-! ### Boolean / integer observations -/

theorem contains_perm {a a' b b' : InkList}
    (hpa : a.items.Perm a'.items) (hpb : b.items.Perm b'.items) :
    a.contains b = a'.contains b' := by
  unfold InkList.contains
  have : (fun kv : ListItem × Int => a.containsKey kv.1) = (fun kv => a'.containsKey kv.1) := by
    funext kv; rw [containsKey_perm hpa]
  rw [perm_isEmpty hpa, perm_isEmpty hpb, this, hpb.all_eq]

theorem eq_perm {a a' b b' : InkList}
    (hpa : a.items.Perm a'.items) (hpb : b.items.Perm b'.items) :
    a.eq b = a'.eq b' := by
  unfold InkList.eq
  have : (fun kv : ListItem × Int => b.containsKey kv.1) = (fun kv => b'.containsKey kv.1) := by
    funext kv; rw [containsKey_perm hpb]
  rw [hpa.length_eq, hpb.length_eq, this, hpa.all_eq]

theorem minVal_perm {a a' : InkList} (h : a.items.Perm a'.items) : a.minVal = a'.minVal := by
  unfold InkList.minVal; rw [minItem_perm h]

theorem maxVal_perm {a a' : InkList} (h : a.items.Perm a'.items) : a.maxVal = a'.maxVal := by
  unfold InkList.maxVal; rw [maxItem_perm h]

theorem greaterThan_perm {a a' b b' : InkList}
    (hpa : a.items.Perm a'.items) (hpb : b.items.Perm b'.items) :
    a.greaterThan b = a'.greaterThan b' := by
  unfold InkList.greaterThan
  rw [perm_isEmpty hpa, perm_isEmpty hpb, minVal_perm hpa, maxVal_perm hpb]

theorem greaterThanOrEquals_perm {a a' b b' : InkList}
    (hpa : a.items.Perm a'.items) (hpb : b.items.Perm b'.items) :
    a.greaterThanOrEquals b = a'.greaterThanOrEquals b' := by
  unfold InkList.greaterThanOrEquals
  rw [perm_isEmpty hpa, perm_isEmpty hpb, minVal_perm hpa, maxVal_perm hpb, minVal_perm hpb,
    maxVal_perm hpa]

theorem lessThan_perm {a a' b b' : InkList}
    (hpa : a.items.Perm a'.items) (hpb : b.items.Perm b'.items) :
    a.lessThan b = a'.lessThan b' := by
  unfold InkList.lessThan
  rw [perm_isEmpty hpa, perm_isEmpty hpb, maxVal_perm hpa, minVal_perm hpb]

theorem lessThanOrEquals_perm {a a' b b' : InkList}
    (hpa : a.items.Perm a'.items) (hpb : b.items.Perm b'.items) :
    a.lessThanOrEquals b = a'.lessThanOrEquals b' := by
  unfold InkList.lessThanOrEquals
  rw [perm_isEmpty hpa, perm_isEmpty hpb, minVal_perm hpa, maxVal_perm hpb, minVal_perm hpb,
    maxVal_perm hpa]

theorem maxAsList_perm {a a' : InkList} (h : a.items.Perm a'.items) : a.maxAsList = a'.maxAsList := by
  unfold InkList.maxAsList; rw [maxItem_perm h]

theorem minAsList_perm {a a' : InkList} (h : a.items.Perm a'.items) : a.minAsList = a'.minAsList := by
  unfold InkList.minAsList; rw [minItem_perm h]

/-! ## 5. Origin-based operations -/

/-- `findSome?` does not depend on the order when all successful candidates agree. -/
theorem findSome?_perm {α β : Type} {f : α → Option β} {l₁ l₂ : List α}
    (hag : ∀ x y b c, x ∈ l₁ → y ∈ l₁ → f x = some b → f y = some c → b = c)
    (hp : l₁.Perm l₂) : l₁.findSome? f = l₂.findSome? f := by
  have key : ∀ (l : List α), (∀ x y b c, x ∈ l → y ∈ l → f x = some b → f y = some c → b = c) →
      ∀ b, l.findSome? f = some b ↔ ∃ x ∈ l, f x = some b := by
    intro l hl b
    constructor
    · exact List.exists_of_findSome?_eq_some
    · intro ⟨x, hx, hfx⟩
      cases h : l.findSome? f with
      | none => rw [List.findSome?_eq_none_iff.1 h x hx] at hfx; cases hfx
      | some c =>
        obtain ⟨y, hy, hfy⟩ := List.exists_of_findSome?_eq_some h
        rw [hl y x c b hy hx hfy hfx]
  apply Option.ext
  intro b
  rw [key l₁ hag, key l₂ (fun x y b c hx hy => hag x y b c (hp.mem_iff.2 hx) (hp.mem_iff.2 hy))]
  constructor
  · intro ⟨x, hx, hfx⟩; exact ⟨x, hp.mem_iff.1 hx, hfx⟩
  · intro ⟨x, hx, hfx⟩; exact ⟨x, hp.mem_iff.2 hx, hfx⟩

/-- What the definition `name` contributes to `originItems` at key `k`. -/
def originContribution (defs : ListDefs) (name : String) (k : ListItem) : Option Int :=
  match defs.find name with
  | some items => lookup (ListDefs.itemsOf name items).reverse k
  | none => none

/-- One step of the `originItems` fold. -/
def originStep (defs : ListDefs) (acc : List (ListItem × Int)) (name : String) :
    List (ListItem × Int) :=
  match defs.find name with
  | some items => (ListDefs.itemsOf name items).foldl (fun acc kv => insertItem acc kv.1 kv.2) acc
  | none => acc

theorem originItems_eq_foldl (defs : ListDefs) (l : InkList) :
    originItems defs l = l.origins.foldl (originStep defs) [] := by
  unfold InkList.originItems
  congr 1

theorem lookup_originStep (defs : ListDefs) (acc : List (ListItem × Int)) (name : String)
    (k : ListItem) :
    lookup (originStep defs acc name) k = (originContribution defs name k).or (lookup acc k) := by
  unfold originStep originContribution
  cases defs.find name with
  | none => simp
  | some items => exact lookup_foldl_insertItem _ _ _

theorem keysNodup_originStep (defs : ListDefs) {acc : List (ListItem × Int)} (h : KeysNodup acc)
    (name : String) : KeysNodup (originStep defs acc name) := by
  unfold originStep
  cases defs.find name with
  | none => exact h
  | some items => exact keysNodup_foldl_insertItem _ h

theorem lookup_foldl_originStep (defs : ListDefs) (names : List String)
    (acc : List (ListItem × Int)) (k : ListItem) :
    lookup (names.foldl (originStep defs) acc) k
      = (names.reverse.findSome? (fun n => originContribution defs n k)).or (lookup acc k) := by
  induction names generalizing acc with
  | nil => simp
  | cons n ns ih =>
    rw [List.foldl_cons, ih, lookup_originStep, List.reverse_cons, List.findSome?_append,
      Option.or_assoc]
    congr 1
    simp [List.findSome?_cons]
    cases originContribution defs n k <;> rfl

theorem keysNodup_foldl_originStep (defs : ListDefs) (names : List String)
    {acc : List (ListItem × Int)} (h : KeysNodup acc) :
    KeysNodup (names.foldl (originStep defs) acc) := by
  induction names generalizing acc with
  | nil => exact h
  | cons n ns ih => exact ih (keysNodup_originStep defs h n)

theorem originContribution_origin {defs : ListDefs} {name : String} {k : ListItem} {v : Int}
    (h : originContribution defs name k = some v) : k.origin = some name := by
  unfold originContribution at h
  cases hf : defs.find name with
  | none => rw [hf] at h; cases h
  | some items =>
    rw [hf] at h
    have hm := List.mem_reverse.1 (lookup_mem h)
    unfold ListDefs.itemsOf at hm
    obtain ⟨a, _, ha⟩ := List.mem_map.1 hm
    cases ha
    rfl

theorem keysNodup_originItems (defs : ListDefs) (l : InkList) : KeysNodup (originItems defs l) := by
  rw [originItems_eq_foldl]; exact keysNodup_foldl_originStep defs _ keysNodup_nil

/-- `originItems` only depends on the *set* of origin names.  No assumption on `defs`, and
    `l.origins` may even contain repetitions. -/
theorem originItems_perm (defs : ListDefs) {l l' : InkList} (h : l.origins.Perm l'.origins) :
    (originItems defs l).Perm (originItems defs l') := by
  refine perm_of_lookup_eq (keysNodup_originItems defs l) (keysNodup_originItems defs l') ?_
  intro k
  rw [originItems_eq_foldl, originItems_eq_foldl, lookup_foldl_originStep, lookup_foldl_originStep]
  congr 1
  refine findSome?_perm ?_ ((List.reverse_perm _).trans (h.trans (List.reverse_perm _).symm))
  intro x y b c _ _ hx hy
  have e : x = y := by
    have h1 := originContribution_origin hx
    have h2 := originContribution_origin hy
    rw [h1] at h2
    exact Option.some.inj h2
  subst e
  rw [hx] at hy
  exact Option.some.inj hy

theorem all_perm (defs : ListDefs) {l l' : InkList} (h : l.origins.Perm l'.origins) :
    (InkList.all defs l).items.Perm (InkList.all defs l').items :=
  originItems_perm defs h

theorem inverse_perm (defs : ListDefs) {l l' : InkList} (ho : l.origins.Perm l'.origins)
    (hi : l.items.Perm l'.items) :
    (inverse defs l).items.Perm (inverse defs l').items := by
  show ((originItems defs l).filter (fun kv => !(l.containsKey kv.1))).Perm
    ((originItems defs l').filter (fun kv => !(l'.containsKey kv.1)))
  have : (fun kv : ListItem × Int => !(l.containsKey kv.1)) = (fun kv => !(l'.containsKey kv.1)) := by
    funext kv; rw [containsKey_perm hi]
  rw [this]
  exact (originItems_perm defs ho).filter _

/-! ### `subRange` -/

/-- Two bound values that are equal up to the order of the items of a list value. -/
inductive BoundPerm : Val → Val → Prop where
  | refl (v : Val) : BoundPerm v v
  | list {a b : InkList} (h : a.items.Perm b.items) : BoundPerm (.list a) (.list b)

/-- The lower bound used by `subRange`. -/
def subRangeLo (minB : Val) : Int :=
  match minB with
  | .int v => v
  | .list m => if m.items.isEmpty then 0 else m.minVal
  | _ => 0

/-- The upper bound used by `subRange`. -/
def subRangeHi (maxB : Val) : Int :=
  match maxB with
  | .int v => v
  | .list m => if m.items.isEmpty then i32Max else m.maxVal
  | _ => i32Max

theorem subRange_eq (l : InkList) (minB maxB : Val) :
    l.subRange minB maxB =
      if l.items.isEmpty then InkList.empty
      else { items := l.ordered.filter (fun kv => kv.2 ≥ subRangeLo minB && kv.2 ≤ subRangeHi maxB),
             origins := [], initialOrigins := l.initialOrigins } := by
  unfold InkList.subRange subRangeLo subRangeHi
  rfl

theorem subRangeLo_perm {v w : Val} (h : BoundPerm v w) : subRangeLo v = subRangeLo w := by
  cases h with
  | refl => rfl
  | list h => unfold subRangeLo; simp only; rw [perm_isEmpty h, minVal_perm h]

theorem subRangeHi_perm {v w : Val} (h : BoundPerm v w) : subRangeHi v = subRangeHi w := by
  cases h with
  | refl => rfl
  | list h => unfold subRangeHi; simp only; rw [perm_isEmpty h, maxVal_perm h]

/-- General form: the list and both bounds may be permuted; the resulting items are *equal*. -/
theorem subRange_perm_bounds {l l' : InkList} (h : l.items.Perm l'.items) {minB minB' maxB maxB' : Val}
    (hlo : BoundPerm minB minB') (hhi : BoundPerm maxB maxB') :
    (l.subRange minB maxB).items = (l'.subRange minB' maxB').items := by
  rw [subRange_eq, subRange_eq, perm_isEmpty h, ordered_perm h, subRangeLo_perm hlo,
    subRangeHi_perm hhi]
  split <;> rfl

theorem subRange_perm {l l' : InkList} (h : l.items.Perm l'.items) (minB maxB : Val) :
    (l.subRange minB maxB).items = (l'.subRange minB maxB).items :=
  subRange_perm_bounds h (.refl _) (.refl _)

/-- With equal `initialOrigins` the whole results are equal. -/
theorem subRange_perm_eq {l l' : InkList} (h : l.items.Perm l'.items)
    (hio : l.initialOrigins = l'.initialOrigins) {minB minB' maxB maxB' : Val}
    (hlo : BoundPerm minB minB') (hhi : BoundPerm maxB maxB') :
    l.subRange minB maxB = l'.subRange minB' maxB' := by
  rw [subRange_eq, subRange_eq, perm_isEmpty h, ordered_perm h, subRangeLo_perm hlo,
    subRangeHi_perm hhi, hio]

/-! ### `increment` -/

/-- The (optional) item that `increment` produces from one source item. -/
def incrementTarget (defs : ListDefs) (origins : List String) (n : Int) (add : Bool)
    (kv : ListItem × Int) : Option (ListItem × Int) :=
  if origins.any (fun o => o == kv.1.origin.getD "") then
    match defs.find (kv.1.origin.getD "") with
    | some items =>
      match ListDefs.itemWithValue items (wrapI32 (if add then kv.2 + n else kv.2 - n)) with
      | some nm => some ({ origin := some (kv.1.origin.getD ""), name := nm },
          wrapI32 (if add then kv.2 + n else kv.2 - n))
      | none => none
    | none => none
  else none

theorem increment_items (defs : ListDefs) (l : InkList) (n : Int) (add : Bool) :
    (increment defs l n add).items =
      (l.items.filterMap (incrementTarget defs l.origins n add)).foldl
        (fun acc kv => insertItem acc kv.1 kv.2) [] := by
  rw [List.foldl_filterMap]
  unfold InkList.increment
  simp only
  congr 1
  funext acc kv
  unfold incrementTarget
  by_cases h : (l.origins.any (fun o => o == kv.1.origin.getD "")) = true
  · simp only [h, if_true]
    cases defs.find (kv.1.origin.getD "") with
    | none => rfl
    | some items =>
      simp only
      cases ListDefs.itemWithValue items (wrapI32 (if add = true then kv.2 + n else kv.2 - n)) <;> rfl
  · simp only [h]
    rfl

theorem itemWithValue_fold_mem (l : List (String × Int)) (init : Option String) {nm : String}
    (h : l.foldl (fun best kv => match best with
      | none => some kv.1
      | some b => if kv.1 < b then some kv.1 else some b) init = some nm) :
    init = some nm ∨ ∃ kv ∈ l, kv.1 = nm := by
  induction l generalizing init with
  | nil => exact Or.inl h
  | cons x xs ih =>
    rw [List.foldl_cons] at h
    rcases ih _ h with h1 | ⟨kv, hkv, e⟩
    · cases init with
      | none =>
        right; refine ⟨x, List.mem_cons_self, ?_⟩
        exact Option.some.inj h1
      | some b =>
        simp only at h1
        split at h1
        · right; exact ⟨x, List.mem_cons_self, Option.some.inj h1⟩
        · left; exact h1
    · right; exact ⟨kv, List.mem_cons_of_mem _ hkv, e⟩

theorem itemWithValue_mem {items : List (String × Int)} {v : Int} {nm : String}
    (h : ListDefs.itemWithValue items v = some nm) : (nm, v) ∈ items := by
  unfold ListDefs.itemWithValue at h
  rcases itemWithValue_fold_mem _ none h with h1 | ⟨kv, hkv, e⟩
  · cases h1
  · obtain ⟨hm, hv⟩ := List.mem_filter.1 hkv
    have hv' : kv.2 = v := by simpa using hv
    obtain ⟨a, b⟩ := kv
    simp only at e hv'
    subst e; subst hv'
    exact hm

theorem functional_of_nodup_keys {α β : Type} {l : List (α × β)} (h : (l.map (·.1)).Nodup) :
    ∀ k v v', (k, v) ∈ l → (k, v') ∈ l → v = v' := by
  induction l with
  | nil => intro k v v' h1; cases h1
  | cons x xs ih =>
    obtain ⟨k0, v0⟩ := x
    rw [List.map_cons, List.nodup_cons] at h
    intro k v v' h1 h2
    rcases List.mem_cons.1 h1 with h1 | h1 <;> rcases List.mem_cons.1 h2 with h2 | h2
    · cases h1; cases h2; rfl
    · cases h1
      exact absurd (List.mem_map.2 ⟨_, h2, rfl⟩) h.1
    · cases h2
      exact absurd (List.mem_map.2 ⟨_, h1, rfl⟩) h.1
    · exact ih h.2 k v v' h1 h2

/-- Inside every definition an item name has one value (true of every `ListDefinition`, whose
    items are a `HashMap<String,i32>`). -/
def DefsFunctional (defs : ListDefs) : Prop :=
  ∀ name items, defs.find name = some items →
    ∀ nm v v', (nm, v) ∈ items → (nm, v') ∈ items → v = v'

theorem find_mem {defs : ListDefs} {name : String} {items : List (String × Int)}
    (h : defs.find name = some items) : ∃ d ∈ defs, d.2 = items := by
  unfold ListDefs.find at h
  cases hf : List.find? (fun d => d.1 == name) defs with
  | none => rw [hf] at h; cases h
  | some d =>
    rw [hf] at h
    exact ⟨d, List.mem_of_find?_eq_some hf, Option.some.inj h⟩

/-- Distinct item names inside each definition give `DefsFunctional`. -/
theorem defsFunctional_of_nodup {defs : ListDefs}
    (h : ∀ d ∈ defs, (d.2.map (·.1)).Nodup) : DefsFunctional defs := by
  intro name items hf
  obtain ⟨d, hd, e⟩ := find_mem hf
  subst e
  exact functional_of_nodup_keys (h d hd)

theorem incrementTarget_spec {defs : ListDefs} {origins : List String} {n : Int} {add : Bool}
    {kv r : ListItem × Int} (h : incrementTarget defs origins n add kv = some r) :
    ∃ oname items, r.1.origin = some oname ∧ defs.find oname = some items ∧
      (r.1.name, r.2) ∈ items := by
  unfold incrementTarget at h
  split at h
  · cases hf : defs.find (kv.1.origin.getD "") with
    | none => rw [hf] at h; cases h
    | some items =>
      rw [hf] at h
      simp only at h
      cases hi : ListDefs.itemWithValue items (wrapI32 (if add = true then kv.2 + n else kv.2 - n)) with
      | none => rw [hi] at h; cases h
      | some nm =>
        rw [hi] at h
        cases h
        exact ⟨_, items, rfl, hf, itemWithValue_mem hi⟩
  · cases h

theorem functional_incrementTargets {defs : ListDefs} (hd : DefsFunctional defs)
    (origins : List String) (n : Int) (add : Bool) (l : List (ListItem × Int)) :
    Functional (l.filterMap (incrementTarget defs origins n add)) := by
  intro k v v' h1 h2
  obtain ⟨a1, _, e1⟩ := List.mem_filterMap.1 h1
  obtain ⟨a2, _, e2⟩ := List.mem_filterMap.1 h2
  obtain ⟨o1, items1, ho1, hf1, hm1⟩ := incrementTarget_spec e1
  obtain ⟨o2, items2, ho2, hf2, hm2⟩ := incrementTarget_spec e2
  simp only at ho1 ho2 hm1 hm2
  rw [ho1] at ho2
  cases ho2
  rw [hf1] at hf2
  cases hf2
  exact hd o1 items1 hf1 k.name v v' hm1 hm2

/-- Folding `insertItem` over a functional list only depends on its set of pairs. -/
theorem foldl_insertItem_perm {bs bs' acc : List (ListItem × Int)} (hb : Functional bs)
    (hacc : KeysNodup acc) (hp : bs.Perm bs') :
    (bs.foldl (fun acc kv => insertItem acc kv.1 kv.2) acc).Perm
      (bs'.foldl (fun acc kv => insertItem acc kv.1 kv.2) acc) := by
  refine perm_of_lookup_eq (keysNodup_foldl_insertItem _ hacc) (keysNodup_foldl_insertItem _ hacc) ?_
  intro k
  rw [lookup_foldl_insertItem, lookup_foldl_insertItem, lookup_reverse_of_functional hb,
    lookup_reverse_of_functional (hb.perm hp), lookup_perm_of_functional hb hp]

theorem any_origin_perm {o o' : List String} (h : o.Perm o') (name : String) :
    o.any (fun x => x == name) = o'.any (fun x => x == name) :=
  h.any_eq

theorem incrementTarget_perm_origins (defs : ListDefs) {o o' : List String} (h : o.Perm o')
    (n : Int) (add : Bool) : incrementTarget defs o n add = incrementTarget defs o' n add := by
  funext kv
  unfold incrementTarget
  rw [any_origin_perm h]

/-- `increment` depends neither on the order of the items nor on the order of the origins.
    Hypothesis `DefsFunctional defs` is needed: with a definition `[("a",1),("a",2)]` two source
    items can produce the same key with different values, and the last one folded wins. -/
theorem increment_perm {defs : ListDefs} (hd : DefsFunctional defs) {l l' : InkList}
    (hi : l.items.Perm l'.items) (ho : l.origins.Perm l'.origins) (n : Int) (add : Bool) :
    (increment defs l n add).items.Perm (increment defs l' n add).items := by
  rw [increment_items, increment_items, incrementTarget_perm_origins defs ho]
  exact foldl_insertItem_perm (functional_incrementTargets hd _ _ _ _) keysNodup_nil
    (hi.filterMap _)

theorem keysNodup_increment (defs : ListDefs) (l : InkList) (n : Int) (add : Bool) :
    KeysNodup (increment defs l n add).items := by
  rw [increment_items]; exact keysNodup_foldl_insertItem _ keysNodup_nil

/-! ### `originNames` (feeds `origins`; permuted items give permuted names) -/

theorem originNames_perm {a b : InkList} (h : a.items.Perm b.items)
    (hio : a.initialOrigins = b.initialOrigins) :
    (a.originNames = none ∧ b.originNames = none) ∨
      ∃ x y, a.originNames = some x ∧ b.originNames = some y ∧ x.Perm y := by
  unfold InkList.originNames
  rw [← perm_isEmpty h, hio]
  split
  · exact Or.inr ⟨_, _, rfl, rfl, List.Perm.refl _⟩
  · exact Or.inr ⟨_, _, rfl, rfl, h.filterMap _⟩
end Ink
