/-
  Frame lemmas about the continue loop: which wrapper fields of `Story` the
  stepping machinery leaves alone.
-/
import Ink.Api

namespace Ink
open Story

/-- The wrapper fields a step never changes. -/
structure SameWrapper (a b : Story) : Prop where
  root : b.root = a.root
  defs : b.defs = a.defs
  recCount : b.recCount = a.recCount
  asyncActive : b.asyncActive = a.asyncActive
  validated : b.validated = a.validated
  allowFallbacks : b.allowFallbacks = a.allowFallbacks
  handler : b.handler = a.handler
  observers : b.observers = a.observers
  lines : b.lines = a.lines
  stepClock : b.stepClock = a.stepClock

theorem SameWrapper.refl (a : Story) : SameWrapper a a := ⟨rfl, rfl, rfl, rfl, rfl, rfl, rfl, rfl, rfl, rfl⟩

theorem SameWrapper.trans {a b c : Story} (h1 : SameWrapper a b) (h2 : SameWrapper b c) : SameWrapper a c :=
  ⟨h2.root.trans h1.root, h2.defs.trans h1.defs, h2.recCount.trans h1.recCount,
   h2.asyncActive.trans h1.asyncActive, h2.validated.trans h1.validated,
   h2.allowFallbacks.trans h1.allowFallbacks, h2.handler.trans h1.handler,
   h2.observers.trans h1.observers, h2.lines.trans h1.lines, h2.stepClock.trans h1.stepClock⟩

theorem runM_same {α : Type} (st : Story) (m : M α) : SameWrapper st (st.runM m).2 := by
  unfold Story.runM
  exact ⟨rfl, rfl, rfl, rfl, rfl, rfl, rfl, rfl, rfl, rfl⟩

theorem runM_snapshot {α : Type} (st : Story) (m : M α) : (st.runM m).2.snapshot = st.snapshot := by
  unfold Story.runM; rfl

theorem runM_fuel {α : Type} (st : Story) (m : M α) : (st.runM m).2.fuel = st.fuel := by
  unfold Story.runM; rfl

theorem restoreSnapshot_same (st : Story) : SameWrapper st st.restoreSnapshot := by
  unfold Story.restoreSnapshot
  split <;> exact ⟨rfl, rfl, rfl, rfl, rfl, rfl, rfl, rfl, rfl, rfl⟩

theorem restoreSnapshot_snapshot (st : Story) : st.restoreSnapshot.snapshot = none := by
  unfold Story.restoreSnapshot
  split
  · rfl
  · rename_i h; exact h

theorem discardSnapshot_same (st : Story) : SameWrapper st st.discardSnapshot :=
  ⟨rfl, rfl, rfl, rfl, rfl, rfl, rfl, rfl, rfl, rfl⟩

theorem stateSnapshot_same (st : Story) : SameWrapper st st.stateSnapshot :=
  ⟨rfl, rfl, rfl, rfl, rfl, rfl, rfl, rfl, rfl, rfl⟩

theorem addError_same (st : Story) (m : String) (w : Bool) : SameWrapper st (st.addError m w) := by
  unfold Story.addError
  split <;> exact ⟨rfl, rfl, rfl, rfl, rfl, rfl, rfl, rfl, rfl, rfl⟩

theorem addError_snapshot (st : Story) (m : String) (w : Bool) : (st.addError m w).snapshot = st.snapshot := by
  unfold Story.addError
  split <;> rfl

theorem addError_sawUnsafe (st : Story) (m : String) (w : Bool) : (st.addError m w).sawUnsafe = st.sawUnsafe := by
  unfold Story.addError
  split <;> rfl

theorem continueSingleStep_same' (st : Story) : SameWrapper st (st.continueSingleStep).2 := by
  unfold Story.continueSingleStep
  have h1 := runM_same st (step st.env)
  split
  · rename_i heq; rw [heq] at h1; exact h1
  · rename_i heq; rw [heq] at h1; exact h1
  · rename_i st1 heq
    have h1' : SameWrapper st st1 := by rw [heq] at h1; exact h1
    simp only
    split
    · rename_i k m st2 heq2
      split at heq2
      · have := runM_same st1 (tryFollowDefaultInvisibleChoice st1.env)
        rw [heq2] at this; exact h1'.trans this
      · cases heq2
    · rename_i p st2 heq2
      split at heq2
      · have := runM_same st1 (tryFollowDefaultInvisibleChoice st1.env)
        rw [heq2] at this; exact h1'.trans this
      · cases heq2
    · rename_i st2 heq2
      have h2 : SameWrapper st st2 := by
        split at heq2
        · have := runM_same st1 (tryFollowDefaultInvisibleChoice st1.env)
          rw [heq2] at this; exact h1'.trans this
        · cases heq2; exact h1'
      split
      · exact h2
      · split
        · rename_i hnone
          exact h2.trans (restoreSnapshot_same st2)
        · rename_i st3 hsome
          have h3 : SameWrapper st st3 := by
            split at hsome
            · split at hsome
              · cases hsome
              · split at hsome
                · cases hsome; exact h2.trans (discardSnapshot_same st2)
                · cases hsome; exact h2
            · cases hsome; exact h2
          split
          · split
            · split
              · exact h3.trans (stateSnapshot_same st3)
              · exact h3
            · exact h3.trans (discardSnapshot_same st3)
          · exact h3

theorem continueSingleStep_same (st : Story) (r : Out Bool) (st' : Story)
    (h : st.continueSingleStep = (r, st')) : SameWrapper st st' := by
  have := continueSingleStep_same' st
  rw [h] at this; exact this

theorem stepLoop_same (b : Option Nat) (fuel steps : Nat) (st : Story) (r : Out LoopEnd) (st' : Story)
    (h : stepLoop b fuel steps st = (r, st')) : SameWrapper st st' := by
  induction fuel generalizing steps st with
  | zero =>
    unfold stepLoop at h
    simp only [Prod.mk.injEq] at h
    rw [← h.2]; exact SameWrapper.refl st
  | succ fuel ih =>
    unfold stepLoop at h
    simp only at h
    have hf : SameWrapper st { st with fuel := st.fuel.map (· - 1) } :=
      ⟨rfl, rfl, rfl, rfl, rfl, rfl, rfl, rfl, rfl, rfl⟩
    split at h
    · simp only [Prod.mk.injEq] at h
      rw [← h.2]; exact addError_same st _ _
    · split at h
      · rename_i p st1 heq
        simp only [Prod.mk.injEq] at h
        rw [← h.2]; exact hf.trans (continueSingleStep_same _ _ _ heq)
      · rename_i k m st1 heq
        simp only [Prod.mk.injEq] at h
        rw [← h.2]
        exact (hf.trans (continueSingleStep_same _ _ _ heq)).trans (addError_same st1 _ _)
      · rename_i st1 heq
        simp only [Prod.mk.injEq] at h
        rw [← h.2]; exact hf.trans (continueSingleStep_same _ _ _ heq)
      · rename_i st1 heq
        have hs := hf.trans (continueSingleStep_same _ _ _ heq)
        cases b with
        | none =>
          simp only [Bool.false_eq_true, if_false] at h
          split at h
          · simp only [Prod.mk.injEq] at h
            rw [← h.2]; exact hs
          · exact hs.trans (ih _ _ h)
        | some n =>
          simp only at h
          split at h
          · simp only [Prod.mk.injEq] at h
            rw [← h.2]; exact hs
          · split at h
            · simp only [Prod.mk.injEq] at h
              rw [← h.2]; exact hs
            · exact hs.trans (ih _ _ h)

theorem forceEnd_errors (c : Core) : c.forceEnd.errors = c.errors := by
  unfold Core.forceEnd Core.setPrevPtr Core.setCurrentPtr Core.mapCallstack Core.setCallstack
  rfl

/-- An error (not a warning) ends the story: it cannot continue afterwards. -/
theorem addErrorCore_cannot_continue (root : Obj) (c : Core) (m : String) :
    (addErrorCore root c m).canContinue = false := by
  have he : (addErrorCore root c m).errors = c.errors ++ [errorText root c m false] := by
    unfold addErrorCore
    rw [forceEnd_errors]
    rfl
  unfold Core.canContinue Core.hasError
  rw [he]
  simp

theorem addError_cannot_continue (st : Story) (m : String) : (st.addError m false).canContinue = false := by
  unfold Story.addError Story.canContinue StoryState.canContinue Story.setCore
  simp [addErrorCore_cannot_continue]

/-- How a blocking loop ends: at a newline, or in a story that cannot continue
    (the loop never reports `outOfTime` without a budget). -/
theorem stepLoop_blocking_end (fuel steps : Nat) (st : Story) (why : LoopEnd) (st1 : Story)
    (h : stepLoop none fuel steps st = (.ok why, st1)) :
    why = .outOfFuel ∨ why = .newline ∨ st1.canContinue = false := by
  induction fuel generalizing steps st with
  | zero =>
    unfold stepLoop at h
    simp only [Prod.mk.injEq, Out.ok.injEq] at h
    left; exact h.1.symm
  | succ fuel ih =>
    unfold stepLoop at h
    simp only at h
    split at h
    · simp only [Prod.mk.injEq, Out.ok.injEq] at h
      right; right; rw [← h.2]; exact addError_cannot_continue st _
    · split at h
      · cases h
      · simp only [Prod.mk.injEq, Out.ok.injEq] at h
        right; right; rw [← h.2]; exact addError_cannot_continue _ _
      · simp only [Prod.mk.injEq, Out.ok.injEq] at h
        right; left; exact h.1.symm
      · rename_i st2 heq
        simp only [Bool.false_eq_true, if_false] at h
        split at h
        · rename_i hc
          simp only [Prod.mk.injEq, Out.ok.injEq] at h
          right; right; rw [← h.2]; simpa using hc
        · exact ih _ _ h

theorem endChecks_handler (st : Story) : st.endChecks.handler = st.handler := by
  unfold Story.endChecks
  simp only
  have key : ∀ (s : Story) (m : String), (s.addError m false).handler = s.handler :=
    fun s m => (addError_same s m false).handler
  split
  · split
    · split
      · rw [key, key]
      · split
        · rw [key, key]
        · split
          · rw [key, key]
          · rw [key, key]
    · rw [key]
  · split
    · split
      · rw [key]
      · split
        · rw [key]
        · split
          · rw [key]
          · rw [key]
    · rfl

theorem beginContinue_handler (st : Story) (b : Bool) : (st.beginContinue b).handler = st.handler := by
  unfold Story.beginContinue
  simp only
  split
  · simp [Story.setCore]
  · split <;> rfl

theorem endChecks_fields (st : Story) :
    st.endChecks.snapshot = st.snapshot ∧ st.endChecks.recCount = st.recCount
    ∧ st.endChecks.handler = st.handler := by
  refine ⟨?_, ?_, endChecks_handler st⟩
  · unfold Story.endChecks
    simp only
    have key : ∀ (s : Story) (m : String), (s.addError m false).snapshot = s.snapshot :=
      fun s m => addError_snapshot s m false
    split
    · split
      · split
        · rw [key, key]
        · split
          · rw [key, key]
          · split
            · rw [key, key]
            · rw [key, key]
      · rw [key]
    · split
      · split
        · rw [key]
        · split
          · rw [key]
          · split
            · rw [key]
            · rw [key]
      · rfl
  · unfold Story.endChecks
    simp only
    have key : ∀ (s : Story) (m : String), (s.addError m false).recCount = s.recCount :=
      fun s m => (addError_same s m false).recCount
    split
    · split
      · split
        · rw [key, key]
        · split
          · rw [key, key]
          · split
            · rw [key, key]
            · rw [key, key]
      · rw [key]
    · split
      · split
        · rw [key]
        · split
          · rw [key]
          · split
            · rw [key]
            · rw [key]
      · rfl

/-- The first half of finishing a line: no snapshot, no unsafe flag; recursion
    count and handler setting kept. -/
theorem prepareFinish_fields (st : Story) :
    st.prepareFinish.snapshot = none ∧ st.prepareFinish.sawUnsafe = false
    ∧ st.prepareFinish.recCount = st.recCount ∧ st.prepareFinish.handler = st.handler
    ∧ st.prepareFinish.asyncActive = st.asyncActive := by
  unfold Story.prepareFinish
  simp only
  have hsnap : ∀ (s : Story), (if s.snapshot.isSome then s.restoreSnapshot else s).snapshot = none := by
    intro s
    split
    · exact restoreSnapshot_snapshot s
    · rename_i hn
      cases hs : s.snapshot with
      | none => rfl
      | some x => simp [hs] at hn
  have hrec : ∀ (s : Story), (if s.snapshot.isSome then s.restoreSnapshot else s).recCount = s.recCount
      ∧ (if s.snapshot.isSome then s.restoreSnapshot else s).handler = s.handler
      ∧ (if s.snapshot.isSome then s.restoreSnapshot else s).asyncActive = s.asyncActive := by
    intro s; split
    · exact ⟨(restoreSnapshot_same s).recCount, (restoreSnapshot_same s).handler, (restoreSnapshot_same s).asyncActive⟩
    · exact ⟨rfl, rfl, rfl⟩
  generalize hst2 : (if st.snapshot.isSome then st.restoreSnapshot else st) = st2
  have h2s : st2.snapshot = none := by rw [← hst2]; exact hsnap st
  have h2r := hrec st
  rw [hst2] at h2r
  have hasync : ∀ (s : Story), (if !s.canContinue then s.endChecks else s).asyncActive = s.asyncActive := by
    intro s; split
    · unfold Story.endChecks
      simp only
      have key : ∀ (t : Story) (m : String), (t.addError m false).asyncActive = t.asyncActive :=
        fun t m => (addError_same t m false).asyncActive
      split
      · split
        · split
          · rw [key, key]
          · split
            · rw [key, key]
            · split
              · rw [key, key]
              · rw [key, key]
        · rw [key]
      · split
        · split
          · rw [key]
          · split
            · rw [key]
            · split
              · rw [key]
              · rw [key]
        · rfl
    · rfl
  have h3 : (if !st2.canContinue then st2.endChecks else st2).snapshot = none
      ∧ (if !st2.canContinue then st2.endChecks else st2).recCount = st.recCount
      ∧ (if !st2.canContinue then st2.endChecks else st2).handler = st.handler := by
    split
    · obtain ⟨a, b, c⟩ := endChecks_fields st2
      exact ⟨a.trans h2s, b.trans h2r.1, c.trans h2r.2.1⟩
    · exact ⟨h2s, h2r.1, h2r.2.1⟩
  exact ⟨h3.1, trivial, h3.2.1, h3.2.2, (hasync st2).trans h2r.2.2⟩

theorem closeObservation_fields (st st' : Story) (changed : List (String × Val))
    (h : st.closeObservation = some (st', changed)) :
    st'.snapshot = st.snapshot ∧ st'.sawUnsafe = st.sawUnsafe ∧ st'.asyncActive = false
    ∧ st'.recCount = st.recCount ∧ st'.handler = st.handler := by
  unfold Story.closeObservation at h
  split at h
  · simp only at h
    split at h
    · simp only [Option.some.injEq, Prod.mk.injEq] at h
      rw [← h.1]
      exact ⟨rfl, rfl, rfl, rfl, rfl⟩
    · cases h
  · simp only [Option.some.injEq, Prod.mk.injEq] at h
    rw [← h.1]
    exact ⟨rfl, rfl, rfl, rfl, rfl⟩

/-- The block that finishes a line leaves no snapshot, no unsafe flag, no async
    flag, and keeps the recursion count and the handler setting. -/
theorem finishContinue_fields (st st' : Story) (changed : List (String × Val))
    (h : st.finishContinue = some (st', changed)) :
    st'.snapshot = none ∧ st'.sawUnsafe = false ∧ st'.asyncActive = false ∧ st'.recCount = st.recCount
    ∧ st'.handler = st.handler := by
  unfold Story.finishContinue at h
  obtain ⟨c1, c2, c3, c4, c5⟩ := closeObservation_fields _ _ _ h
  obtain ⟨p1, p2, p3, p4, _⟩ := prepareFinish_fields st
  exact ⟨c1.trans p1, c2.trans p2, c3, c4.trans p3, c5.trans p4⟩

end Ink
