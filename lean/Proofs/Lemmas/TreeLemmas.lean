/-
  Helper lemmas for C19 (relative paths, resolution in the tree).
-/
import Ink.Tree
import Proofs.Lemmas.PathLemmas

namespace Ink

/-! ### relative paths -/

theorem sharedPrefix_le_left (a b : List Comp) : Path.sharedPrefix a b ≤ a.length := by
  induction a generalizing b with
  | nil => simp [Path.sharedPrefix]
  | cons x xs ih =>
    cases b with
    | nil => simp [Path.sharedPrefix]
    | cons y ys =>
      simp only [Path.sharedPrefix]
      split
      · have := ih ys; simp; omega
      · simp

theorem sharedPrefix_take (a b : List Comp) :
    a.take (Path.sharedPrefix a b) = b.take (Path.sharedPrefix a b) := by
  induction a generalizing b with
  | nil => simp [Path.sharedPrefix]
  | cons x xs ih =>
    cases b with
    | nil => simp [Path.sharedPrefix]
    | cons y ys =>
      simp only [Path.sharedPrefix]
      split
      · rename_i h; subst h; simp [ih ys]
      · simp

theorem leadingParents_replicate (m : Nat) (rest : List Comp) :
    Path.leadingParents (List.replicate m (Comp.name Comp.parentId) ++ rest)
      = m + Path.leadingParents rest := by
  induction m with
  | zero => simp
  | succ m ih =>
    simp only [List.replicate_succ, List.cons_append, Path.leadingParents]
    have : (Comp.name Comp.parentId).isParent = true := by simp [Comp.isParent]
    simp [this, ih]; omega

theorem leadingParents_noParent (l : List Comp) (h : ∀ c ∈ l, c.isParent = false) :
    Path.leadingParents l = 0 := by
  cases l with
  | nil => rfl
  | cons c cs => simp [Path.leadingParents, h c (by simp)]

theorem relative_roundtrip_aux (own target : Path)
    (hshare : Path.sharedPrefix own.comps target.comps > 0)
    (hnp : ∀ c ∈ target.comps, c.isParent = false) :
    Path.appendPath own (Path.toRelative own target) = some { comps := target.comps, rel := false }
    ∧ (Path.toRelative own target).rel = true := by
  have hk := sharedPrefix_le_left own.comps target.comps
  have htake := sharedPrefix_take own.comps target.comps
  generalize hkdef : Path.sharedPrefix own.comps target.comps = k at *
  have hne : k ≠ 0 := by omega
  have hdrop : ∀ c ∈ target.comps.drop k, c.isParent = false :=
    fun c hc => hnp c (List.mem_of_mem_drop hc)
  constructor
  · unfold Path.appendPath Path.toRelative
    simp only [hkdef, hne, if_false]
    rw [leadingParents_replicate, leadingParents_noParent _ hdrop]
    simp only [Nat.add_zero]
    have h1 : own.comps.length - (own.comps.length - k) = k := by omega
    rw [h1, List.drop_left' (by simp)]
    rw [htake, List.take_append_drop]
  · unfold Path.toRelative
    simp [hkdef, hne]

/-! ### resolution in the tree -/

/-- Local well-formedness of a container: names are unique among its children,
    a named-only child carries its key as name, and no child is named `^`. -/
structure WFNode (o : Obj) : Prop where
  contentNames : ∀ (i : Nat) (c : Obj) (n : String), o.content[i]? = some c → c.validName = some n →
      n.toList ≠ Comp.parentId ∧ Obj.lastNamedIdx o.content n = some i
  namedKeys : ∀ (k : String) (c : Obj), (o.namedOnly.find? (fun kv => kv.1 == k)).map (·.2) = some c →
      c.validName = some k ∧ k.toList ≠ Comp.parentId ∧ Obj.lastNamedIdx o.content k = none

/-- Every node of the tree is well formed. -/
def WFTree (root : Obj) : Prop := ∀ a o, nodeAt root a = some o → WFNode o

theorem nodeAt_append (root : Obj) (pre a : Addr) :
    nodeAt root (pre ++ a) = (nodeAt root pre).bind (fun sub => nodeAt sub a) := by
  induction pre generalizing root with
  | nil => simp [nodeAt]
  | cons s rest ih =>
    simp only [List.cons_append, nodeAt]
    cases root.child s with
    | none => simp
    | some c => simp [ih]

theorem child_isContainer (o c : Obj) (s : Step) (h : o.child s = some c) : o.isContainer = true := by
  cases o <;> cases s <;> simp [Obj.child, Obj.content, Obj.namedOnly, Obj.isContainer] at h ⊢

theorem find_some_any (l : List (String × Obj)) (k : String) (c : Obj)
    (h : (l.find? (fun kv => kv.1 == k)).map (·.2) = some c) : l.any (fun kv => kv.1 == k) = true := by
  cases hf : l.find? (fun kv => kv.1 == k) with
  | none => simp [hf] at h
  | some kv =>
    rw [List.any_eq_true]
    have hp := List.find?_some hf
    exact ⟨kv, List.mem_of_find?_eq_some hf, hp⟩

theorem withComponent_child (root : Obj) (pre : Addr) (sub c : Obj) (s : Step) (k : Comp)
    (hsub : nodeAt root pre = some sub) (hwf : WFNode sub)
    (hc : sub.child s = some c) (hk : compOfChild c s = some k) :
    withComponent root pre k = some (pre ++ [s]) := by
  unfold withComponent
  rw [hsub]
  unfold compOfChild at hk
  cases hv : c.validName with
  | some n =>
    rw [hv] at hk
    simp only [Option.some.injEq] at hk
    subst hk
    cases s with
    | idx i =>
      simp only [Obj.child] at hc
      obtain ⟨hnp, hlast⟩ := hwf.contentNames i c n hc hv
      have : (Comp.name n.toList).isParent = false := by
        simp only [Comp.isParent, beq_eq_false_iff_ne]; exact hnp
      simp [this, Obj.lookupName, hlast]
    | named key =>
      simp only [Obj.child] at hc
      obtain ⟨hvn, hnp, hlast⟩ := hwf.namedKeys key c hc
      rw [hv] at hvn
      simp only [Option.some.injEq] at hvn
      subst hvn
      have : (Comp.name n.toList).isParent = false := by
        simp only [Comp.isParent, beq_eq_false_iff_ne]; exact hnp
      simp [this, Obj.lookupName, hlast, find_some_any _ _ _ hc]
  | none =>
    rw [hv] at hk
    cases s with
    | idx i =>
      simp only [Option.some.injEq] at hk
      subst hk
      simp only [Obj.child] at hc
      have hlt : i < sub.content.length := by
        rcases Nat.lt_or_ge i sub.content.length with h | h
        · exact h
        · rw [List.getElem?_eq_none h] at hc; cases hc
      simp [hlt]
    | named key =>
      -- a named-only child of a well-formed node carries its key as (valid) name
      simp only [Obj.child] at hc
      obtain ⟨hvn, _, _⟩ := hwf.namedKeys key c hc
      rw [hv] at hvn
      cases hvn

theorem contentLoop_compsOf (root : Obj) (hwf : WFTree root) (a : Addr) :
    ∀ (pre : Addr) (sub o : Obj) (cs : List Comp) (b : Bool),
      nodeAt root pre = some sub → nodeAt sub a = some o → compsOf sub a = some cs →
      (a ≠ [] → b = true) →
      contentLoop root pre b cs = { addr := pre ++ a, approximate := false } := by
  induction a with
  | nil =>
    intro pre sub o cs b _ _ hcs _
    simp only [compsOf, Option.some.injEq] at hcs
    subst hcs
    simp [contentLoop]
  | cons s rest ih =>
    intro pre sub o cs b hsub ho hcs hb
    have hbt : b = true := hb (by simp)
    subst hbt
    simp only [nodeAt] at ho
    simp only [compsOf] at hcs
    cases hc : sub.child s with
    | none => simp [hc] at ho
    | some c =>
      rw [hc] at ho hcs
      simp only at ho hcs
      cases hk : compOfChild c s with
      | none => simp [hk] at hcs
      | some k =>
        cases hks : compsOf c rest with
        | none => simp [hk, hks] at hcs
        | some ks =>
          simp only [hk, hks, Option.some.injEq] at hcs
          subst hcs
          have hw := withComponent_child root pre sub c s k hsub (hwf pre sub hsub) hc hk
          have hnode : nodeAt root (pre ++ [s]) = some c := by
            rw [nodeAt_append, hsub]; simp [nodeAt, hc]
          have hcont : rest ≠ [] → c.isContainer = true := by
            intro hr
            cases rest with
            | nil => exact absurd rfl hr
            | cons s' r' =>
              simp only [nodeAt] at ho
              cases hc' : c.child s' with
              | none => simp [hc'] at ho
              | some c' => exact child_isContainer c c' s' hc'
          simp only [contentLoop, Bool.not_true, Bool.false_eq_true, if_false, hw]
          have hisc : isContainerAt root (pre ++ [s]) = c.isContainer := by
            simp [isContainerAt, hnode]
          rw [hisc]
          by_cases hr : rest = []
          · subst hr
            simp only [compsOf, Option.some.injEq] at hks
            subst hks
            simp [contentLoop]
          · have hct := hcont hr
            simp only [hct, Bool.not_true, Bool.and_false, Bool.false_eq_true, if_false]
            have := ih (pre ++ [s]) c o ks true hnode ho hks (fun _ => rfl)
            rw [this]
            simp

theorem compsOf_isSome (root : Obj) (hwf : WFTree root) (a : Addr) :
    ∀ (pre : Addr) (sub o : Obj), nodeAt root pre = some sub → nodeAt sub a = some o →
      ∃ cs, compsOf sub a = some cs := by
  induction a with
  | nil => intro _ _ _ _ _; exact ⟨[], rfl⟩
  | cons s rest ih =>
    intro pre sub o hsub ho
    simp only [nodeAt] at ho
    cases hc : sub.child s with
    | none => simp [hc] at ho
    | some c =>
      rw [hc] at ho
      simp only at ho
      have hnode : nodeAt root (pre ++ [s]) = some c := by
        rw [nodeAt_append, hsub]; simp [nodeAt, hc]
      obtain ⟨ks, hks⟩ := ih (pre ++ [s]) c o hnode ho
      have hk : ∃ k, compOfChild c s = some k := by
        unfold compOfChild
        cases hv : c.validName with
        | some n => exact ⟨_, rfl⟩
        | none =>
          cases s with
          | idx i => exact ⟨_, rfl⟩
          | named key =>
            simp only [Obj.child] at hc
            have := ((hwf pre sub hsub).namedKeys key c hc).1
            rw [hv] at this; cases this
      obtain ⟨k, hk⟩ := hk
      exact ⟨k :: ks, by simp [compsOf, hc, hk, hks]⟩

theorem resolve_pathOf_aux (root : Obj) (hwf : WFTree root) (a : Addr) (o : Obj)
    (ha : nodeAt root a = some o) :
    ∃ p, pathOf root a = some p ∧
      contentAtPath root [] p.comps = { addr := a, approximate := false } := by
  obtain ⟨cs, hcs⟩ := compsOf_isSome root hwf a [] root o rfl ha
  refine ⟨{ comps := cs, rel := false }, by simp [pathOf, hcs], ?_⟩
  have := contentLoop_compsOf root hwf a [] root o cs true rfl ha hcs (fun _ => rfl)
  simpa [contentAtPath] using this

end Ink
