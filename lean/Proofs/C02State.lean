/-
  C02 (whole states) — Saving a game and loading it preserves the state.

  `Proofs/C02.lean` proves the leaf codecs.  This file lifts the round trip, bottom-up, to
  values (1), the variables map (2), threads and call stacks (3), choices and flows (4), the whole
  state and `Story.loadState` / `Story.saveState` (5), and shows that the invariant `Saveable` is
  not vacuous (6, 7, 9, 10).

  The modelled save does NOT carry everything, so the theorems state the exact result of
  `read (write x)` as an explicit normal form (`normObj`, `normElem`, `normPrev`, `normThread`,
  `normChoice`, `normFlow`, `restoredGlobals`, `restoredState`), and then give the conditions
  (`Exact…`) under which the normal form is the identity.  Sections 7, 8 and 10 have checked
  examples of every deviation.

  Reading guide (main statements):
    1. `readObj_writeObj`, `readObj_writeObj_exact`           (predicate `SaveableObj`)
    2. `readVars_ok`, `varsStep_ok`, `restoredGlobals_eq`
    3. `readThread_writeThread`, `readCallStack_ok`, `readThread_writeThread_exact`   (`TreeOK`, `ThreadOK`, `CallStackOK`)
    4. `readChoice_writeChoice`, `readFlow_writeFlow`, `readFlow_writeFlow_exact`   (`ChoiceOK`, `FlowOK`)
    5. `loadStateObj_ok`, `loadState_saveState`, `loadState_saveState_exact`   (`Saveable`, `ExactState`)
    6. `treeOkB_sound`, `create_saveable`
    7. a concrete created story, a hand-made mid-game state, the checked deviations (a)–(g)
    8. `nonfinite_float_clamped`, `nonfinite_float_not_exact`, `restoredState_eq`, `loadState_saveState_self`,
       `loadState_saveState_state_eq`
    9. `saveableB_sound` (executable `Saveable`)
   10. `exRun_saveable`, `exRoundTrip`: a state reached by running the interpreter, saved, loaded into a
       freshly created story, and continued (kernel evaluation); a behavioural deviation
-/
import Proofs.C02
import Proofs.C19
import Proofs.C06

set_option linter.unusedSimpArgs false

namespace Ink
namespace C02

open Save
open Json (get?)

/-! ## 0. Generic helpers -/

theorem mapOut_ok {α β : Type} (f : α → Out β) (g : α → β) (l : List α)
    (h : ∀ x ∈ l, f x = .ok (g x)) : mapOut f l = .ok (l.map g) := by
  induction l with
  | nil => rfl
  | cons x xs ih =>
    have hx := h x (by simp)
    have hxs := ih (fun y hy => h y (by simp [hy]))
    simp [mapOut, hx, hxs]

theorem mapOut_map {α β γ : Type} (f : β → Out γ) (g : α → β) (l : List α) :
    mapOut f (l.map g) = mapOut (fun x => f (g x)) l := by
  induction l with
  | nil => rfl
  | cons x xs ih => simp [mapOut, ih]

theorem mapOut_congr {α β : Type} (f g : α → Out β) (l : List α)
    (h : ∀ x ∈ l, f x = g x) : mapOut f l = mapOut g l := by
  induction l with
  | nil => rfl
  | cons x xs ih =>
    have hx := h x (by simp)
    have hxs := ih (fun y hy => h y (by simp [hy]))
    simp [mapOut, hx, hxs]

theorem writeObjs_ok (w : Obj → Json) (l : List Obj)
    (h : ∀ o ∈ l, writeObj o = .ok (w o)) : writeObjs l = .ok (l.map w) := by
  induction l with
  | nil => rfl
  | cons x xs ih =>
    have hx := h x (by simp)
    have hxs := ih (fun y hy => h y (by simp [hy]))
    simp [writeObjs, hx, hxs]

theorem inI64_of_inI32 {i : Int} (hi : inI32 i = true) : inI64 i = true := by
  unfold inI32 i32Min i32Max at hi
  unfold inI64 i64Min i64Max
  simp only [Bool.and_eq_true, decide_eq_true_eq] at hi ⊢
  omega

theorem wrapI32_of_inI32 {i : Int} (hi : inI32 i = true) : wrapI32 i = i := by
  unfold inI32 i32Min i32Max at hi
  unfold wrapI32
  simp only [Bool.and_eq_true, decide_eq_true_eq] at hi
  omega

theorem asI64_num {i : Int} (hi : inI32 i = true) : Load.asI64 (.num i) = some i := by
  simp [Load.asI64, inI64_of_inI32 hi]

theorem asU64_nat {n : Nat} (hn : (n : Int) ≤ u64Max) : Load.asU64 (.num (n : Int)) = some (n : Int) := by
  simp [Load.asU64, hn]

/-! ## 1. Values -/

/-- The text of a finite float in a save. -/
def f32Text (f : Float32) : String :=
  let d := F32.display f
  if d.toList.contains '.' then d else d ++ ".0"

/-- The float whose text `write_rtobject` puts in a save: JSON has no NaN or infinities, so NaN is
    written as `0.0` and an infinity as `±3.4e38` (the `f32` with bits `0x7F7FC99E` / `0xFF7FC99E`);
    a finite float is written as it is. -/
def clampF32 (f : Float32) : Float32 :=
  if f.isNaN then Float32.ofBits 0
  else if f.isInf then (if f > 0.0 then Float32.ofBits 0x7F7FC99E else Float32.ofBits 0xFF7FC99E)
  else f

theorem f32ToJson_eq (f : Float32) : f32ToJson f = .flt (f32Text (clampF32 f)) := rfl

theorem clampF32_finite {f : Float32} (h1 : f.isNaN = false) (h2 : f.isInf = false) : clampF32 f = f := by
  simp [clampF32, h1, h2]

/-- The clamped float is one of three constants, or the (finite) float itself: it is finite. -/
theorem clampF32_isFinite (f : Float32) : (clampF32 f).isNaN = false ∧ (clampF32 f).isInf = false := by
  have c0 : (Float32.ofBits 0).isNaN = false ∧ (Float32.ofBits 0).isInf = false := by decide +kernel
  have c1 : (Float32.ofBits 0x7F7FC99E).isNaN = false ∧ (Float32.ofBits 0x7F7FC99E).isInf = false := by
    decide +kernel
  have c2 : (Float32.ofBits 0xFF7FC99E).isNaN = false ∧ (Float32.ofBits 0xFF7FC99E).isInf = false := by
    decide +kernel
  unfold clampF32
  by_cases h1 : f.isNaN = true
  · simp only [h1, if_true]; exact c0
  · by_cases h2 : f.isInf = true
    · simp only [h1, h2, Bool.false_eq_true, if_false, if_true]
      split
      · exact c1
      · exact c2
    · simp only [h1, h2, Bool.false_eq_true, if_false]
      exact ⟨by simp [h1], by simp [h2]⟩

/-- A list item that survives `fullName` / `ofFullName`: it has an origin, and
    neither the origin name nor the item name contains a dot. -/
def SaveableItem (i : ListItem) : Prop :=
  ∃ o, i.origin = some o ∧ '.' ∉ o.toList ∧ '.' ∉ i.name.toList

/-- Values that `write_rtobject` / `jtoken_to_runtime_object` carry through a save.  Every float
    is: a non-finite one is written as a finite number (`clampF32`) and so loads, as that number. -/
def SaveableVal : Val → Prop
  | .bool _ => True
  | .int i => inI32 i = true
  | .float _ => True
  | .str _ => True
  | .list l => ∀ kv ∈ l.items, SaveableItem kv.1 ∧ inI32 kv.2 = true
  | .dtarget p => p.WF
  | .varptr _ ci => inI32 ci = true

/-- **The well-formedness predicate of level 1.**  Objects that can sit on the
    evaluation stack, in the output stream or in a variable. -/
def SaveableObj : Obj → Prop
  | .val v => SaveableVal v
  | .glue => True
  | .void => True
  | .cmd _ => True
  | .native _ => True
  | .tag _ => True
  | .varAss _ _ _ => True
  | _ => False

/-- What a list value looks like after a save/load: the resolved `origins` are not
    saved (they are recomputed when the value is pushed on the evaluation stack), and
    the initial origin names are only kept for an empty list. The items keep their order. -/
def normList (l : InkList) : InkList :=
  { items := l.items, origins := [],
    initialOrigins := if l.items.isEmpty then l.initialOrigins else [] }

/-- Normal form of a value after a save/load: a float goes through the decimal text of its
    clamped form (`clampF32`: itself if it is finite), a list loses its resolved origins. -/
def normVal : Val → Val
  | .float f => .float (Load.floatOfRaw (f32Text (clampF32 f)))
  | .list l => .list (normList l)
  | v => v

def normObj : Obj → Obj
  | .val v => .val (normVal v)
  | o => o

/-- The JSON written for a saveable object. -/
def objJson : Obj → Json
  | .val (.bool b) => .bool b
  | .val (.int i) => .num i
  | .val (.float f) => f32ToJson f
  | .val (.str s) => .str (if isNewlineStr s then "\n" else "^" ++ s)
  | .val (.list l) => writeInkList l
  | .val (.dtarget p) => .obj [("^->", .str (String.ofList p.toText))]
  | .val (.varptr n ci) => .obj [("^var", .str n), ("ci", .num ci)]
  | .glue => .str "<>"
  | .cmd c => .str c.name
  | .native op => .str (if op.name == "^" then "L^" else op.name)
  | .void => .str "void"
  | .tag t => .obj [("#", .str t)]
  | .varAss n isNew isGlobal =>
    .obj ([((if isGlobal then "VAR=" else "temp="), Json.str n)] ++ (if !isNew then [("re", Json.bool true)] else []))
  | _ => .null

theorem writeObj_eq (o : Obj) (h : SaveableObj o) : writeObj o = .ok (objJson o) := by
  cases o with
  | val v => cases v <;> rfl
  | container _ _ _ _ => exact h.elim
  | divert _ => exact h.elim
  | choicePoint _ _ => exact h.elim
  | varRef _ _ => exact h.elim
  | _ => rfl

theorem ofFullName_fullName (i : ListItem) (h : SaveableItem i) :
    ListItem.ofFullName ((i.origin.getD "?") ++ "." ++ i.name) = i := by
  obtain ⟨o, ho, hdo, hdn⟩ := h
  obtain ⟨origin, name⟩ := i
  simp only at ho hdn
  subst ho
  have hl : (o ++ "." ++ name).toList = o.toList ++ '.' :: name.toList := by simp
  simp only [ListItem.ofFullName, Option.getD_some, hl, splitDot_append_dot _ _ hdo,
    splitDot_no_dot _ hdn]
  simp

theorem find_map_key {α : Type} (l : List (String × α)) (f : String × α → String × Json)
    (hf : ∀ x, (f x).1 = x.1) (k : String) :
    ((l.map f).find? (fun kv => kv.1 == k)) = (l.find? (fun kv => kv.1 == k)).map f := by
  induction l with
  | nil => rfl
  | cons x xs ih =>
    simp only [List.map_cons, List.find?_cons, hf]
    cases hx : (x.1 == k) <;> simp [ih]

theorem list_roundtrip (l : InkList) (h : SaveableVal (.list l)) :
    readObj (writeInkList l) = .ok (.val (.list (normList l))) := by
  simp only [SaveableVal] at h
  have hall : (l.items.map (fun kv => ((kv.1.origin.getD "?") ++ "." ++ kv.1.name, Json.num kv.2))).all
      (fun kv => (Load.asI64 kv.2).isSome) = true := by
    rw [List.all_eq_true]
    intro x hx
    obtain ⟨kv, hkv, rfl⟩ := List.mem_map.mp hx
    simp [asI64_num (h kv hkv).2]
  have hitems : (l.items.map (fun kv => ((kv.1.origin.getD "?") ++ "." ++ kv.1.name, Json.num kv.2))).map
      (fun kv => (ListItem.ofFullName kv.1, wrapI32 ((Load.asI64 kv.2).getD 0))) = l.items := by
    rw [List.map_map]
    calc _ = l.items.map id := by
          apply List.map_congr_left
          intro kv hkv
          obtain ⟨hi, hv⟩ := h kv hkv
          simp [ofFullName_fullName kv.1 hi, asI64_num hv, wrapI32_of_inI32 hv]
      _ = l.items := by simp
  by_cases he : (l.items.isEmpty && !l.initialOrigins.isEmpty) = true
  · have hemp : l.items.isEmpty = true := by
      simp only [Bool.and_eq_true] at he; exact he.1
    have hnil : l.items = [] := by simpa using hemp
    have hw : writeInkList l = .obj [("list", Json.obj []), ("origins", Json.arr (l.initialOrigins.map Json.str))] := by
      have hio : l.initialOrigins ≠ [] := by
        simp only [Bool.and_eq_true, Bool.not_eq_true', List.isEmpty_eq_false_iff] at he
        exact he.2
      simp [writeInkList, hnil, Json.ofStrs, hio]
    have hstr : (l.initialOrigins.map Json.str).all (fun e => e.asStr?.isSome) = true := by
      simp [Json.asStr?]
    have hfm : (l.initialOrigins.map Json.str).filterMap Json.asStr? = l.initialOrigins := by
      have : (Json.asStr? ∘ Json.str) = some := by funext x; rfl
      rw [List.filterMap_map, this, List.filterMap_some]
    rw [hw]
    simp only [readObj, Load.tokenToObj, Json.get?, List.find?, String.reduceBEq, Option.map_none,
      Option.map_some, Json.asObj?, Json.asArr?, hstr, hfm, if_true, List.all_nil, List.map_nil]
    simp [normList, hnil]
  · have he' : (l.items.isEmpty && !l.initialOrigins.isEmpty) = false := by simpa using he
    simp only [writeInkList, he', Bool.false_eq_true, if_false, List.append_nil]
    simp only [readObj, Load.tokenToObj, Json.get?, List.find?, String.reduceBEq, Option.map_none,
      Option.map_some, Json.asObj?, hall, if_true, hitems]
    congr 3
    simp only [normList]
    by_cases hemp : l.items.isEmpty = true
    · have : l.initialOrigins = [] := by
        simp only [hemp, Bool.true_and] at he'
        simpa using he'
      simp [hemp, this]
    · simp [hemp]


/-- **Level 1 (values).** Every saveable object is written, and the written token is read
    back as the object itself, up to the normal form `normObj` (floats go through their
    decimal text, lists lose the resolved `origins`). -/
theorem readObj_objJson (o : Obj) (h : SaveableObj o) : readObj (objJson o) = .ok (normObj o) := by
  cases o with
  | container _ _ _ _ => exact h.elim
  | divert _ => exact h.elim
  | choicePoint _ _ => exact h.elim
  | varRef _ _ => exact h.elim
  | glue => simp [objJson, normObj, readObj, Load.tokenToObj, Cmd.ofName, Cmd.all, Cmd.name, List.find?]
  | void =>
    simp [objJson, normObj, readObj, Load.tokenToObj, Cmd.ofName, Cmd.all, Cmd.name, List.find?,
      Op.ofName, Op.allOps, Op.name]
  | cmd c => exact cmd_obj_roundtrip c
  | native op => exact native_roundtrip op
  | tag t => simp [objJson, normObj, readObj, Load.tokenToObj, Json.get?, List.find?, Json.asStr?]
  | varAss n isNew isGlobal =>
    cases isNew <;> cases isGlobal <;>
      simp [objJson, normObj, readObj, Load.tokenToObj, Json.get?, List.find?, Json.asStr?]
  | val v =>
    cases v with
    | bool b => simp [objJson, normObj, normVal, readObj, Load.tokenToObj]
    | int i =>
      have hi : inI32 i = true := h
      simp [objJson, normObj, normVal, readObj, Load.tokenToObj, hi, inI64_of_inI32 hi]
    | float f =>
      simp [objJson, normObj, normVal, readObj, Load.tokenToObj, f32ToJson_eq]
    | str s => exact string_roundtrip s
    | list l => exact list_roundtrip l h
    | dtarget p =>
      have hp : p.WF := h
      simp [objJson, normObj, normVal, readObj, Load.tokenToObj, Json.get?, List.find?, Json.asStr?,
        C19.parse_toText p hp]
    | varptr n ci =>
      have hi : inI32 ci = true := h
      simp [objJson, normObj, normVal, readObj, Load.tokenToObj, Json.get?, List.find?, Json.asStr?,
        asI64_num hi, wrapI32_of_inI32 hi]

/-- Write then read, in one statement. -/
theorem readObj_writeObj (o : Obj) (h : SaveableObj o) :
    (writeObj o).bind readObj = .ok (normObj o) := by
  rw [writeObj_eq o h]; exact readObj_objJson o h

/-- Objects whose normal form is the object itself: no non-finite float (it comes back as the
    finite number it is written as), no float whose text does not parse back to it, no list with
    resolved origins or stale initial origins. -/
def ExactVal : Val → Prop
  | .float f => f.isNaN = false ∧ f.isInf = false ∧ Load.floatOfRaw (f32Text f) = f
  | .list l => l.origins = [] ∧ (l.items ≠ [] → l.initialOrigins = [])
  | _ => True

def ExactObj : Obj → Prop
  | .val v => ExactVal v
  | _ => True

theorem normVal_eq_self (v : Val) (h : ExactVal v) : normVal v = v := by
  cases v with
  | float f =>
    obtain ⟨h1, h2, h3⟩ := (h : f.isNaN = false ∧ f.isInf = false ∧ Load.floatOfRaw (f32Text f) = f)
    simp only [normVal, clampF32_finite h1 h2, h3]
  | list l =>
    obtain ⟨h1, h2⟩ := (h : l.origins = [] ∧ (l.items ≠ [] → l.initialOrigins = []))
    obtain ⟨items, origins, io⟩ := l
    simp only at h1 h2
    subst h1
    simp only [normVal, normList]
    cases items with
    | nil => simp
    | cons x xs => simp [h2 (by simp)]
  | _ => rfl

theorem normObj_eq_self (o : Obj) (h : ExactObj o) : normObj o = o := by
  cases o with
  | val v => simp only [normObj]; rw [normVal_eq_self v h]
  | _ => rfl

/-- The exact round trip, for the objects that are in normal form. -/
theorem readObj_writeObj_exact (o : Obj) (h : SaveableObj o) (he : ExactObj o) :
    (writeObj o).bind readObj = .ok o := by
  rw [readObj_writeObj o h, normObj_eq_self o he]

/-- A saved value is read back as a value (`.val`). -/
theorem readObj_valJson (v : Val) (h : SaveableVal v) : readObj (objJson (.val v)) = .ok (.val (normVal v)) :=
  readObj_objJson (.val v) h

/-- Lists of objects (evaluation stack, output stream). -/
theorem readObjs_writeObjs (l : List Obj) (h : ∀ o ∈ l, SaveableObj o) :
    writeObjs l = .ok (l.map objJson) ∧ readObjs (l.map objJson) = .ok (l.map normObj) := by
  refine ⟨writeObjs_ok objJson l (fun o ho => writeObj_eq o (h o ho)), ?_⟩
  unfold readObjs
  rw [mapOut_map]
  rw [mapOut_ok (fun o => readObj (objJson o)) normObj l (fun o ho => readObj_objJson o (h o ho))]


/-! ## 2. The variables map -/

/-- The globals that are written: those that differ from their default. -/
def changedGlobals (s : Core) : List (String × Val) :=
  s.vars.globals.filter (fun kv => match alGet s.defaultGlobals kv.1 with
    | some d => !valEqual kv.2 d
    | none => true)

def varsJson (gl : List (String × Val)) : List (String × Json) :=
  gl.map (fun kv => (kv.1, objJson (.val kv.2)))

/-- The globals after a load: one entry per DEFAULT global, in the order of the defaults,
    with the saved value if there is one. -/
def restoredGlobals (defaults saved : List (String × Val)) : List (String × Val) :=
  defaults.map (fun kd => (kd.1, match alGet saved kd.1 with
    | some v => normVal v
    | none => kd.2))

theorem writeVars_ok (gl : List (String × Val)) (h : ∀ kv ∈ gl, SaveableVal kv.2) :
    mapOut (fun (kv : String × Val) =>
      match writeObj (.val kv.2) with
      | .ok j => Out.ok (kv.1, j)
      | .err k m => .err k m
      | .panic p => .panic p) gl = .ok (varsJson gl) := by
  unfold varsJson
  apply mapOut_ok
  intro kv hkv
  simp [writeObj_eq (.val kv.2) (h kv hkv)]

theorem get?_varsJson (gl : List (String × Val)) (k : String) :
    get? (.obj (varsJson gl)) k = (alGet gl k).map (fun v => objJson (.val v)) := by
  simp only [Json.get?, varsJson, alGet]
  rw [find_map_key gl (fun kv => (kv.1, objJson (.val kv.2))) (fun _ => rfl)]
  cases List.find? (fun kv => kv.1 == k) gl <;> rfl

/-- **Level 2 (the variables map).**  Reading the written `variablesState` object against the
    default globals gives `restoredGlobals`. No distinctness is needed for this form: both
    sides look a name up by its first occurrence. -/
theorem readVars_ok (defaults saved : List (String × Val)) (h : ∀ kv ∈ saved, SaveableVal kv.2) :
    mapOut (fun (kv : String × Val) =>
      match get? (.obj (varsJson saved)) kv.1 with
      | some tok => (match readObj tok with
        | .ok (.val v) => Out.ok (kv.1, v)
        | .ok _ => bad "Variable is not a value"
        | .err k m => .err k m
        | .panic p => .panic p)
      | none => .ok kv) defaults = .ok (restoredGlobals defaults saved) := by
  unfold restoredGlobals
  apply mapOut_ok
  intro kd _
  rw [get?_varsJson]
  cases hg : alGet saved kd.1 with
  | none => simp
  | some v =>
    have hv : SaveableVal v := by
      unfold alGet at hg
      cases hf : List.find? (fun kv => kv.1 == kd.1) saved with
      | none => simp [hf] at hg
      | some kv =>
        simp [hf] at hg
        subst hg
        exact h kv (List.mem_of_find?_eq_some hf)
    simp [readObj_valJson v hv]

/-! ## 3. Threads and call stacks -/

/-- Every position of the tree has a path whose text parses back (`Path.WF`): container names are
    not numerals and contain no dot, indices fit a `usize`. -/
def PathsWF (root : Obj) : Prop := ∀ a p, pathOf root a = some p → p.WF

/-- The story tree hypotheses of the save/load round trip. -/
structure TreeOK (root : Obj) : Prop where
  wf : WFTree root
  paths : PathsWF root

/-- A call-stack pointer that can be saved: null, or a container of the tree with a 32-bit index. -/
def ValidPtr (root : Obj) (p : Ptr) : Prop :=
  match p.container with
  | none => True
  | some a => (∃ o, nodeAt root a = some o ∧ o.isContainer = true) ∧ inI32 p.index = true

/-- A null pointer is read back as THE null pointer (index -1). -/
def normPtr (p : Ptr) : Ptr := if p.container.isNone then Ptr.null else p

structure ElemOK (root : Obj) (el : Element) : Prop where
  ptr : ValidPtr root el.ptr
  temps : ∀ kv ∈ el.temps, SaveableVal kv.2

/-- A call-stack element after a save/load: `evalHeightWhenPushed` and `funcStartInOutput` are
    NOT saved and come back as 0. -/
def normElem (el : Element) : Element :=
  { ptr := normPtr el.ptr, inExpr := el.inExpr,
    temps := el.temps.map (fun kv => (kv.1, normVal kv.2)), kind := el.kind,
    evalHeightWhenPushed := 0, funcStartInOutput := 0 }

def ptrJson (root : Obj) (p : Ptr) : List (String × Json) :=
  match p.container with
  | some a => match pathOf root a with
    | some path => [("cPath", .str (String.ofList path.toText)), ("idx", .num p.index)]
    | none => []
  | none => []

def tempsJson (temps : List (String × Val)) : List (String × Json) :=
  if temps.isEmpty then []
  else [("temp", Json.obj (temps.map (fun kv => (kv.1, objJson (.val kv.2)))))]

def elemJson (root : Obj) (el : Element) : Json :=
  .obj (ptrJson root el.ptr ++ [("exp", .bool el.inExpr), ("type", .num (pushPopCode el.kind))]
    ++ tempsJson el.temps)

/-- The pointer that `pointer_at_path` builds for the path of the object at `a`: the object
    itself if it is a named container, else its slot in the parent (the index goes through
    `index as i32`, i.e. `wrapI32`); the root gives null. -/
def ptrOfAddr (root : Obj) (a : Addr) : Ptr :=
  match a.getLast? with
  | none => Ptr.null
  | some s =>
    match nodeAt root a with
    | none => Ptr.null
    | some c =>
      match c.validName, s with
      | some _, _ => { container := some a, index := -1 }
      | none, .idx i => { container := some a.dropLast, index := wrapI32 i }
      | none, .named _ => Ptr.null

/-- The previous pointer after a save/load: it is saved as the path of the object it resolves
    to, and rebuilt from that path. -/
def normPrev (root : Obj) (p : Ptr) : Ptr :=
  if p.isNull then Ptr.null
  else match p.resolve root with
    | some a => ptrOfAddr root a
    | none => Ptr.null

def PrevOK (root : Obj) (p : Ptr) : Prop := p.isNull = true ∨ ∃ a, p.resolve root = some a

def prevJson (root : Obj) (p : Ptr) : List (String × Json) :=
  if p.isNull then []
  else match p.resolve root with
    | some a => match pathOf root a with
      | some path => [("previousContentObject", .str (String.ofList path.toText))]
      | none => []
    | none => []

def threadJson (root : Obj) (t : Thread) : Json :=
  .obj ([("callstack", .arr (t.callstack.map (elemJson root))), ("threadIndex", .num t.index)]
    ++ prevJson root t.prevPtr)

structure ThreadOK (root : Obj) (t : Thread) : Prop where
  elems : ∀ el ∈ t.callstack, ElemOK root el
  prev : PrevOK root t.prevPtr
  index : (t.index : Int) ≤ u64Max

def normThread (root : Obj) (t : Thread) : Thread :=
  { callstack := t.callstack.map normElem, prevPtr := normPrev root t.prevPtr, index := t.index }

theorem foldr_out_ok {α β : Type} (g : α → Out (List β) → Out (List β)) (F : α → β) (l : List α)
    (h : ∀ x ∈ l, ∀ js, g x (.ok js) = .ok (F x :: js)) : l.foldr g (.ok []) = .ok (l.map F) := by
  induction l with
  | nil => rfl
  | cons x xs ih =>
    simp only [List.foldr_cons, List.map_cons]
    rw [ih (fun y hy => h y (by simp [hy]))]
    exact h x (by simp) _

theorem pathOf_of_node {root : Obj} (ht : TreeOK root) {a : Addr} {o : Obj} (ha : nodeAt root a = some o) :
    ∃ p, pathOf root a = some p ∧ p.WF ∧
      contentAtPath root [] p.comps = { addr := a, approximate := false } := by
  obtain ⟨p, hp, hc⟩ := C19.resolve_pathOf root ht.wf a o ha
  exact ⟨p, hp, ht.paths a p hp, hc⟩

theorem resolve_nodeAt {root : Obj} {p : Ptr} {a : Addr} (h : p.resolve root = some a) :
    ∃ o, nodeAt root a = some o := by
  unfold Ptr.resolve at h
  cases hc : p.container with
  | none => simp [hc] at h
  | some b =>
    simp only [hc] at h
    cases hn : nodeAt root b with
    | none => simp [hn] at h
    | some o =>
      simp only [hn] at h
      split at h
      · simp only [Option.some.injEq] at h; subst h; exact ⟨o, hn⟩
      · split at h
        · rename_i hlt
          simp only [Option.some.injEq] at h
          subst h
          refine ⟨o.content[p.index.toNat], ?_⟩
          rw [nodeAt_append, hn]
          simp [nodeAt, Obj.child, hlt]
        · cases h

theorem tempsJson_write (el : Element) (h : ∀ kv ∈ el.temps, SaveableVal kv.2) :
    writeObjs (el.temps.map (fun kv => Obj.val kv.2)) = .ok (el.temps.map (fun kv => objJson (.val kv.2))) := by
  have hw := writeObjs_ok objJson (el.temps.map (fun kv => Obj.val kv.2))
    (by
      intro o ho
      obtain ⟨kv, hkv, rfl⟩ := List.mem_map.mp ho
      exact writeObj_eq _ (h kv hkv))
  rw [hw, List.map_map]
  rfl

theorem writeThread_ok {root : Obj} (ht : TreeOK root) (t : Thread) (h : ThreadOK root t) :
    writeThread root t = .ok (threadJson root t) := by
  unfold writeThread
  simp only
  rw [foldr_out_ok _ (elemJson root) t.callstack]
  · unfold threadJson prevJson
    rcases h.prev with hn | ⟨a, ha⟩
    · simp [hn]
    · by_cases hn : t.prevPtr.isNull = true
      · simp [hn]
      · obtain ⟨o, ho⟩ := resolve_nodeAt ha
        obtain ⟨p, hp, _, _⟩ := pathOf_of_node ht ho
        simp [hn, ha, hp]
  · intro el hel js
    have hok := h.elems el hel
    have hw := tempsJson_write el hok.temps
    unfold elemJson ptrJson tempsJson
    cases hc : el.ptr.container with
    | none =>
      by_cases he : el.temps.isEmpty = true
      · simp [he]
      · simp [he, hw, List.zip_map']
    | some a =>
      have hv := hok.ptr
      simp only [ValidPtr, hc] at hv
      obtain ⟨⟨o, ho, _⟩, _⟩ := hv
      obtain ⟨p, hp, _, _⟩ := pathOf_of_node ht ho
      by_cases he : el.temps.isEmpty = true
      · simp [he, hp]
      · simp [he, hw, hp, List.zip_map']

/-! ### reading a pointer back from the path of an object -/

theorem compsOf_snoc (b : Addr) : ∀ (root : Obj) (s : Step) (par c : Obj),
    nodeAt root b = some par → par.child s = some c →
    compsOf root (b ++ [s]) = (compsOf root b).bind (fun ks => (compOfChild c s).map (fun k => ks ++ [k])) := by
  induction b with
  | nil =>
    intro root s par c hb hc
    simp only [nodeAt, Option.some.injEq] at hb
    subst hb
    simp only [List.nil_append, compsOf, hc, Option.bind_some]
    cases compOfChild c s <;> simp
  | cons s0 rest ih =>
    intro root s par c hb hc
    simp only [nodeAt] at hb
    cases hc0 : root.child s0 with
    | none => simp [hc0] at hb
    | some c0 =>
      simp only [hc0] at hb
      simp only [List.cons_append, compsOf, hc0]
      rw [ih c0 s par c hb hc]
      cases compOfChild c0 s0 <;> cases compsOf c0 rest <;> simp
      cases compOfChild c s <;> simp

theorem validName_isContainer {o : Obj} {n : String} (h : o.validName = some n) : o.isContainer = true := by
  cases o <;> simp [Obj.validName] at h ⊢ <;> rfl

theorem pointerAtPath_pathOf {root : Obj} (hwf : WFTree root) (a : Addr) (o : Obj) (p : Path)
    (ha : nodeAt root a = some o) (hp : pathOf root a = some p) :
    pointerAtPath root p = .ok (ptrOfAddr root a) := by
  have hsplit : a = [] ∨ ∃ b s, a = b ++ [s] := by
    rcases List.eq_nil_or_concat a with h | ⟨b, s, h⟩
    · exact Or.inl h
    · exact Or.inr ⟨b, s, by simpa using h⟩
  rcases hsplit with rfl | ⟨b, s, rfl⟩
  · simp only [pathOf, compsOf, Option.map_some, Option.some.injEq] at hp
    subst hp
    simp [pointerAtPath, ptrOfAddr]
  · rw [nodeAt_append] at ha
    cases hb : nodeAt root b with
    | none => simp [hb] at ha
    | some par =>
      simp only [hb, Option.bind_some, nodeAt] at ha
      cases hc : par.child s with
      | none => simp [hc] at ha
      | some c =>
        simp only [hc, Option.some.injEq] at ha
        subst ha
        obtain ⟨ks, hks⟩ := compsOf_isSome root hwf b [] root par rfl hb
        have hsn := compsOf_snoc b root s par c hb hc
        simp only [hks, Option.bind_some] at hsn
        have hnode : nodeAt root (b ++ [s]) = some c := by
          rw [nodeAt_append, hb]; simp [nodeAt, hc]
        have hparC : isContainerAt root b = true := by
          simp [isContainerAt, hb, child_isContainer par c s hc]
        have hbks : contentAtPath root [] ks = { addr := b, approximate := false } := by
          have := contentLoop_compsOf root hwf b [] root par ks true rfl hb hks (fun _ => rfl)
          simpa [contentAtPath] using this
        cases hk : compOfChild c s with
        | none => simp [pathOf, hsn, hk] at hp
        | some k =>
          simp only [pathOf, hsn, hk, Option.map_some, Option.some.injEq] at hp
          subst hp
          have hfull : contentAtPath root [] (ks ++ [k]) = { addr := b ++ [s], approximate := false } := by
            have hcs : compsOf root (b ++ [s]) = some (ks ++ [k]) := by rw [hsn, hk]; rfl
            have := contentLoop_compsOf root hwf (b ++ [s]) [] root c (ks ++ [k]) true rfl hnode hcs (fun _ => rfl)
            simpa [contentAtPath] using this
          unfold compOfChild at hk
          cases hv : c.validName with
          | some n =>
            simp only [hv, Option.some.injEq] at hk
            subst hk
            have hcC : isContainerAt root (b ++ [s]) = true := by
              simp [isContainerAt, hnode, validName_isContainer hv]
            simp [pointerAtPath, ptrOfAddr, hfull, hcC, hnode, hv]
          | none =>
            simp only [hv] at hk
            cases s with
            | named key =>
              -- a named-only child of a well-formed node carries its key as (valid) name
              simp only [Obj.child] at hc
              have := ((hwf b par hb).namedKeys key c hc).1
              rw [hv] at this; cases this
            | idx i =>
              simp only [Option.some.injEq] at hk
              subst hk
              have hlen : (b.isEmpty && decide (ks.length + 1 - 1 > 0)) = false := by
                cases b with
                | nil =>
                  simp only [compsOf, Option.some.injEq] at hks
                  subst hks
                  simp
                | cons _ _ => simp
              simp [pointerAtPath, ptrOfAddr, hbks, hparC, hnode, hv]
              intro hbe hlt
              subst hbe
              simp only [compsOf, Option.some.injEq] at hks
              subst hks
              simp at hlt


theorem asU64_pushPopCode (k : PushPop) : Load.asU64 (.num (pushPopCode k)) = some (pushPopCode k) := by
  cases k <;> simp [Load.asU64, pushPopCode, u64Max]

theorem readThread_ok {root : Obj} (ht : TreeOK root) (t : Thread) (h : ThreadOK root t) :
    readThread root (threadJson root t) = .ok (normThread root t) := by
  unfold readThread
  have h1 : (get? (threadJson root t) "threadIndex").bind Load.asU64 = some (t.index : Int) := by
    simp [threadJson, Json.get?, List.find?, asU64_nat h.index]
  have h2 : get? (threadJson root t) "callstack" = some (.arr (t.callstack.map (elemJson root))) := by
    simp [threadJson, Json.get?, List.find?]
  have hfilter : (t.callstack.map (elemJson root)).filter (fun x => x.asObj?.isSome) = t.callstack.map (elemJson root) := by
    rw [List.filter_eq_self]
    intro x hx
    obtain ⟨el, _, rfl⟩ := List.mem_map.mp hx
    simp [elemJson, Json.asObj?]
  simp only [h1, h2, hfilter]
  rw [mapOut_map, mapOut_ok (g := normElem)]
  · -- the previous pointer
    rcases h.prev with hn | ⟨a, ha⟩
    · simp [threadJson, prevJson, normThread, normPrev, hn, Json.get?, List.find?]
    · by_cases hn : t.prevPtr.isNull = true
      · simp [threadJson, prevJson, normThread, normPrev, hn, Json.get?, List.find?]
      · obtain ⟨o, ho⟩ := resolve_nodeAt ha
        obtain ⟨p, hp, hpwf, _⟩ := pathOf_of_node ht ho
        have hpp := pointerAtPath_pathOf ht.wf a o p ho hp
        simp [threadJson, prevJson, normThread, normPrev, hn, ha, hp, Json.get?, List.find?, Json.asStr?,
          C19.parse_toText p hpwf, hpp]
  · intro el hel
    have hok := h.elems el hel
    have htemps : mapOut (fun (kv : String × Json) => readObj kv.2) [] = .ok [] := rfl
    have hkind := asU64_pushPopCode el.kind
    have hpp := pushPop_roundtrip el.kind
    cases hc : el.ptr.container with
    | none =>
      by_cases he : el.temps.isEmpty = true
      · have hnil : el.temps = [] := by simpa using he
        simp [elemJson, ptrJson, tempsJson, hc, he, Json.get?, List.find?, hkind, hpp, Json.asStr?,
          Json.asBool?, Json.asObj?, normElem, normPtr, hnil]
      · have he' : el.temps.isEmpty = false := by simpa using he
        simp only [elemJson, ptrJson, tempsJson, hc, he', Json.get?, List.find?, List.nil_append, List.cons_append,
          List.append_nil, String.reduceBEq, Option.map_some, Option.map_none, Option.bind_some, Option.bind_none,
          hkind, hpp, Json.asObj?, Json.asStr?, Json.asBool?, Bool.false_eq_true, if_false]
        rw [mapOut_map, mapOut_ok (g := fun kv => (kv.1, normVal kv.2))]
        · simp [normElem, normPtr, hc]
        · intro kv hkv
          simp [readObj_valJson kv.2 (hok.temps kv hkv)]
    | some a =>
      have hv := hok.ptr
      simp only [ValidPtr, hc] at hv
      obtain ⟨⟨o, ho, hoc⟩, hidx⟩ := hv
      obtain ⟨p, hp, hpwf, hres⟩ := pathOf_of_node ht ho
      have hisc : isContainerAt root a = true := by simp [isContainerAt, ho, hoc]
      have hparse : Path.parse p.toText = p := C19.parse_toText p hpwf
      by_cases he : el.temps.isEmpty = true
      · have hnil : el.temps = [] := by simpa using he
        simp [elemJson, ptrJson, tempsJson, hc, he, hp, Json.get?, List.find?, hkind, hpp, Json.asStr?,
          Json.asBool?, Json.asObj?, normElem, normPtr, hnil, hparse, hres, hisc, asI64_num hidx,
          wrapI32_of_inI32 hidx]
        rw [← hc]
      · have he' : el.temps.isEmpty = false := by simpa using he
        simp only [elemJson, ptrJson, tempsJson, hc, hp, he', Json.get?, List.find?, List.nil_append, List.cons_append,
          List.append_nil, String.reduceBEq, Option.map_some, Option.map_none, Option.bind_some, Option.bind_none,
          hkind, hpp, Json.asObj?, Json.asStr?, Json.asBool?, Bool.false_eq_true, if_false, String.toList_ofList,
          hparse, hres, hisc, asI64_num hidx, wrapI32_of_inI32 hidx, if_true]
        rw [mapOut_map, mapOut_ok (g := fun kv => (kv.1, normVal kv.2))]
        · simp [normElem, normPtr, hc]
          rw [← hc]
        · intro kv hkv
          simp [readObj_valJson kv.2 (hok.temps kv hkv)]

/-- **Level 3 (threads).** -/
theorem readThread_writeThread {root : Obj} (ht : TreeOK root) (t : Thread) (h : ThreadOK root t) :
    (writeThread root t).bind (readThread root) = .ok (normThread root t) := by
  rw [writeThread_ok ht t h]; exact readThread_ok ht t h

/-! ### call stacks -/

def callStackJson (root : Obj) (cs : CallStack) : Json :=
  Json.obj [("threads", .arr (cs.threads.map (threadJson root))), ("threadCounter", .num cs.threadCounter)]

structure CallStackOK (root : Obj) (cs : CallStack) : Prop where
  threads : ∀ t ∈ cs.threads, ThreadOK root t
  nonempty : cs.threads ≠ []
  elemsNonempty : ∀ t ∈ cs.threads, t.callstack ≠ []
  counter : (cs.threadCounter : Int) ≤ u64Max

def normCallStack (root : Obj) (cs : CallStack) : CallStack :=
  { threads := cs.threads.map (normThread root), threadCounter := cs.threadCounter }

theorem threadJson_isObj (root : Obj) (t : Thread) : (threadJson root t).asObj?.isSome = true := by
  simp [threadJson, Json.asObj?]

theorem writeThreads_ok {root : Obj} (ht : TreeOK root) (ts : List Thread) (h : ∀ t ∈ ts, ThreadOK root t) :
    mapOut (writeThread root) ts = .ok (ts.map (threadJson root)) :=
  mapOut_ok _ _ _ (fun t htm => writeThread_ok ht t (h t htm))

theorem readThreads_ok {root : Obj} (ht : TreeOK root) (ts : List Thread) (h : ∀ t ∈ ts, ThreadOK root t) :
    mapOut (readThread root) (ts.map (threadJson root)) = .ok (ts.map (normThread root)) := by
  rw [mapOut_map]
  exact mapOut_ok _ _ _ (fun t htm => readThread_ok ht t (h t htm))

/-- **Level 3 (call stacks).** -/
theorem readCallStack_ok {root : Obj} (ht : TreeOK root) (cs : CallStack) (h : CallStackOK root cs) :
    readCallStack root (callStackJson root cs) = .ok (normCallStack root cs) := by
  unfold readCallStack
  have h1 : (get? (callStackJson root cs) "threads").bind Json.asArr? = some (cs.threads.map (threadJson root)) := by
    simp [callStackJson, Json.get?, List.find?, Json.asArr?]
  have h2 : (get? (callStackJson root cs) "threadCounter").bind Load.asU64 = some (cs.threadCounter : Int) := by
    simp [callStackJson, Json.get?, List.find?, asU64_nat h.counter]
  have hall : (cs.threads.map (threadJson root)).all (fun t => t.asObj?.isSome) = true := by
    rw [List.all_eq_true]
    intro x hx
    obtain ⟨t, _, rfl⟩ := List.mem_map.mp hx
    exact threadJson_isObj root t
  have hne : (cs.threads.map (normThread root)).isEmpty = false := by
    cases hts : cs.threads with
    | nil => exact absurd hts h.nonempty
    | cons _ _ => rfl
  have hany : (cs.threads.map (normThread root)).any (fun t => t.callstack.isEmpty) = false := by
    rw [Bool.eq_false_iff]
    intro hany
    rw [List.any_eq_true] at hany
    obtain ⟨x, hx, hxe⟩ := hany
    obtain ⟨t, htm, rfl⟩ := List.mem_map.mp hx
    have := h.elemsNonempty t htm
    simp [normThread] at hxe
    exact this hxe
  simp only [h1, h2, hall, Bool.not_true, Bool.false_eq_true, if_false, readThreads_ok ht cs.threads h.threads,
    hne, hany, Bool.or_false, normCallStack, Int.toNat_natCast]


/-! ## 4a. Association lists and decimal numerals -/

theorem alGet_alSet_self {β : Type} (l : List (String × β)) (k : String) (v : β) :
    alGet (alSet l k v) k = some v := by
  induction l with
  | nil => simp [alSet, alGet]
  | cons kv rest ih =>
    obtain ⟨k0, v0⟩ := kv
    simp only [alSet]
    by_cases h0 : (k0 == k) = true
    · simp [h0, alGet]
    · have h0' : (k0 == k) = false := by simpa using h0
      simp only [h0', Bool.false_eq_true, if_false]
      simp only [alGet, List.find?_cons, h0']
      simpa [alGet] using ih

theorem alGet_foldl_alSet_ne {β : Type} (kvs : List (String × β)) (acc : List (String × β)) (k : String)
    (h : ∀ kv ∈ kvs, (kv.1 == k) = false) :
    alGet (kvs.foldl (fun acc kv => alSet acc kv.1 kv.2) acc) k = alGet acc k := by
  induction kvs generalizing acc with
  | nil => rfl
  | cons x rest ih =>
    simp only [List.foldl_cons]
    rw [ih _ (fun kv hkv => h kv (by simp [hkv]))]
    exact alGet_alSet_ne acc x.1 k x.2 (h x (by simp))

/-- After folding `alSet` over `kvs`, a key that occurs in `kvs` is bound to the value of one of
    its occurrences in `kvs`. -/
theorem alGet_foldl_alSet {β : Type} (kvs : List (String × β)) (acc : List (String × β)) (k : String)
    (hmem : ∃ kv ∈ kvs, kv.1 = k) :
    ∃ kv ∈ kvs, kv.1 = k ∧ alGet (kvs.foldl (fun acc kv => alSet acc kv.1 kv.2) acc) k = some kv.2 := by
  induction kvs generalizing acc with
  | nil => obtain ⟨_, h, _⟩ := hmem; cases h
  | cons x rest ih =>
    simp only [List.foldl_cons]
    by_cases hr : ∃ kv ∈ rest, kv.1 = k
    · obtain ⟨kv, hkv, hk, hg⟩ := ih (alSet acc x.1 x.2) hr
      exact ⟨kv, by simp [hkv], hk, hg⟩
    · have hx : x.1 = k := by
        obtain ⟨kv, hkv, hk⟩ := hmem
        rcases List.mem_cons.mp hkv with rfl | hin
        · exact hk
        · exact absurd ⟨kv, hin, hk⟩ hr
      refine ⟨x, by simp, hx, ?_⟩
      rw [alGet_foldl_alSet_ne rest _ k]
      · rw [← hx]; exact alGet_alSet_self acc x.1 x.2
      · intro kv hkv
        rw [Bool.eq_false_iff]
        intro hbe
        exact hr ⟨kv, hkv, by simpa using hbe⟩

theorem alSet_append_new {β : Type} (l : List (String × β)) (k : String) (v : β)
    (h : ∀ kv ∈ l, kv.1 ≠ k) : alSet l k v = l ++ [(k, v)] := by
  induction l with
  | nil => rfl
  | cons x rest ih =>
    obtain ⟨k0, v0⟩ := x
    have h0 : (k0 == k) = false := by
      rw [Bool.eq_false_iff]; intro hb; exact h (k0, v0) (by simp) (by simpa using hb)
    simp only [alSet, h0, Bool.false_eq_true, if_false, List.cons_append]
    rw [ih (fun kv hkv => h kv (by simp [hkv]))]

/-- Folding `alSet` over an association list with distinct keys rebuilds the list. -/
theorem foldl_alSet_nodup {β : Type} (kvs acc : List (String × β))
    (hnd : (kvs.map (·.1)).Nodup) (hdisj : ∀ kv ∈ kvs, ∀ kv' ∈ acc, kv'.1 ≠ kv.1) :
    kvs.foldl (fun acc kv => alSet acc kv.1 kv.2) acc = acc ++ kvs := by
  induction kvs generalizing acc with
  | nil => simp
  | cons x rest ih =>
    simp only [List.foldl_cons]
    rw [alSet_append_new acc x.1 x.2 (fun kv' hkv' => hdisj x (by simp) kv' hkv')]
    simp only [List.map_cons, List.nodup_cons] at hnd
    rw [ih _ hnd.2]
    · simp
    · intro kv hkv kv' hkv'
      rcases List.mem_append.mp hkv' with hin | hin
      · exact hdisj kv (by simp [hkv]) kv' hin
      · simp only [List.mem_singleton] at hin
        subst hin
        intro heq
        exact hnd.1 (by rw [heq]; exact List.mem_map_of_mem hkv)

/-! #### `intToString` on naturals is `toString` -/

theorem decimalAux_acc (fuel n : Nat) (acc : List Char) (h : n < fuel) :
    decimalAux fuel n acc = decimalAux fuel n [] ++ acc := by
  induction fuel generalizing n acc with
  | zero => omega
  | succ fuel ih =>
    unfold decimalAux
    simp only
    split
    · simp
    · have hdiv : n / 10 < fuel := by omega
      rw [ih (n / 10) (digitChar (n % 10) :: acc) hdiv, ih (n / 10) [digitChar (n % 10)] hdiv]
      simp

theorem decimalAux_fuel (f1 f2 n : Nat) (acc : List Char) (h1 : n < f1) (h2 : n < f2) :
    decimalAux f1 n acc = decimalAux f2 n acc := by
  induction f1 generalizing n acc f2 with
  | zero => omega
  | succ f1 ih =>
    cases f2 with
    | zero => omega
    | succ f2 =>
      unfold decimalAux
      simp only
      split
      · rfl
      · exact ih f2 (n / 10) _ (by omega) (by omega)

theorem decimal_eq_if (n : Nat) :
    decimal n = if n < 10 then [digitChar n] else decimal (n / 10) ++ [digitChar (n % 10)] := by
  unfold decimal
  rw [decimalAux]
  split
  · rename_i h; rw [Nat.mod_eq_of_lt h]
  · rw [decimalAux_acc n (n / 10) _ (by omega)]
    rw [decimalAux_fuel n (n / 10 + 1) (n / 10) [] (by omega) (by omega)]

theorem digitChar_eq_nat : ∀ d, d < 10 → digitChar d = Nat.digitChar d := by decide

theorem decimal_eq_toDigits (n : Nat) : decimal n = Nat.toDigits 10 n := by
  induction n using Nat.strongRecOn with
  | _ n ih =>
    rw [decimal_eq_if, Nat.toDigits_eq_if (by decide)]
    split
    · rename_i h; rw [digitChar_eq_nat n h]
    · rw [ih (n / 10) (by omega), digitChar_eq_nat (n % 10) (by omega)]

theorem intToString_nat (n : Nat) : intToString (n : Int) = toString n := by
  have hneg : ¬ ((n : Int) < 0) := by omega
  simp only [intToString, hneg, if_false, Int.toNat_natCast, decimal_eq_toDigits,
    Nat.toString_eq_ofList_toDigits]

theorem decimal_injective {m n : Nat} (h : decimal m = decimal n) : m = n := by
  have hm := (decimal_spec m).2.2
  have hn := (decimal_spec n).2.2
  rw [h] at hm
  omega

theorem toString_nat_injective {m n : Nat} (h : toString m = toString n) : m = n := by
  rw [← intToString_nat, ← intToString_nat] at h
  have hm : ¬ ((m : Int) < 0) := by omega
  have hn : ¬ ((n : Int) < 0) := by omega
  simp only [intToString, hm, hn, if_false, Int.toNat_natCast] at h
  have := congrArg String.toList h
  simp only [String.toList_ofList] at this
  exact decimal_injective this

/-! ## 4b. Choices -/

structure ChoiceOK (c : Choice) : Prop where
  index : (c.index : Int) ≤ u64Max
  target : c.targetPath.WF

/-- **Level 4 (choices).**  A written choice is read back with its fields, without a thread
    (the flow reader attaches it) and with the thread index that was written. -/
theorem readChoice_writeChoice (c : Choice) (ot : Nat) (hc : ChoiceOK c) (hot : (ot : Int) ≤ u64Max) :
    readChoice (writeChoice c ot) = .ok { c with thread := none, originalThreadIndex := ot } := by
  have hstr : (c.tags.map Json.str).all (fun t => t.asStr?.isSome) = true := by
    simp [Json.asStr?]
  have hfm : (c.tags.map Json.str).filterMap Json.asStr? = c.tags := by
    have : (Json.asStr? ∘ Json.str) = some := by funext x; rfl
    rw [List.filterMap_map, this, List.filterMap_some]
  have hparse := C19.parse_toText c.targetPath hc.target
  obtain ⟨text, index, sourcePath, targetPath, invis, tags, thread, oti⟩ := c
  simp only at hstr hfm hparse
  cases invis <;>
    simp [readChoice, writeChoice, Json.get?, List.find?, Json.asStr?, Json.asBool?, asU64_nat hc.index,
      asU64_nat hot, Json.ofStrs, hstr, hfm, hparse]


/-! ## 4c. Flows -/

/-- The thread a choice carries (`default` if it has none; `FlowOK` excludes that). -/
def choiceThread (c : Choice) : Thread := c.thread.getD default

def choicePairs (f : Flow) : List (Choice × Thread) := f.choices.map (fun c => (c, choiceThread c))

/-- The choices whose thread is not (by index) on the call stack: their threads are saved apart. -/
def extraPairs (f : Flow) : List (Choice × Thread) :=
  (choicePairs f).filter (fun ct => (f.callstack.getThreadWithIndex ct.2.index).isNone)

def choiceThreadsJson (root : Obj) (f : Flow) : List (String × Json) :=
  ((extraPairs f).map (fun ct => (intToString ct.2.index, threadJson root ct.2))).foldl
    (fun acc kv => alSet acc kv.1 kv.2) []

def flowJson (root : Obj) (f : Flow) : Json :=
  .obj ([("callstack", callStackJson root f.callstack), ("outputStream", .arr (f.output.map objJson))]
    ++ (if (extraPairs f).isEmpty then [] else [("choiceThreads", Json.obj (choiceThreadsJson root f))])
    ++ [("currentChoices", .arr ((choicePairs f).map (fun ct => writeChoice ct.1 ct.2.index)))])

/-- **The invariant of level 4.**  Besides the well-formedness of the parts: every choice has a
    thread; a choice whose thread index is the index of a thread on the call stack carries that
    thread (up to the normal form); two choices with the same thread index carry the same thread;
    the thread of a choice has a call stack (`Flow::from_json` rejects a choice thread with an
    empty call stack: choosing the choice makes that thread the current one). -/
structure FlowOK (root : Obj) (f : Flow) : Prop where
  callstack : CallStackOK root f.callstack
  output : ∀ o ∈ f.output, SaveableObj o
  choices : ∀ c ∈ f.choices, ChoiceOK c ∧ ∃ t, c.thread = some t ∧ ThreadOK root t
  onStack : ∀ c ∈ f.choices, ∀ t t', c.thread = some t →
    f.callstack.getThreadWithIndex t.index = some t' → normThread root t' = normThread root t
  sameIndex : ∀ c₁ ∈ f.choices, ∀ c₂ ∈ f.choices, ∀ t₁ t₂, c₁.thread = some t₁ → c₂.thread = some t₂ →
    t₁.index = t₂.index → normThread root t₁ = normThread root t₂
  choiceThreadNonempty : ∀ c ∈ f.choices, ∀ t, c.thread = some t → t.callstack ≠ []

/-- A choice after a save/load: its thread in normal form; `originalThreadIndex` (written as the
    thread's index, and not used by the interpreter) becomes that index. -/
def normChoice (root : Obj) (c : Choice) : Choice :=
  { c with thread := c.thread.map (normThread root),
           originalThreadIndex := match c.thread with
             | some t => t.index
             | none => c.originalThreadIndex }

def normFlow (root : Obj) (name : String) (f : Flow) : Flow :=
  { name := name, callstack := normCallStack root f.callstack, output := f.output.map normObj,
    choices := f.choices.map (normChoice root) }

theorem choicePairs_mem {f : Flow} {ct : Choice × Thread} (h : ct ∈ choicePairs f) :
    ∃ c ∈ f.choices, ct = (c, choiceThread c) := by
  obtain ⟨c, hc, rfl⟩ := List.mem_map.mp h
  exact ⟨c, hc, rfl⟩

theorem writeFlow_ok {root : Obj} (ht : TreeOK root) (f : Flow) (h : FlowOK root f) :
    writeFlow root f = .ok (flowJson root f) := by
  unfold writeFlow
  have hthreads := writeThreads_ok ht f.callstack.threads h.callstack.threads
  have hout := (readObjs_writeObjs f.output h.output).1
  simp only [hthreads, hout]
  rw [mapOut_ok (g := fun c => (c, choiceThread c))]
  · simp only
    rw [mapOut_ok (g := fun ct => (intToString ct.2.index, threadJson root ct.2))]
    · simp only [flowJson, callStackJson, choiceThreadsJson, extraPairs, choicePairs]
      rfl
    · intro ct hct
      have hct' := (List.mem_filter.mp hct).1
      obtain ⟨c, hc, rfl⟩ := List.mem_map.mp hct'
      obtain ⟨_, t, hthr, htok⟩ := h.choices c hc
      have : choiceThread c = t := by simp [choiceThread, hthr]
      simp only [this, writeThread_ok ht t htok]
  · intro c hc
    obtain ⟨_, t, hthr, _⟩ := h.choices c hc
    simp [choiceThread, hthr]

theorem getThread_norm (root : Obj) (cs : CallStack) (i : Nat) :
    (normCallStack root cs).getThreadWithIndex i = (cs.getThreadWithIndex i).map (normThread root) := by
  simp only [CallStack.getThreadWithIndex, normCallStack, List.find?_map]
  rfl

theorem get?_obj_eq_alGet (l : List (String × Json)) (k : String) : get? (.obj l) k = alGet l k := rfl

theorem flowJson_get (root : Obj) (f : Flow) :
    (get? (flowJson root f) "outputStream").bind Json.asArr? = some (f.output.map objJson)
    ∧ (get? (flowJson root f) "currentChoices").bind Json.asArr?
        = some ((choicePairs f).map (fun ct => writeChoice ct.1 ct.2.index))
    ∧ (get? (flowJson root f) "callstack").bind (fun c => if c.asObj?.isSome then some c else none)
        = some (callStackJson root f.callstack)
    ∧ get? (flowJson root f) "choiceThreads"
        = if (extraPairs f).isEmpty then none else some (Json.obj (choiceThreadsJson root f)) := by
  by_cases he : (extraPairs f).isEmpty = true
  · simp [flowJson, he, Json.get?, List.find?, Json.asArr?, Json.asObj?, callStackJson]
  · simp [flowJson, he, Json.get?, List.find?, Json.asArr?, Json.asObj?, callStackJson]

/-- Looking a saved choice thread up by its index finds a thread with the same normal form. -/
theorem choiceThreads_lookup {root : Obj} (f : Flow) (h : FlowOK root f) (c : Choice) (hc : c ∈ f.choices)
    (t : Thread) (hthr : c.thread = some t) (hnone : f.callstack.getThreadWithIndex t.index = none) :
    ∃ t₂, get? (Json.obj (choiceThreadsJson root f)) (toString t.index) = some (threadJson root t₂)
      ∧ ThreadOK root t₂ ∧ normThread root t₂ = normThread root t := by
  have hct : choiceThread c = t := by simp [choiceThread, hthr]
  have hmemx : (c, t) ∈ extraPairs f := by
    simp only [extraPairs, List.mem_filter, hnone, Option.isNone_none, and_true]
    rw [← hct]
    exact List.mem_map_of_mem hc
  rw [get?_obj_eq_alGet]
  obtain ⟨kv, hkv, hk, hg⟩ := alGet_foldl_alSet
    ((extraPairs f).map (fun ct => (intToString ct.2.index, threadJson root ct.2))) [] (toString t.index)
    ⟨_, List.mem_map_of_mem hmemx, by simp [intToString_nat]⟩
  obtain ⟨ct, hctm, rfl⟩ := List.mem_map.mp hkv
  obtain ⟨c₂, hc₂, rfl⟩ := choicePairs_mem (List.mem_filter.mp hctm).1
  obtain ⟨_, t₂, hthr₂, htok₂⟩ := h.choices c₂ hc₂
  have hct₂ : choiceThread c₂ = t₂ := by simp [choiceThread, hthr₂]
  simp only [hct₂] at hk hg
  have hidx : t₂.index = t.index := by
    rw [intToString_nat] at hk
    exact toString_nat_injective hk
  exact ⟨t₂, hg, htok₂, h.sameIndex c₂ hc₂ c hc t₂ t hthr₂ hthr hidx⟩

theorem readChoices_ok {root : Obj} (f : Flow) (h : FlowOK root f) :
    mapOut readChoice ((choicePairs f).map (fun ct => writeChoice ct.1 ct.2.index))
      = .ok (f.choices.map (fun c => { c with thread := none, originalThreadIndex := (choiceThread c).index })) := by
  simp only [choicePairs, List.map_map]
  rw [mapOut_map]
  apply mapOut_ok
  intro c hc
  obtain ⟨hcok, t, hthr, htok⟩ := h.choices c hc
  have : choiceThread c = t := by simp [choiceThread, hthr]
  simp only [Function.comp, this]
  exact readChoice_writeChoice c t.index hcok htok.index

/-- **Level 4 (flows), read side.** -/
theorem readFlow_ok {root : Obj} (ht : TreeOK root) (name : String) (f : Flow) (h : FlowOK root f) :
    readFlow root name (flowJson root f) = .ok (normFlow root name f) := by
  unfold readFlow
  obtain ⟨g1, g2, g3, g4⟩ := flowJson_get root f
  simp only [g1, g2, g3, g4, (readObjs_writeObjs f.output h.output).2, readChoices_ok f h,
    readCallStack_ok ht f.callstack h.callstack]
  rw [mapOut_map, mapOut_ok (g := normChoice root)]
  · simp only [normFlow]
  · intro c hc
    obtain ⟨hcok, t, hthr, htok⟩ := h.choices c hc
    have hct : choiceThread c = t := by simp [choiceThread, hthr]
    simp only [hct, getThread_norm]
    cases hg : f.callstack.getThreadWithIndex t.index with
    | some t' =>
      have := h.onStack c hc t t' hthr hg
      simp [normChoice, hthr, this]
    | none =>
      obtain ⟨t₂, hlook, htok₂, hnorm⟩ := choiceThreads_lookup f h c hc t hthr hg
      have hne : (extraPairs f).isEmpty = false := by
        have hmemx : (c, t) ∈ extraPairs f := by
          simp only [extraPairs, List.mem_filter, hg, Option.isNone_none, and_true]
          rw [← hct]
          exact List.mem_map_of_mem hc
        cases hx : extraPairs f with
        | nil => rw [hx] at hmemx; cases hmemx
        | cons _ _ => rfl
      have hcs : (normThread root t).callstack.isEmpty = false := by
        have := h.choiceThreadNonempty c hc t hthr
        cases hcs : t.callstack with
        | nil => exact absurd hcs this
        | cons _ _ => simp [normThread, hcs]
      simp only [hne, Bool.false_eq_true, if_false, Option.bind_some, hlook, threadJson_isObj, if_true,
        readThread_ok ht t₂ htok₂, hnorm, hcs, normChoice, hthr, Option.map_some, Option.map_none]

/-- **Level 4 (flows).** -/
theorem readFlow_writeFlow {root : Obj} (ht : TreeOK root) (name : String) (f : Flow) (h : FlowOK root f) :
    (writeFlow root f).bind (readFlow root name) = .ok (normFlow root name f) := by
  rw [writeFlow_ok ht f h]; exact readFlow_ok ht name f h


/-! ## 5. The whole state -/

/-- All flows of a state: the current one first, then the parked ones. -/
def flowsList (ss : StoryState) : List (String × Flow) :=
  (ss.core.flow.name, ss.core.flow) :: (ss.namedFlows.getD [])

def flowsJson (root : Obj) (ss : StoryState) : List (String × Json) :=
  (flowsList ss).map (fun nf => (nf.1, flowJson root nf.2))

def divertJson (root : Obj) (p : Ptr) : List (String × Json) :=
  if p.isNull then []
  else match p.path root with
    | some (some path) => [("currentDivertTarget", .str (String.ofList path.toText))]
    | _ => []

def stateJson (root : Obj) (ss : StoryState) : Json :=
  .obj ([("flows", Json.obj (flowsJson root ss)), ("currentFlowName", .str ss.core.flow.name),
         ("variablesState", Json.obj (varsJson (changedGlobals ss.core))),
         ("evalStack", .arr (ss.core.evalStack.reverse.map objJson))] ++ divertJson root ss.core.divertedPtr ++
        [("visitCounts", Json.obj (ss.core.visitCounts.map (fun kv => (kv.1, Json.num kv.2)))),
         ("turnIndices", Json.obj (ss.core.turnIndices.map (fun kv => (kv.1, Json.num kv.2)))),
         ("turnIdx", .num ss.core.turnIndex), ("storySeed", .num ss.core.storySeed),
         ("previousRandom", .num ss.core.previousRandom), ("inkSaveVersion", .num inkSaveStateVersion),
         ("inkFormatVersion", .num 21)])

/-- The diverted pointer can be saved: null, or a container of the tree with a 32-bit index. -/
def DivertOK (root : Obj) (p : Ptr) : Prop := ValidPtr root p

/-- The diverted pointer after a save/load (when it is not null): with an index it comes back
    as it was; without one (index < 0) it is rebuilt from the path of its container. -/
def normDivert (root : Obj) (p : Ptr) : Ptr :=
  match p.container with
  | none => p
  | some a => if p.index ≥ 0 then p else ptrOfAddr root a

/-- **The invariant `Saveable` on states** (the tree hypotheses are `TreeOK root`). -/
structure StateOK (root : Obj) (ss : StoryState) : Prop where
  flows : ∀ nf ∈ flowsList ss, FlowOK root nf.2
  /-- the flow names are distinct (the current flow is not also parked) -/
  flowNames : ((flowsList ss).map (·.1)).Nodup
  globals : ∀ kv ∈ ss.core.vars.globals, SaveableVal kv.2
  evalStack : ∀ o ∈ ss.core.evalStack, SaveableObj o
  divert : DivertOK root ss.core.divertedPtr
  visitCounts : ∀ kv ∈ ss.core.visitCounts, inI32 kv.2 = true
  turnIndices : ∀ kv ∈ ss.core.turnIndices, inI32 kv.2 = true
  turnIndex : inI32 ss.core.turnIndex = true
  storySeed : inI32 ss.core.storySeed = true
  previousRandom : inI32 ss.core.previousRandom = true

/-- The parked flows after a load: `none` when there are none (also for `some []`). -/
def restoredNamedFlows (root : Obj) (src : StoryState) : Option (List (String × Flow)) :=
  if (src.namedFlows.getD []).isEmpty then none
  else some ((src.namedFlows.getD []).map (fun nf => (nf.1, normFlow root nf.1 nf.2)))

/-- **The state after loading a save of `src` into `tgt`.**  Restored from the save: the current
    flow and the parked flows, the global variables, the evaluation stack, the diverted pointer (if
    the saved one is not null), visit counts, turn indices, turn index, story seed, previous random.
    Kept from `tgt`: `didSafeExit`, `errors`, `defaultGlobals`, the observation bookkeeping of the
    variable store (`batchObserving`, `changed`), `warnings`, `patching`, and the diverted pointer
    when the saved one is null. -/
def restoredState (root : Obj) (src tgt : StoryState) : StoryState :=
  { core :=
      { flow := normFlow root src.core.flow.name src.core.flow,
        didSafeExit := tgt.core.didSafeExit,
        vars := tgt.core.vars.replaceGlobals
          (restoredGlobals tgt.core.defaultGlobals (changedGlobals src.core)),
        defaultGlobals := tgt.core.defaultGlobals,
        evalStack := src.core.evalStack.map normObj,
        errors := tgt.core.errors,
        divertedPtr := if src.core.divertedPtr.isNull then tgt.core.divertedPtr
                       else normDivert root src.core.divertedPtr,
        visitCounts := src.core.visitCounts,
        turnIndices := src.core.turnIndices,
        turnIndex := src.core.turnIndex,
        storySeed := src.core.storySeed,
        previousRandom := src.core.previousRandom },
    warnings := tgt.warnings,
    namedFlows := restoredNamedFlows root src,
    patching := tgt.patching }

theorem changedGlobals_saveable {root : Obj} {ss : StoryState} (h : StateOK root ss) :
    ∀ kv ∈ changedGlobals ss.core, SaveableVal kv.2 :=
  fun kv hkv => h.globals kv (List.mem_filter.mp hkv).1

theorem ptr_path_some {root : Obj} {p : Ptr} {a : Addr} {cp : Path} (hc : p.container = some a)
    (hp : pathOf root a = some cp) :
    p.path root = some (some (if p.index ≥ 0 then cp.appendComp (.idx p.index.toNat) else cp)) := by
  unfold Ptr.path
  simp only [hc, hp]
  split <;> rfl

/-- The path written for a non-null diverted pointer. -/
theorem divert_path {root : Obj} (ht : TreeOK root) (p : Ptr) (h : DivertOK root p) (hn : p.isNull = false) :
    ∃ a o cp, p.container = some a ∧ nodeAt root a = some o ∧ o.isContainer = true ∧ inI32 p.index = true ∧
      pathOf root a = some cp ∧ cp.WF ∧ contentAtPath root [] cp.comps = { addr := a, approximate := false } ∧
      p.path root = some (some (if p.index ≥ 0 then cp.appendComp (.idx p.index.toNat) else cp)) := by
  cases hc : p.container with
  | none => simp [Ptr.isNull, hc] at hn
  | some a =>
    have hv := h
    simp only [DivertOK, ValidPtr, hc] at hv
    obtain ⟨⟨o, ho, hoc⟩, hidx⟩ := hv
    obtain ⟨cp, hp, hwf, hres⟩ := pathOf_of_node ht ho
    exact ⟨a, o, cp, rfl, ho, hoc, hidx, hp, hwf, hres, ptr_path_some hc hp⟩

theorem flowsJson_dedup (root : Obj) (ss : StoryState) (h : ((flowsList ss).map (·.1)).Nodup) :
    (flowsJson root ss).foldl (fun acc kv => alSet acc kv.1 kv.2) [] = flowsJson root ss := by
  rw [foldl_alSet_nodup (flowsJson root ss) []]
  · simp
  · have : (flowsJson root ss).map (·.1) = (flowsList ss).map (·.1) := by
      simp only [flowsJson, List.map_map]
      rfl
    rw [this]; exact h
  · intro _ _ _ hm; cases hm

/-- **Level 5, write side.** -/
theorem writeState_ok {root : Obj} (ht : TreeOK root) (ss : StoryState) (h : StateOK root ss) :
    writeState root ss = .ok (stateJson root ss) := by
  unfold writeState
  simp only
  rw [mapOut_ok (g := fun nf => (nf.1, flowJson root nf.2))]
  · rw [mapOut_ok (g := fun kv => (kv.1, objJson (.val kv.2)))]
    · have hes := writeObjs_ok objJson ss.core.evalStack.reverse
        (fun o ho => writeObj_eq o (h.evalStack o (by simpa using ho)))
      simp only [hes]
      have hd : List.foldl (fun acc (kv : String × Json) => alSet acc kv.1 kv.2) []
          (List.map (fun (nf : String × Flow) => (nf.1, flowJson root nf.2))
            ((ss.core.flow.name, ss.core.flow) :: ss.namedFlows.getD [])) = flowsJson root ss :=
        flowsJson_dedup root ss h.flowNames
      rw [hd]
      by_cases hn : ss.core.divertedPtr.isNull = true
      · simp only [hn, if_true, stateJson, divertJson]
        rfl
      · have hn' : ss.core.divertedPtr.isNull = false := by simpa using hn
        obtain ⟨a, o, cp, _, _, _, _, _, _, _, hpath⟩ := divert_path ht _ h.divert hn'
        simp only [hn', Bool.false_eq_true, if_false, hpath, stateJson, divertJson]
        rfl
    · intro kv hkv
      simp [writeObj_eq (.val kv.2) (h.globals kv (List.mem_filter.mp hkv).1)]
  · intro nf hnf
    simp [writeFlow_ok ht nf.2 (h.flows nf hnf)]


theorem flowJson_isObj (root : Obj) (f : Flow) : (flowJson root f).asObj?.isNone = false := by
  simp [flowJson, Json.asObj?]

theorem go_single {root : Obj} (ht : TreeOK root) (name : String) (f : Flow) (hf : FlowOK root f)
    (st : StoryState) :
    loadStateObj.go root true [(name, flowJson root f)] st
      = (.ok (), onCore st (fun c => { c with flow := normFlow root name f })) := by
  simp [loadStateObj.go, flowJson_isObj, readFlow_ok ht name f hf]

theorem go_multi {root : Obj} (ht : TreeOK root) (l : List (String × Flow)) (hl : ∀ nf ∈ l, FlowOK root nf.2)
    (st : StoryState) (acc : List (String × Flow)) (hs : st.namedFlows = some acc) :
    loadStateObj.go root false (l.map (fun nf => (nf.1, flowJson root nf.2))) st
      = (.ok (), { st with
          namedFlows := some (l.foldl (fun acc nf => alSet acc nf.1 (normFlow root nf.1 nf.2)) acc) }) := by
  induction l generalizing st acc with
  | nil =>
    obtain ⟨core, warnings, namedFlows, patching⟩ := st
    simp only at hs
    subst hs
    simp [loadStateObj.go]
  | cons nf rest ih =>
    simp only [List.map_cons, loadStateObj.go, flowJson_isObj, Bool.false_eq_true, if_false,
      readFlow_ok ht nf.1 nf.2 (hl nf (by simp))]
    rw [ih (fun x hx => hl x (by simp [hx])) _ (alSet acc nf.1 (normFlow root nf.1 nf.2)) (by simp [hs])]
    simp

theorem divertJson_cases (root : Obj) (p : Ptr) :
    divertJson root p = [] ∨ ∃ v, divertJson root p = [("currentDivertTarget", v)] := by
  unfold divertJson
  split
  · exact Or.inl rfl
  · split
    · exact Or.inr ⟨_, rfl⟩
    · exact Or.inl rfl

theorem stateJson_get (root : Obj) (ss : StoryState) :
    get? (stateJson root ss) "inkSaveVersion" = some (.num 10)
    ∧ get? (stateJson root ss) "flows" = some (Json.obj (flowsJson root ss))
    ∧ (get? (stateJson root ss) "currentFlowName").bind Json.asStr? = some ss.core.flow.name
    ∧ get? (stateJson root ss) "variablesState" = some (Json.obj (varsJson (changedGlobals ss.core)))
    ∧ get? (stateJson root ss) "evalStack" = some (.arr (ss.core.evalStack.reverse.map objJson))
    ∧ get? (stateJson root ss) "currentDivertTarget" = (divertJson root ss.core.divertedPtr).head?.map (·.2)
    ∧ get? (stateJson root ss) "visitCounts"
        = some (Json.obj (ss.core.visitCounts.map (fun kv => (kv.1, Json.num kv.2))))
    ∧ get? (stateJson root ss) "turnIndices"
        = some (Json.obj (ss.core.turnIndices.map (fun kv => (kv.1, Json.num kv.2))))
    ∧ get? (stateJson root ss) "turnIdx" = some (.num ss.core.turnIndex)
    ∧ get? (stateJson root ss) "storySeed" = some (.num ss.core.storySeed)
    ∧ get? (stateJson root ss) "previousRandom" = some (.num ss.core.previousRandom) := by
  rcases divertJson_cases root ss.core.divertedPtr with hd | ⟨v, hd⟩
  · simp [stateJson, hd, Json.get?, List.find?, Json.asStr?, inkSaveStateVersion]
  · simp [stateJson, hd, Json.get?, List.find?, Json.asStr?, inkSaveStateVersion]

/-! ### `loadStateObj` cut into its steps (checked by `rfl` against the model) -/

def flowsStep (root : Obj) (s : StoryState) (j : Json) : Out Unit × StoryState :=
  match get? j "flows" with
  | some flowsTok =>
    match flowsTok.asObj? with
    | none => (bad "Invalid flows object", s)
    | some flows =>
      let single := flows.length == 1
      let s0 := { s with namedFlows := if single then none else some [] }
      andThen (loadStateObj.go root single flows s0) (fun st =>
        match st.namedFlows with
        | some nf =>
          if nf.length > 1 then
            match (get? j "currentFlowName").bind Json.asStr? with
            | some cur =>
              (match alGet nf cur with
              | some fl => (.ok (), { (onCore st (fun c => { c with flow := fl })) with namedFlows := some (alRemove nf cur) })
              | none => (.ok (), st))
            | none => (.ok (), st)
          else (.ok (), st)
        | none => (.ok (), st))
  | none => (.err "Unsupported" "old save format without flows", s)

def varsStep (j : Json) (s1 : StoryState) : Out Unit × StoryState :=
  match get? j "variablesState" with
  | some vtok =>
    (match vtok.asObj? with
    | none => (bad "Invalid variables state object", s1)
    | some _ =>
      match mapOut (fun (kv : String × Val) =>
          match get? vtok kv.1 with
          | some tok => (match readObj tok with
            | .ok (.val v) => Out.ok (kv.1, v)
            | .ok _ => bad "Variable is not a value"
            | .err k m => .err k m
            | .panic p => .panic p)
          | none => .ok kv) s1.core.defaultGlobals with
      | .ok gl => (.ok (), onCore s1 (fun c => { c with vars := c.vars.replaceGlobals gl }))
      | .err k m => (.err k m, onCore s1 (fun c => { c with vars := c.vars.replaceGlobals [] }))
      | .panic p => (.panic p, s1))
  | none => (.ok (), s1)

def evalStep (j : Json) (s2 : StoryState) : Out Unit × StoryState :=
  match get? j "evalStack" with
  | some etok =>
    (match etok.asArr? with
    | none => (bad "Invalid evaluation stack", s2)
    | some toks => match readObjs toks with
      | .ok objs => (.ok (), onCore s2 (fun c => { c with evalStack := objs.reverse }))
      | .err k m => (.err k m, s2)
      | .panic p => (.panic p, s2))
  | none => (.ok (), s2)

def divertStep (root : Obj) (j : Json) (s3 : StoryState) : Out Unit × StoryState :=
  match get? j "currentDivertTarget" with
  | some dtok =>
    let path : Path := match dtok.asStr? with
      | some t => Path.parse t.toList
      | none => Path.empty
    (match pointerAtPath root path with
    | .ok p => (.ok (), onCore s3 (fun c => { c with divertedPtr := p }))
    | .err k m => (.err k m, s3)
    | .panic p => (.panic p, s3))
  | none => (.ok (), s3)

def visitStep (j : Json) (s4 : StoryState) : Out Unit × StoryState :=
  match get? j "visitCounts" with
  | some t => (match readIntDict t "Invalid visit counts object" with
    | .ok d => (.ok (), onCore s4 (fun c => { c with visitCounts := d }))
    | .err k m => (.err k m, s4)
    | .panic p => (.panic p, s4))
  | none => (.ok (), s4)

def turnIndicesStep (j : Json) (s5 : StoryState) : Out Unit × StoryState :=
  match get? j "turnIndices" with
  | some t => (match readIntDict t "Invalid turn indices object" with
    | .ok d => (.ok (), onCore s5 (fun c => { c with turnIndices := d }))
    | .err k m => (.err k m, s5)
    | .panic p => (.panic p, s5))
  | none => (.ok (), s5)

def turnIdxStep (j : Json) (s6 : StoryState) : Out Unit × StoryState :=
  match get? j "turnIdx" with
  | some t => (match Load.asI64 t with
    | some n => (.ok (), onCore s6 (fun c => { c with turnIndex := wrapI32 n }))
    | none => (bad "Invalid current turn index", s6))
  | none => (.ok (), s6)

def seedStep (j : Json) (s7 : StoryState) : Out Unit × StoryState :=
  match get? j "storySeed" with
  | some t => (match Load.asI64 t with
    | some n => (.ok (), onCore s7 (fun c => { c with storySeed := wrapI32 n }))
    | none => (bad "Invalid story seed", s7))
  | none => (.ok (), s7)

def prevRandomStep (j : Json) (s8 : StoryState) : Out Unit × StoryState :=
  match get? j "previousRandom" with
  | some t => (match Load.asI64 t with
    | some n => (.ok (), onCore s8 (fun c => { c with previousRandom := wrapI32 n }))
    | none => (bad "Invalid previous random value", s8))
  | none => (.ok (), onCore s8 (fun c => { c with previousRandom := 0 }))

/-- The model's `loadStateObj` is the composition of the steps above (definitional). -/
theorem loadStateObj_eq (root : Obj) (s : StoryState) (j : Json) :
    loadStateObj root s j =
      match get? j "inkSaveVersion" with
      | none => (bad "ink save format incorrect, can't load.", s)
      | some v =>
        let tooOld : Bool := match Load.asI64 v with
          | some n => decide (n < minCompatibleLoadVersion)
          | none => false
        if tooOld then
          (bad "Ink save format isn't compatible with the current version", s)
        else
          andThen (flowsStep root s j) (fun s1 =>
          andThen (varsStep j s1) (fun s2 =>
          andThen (evalStep j s2) (fun s3 =>
          andThen (divertStep root j s3) (fun s4 =>
          andThen (visitStep j s4) (fun s5 =>
          andThen (turnIndicesStep j s5) (fun s6 =>
          andThen (turnIdxStep j s6) (fun s7 =>
          andThen (seedStep j s7) (fun s8 =>
          prevRandomStep j s8)))))))) := rfl

theorem varsStep_ok {root : Obj} (src s1 : StoryState) (h : StateOK root src) :
    varsStep (stateJson root src) s1 = (.ok (), onCore s1 (fun c => { c with
      vars := c.vars.replaceGlobals (restoredGlobals s1.core.defaultGlobals (changedGlobals src.core)) })) := by
  obtain ⟨_, _, _, g4, _⟩ := stateJson_get root src
  unfold varsStep
  simp only [g4, Json.asObj?]
  rw [mapOut_ok (g := fun kd => (kd.1, match alGet (changedGlobals src.core) kd.1 with
    | some v => normVal v
    | none => kd.2))]
  · rfl
  · intro kd _
    rw [get?_varsJson]
    cases hg : alGet (changedGlobals src.core) kd.1 with
    | none => simp
    | some v =>
      have hv : SaveableVal v := by
        unfold alGet at hg
        cases hf : List.find? (fun kv => kv.1 == kd.1) (changedGlobals src.core) with
        | none => simp [hf] at hg
        | some kv =>
          simp [hf] at hg
          subst hg
          exact changedGlobals_saveable h kv (List.mem_of_find?_eq_some hf)
      simp [readObj_valJson v hv]

theorem evalStep_ok {root : Obj} (src s2 : StoryState) (h : StateOK root src) :
    evalStep (stateJson root src) s2
      = (.ok (), onCore s2 (fun c => { c with evalStack := src.core.evalStack.map normObj })) := by
  obtain ⟨_, _, _, _, g5, _⟩ := stateJson_get root src
  unfold evalStep
  have hr := (readObjs_writeObjs src.core.evalStack.reverse (fun o ho => h.evalStack o (by simpa using ho))).2
  simp only [g5, Json.asArr?, hr]
  simp [List.map_reverse]

theorem readIntDict_what (kvs : List (String × Json)) (w w' : String) :
    readIntDict (Json.obj kvs) w = readIntDict (Json.obj kvs) w' := by
  simp [readIntDict, Json.asObj?]

theorem int_dict_roundtrip' (d : List (String × Int)) (w : String) (h : ∀ kv ∈ d, inI32 kv.2 = true) :
    readIntDict (Json.obj (d.map (fun kv => (kv.1, Json.num kv.2)))) w = .ok d := by
  rw [readIntDict_what _ w "x"]; exact int_dict_roundtrip d h

theorem visitStep_ok {root : Obj} (src s4 : StoryState) (h : StateOK root src) :
    visitStep (stateJson root src) s4
      = (.ok (), onCore s4 (fun c => { c with visitCounts := src.core.visitCounts })) := by
  obtain ⟨_, _, _, _, _, _, g7, _⟩ := stateJson_get root src
  unfold visitStep
  simp only [g7, int_dict_roundtrip' _ _ h.visitCounts]

theorem turnIndicesStep_ok {root : Obj} (src s5 : StoryState) (h : StateOK root src) :
    turnIndicesStep (stateJson root src) s5
      = (.ok (), onCore s5 (fun c => { c with turnIndices := src.core.turnIndices })) := by
  obtain ⟨_, _, _, _, _, _, _, g8, _⟩ := stateJson_get root src
  unfold turnIndicesStep
  simp only [g8, int_dict_roundtrip' _ _ h.turnIndices]

theorem turnIdxStep_ok {root : Obj} (src s6 : StoryState) (h : StateOK root src) :
    turnIdxStep (stateJson root src) s6
      = (.ok (), onCore s6 (fun c => { c with turnIndex := src.core.turnIndex })) := by
  obtain ⟨_, _, _, _, _, _, _, _, g9, _⟩ := stateJson_get root src
  unfold turnIdxStep
  simp only [g9, asI64_num h.turnIndex, wrapI32_of_inI32 h.turnIndex]

theorem seedStep_ok {root : Obj} (src s7 : StoryState) (h : StateOK root src) :
    seedStep (stateJson root src) s7
      = (.ok (), onCore s7 (fun c => { c with storySeed := src.core.storySeed })) := by
  obtain ⟨_, _, _, _, _, _, _, _, _, g10, _⟩ := stateJson_get root src
  unfold seedStep
  simp only [g10, asI64_num h.storySeed, wrapI32_of_inI32 h.storySeed]

theorem prevRandomStep_ok {root : Obj} (src s8 : StoryState) (h : StateOK root src) :
    prevRandomStep (stateJson root src) s8
      = (.ok (), onCore s8 (fun c => { c with previousRandom := src.core.previousRandom })) := by
  obtain ⟨_, _, _, _, _, _, _, _, _, _, g11⟩ := stateJson_get root src
  unfold prevRandomStep
  simp only [g11, asI64_num h.previousRandom, wrapI32_of_inI32 h.previousRandom]

theorem pathOf_rel {root : Obj} {a : Addr} {cp : Path} (hp : pathOf root a = some cp) : cp.rel = false := by
  unfold pathOf at hp
  cases hc : compsOf root a with
  | none => simp [hc] at hp
  | some cs => simp [hc] at hp; subst hp; rfl

theorem pathOf_nil {root : Obj} {cp : Path} (hp : pathOf root [] = some cp) : cp.comps = [] := by
  simp [pathOf, compsOf] at hp; subst hp; rfl

theorem appendIdx_wf {cp : Path} (hwf : cp.WF) (hrel : cp.rel = false) (n : Nat) (hn : n ≤ usizeMax) :
    (cp.appendComp (.idx n)).WF := by
  refine ⟨?_, ?_, ?_⟩
  · intro c hc
    simp only [Path.appendComp, List.mem_append, List.mem_singleton] at hc
    rcases hc with hc | rfl
    · exact hwf.comps c hc
    · exact hn
  · intro hr; simp [Path.appendComp] at hr
  · intro _ c hc
    simp only [Path.appendComp] at hc
    cases hcs : cp.comps with
    | nil =>
      simp only [hcs, List.nil_append, List.head?_cons, Option.some.injEq] at hc
      subst hc
      exact (decimal_spec n).1
    | cons x xs =>
      simp only [hcs, List.cons_append, List.head?_cons, Option.some.injEq] at hc
      subst hc
      exact hwf.absHead hrel x (by simp [hcs])

theorem pointerAtPath_appendIdx {root : Obj} {a : Addr} {cp : Path} (hp : pathOf root a = some cp)
    (hres : contentAtPath root [] cp.comps = { addr := a, approximate := false })
    (hisc : isContainerAt root a = true) (n : Nat) :
    pointerAtPath root (cp.appendComp (.idx n)) = .ok { container := some a, index := wrapI32 n } := by
  have hlen : (a.isEmpty && decide (cp.comps.length + 1 - 1 > 0)) = false := by
    cases a with
    | nil => simp [pathOf_nil hp]
    | cons _ _ => simp
  have hlast : (cp.appendComp (.idx n)).comps.getLast? = some (.idx n) := by
    simp [Path.appendComp]
  have hdl : (cp.appendComp (.idx n)).comps.dropLast = cp.comps := by
    simp [Path.appendComp]
  have hl : (cp.appendComp (.idx n)).comps.length = cp.comps.length + 1 := by
    simp [Path.appendComp]
  unfold pointerAtPath
  rw [hlast]
  simp only [hdl, hl, hres, hisc, if_true, hlen, Bool.false_eq_true, if_false]

theorem divertStep_ok {root : Obj} (ht : TreeOK root) (src s3 : StoryState) (h : StateOK root src) :
    divertStep root (stateJson root src) s3
      = (.ok (), if src.core.divertedPtr.isNull then s3
                 else onCore s3 (fun c => { c with divertedPtr := normDivert root src.core.divertedPtr })) := by
  obtain ⟨_, _, _, _, _, g6, _⟩ := stateJson_get root src
  unfold divertStep
  by_cases hn : src.core.divertedPtr.isNull = true
  · simp [g6, divertJson, hn]
  · have hn' : src.core.divertedPtr.isNull = false := by simpa using hn
    obtain ⟨a, o, cp, hc, ho, hoc, hidx, hp, hwf, hres, hpath⟩ := divert_path ht _ h.divert hn'
    have hisc : isContainerAt root a = true := by simp [isContainerAt, ho, hoc]
    by_cases hi : src.core.divertedPtr.index ≥ 0
    · have hnle : src.core.divertedPtr.index.toNat ≤ usizeMax := by
        have := hidx
        unfold inI32 i32Min i32Max at this
        simp only [Bool.and_eq_true, decide_eq_true_eq] at this
        unfold usizeMax
        omega
      have hwf' := appendIdx_wf hwf (pathOf_rel hp) _ hnle
      have hpp := pointerAtPath_appendIdx hp hres hisc src.core.divertedPtr.index.toNat
      have hcast : wrapI32 ((src.core.divertedPtr.index.toNat : Nat) : Int) = src.core.divertedPtr.index := by
        have : ((src.core.divertedPtr.index.toNat : Nat) : Int) = src.core.divertedPtr.index := by omega
        rw [this]; exact wrapI32_of_inI32 hidx
      have hnd : normDivert root src.core.divertedPtr = { container := some a, index := src.core.divertedPtr.index } := by
        simp only [normDivert, hc, hi, if_true]
        rw [← hc]
      simp only [g6, divertJson, hn', Bool.false_eq_true, if_false, hpath, hi, if_true, List.head?_cons,
        Option.map_some, Json.asStr?, String.toList_ofList, C19.parse_toText _ hwf', hpp, hcast, hnd]
    · have hpp := pointerAtPath_pathOf ht.wf a o cp ho hp
      have hnd : normDivert root src.core.divertedPtr = ptrOfAddr root a := by
        simp only [normDivert, hc, hi, if_false]
      simp only [g6, divertJson, hn', Bool.false_eq_true, if_false, hpath, hi, List.head?_cons,
        Option.map_some, Json.asStr?, String.toList_ofList, C19.parse_toText _ hwf, hpp, hnd]

theorem alRemove_head {β : Type} (k : String) (v : β) (rest : List (String × β))
    (h : ∀ kv ∈ rest, kv.1 ≠ k) : alRemove ((k, v) :: rest) k = rest := by
  simp only [alRemove, List.filter_cons, beq_self_eq_true, Bool.not_true, Bool.false_eq_true, if_false]
  rw [List.filter_eq_self]
  intro kv hkv
  simp [h kv hkv]

/-- The state after the flows step. -/
def afterFlows (root : Obj) (src tgt : StoryState) : StoryState :=
  { core := { tgt.core with flow := normFlow root src.core.flow.name src.core.flow },
    warnings := tgt.warnings, namedFlows := restoredNamedFlows root src, patching := tgt.patching }

theorem flowsStep_ok {root : Obj} (ht : TreeOK root) (src tgt : StoryState) (h : StateOK root src) :
    flowsStep root tgt (stateJson root src) = (.ok (), afterFlows root src tgt) := by
  obtain ⟨_, g2, g3, _⟩ := stateJson_get root src
  unfold flowsStep
  simp only [g2, g3, Json.asObj?]
  cases hnf : src.namedFlows.getD [] with
  | nil =>
    have hfj : flowsJson root src = [(src.core.flow.name, flowJson root src.core.flow)] := by
      simp [flowsJson, flowsList, hnf]
    have hfo : FlowOK root src.core.flow := h.flows (src.core.flow.name, src.core.flow) (by simp [flowsList])
    simp only [hfj, List.length_singleton, beq_self_eq_true, if_true, go_single ht _ _ hfo, andThen, onCore]
    simp [afterFlows, restoredNamedFlows, hnf]
  | cons nf1 rest =>
    have hlen : ((flowsJson root src).length == 1) = false := by
      simp [flowsJson, flowsList, hnf]
    have hgo := go_multi ht (flowsList src) h.flows
      { core := tgt.core, warnings := tgt.warnings, namedFlows := some [], patching := tgt.patching } [] rfl
    have hfold : (flowsList src).foldl (fun acc nf => alSet acc nf.1 (normFlow root nf.1 nf.2)) []
        = (flowsList src).map (fun nf => (nf.1, normFlow root nf.1 nf.2)) := by
      have := foldl_alSet_nodup ((flowsList src).map (fun nf => (nf.1, normFlow root nf.1 nf.2))) []
        (by
          have : ((flowsList src).map (fun nf => (nf.1, normFlow root nf.1 nf.2))).map (·.1)
              = (flowsList src).map (·.1) := by
            simp only [List.map_map]; rfl
          rw [this]; exact h.flowNames)
        (by intro _ _ _ hm; cases hm)
      rw [List.foldl_map] at this
      simpa using this
    rw [hfold] at hgo
    have hfj : flowsJson root src = (flowsList src).map (fun nf => (nf.1, flowJson root nf.2)) := rfl
    rw [← hfj] at hgo
    simp only [hlen, Bool.false_eq_true, if_false, hgo, andThen]
    have hlist : flowsList src = (src.core.flow.name, src.core.flow) :: nf1 :: rest := by
      simp [flowsList, hnf]
    have hnd := h.flowNames
    rw [hlist] at hnd
    simp only [List.map_cons, List.nodup_cons] at hnd
    have hrm : alRemove ((src.core.flow.name, normFlow root src.core.flow.name src.core.flow) ::
        (nf1 :: rest).map (fun nf => (nf.1, normFlow root nf.1 nf.2))) src.core.flow.name
        = (nf1 :: rest).map (fun nf => (nf.1, normFlow root nf.1 nf.2)) := by
      apply alRemove_head
      intro kv hkv
      obtain ⟨x, hx, rfl⟩ := List.mem_map.mp hkv
      intro heq
      apply hnd.1
      simp only at heq
      rw [← heq]
      exact List.mem_map_of_mem (f := (·.1)) hx
    simp only [hlist, List.map_cons] at hrm ⊢
    simp [alGet, hrm, onCore, afterFlows, restoredNamedFlows, hnf]

theorem andThen_ok (s : StoryState) (f : StoryState → Out Unit × StoryState) :
    andThen (.ok (), s) f = f s := rfl

/-- **Level 5, read side.**  Loading the JSON written for `src` into any state `tgt` succeeds and
    gives `restoredState root src tgt`. -/
theorem loadStateObj_ok {root : Obj} (ht : TreeOK root) (src tgt : StoryState) (h : StateOK root src) :
    loadStateObj root tgt (stateJson root src) = (.ok (), restoredState root src tgt) := by
  obtain ⟨g1, _⟩ := stateJson_get root src
  rw [loadStateObj_eq]
  have hold : (match Load.asI64 (Json.num 10) with
      | some n => decide (n < minCompatibleLoadVersion)
      | none => false) = false := by
    simp [Load.asI64, inI64, i64Min, i64Max, minCompatibleLoadVersion]
  simp only [g1, hold, Bool.false_eq_true, if_false, flowsStep_ok ht src tgt h, andThen_ok,
    varsStep_ok src _ h, evalStep_ok src _ h, divertStep_ok ht src _ h, visitStep_ok src _ h,
    turnIndicesStep_ok src _ h, turnIdxStep_ok src _ h, seedStep_ok src _ h, prevRandomStep_ok src _ h]
  by_cases hn : src.core.divertedPtr.isNull = true
  · simp [hn, onCore, afterFlows, restoredState]
  · simp [hn, onCore, afterFlows, restoredState]


/-! ## 5b. Stories -/

/-- **The invariant `Saveable`.**  The content tree is well formed (`WFTree`) and all its paths
    survive text (`PathsWF`); every flow is well formed (`FlowOK`: valid pointers, saveable values,
    choices with coherent threads), flow names are distinct, all globals / evaluation-stack
    entries are saveable, the diverted pointer is valid, and the counters fit 32 bits. -/
structure Saveable (st : Story) : Prop where
  tree : TreeOK st.root
  state : StateOK st.root st.state

theorem saveState_ok (st : Story) (h : Saveable st) : saveState st = .ok (stateJson st.root st.state) :=
  writeState_ok h.tree st.state h.state

/-- **Level 5: `loadState_saveState`.**  For a saveable story `st`, the save `j` it produces loads
    into every story `st'` over the same content tree that is not in the middle of an asynchronous
    continue; the result is `st'` with the state `restoredState st.root st.state st'.state`
    (see `restoredState` for the list of restored / kept components). -/
theorem loadState_saveState (st st' : Story) (h : Saveable st) (hroot : st'.root = st.root)
    (hasync : st'.asyncActive = false) (j : Json) (hj : saveState st = .ok j) :
    loadState st' (some j) = (.ok (), { st' with state := restoredState st.root st.state st'.state }) := by
  rw [saveState_ok st h] at hj
  simp only [Out.ok.injEq] at hj
  subst hj
  unfold loadState
  simp only [Story.ifAsyncWeCant, hasync, Bool.false_eq_true, if_false, hroot,
    loadStateObj_ok h.tree st.state st'.state h.state]

/-- A saveable story can always be saved. -/
theorem saveState_isOk (st : Story) (h : Saveable st) : ∃ j, saveState st = .ok j :=
  ⟨_, saveState_ok st h⟩


/-! ## 5c. States in normal form: the exact round trip -/

/-- A null pointer is THE null pointer. -/
def ExactPtr (p : Ptr) : Prop := p.container = none → p.index = -1

theorem normPtr_eq (p : Ptr) (h : ExactPtr p) : normPtr p = p := by
  unfold normPtr
  cases hc : p.container with
  | none =>
    obtain ⟨c, i⟩ := p
    simp only at hc
    have := h hc
    simp only at this
    subst hc; subst this
    rfl
  | some a => simp

structure ExactElem (el : Element) : Prop where
  ptr : ExactPtr el.ptr
  temps : ∀ kv ∈ el.temps, ExactVal kv.2
  evalHeight : el.evalHeightWhenPushed = 0
  funcStart : el.funcStartInOutput = 0

theorem normElem_eq (el : Element) (h : ExactElem el) : normElem el = el := by
  obtain ⟨ptr, inExpr, temps, kind, eh, fs⟩ := el
  have h1 := h.evalHeight
  have h2 := h.funcStart
  simp only at h1 h2
  subst h1; subst h2
  simp only [normElem, normPtr_eq ptr h.ptr]
  congr 1
  calc temps.map (fun kv => (kv.1, normVal kv.2)) = temps.map id := by
        apply List.map_congr_left
        intro kv hkv
        simp [normVal_eq_self kv.2 (h.temps kv hkv)]
    _ = temps := by simp

/-- The previous pointer is null, or the slot (with a 32-bit index: the load truncates it with
    `index as i32`) of an unnamed child of a container. -/
def ExactPrev (root : Obj) (p : Ptr) : Prop :=
  p = Ptr.null ∨ ∃ b par c, p.container = some b ∧ nodeAt root b = some par ∧ 0 ≤ p.index ∧
    inI32 p.index = true ∧ par.content[p.index.toNat]? = some c ∧ c.validName = none

theorem normPrev_eq (root : Obj) (p : Ptr) (h : ExactPrev root p) : normPrev root p = p := by
  rcases h with rfl | ⟨b, par, c, hc, hb, hi, h32, hch, hv⟩
  · rfl
  · have hlt : p.index.toNat < par.content.length := by
      rcases Nat.lt_or_ge p.index.toNat par.content.length with h | h
      · exact h
      · rw [List.getElem?_eq_none h] at hch; cases hch
    have hne : par.content.isEmpty = false := by
      cases hpc : par.content with
      | nil => rw [hpc] at hlt; simp at hlt
      | cons _ _ => rfl
    have hneg : ¬ (p.index < 0) := by omega
    have hres : p.resolve root = some (b ++ [.idx p.index.toNat]) := by
      simp [Ptr.resolve, hc, hb, hneg, hne, hlt]
    have hnode : nodeAt root (b ++ [.idx p.index.toNat]) = some c := by
      rw [nodeAt_append, hb]; simp [nodeAt, Obj.child, hch]
    have hcast : ((p.index.toNat : Nat) : Int) = p.index := by omega
    obtain ⟨pc, pi⟩ := p
    simp only at hc hcast h32
    subst hc
    simp [normPrev, Ptr.isNull, hres, ptrOfAddr, hnode, hv, hcast, wrapI32_of_inI32 h32]

structure ExactThread (root : Obj) (t : Thread) : Prop where
  elems : ∀ el ∈ t.callstack, ExactElem el
  prev : ExactPrev root t.prevPtr

theorem map_eq_self {α : Type} (f : α → α) (l : List α) (h : ∀ x ∈ l, f x = x) : l.map f = l := by
  calc l.map f = l.map id := List.map_congr_left (fun x hx => by simp [h x hx])
    _ = l := by simp

theorem normThread_eq (root : Obj) (t : Thread) (h : ExactThread root t) : normThread root t = t := by
  obtain ⟨cs, prev, idx⟩ := t
  simp only [normThread, normPrev_eq root prev h.prev, map_eq_self normElem cs (fun el hel => normElem_eq el (h.elems el hel))]

theorem normCallStack_eq (root : Obj) (cs : CallStack) (h : ∀ t ∈ cs.threads, ExactThread root t) :
    normCallStack root cs = cs := by
  obtain ⟨ts, tc⟩ := cs
  simp only [normCallStack, map_eq_self (normThread root) ts (fun t ht => normThread_eq root t (h t ht))]

/-- A choice in normal form: its thread is, and `originalThreadIndex` is the thread's index. -/
def ExactChoice (root : Obj) (c : Choice) : Prop :=
  ∀ t, c.thread = some t → ExactThread root t ∧ c.originalThreadIndex = t.index

theorem normChoice_eq (root : Obj) (c : Choice) (h : ExactChoice root c) : normChoice root c = c := by
  obtain ⟨text, index, sp, tp, inv, tags, thread, oti⟩ := c
  cases thread with
  | none => rfl
  | some t =>
    obtain ⟨h1, h2⟩ := h t rfl
    simp only at h2
    simp [normChoice, normThread_eq root t h1, h2]

structure ExactFlow (root : Obj) (f : Flow) : Prop where
  threads : ∀ t ∈ f.callstack.threads, ExactThread root t
  output : ∀ o ∈ f.output, ExactObj o
  choices : ∀ c ∈ f.choices, ExactChoice root c

theorem normFlow_eq (root : Obj) (f : Flow) (h : ExactFlow root f) : normFlow root f.name f = f := by
  obtain ⟨name, cs, out, chs⟩ := f
  simp only [normFlow, normCallStack_eq root cs h.threads,
    map_eq_self normObj out (fun o ho => normObj_eq_self o (h.output o ho)),
    map_eq_self (normChoice root) chs (fun c hc => normChoice_eq root c (h.choices c hc))]

/-- **Level 3, exact form.** -/
theorem readThread_writeThread_exact {root : Obj} (ht : TreeOK root) (t : Thread) (h : ThreadOK root t)
    (he : ExactThread root t) : (writeThread root t).bind (readThread root) = .ok t := by
  rw [readThread_writeThread ht t h, normThread_eq root t he]

theorem readCallStack_exact {root : Obj} (ht : TreeOK root) (cs : CallStack) (h : CallStackOK root cs)
    (he : ∀ t ∈ cs.threads, ExactThread root t) :
    readCallStack root (callStackJson root cs) = .ok cs := by
  rw [readCallStack_ok ht cs h, normCallStack_eq root cs he]

/-- **Level 4, exact form.** -/
theorem readFlow_writeFlow_exact {root : Obj} (ht : TreeOK root) (f : Flow) (h : FlowOK root f)
    (he : ExactFlow root f) : (writeFlow root f).bind (readFlow root f.name) = .ok f := by
  rw [readFlow_writeFlow ht f.name f h, normFlow_eq root f he]

/-! ### globals -/

theorem alGet_of_mem_nodup {β : Type} (l : List (String × β)) (h : (l.map (·.1)).Nodup) (k : String) (v : β)
    (hm : (k, v) ∈ l) : alGet l k = some v := by
  induction l with
  | nil => cases hm
  | cons x rest ih =>
    simp only [List.map_cons, List.nodup_cons] at h
    rcases List.mem_cons.mp hm with rfl | hin
    · simp [alGet]
    · have hne : (x.1 == k) = false := by
        rw [Bool.eq_false_iff]; intro hb
        have : x.1 = k := by simpa using hb
        apply h.1
        rw [this]
        exact List.mem_map_of_mem (f := (·.1)) hin
      simp only [alGet, List.find?_cons, hne]
      exact ih h.2 hin

theorem alGet_none_of_not_mem {β : Type} (l : List (String × β)) (k : String)
    (h : ∀ kv ∈ l, kv.1 ≠ k) : alGet l k = none := by
  simp only [alGet, Option.map_eq_none_iff, List.find?_eq_none]
  intro kv hkv
  simpa using h kv hkv

theorem nodup_keys_filter {β : Type} (l : List (String × β)) (p : String × β → Bool)
    (h : (l.map (·.1)).Nodup) : ((l.filter p).map (·.1)).Nodup :=
  List.Nodup.sublist (List.Sublist.map _ List.filter_sublist) h

theorem mem_keys_unique {β : Type} (l : List (String × β)) (h : (l.map (·.1)).Nodup) (k : String) (v w : β)
    (hv : (k, v) ∈ l) (hw : (k, w) ∈ l) : v = w := by
  have h1 := alGet_of_mem_nodup l h k v hv
  have h2 := alGet_of_mem_nodup l h k w hw
  rw [h1] at h2
  exact Option.some.inj h2

/-- The variable store is in normal form: the globals are exactly the declared (default) globals, in
    that order; no value merely *compares* equal to its default (`val_equal` ignores list values'
    origins and `-0.0`); values are in normal form. -/
structure ExactGlobals (s : Core) : Prop where
  keys : s.vars.globals.map (·.1) = s.defaultGlobals.map (·.1)
  nodup : (s.defaultGlobals.map (·.1)).Nodup
  vals : ∀ kv ∈ s.vars.globals, ExactVal kv.2
  eqDefault : ∀ kv ∈ s.vars.globals, ∀ d, alGet s.defaultGlobals kv.1 = some d →
    valEqual kv.2 d = true → kv.2 = d

theorem restoredGlobals_eq (s : Core) (h : ExactGlobals s) :
    restoredGlobals s.defaultGlobals (changedGlobals s) = s.vars.globals := by
  have hlen : s.vars.globals.length = s.defaultGlobals.length := by
    have := congrArg List.length h.keys
    simpa using this
  have hnd : (s.vars.globals.map (·.1)).Nodup := by rw [h.keys]; exact h.nodup
  apply List.ext_getElem
  · simp [restoredGlobals, hlen]
  · intro i h1 h2
    have hi : i < s.defaultGlobals.length := by simpa [restoredGlobals] using h1
    have hkey : (s.vars.globals[i]).1 = (s.defaultGlobals[i]).1 := by
      have := h.keys
      have e1 : (s.vars.globals.map (·.1))[i]'(by simpa using h2) = (s.vars.globals[i]).1 := by simp
      have e2 : (s.defaultGlobals.map (·.1))[i]'(by simpa using hi) = (s.defaultGlobals[i]).1 := by simp
      rw [← e1, ← e2]
      simp only [this]
    have hgm : ((s.defaultGlobals[i]).1, (s.vars.globals[i]).2) ∈ s.vars.globals := by
      rw [← hkey]; exact List.getElem_mem h2
    have hdm : ((s.defaultGlobals[i]).1, (s.defaultGlobals[i]).2) ∈ s.defaultGlobals := List.getElem_mem hi
    have hdget : alGet s.defaultGlobals (s.defaultGlobals[i]).1 = some (s.defaultGlobals[i]).2 :=
      alGet_of_mem_nodup _ h.nodup _ _ hdm
    simp only [restoredGlobals, List.getElem_map]
    apply Prod.ext
    · exact hkey.symm
    · simp only
      by_cases hve : valEqual (s.vars.globals[i]).2 (s.defaultGlobals[i]).2 = true
      · -- not written: the default is read, and it IS the value
        have hnone : alGet (changedGlobals s) (s.defaultGlobals[i]).1 = none := by
          apply alGet_none_of_not_mem
          intro kv hkv hk
          obtain ⟨hkvm, hp⟩ := List.mem_filter.mp hkv
          have hkv' : kv = ((s.defaultGlobals[i]).1, kv.2) := by rw [← hk]
          have : kv.2 = (s.vars.globals[i]).2 :=
            mem_keys_unique _ hnd _ _ _ (by rw [← hkv']; exact hkvm) hgm
          rw [hk, hdget, this] at hp
          simp [hve] at hp
        rw [hnone]
        have := h.eqDefault _ hgm (s.defaultGlobals[i]).2 hdget hve
        exact this.symm
      · have hsome : alGet (changedGlobals s) (s.defaultGlobals[i]).1 = some (s.vars.globals[i]).2 := by
          apply alGet_of_mem_nodup _ (nodup_keys_filter _ _ hnd)
          apply List.mem_filter.mpr
          refine ⟨hgm, ?_⟩
          simp only [hdget]
          simpa using hve
        rw [hsome]
        exact normVal_eq_self _ (h.vals _ (List.getElem_mem h2))

/-! ### whole states -/

/-- **States in normal form** (`Canonical`): what a state must satisfy, beyond `Saveable`, for the
    round trip to give back *equal* components.  Everything here is about data the save does not
    carry: `evalHeightWhenPushed` / `funcStartInOutput` of call-stack elements, the resolved `origins`
    of list values, the index of null pointers, the shape of the previous pointer, the
    `originalThreadIndex` of choices, globals that only compare equal to their default, an empty
    `namedFlows` map. -/
structure ExactState (root : Obj) (ss : StoryState) : Prop where
  flow : ExactFlow root ss.core.flow
  named : ∀ nf, ss.namedFlows = some nf → nf ≠ [] ∧ ∀ kf ∈ nf, kf.2.name = kf.1 ∧ ExactFlow root kf.2
  globals : ExactGlobals ss.core
  evalStack : ∀ o ∈ ss.core.evalStack, ExactObj o
  divert : ss.core.divertedPtr.isNull = true ∨ 0 ≤ ss.core.divertedPtr.index

theorem restoredNamedFlows_eq (root : Obj) (ss : StoryState) (h : ExactState root ss) :
    restoredNamedFlows root ss = ss.namedFlows := by
  unfold restoredNamedFlows
  cases hnf : ss.namedFlows with
  | none => simp
  | some nf =>
    obtain ⟨hne, hall⟩ := h.named nf hnf
    have : nf.isEmpty = false := by
      cases nf with
      | nil => exact absurd rfl hne
      | cons _ _ => rfl
    simp only [Option.getD_some, this, Bool.false_eq_true, if_false]
    congr 1
    apply map_eq_self
    intro kf hkf
    obtain ⟨hname, hex⟩ := hall kf hkf
    apply Prod.ext
    · rfl
    · simp only
      rw [← hname]
      exact normFlow_eq root kf.2 hex

theorem normDivert_eq (root : Obj) (p : Ptr) (h : 0 ≤ p.index) : normDivert root p = p := by
  unfold normDivert
  cases p.container with
  | none => rfl
  | some a => simp [h]

/-- **Level 5, exact form.**  If moreover the saved state is in normal form (`ExactState`) and the
    receiving story has the same declared globals, every saved component is restored *equal*, and
    the remaining components are those of the receiving story. -/
theorem loadState_saveState_exact (st st' : Story) (h : Saveable st) (he : ExactState st.root st.state)
    (hroot : st'.root = st.root) (hasync : st'.asyncActive = false)
    (hdefaults : st'.state.core.defaultGlobals = st.state.core.defaultGlobals)
    (j : Json) (hj : saveState st = .ok j) :
    ∃ st'', loadState st' (some j) = (.ok (), st'') ∧
      -- restored from the save
      st''.state.core.flow = st.state.core.flow ∧
      st''.state.namedFlows = st.state.namedFlows ∧
      st''.state.core.vars.globals = st.state.core.vars.globals ∧
      st''.state.core.evalStack = st.state.core.evalStack ∧
      st''.state.core.divertedPtr = (if st.state.core.divertedPtr.isNull then st'.state.core.divertedPtr
                                     else st.state.core.divertedPtr) ∧
      st''.state.core.visitCounts = st.state.core.visitCounts ∧
      st''.state.core.turnIndices = st.state.core.turnIndices ∧
      st''.state.core.turnIndex = st.state.core.turnIndex ∧
      st''.state.core.storySeed = st.state.core.storySeed ∧
      st''.state.core.previousRandom = st.state.core.previousRandom ∧
      -- kept from the receiving story
      st''.state.core.didSafeExit = st'.state.core.didSafeExit ∧
      st''.state.core.errors = st'.state.core.errors ∧
      st''.state.core.defaultGlobals = st'.state.core.defaultGlobals ∧
      st''.state.core.vars.batchObserving = st'.state.core.vars.batchObserving ∧
      st''.state.core.vars.changed = st'.state.core.vars.changed ∧
      st''.state.warnings = st'.state.warnings ∧
      st''.state.patching = st'.state.patching ∧
      st''.root = st'.root ∧ st''.defs = st'.defs ∧ st''.snapshot = st'.snapshot ∧
      st''.observers = st'.observers ∧ st''.externals = st'.externals := by
  refine ⟨_, loadState_saveState st st' h hroot hasync j hj, ?_⟩
  have hflow : normFlow st.root st.state.core.flow.name st.state.core.flow = st.state.core.flow :=
    normFlow_eq st.root _ he.flow
  have hgl := restoredGlobals_eq st.state.core he.globals
  have hes := map_eq_self normObj st.state.core.evalStack (fun o ho => normObj_eq_self o (he.evalStack o ho))
  have hnamed := restoredNamedFlows_eq st.root st.state he
  refine ⟨hflow, hnamed, ?_, hes, ?_, rfl, rfl, rfl, rfl, rfl, rfl, rfl, rfl, rfl, rfl, rfl, rfl, rfl, rfl, rfl,
    rfl, rfl⟩
  · simp only [restoredState, Vars.replaceGlobals, hdefaults, hgl]
  · simp only [restoredState]
    rcases he.divert with hn | hi
    · simp [hn]
    · by_cases hn : st.state.core.divertedPtr.isNull = true
      · simp [hn]
      · simp [hn, normDivert_eq _ _ hi]


/-! ## 6. `Saveable` is not vacuous -/

/-! ### an executable check of the tree hypotheses -/

mutual
  /-- `p` holds at every node of the tree (fuel bounds the depth; out of fuel = `false`). -/
  def allNodesB (p : Obj → Bool) (fuel : Nat) (o : Obj) : Bool :=
    match fuel with
    | 0 => false
    | fuel + 1 => p o && allListB p fuel o.content && allListB p fuel (o.namedOnly.map (·.2))
  def allListB (p : Obj → Bool) (fuel : Nat) (l : List Obj) : Bool :=
    match fuel with
    | 0 => false
    | fuel + 1 =>
      match l with
      | [] => true
      | c :: rest => allNodesB p fuel c && allListB p fuel rest
end

structure AllAt (p : Obj → Bool) (fuel : Nat) : Prop where
  tree : ∀ (o : Obj), allNodesB p fuel o = true → ∀ (a : Addr) (o' : Obj), nodeAt o a = some o' → p o' = true
  list : ∀ (l : List Obj), allListB p fuel l = true → ∀ c ∈ l,
    ∀ (a : Addr) (o' : Obj), nodeAt c a = some o' → p o' = true

theorem allAt (p : Obj → Bool) : ∀ fuel, AllAt p fuel := by
  intro fuel
  induction fuel with
  | zero =>
    refine ⟨?_, ?_⟩
    · intro o h; simp [allNodesB] at h
    · intro l h; simp [allListB] at h
  | succ fuel ih =>
    refine ⟨?_, ?_⟩
    · intro o h a o' ha
      simp only [allNodesB, Bool.and_eq_true] at h
      obtain ⟨⟨h0, hc⟩, hn⟩ := h
      cases a with
      | nil =>
        simp only [nodeAt, Option.some.injEq] at ha
        subst ha
        exact h0
      | cons s rest =>
        simp only [nodeAt] at ha
        cases hch : o.child s with
        | none => rw [hch] at ha; cases ha
        | some c =>
          rw [hch] at ha
          simp only at ha
          cases s with
          | idx j =>
            simp only [Obj.child] at hch
            exact ih.list o.content hc c (List.mem_of_getElem? hch) rest o' ha
          | named k =>
            simp only [Obj.child] at hch
            cases hf : o.namedOnly.find? (fun kv => kv.1 == k) with
            | none => rw [hf] at hch; cases hch
            | some kv =>
              rw [hf] at hch
              simp only [Option.map_some, Option.some.injEq] at hch
              have hmem := List.mem_of_find?_eq_some hf
              have hmem' : c ∈ o.namedOnly.map (·.2) := by
                rw [← hch]; exact List.mem_map_of_mem hmem
              exact ih.list _ hn c hmem' rest o' ha
    · intro l h c hm a o' ha
      cases l with
      | nil => simp at hm
      | cons c0 rest =>
        simp only [allListB, Bool.and_eq_true] at h
        obtain ⟨h0, hr⟩ := h
        rcases List.mem_cons.mp hm with he | hm'
        · subst he
          exact ih.tree c h0 a o' ha
        · exact ih.list rest hr c hm' a o' ha

/-- A node whose name (if any) is a well-formed path component and whose content fits `usize`. -/
def namesOkB (o : Obj) : Bool :=
  (match o.validName with
    | some n => (parseUsize n.toList).isNone && !(n.toList.contains '.')
    | none => true)
  && decide (o.content.length ≤ usizeMax)

theorem validName_ne_nil {o : Obj} {n : String} (h : o.validName = some n) : n.toList ≠ [] := by
  cases o with
  | container name _ _ _ =>
    cases name with
    | none => simp [Obj.validName] at h
    | some m =>
      simp only [Obj.validName] at h
      split at h
      · cases h
      · rename_i hne
        simp only [Option.some.injEq] at h
        subst h
        intro hnil
        apply hne
        have : m = String.ofList m.toList := by simp
        rw [this, hnil]
        rfl
  | _ => simp [Obj.validName] at h

theorem comps_wf_of_names (a : Addr) : ∀ (sub : Obj) (cs : List Comp), WFTree sub →
    (∀ a' o, nodeAt sub a' = some o → namesOkB o = true) → compsOf sub a = some cs →
    ∀ c ∈ cs, c.WF ∧ c.toText ≠ [] := by
  induction a with
  | nil =>
    intro sub cs _ _ hcs c hc
    simp only [compsOf, Option.some.injEq] at hcs
    subst hcs
    cases hc
  | cons s rest ih =>
    intro sub cs hwf hall hcs c hc
    simp only [compsOf] at hcs
    cases hch : sub.child s with
    | none => simp [hch] at hcs
    | some ch =>
      simp only [hch] at hcs
      cases hk : compOfChild ch s with
      | none => simp [hk] at hcs
      | some k =>
        cases hks : compsOf ch rest with
        | none => simp [hk, hks] at hcs
        | some ks =>
          simp only [hk, hks, Option.some.injEq] at hcs
          subst hcs
          have hsubnode : nodeAt sub [s] = some ch := by simp [nodeAt, hch]
          rcases List.mem_cons.mp hc with rfl | hin
          · -- the head component
            unfold compOfChild at hk
            cases hv : ch.validName with
            | some n =>
              simp only [hv, Option.some.injEq] at hk
              subst hk
              have hn := hall [s] ch hsubnode
              simp only [namesOkB, hv, Bool.and_eq_true, Option.isNone_iff_eq_none, Bool.not_eq_true',
                decide_eq_true_eq] at hn
              refine ⟨⟨hn.1.1, ?_⟩, validName_ne_nil hv⟩
              intro hdot
              have := hn.1.2
              simp [hdot] at this
            | none =>
              simp only [hv] at hk
              cases s with
              | named key =>
                -- a named-only child of a well-formed node carries its key as (valid) name
                simp only [Obj.child] at hch
                have := ((hwf [] sub rfl).namedKeys key ch hch).1
                rw [hv] at this; cases this
              | idx i =>
                simp only [Option.some.injEq] at hk
                subst hk
                have hn := hall [] sub rfl
                simp only [namesOkB, Bool.and_eq_true, decide_eq_true_eq] at hn
                simp only [Obj.child] at hch
                have hlt : i < sub.content.length := by
                  rcases Nat.lt_or_ge i sub.content.length with h | h
                  · exact h
                  · rw [List.getElem?_eq_none h] at hch; cases hch
                refine ⟨?_, (decimal_spec i).1⟩
                show i ≤ usizeMax
                omega
          · exact ih ch ks (fun a' o ho => hwf (s :: a') o (by simp [nodeAt, hch, ho]))
              (fun a' o ho => hall (s :: a') o (by simp [nodeAt, hch, ho])) hks c hin

theorem pathsWF_of_names (root : Obj) (hwf : WFTree root)
    (h : ∀ a o, nodeAt root a = some o → namesOkB o = true) :
    PathsWF root := by
  intro a p hp
  unfold pathOf at hp
  cases hcs : compsOf root a with
  | none => simp [hcs] at hp
  | some cs =>
    simp only [hcs, Option.map_some, Option.some.injEq] at hp
    subst hp
    have hall := comps_wf_of_names a root cs hwf h hcs
    refine ⟨fun c hc => (hall c hc).1, ?_, ?_⟩
    · intro hr; cases hr
    · intro _ c hc
      have : c ∈ cs := by
        cases cs with
        | nil => cases hc
        | cons x xs => simp only [List.head?_cons, Option.some.injEq] at hc; subst hc; simp
      exact (hall c this).2

/-- The executable form of `TreeOK`. -/
def treeOkB (fuel : Nat) (root : Obj) : Bool := wfTreeB fuel root && allNodesB namesOkB fuel root

theorem treeOkB_sound (fuel : Nat) (root : Obj) (h : treeOkB fuel root = true) : TreeOK root := by
  simp only [treeOkB, Bool.and_eq_true] at h
  have hwf := C06.wfTreeB_sound fuel root h.1
  exact ⟨hwf, pathsWF_of_names root hwf (fun a o ha => (allAt namesOkB fuel).tree root h.2 a o ha)⟩

/-! ### the state of a new story -/

theorem flowOK_fresh (root : Obj) (hcont : root.isContainer = true) (name : String) :
    FlowOK root { name := name, callstack := CallStack.fresh, output := [], choices := [] } := by
  have hthread : ThreadOK root { callstack := [CallStack.rootElement], prevPtr := Ptr.null, index := 0 } := by
    refine ⟨?_, Or.inl rfl, by simp [u64Max]⟩
    intro el hel
    simp only [List.mem_singleton] at hel
    subst hel
    refine ⟨?_, by intro kv hkv; cases hkv⟩
    simp only [ValidPtr, CallStack.rootElement, Ptr.startOf]
    exact ⟨⟨root, rfl, hcont⟩, by decide⟩
  refine ⟨⟨?_, by simp [CallStack.fresh], ?_, by simp [CallStack.fresh, u64Max]⟩, ?_, ?_, ?_, ?_, ?_⟩
  · intro t ht
    simp only [CallStack.fresh, List.mem_singleton] at ht
    subst ht; exact hthread
  · intro t ht
    simp only [CallStack.fresh, List.mem_singleton] at ht
    subst ht; simp
  · intro o ho; cases ho
  · intro c hc; cases hc
  · intro c hc; cases hc
  · intro c hc; cases hc
  · intro c hc; cases hc

theorem exactFlow_fresh (root : Obj) (name : String) :
    ExactFlow root { name := name, callstack := CallStack.fresh, output := [], choices := [] } := by
  refine ⟨?_, ?_, ?_⟩
  · intro t ht
    simp only [CallStack.fresh, List.mem_singleton] at ht
    subst ht
    refine ⟨?_, Or.inl rfl⟩
    intro el hel
    simp only [List.mem_singleton] at hel
    subst hel
    refine ⟨?_, ?_, rfl, rfl⟩
    · intro h; cases h
    · intro kv hkv; cases hkv
  · intro o ho; cases ho
  · intro c hc; cases hc

/-- A state whose saved components are those of `StoryState.fresh seed` is saveable and in normal form. -/
theorem stateOK_of_fresh (root : Obj) (hcont : root.isContainer = true) (seed : Int) (hseed : inI32 seed = true)
    (ss : StoryState)
    (hflow : ss.core.flow = (Core.fresh seed).flow) (hnamed : ss.namedFlows = none)
    (hgl : ss.core.vars.globals = []) (hdg : ss.core.defaultGlobals = []) (hes : ss.core.evalStack = [])
    (hdp : ss.core.divertedPtr = Ptr.null) (hvc : ss.core.visitCounts = []) (hti : ss.core.turnIndices = [])
    (hturn : ss.core.turnIndex = -1) (hss : ss.core.storySeed = seed) (hpr : ss.core.previousRandom = 0) :
    StateOK root ss ∧ ExactState root ss := by
  constructor
  · refine ⟨?_, ?_, ?_, ?_, ?_, ?_, ?_, ?_, ?_, ?_⟩
    · intro nf hnf
      simp only [flowsList, hnamed, Option.getD_none, List.mem_singleton] at hnf
      subst hnf
      simp only [hflow, Core.fresh]
      exact flowOK_fresh root hcont _
    · simp [flowsList, hnamed]
    · rw [hgl]; intro kv hkv; cases hkv
    · rw [hes]; intro o ho; cases ho
    · rw [hdp]; exact True.intro
    · rw [hvc]; intro kv hkv; cases hkv
    · rw [hti]; intro kv hkv; cases hkv
    · rw [hturn]; decide
    · rw [hss]; exact hseed
    · rw [hpr]; decide
  · refine ⟨?_, ?_, ?_, ?_, ?_⟩
    · simp only [hflow, Core.fresh]
      exact exactFlow_fresh root _
    · intro nf hnf; rw [hnamed] at hnf; cases hnf
    · refine ⟨by rw [hgl, hdg], by rw [hdg]; simp, ?_, ?_⟩
      · rw [hgl]; intro kv hkv; cases hkv
      · rw [hgl]; intro kv hkv; cases hkv
    · rw [hes]; intro o ho; cases ho
    · left; rw [hdp]; rfl

/-- **Level 6.**  `Saveable` holds for the story that `Story.create` builds from a loaded document
    whose tree is well formed, for a story without a `global decl` container (no global variables;
    then creation does not run the interpreter).  The new state is also in normal form. -/
theorem create_saveable (ld : Load.Loaded) (seed : Int) (st : Story)
    (htree : TreeOK ld.root) (hcont : ld.root.isContainer = true) (hseed : inI32 seed = true)
    (hnog : ld.root.lookupName "global decl" = none)
    (hc : Story.create ld seed = .ok st) :
    Saveable st ∧ ExactState st.root st.state ∧ st.root = ld.root ∧ st.asyncActive = false := by
  unfold Story.create Story.resetGlobals at hc
  simp only [hnog, Option.isSome_none, Bool.false_eq_true, if_false] at hc
  by_cases hv : (ld.version != 21) = true
  · simp only [hv, if_true, Out.ok.injEq] at hc
    subst hc
    have := stateOK_of_fresh ld.root hcont seed hseed
      (({ root := ld.root, defs := ld.listDefs, state := StoryState.fresh seed, snapshot := none,
          recCount := 0, asyncActive := false, sawUnsafe := false, validated := false,
          allowFallbacks := false, handler := false, observers := [], externals := [], events := [],
          lines := 0, fuel := none, stepClock := false } : Story).mapCore
        (fun c => { c with defaultGlobals := List.foldl (fun acc kv => alSet acc kv.1 kv.2) c.defaultGlobals c.vars.globals })
        |>.addError (Story.inkVersionWarning ld.version) true).state
      rfl rfl rfl rfl rfl rfl rfl rfl rfl rfl rfl
    exact ⟨⟨htree, this.1⟩, this.2, rfl, rfl⟩
  · have hv' : (ld.version != 21) = false := by simpa using hv
    simp only [hv', Bool.false_eq_true, if_false, Out.ok.injEq] at hc
    subst hc
    have := stateOK_of_fresh ld.root hcont seed hseed
      (({ root := ld.root, defs := ld.listDefs, state := StoryState.fresh seed, snapshot := none,
          recCount := 0, asyncActive := false, sawUnsafe := false, validated := false,
          allowFallbacks := false, handler := false, observers := [], externals := [], events := [],
          lines := 0, fuel := none, stepClock := false } : Story).mapCore
        (fun c => { c with defaultGlobals := List.foldl (fun acc kv => alSet acc kv.1 kv.2) c.defaultGlobals c.vars.globals })).state
      rfl rfl rfl rfl rfl rfl rfl rfl rfl rfl rfl
    exact ⟨⟨htree, this.1⟩, this.2, rfl, rfl⟩


/-! ## 7. Concrete instances -/

/-- A small story tree: a line of text, an unnamed-slot gather `g-0`, `done`, and a knot. -/
def exRoot : Obj :=
  .container none 0
    [ .val (.str "Hello"), .container (some "g-0") 0 [ .val (.str "inner") ] [], .cmd .done ]
    [ ("knot", .container (some "knot") 1 [ .val (.str "in knot"), .cmd .«end» ] []) ]

def exLoaded : Load.Loaded := { version := 21, root := exRoot, listDefs := [("L", [("a", 1), ("b", 2)])] }

theorem exRoot_treeOK : TreeOK exRoot := treeOkB_sound 10 exRoot (by decide)

/-- The story created from `exLoaded` (no globals: creation does not run the interpreter). -/
theorem exCreate : ∃ st, Story.create exLoaded 42 = .ok st := by
  unfold Story.create Story.resetGlobals
  have hnog : exLoaded.root.lookupName "global decl" = none := by decide
  simp only [hnog, Option.isSome_none, Bool.false_eq_true, if_false]
  exact ⟨_, rfl⟩

/-- **Non-vacuity of level 6 / the whole ladder on a concrete story**: the created story is saveable,
    its save loads back into it, and every saved component is restored equal. -/
example : ∃ st j st'', Story.create exLoaded 42 = .ok st ∧ Saveable st ∧ saveState st = .ok j ∧
    loadState st (some j) = (.ok (), st'') ∧ st''.state.core.flow = st.state.core.flow ∧
    st''.state.core.vars.globals = st.state.core.vars.globals ∧
    st''.state.core.storySeed = 42 := by
  obtain ⟨st, hst⟩ := exCreate
  obtain ⟨hs, he, hroot, hasync⟩ := create_saveable exLoaded 42 st exRoot_treeOK rfl (by decide) (by decide) hst
  obtain ⟨j, hj⟩ := saveState_isOk st hs
  obtain ⟨st'', hload, hflow, _, hgl, _, _, _, _, _, hseed, _⟩ :=
    loadState_saveState_exact st st hs he rfl hasync rfl j hj
  refine ⟨st, j, st'', hst, hs, hj, hload, hflow, hgl, ?_⟩
  rw [hseed]
  unfold Story.create Story.resetGlobals at hst
  have hnog : exLoaded.root.lookupName "global decl" = none := by decide
  simp only [hnog, Option.isSome_none, Bool.false_eq_true, if_false] at hst
  have hv : (exLoaded.version != 21) = false := by decide
  simp only [hv, Bool.false_eq_true, if_false, Out.ok.injEq] at hst
  subst hst
  rfl

/-! ### a mid-game state -/

def exThread0 : Thread :=
  { callstack := [{ ptr := { container := some [], index := 2 }, inExpr := false, temps := [("t", .int 7)],
                    kind := .tunnel, evalHeightWhenPushed := 0, funcStartInOutput := 0 }],
    prevPtr := { container := some [], index := 0 }, index := 0 }

/-- The thread forked for the choice: inside the knot. -/
def exThread1 : Thread :=
  { callstack := [{ ptr := { container := some [.named "knot"], index := 0 }, inExpr := false, temps := [],
                    kind := .tunnel, evalHeightWhenPushed := 0, funcStartInOutput := 0 }],
    prevPtr := Ptr.null, index := 1 }

def exChoice : Choice :=
  { text := "Go", index := 0, sourcePath := "0.c-0",
    targetPath := { comps := [.name "knot".toList], rel := false }, isInvisibleDefault := false,
    tags := ["a"], thread := some exThread1, originalThreadIndex := 1 }

def exFlow : Flow :=
  { name := defaultFlowName, callstack := { threads := [exThread0], threadCounter := 1 },
    output := [.val (.str "Hello"), .val (.str "\n")], choices := [exChoice] }

def exList : InkList := { items := [({ origin := some "L", name := "a" }, 1)], origins := [], initialOrigins := [] }

def exState : StoryState :=
  { core := { flow := exFlow, didSafeExit := false,
              vars := Vars.empty.replaceGlobals [("x", .int 5), ("l", .list exList)],
              defaultGlobals := [("x", .int 3), ("l", .list exList)],
              evalStack := [.val (.list exList), .val (.dtarget { comps := [.name "knot".toList], rel := false })],
              errors := [], divertedPtr := Ptr.null, visitCounts := [("knot", 1)], turnIndices := [("knot", 0)],
              turnIndex := 0, storySeed := 42, previousRandom := 7 },
    warnings := [], namedFlows := none, patching := false }

theorem knotPath_wf : Path.WF { comps := [.name "knot".toList], rel := false } :=
  ⟨by intro c hc; simp at hc; subst hc; simp [Comp.WF]; decide,
   by simp, by intro _ c hc; simp at hc; subst hc; simp [Comp.toText]⟩

theorem exList_saveable : SaveableVal (.list exList) := by
  intro kv hkv
  simp only [exList, List.mem_singleton] at hkv
  subst hkv
  exact ⟨⟨"L", rfl, by decide, by decide⟩, by decide⟩

theorem exThread0_ok : ThreadOK exRoot exThread0 := by
  refine ⟨?_, Or.inr ⟨[.idx 0], by decide⟩, by simp [exThread0, u64Max]⟩
  intro el hel
  simp only [exThread0, List.mem_singleton] at hel
  subst hel
  refine ⟨⟨⟨exRoot, rfl, rfl⟩, by decide⟩, ?_⟩
  intro kv hkv
  simp only [List.mem_singleton] at hkv
  subst hkv
  show inI32 7 = true
  decide

theorem exThread1_ok : ThreadOK exRoot exThread1 := by
  refine ⟨?_, Or.inl rfl, by simp [exThread1, u64Max]⟩
  intro el hel
  simp only [exThread1, List.mem_singleton] at hel
  subst hel
  refine ⟨⟨⟨_, rfl, rfl⟩, by decide⟩, ?_⟩
  intro kv hkv; cases hkv

theorem exFlow_ok : FlowOK exRoot exFlow := by
  refine ⟨⟨?_, by simp [exFlow], ?_, by simp [exFlow, u64Max]⟩, ?_, ?_, ?_, ?_, ?_⟩
  · intro t ht
    simp only [exFlow, List.mem_singleton] at ht
    subst ht; exact exThread0_ok
  · intro t ht
    simp only [exFlow, List.mem_singleton] at ht
    subst ht; simp [exThread0]
  · intro o ho
    simp only [exFlow, List.mem_cons, List.mem_singleton, List.not_mem_nil, or_false] at ho
    rcases ho with rfl | rfl <;> exact True.intro
  · intro c hc
    simp only [exFlow, List.mem_singleton] at hc
    subst hc
    exact ⟨⟨by simp [exChoice, u64Max], knotPath_wf⟩, exThread1, rfl, exThread1_ok⟩
  · intro c hc t t' hthr hg
    simp only [exFlow, List.mem_singleton] at hc
    subst hc
    simp only [exChoice, Option.some.injEq] at hthr
    subst hthr
    simp [exFlow, CallStack.getThreadWithIndex, exThread0, exThread1] at hg
  · intro c₁ hc₁ c₂ hc₂ t₁ t₂ h₁ h₂ _
    simp only [exFlow, List.mem_singleton] at hc₁ hc₂
    subst hc₁; subst hc₂
    rw [h₁] at h₂
    simp only [Option.some.injEq] at h₂
    rw [h₂]
  · intro c hc t hthr
    simp only [exFlow, List.mem_singleton] at hc
    subst hc
    simp only [exChoice, Option.some.injEq] at hthr
    subst hthr
    simp [exThread1]

theorem exState_ok : StateOK exRoot exState := by
  refine ⟨?_, by simp [flowsList, exState], ?_, ?_, True.intro, ?_, ?_, by decide, by decide, by decide⟩
  · intro nf hnf
    simp only [flowsList, exState, Option.getD_none, List.mem_singleton] at hnf
    subst hnf; exact exFlow_ok
  · intro kv hkv
    simp only [exState, Vars.replaceGlobals, List.mem_cons, List.mem_singleton, List.not_mem_nil, or_false] at hkv
    rcases hkv with rfl | rfl
    · show inI32 5 = true; decide
    · exact exList_saveable
  · intro o ho
    simp only [exState, List.mem_cons, List.mem_singleton, List.not_mem_nil, or_false] at ho
    rcases ho with rfl | rfl
    · exact exList_saveable
    · exact knotPath_wf
  · intro kv hkv
    simp only [exState, List.mem_singleton] at hkv
    subst hkv; decide
  · intro kv hkv
    simp only [exState, List.mem_singleton] at hkv
    subst hkv; decide

/-- A story in the middle of a game: one pending choice (with its forked thread), a temporary,
    a changed global, a list value and a divert target on the evaluation stack, counts. -/
def exStory : Story :=
  { root := exRoot, defs := exLoaded.listDefs, state := exState, snapshot := none,
    recCount := 0, asyncActive := false, sawUnsafe := false, validated := true,
    allowFallbacks := false, handler := false, observers := [], externals := [], events := [],
    lines := 1, fuel := none, stepClock := false }

theorem exStory_saveable : Saveable exStory := ⟨exRoot_treeOK, exState_ok⟩

theorem exThread0_exact : ExactThread exRoot exThread0 := by
  refine ⟨?_, Or.inr ⟨[], exRoot, .val (.str "Hello"), rfl, rfl, by decide, by decide, rfl, rfl⟩⟩
  intro el hel
  simp only [exThread0, List.mem_singleton] at hel
  subst hel
  refine ⟨?_, ?_, rfl, rfl⟩
  · intro h; cases h
  · intro kv hkv
    simp only [List.mem_singleton] at hkv
    subst hkv
    exact True.intro

theorem exThread1_exact : ExactThread exRoot exThread1 := by
  refine ⟨?_, Or.inl rfl⟩
  intro el hel
  simp only [exThread1, List.mem_singleton] at hel
  subst hel
  refine ⟨?_, ?_, rfl, rfl⟩
  · intro h; cases h
  · intro kv hkv; cases hkv

theorem exList_exact : ExactVal (.list exList) := ⟨rfl, fun _ => rfl⟩

theorem exState_exact : ExactState exRoot exState := by
  refine ⟨⟨?_, ?_, ?_⟩, ?_, ⟨rfl, by decide, ?_, ?_⟩, ?_, Or.inl rfl⟩
  · intro t ht
    simp only [exState, exFlow, List.mem_singleton] at ht
    subst ht; exact exThread0_exact
  · intro o ho
    simp only [exState, exFlow, List.mem_cons, List.mem_singleton, List.not_mem_nil, or_false] at ho
    rcases ho with rfl | rfl <;> exact True.intro
  · intro c hc
    simp only [exState, exFlow, List.mem_singleton] at hc
    subst hc
    intro t ht
    simp only [exChoice, Option.some.injEq] at ht
    subst ht
    exact ⟨exThread1_exact, rfl⟩
  · intro nf hnf; cases hnf
  · intro kv hkv
    simp only [exState, Vars.replaceGlobals, List.mem_cons, List.mem_singleton, List.not_mem_nil, or_false] at hkv
    rcases hkv with rfl | rfl
    · exact True.intro
    · exact exList_exact
  · intro kv hkv d hd hve
    simp only [exState, Vars.replaceGlobals, List.mem_cons, List.mem_singleton, List.not_mem_nil, or_false] at hkv
    rcases hkv with rfl | rfl
    · simp [exState, alGet] at hd
      subst hd
      simp [valEqual] at hve
    · simp [exState, alGet] at hd
      exact hd
  · intro o ho
    simp only [exState, List.mem_cons, List.mem_singleton, List.not_mem_nil, or_false] at ho
    rcases ho with rfl | rfl
    · exact exList_exact
    · exact True.intro

/-- **The round trip on the mid-game story**, into a *freshly created* story over the same tree
    with the same declared globals: everything saved is restored equal. -/
example (fresh : Story) (hroot : fresh.root = exRoot) (hasync : fresh.asyncActive = false)
    (hdg : fresh.state.core.defaultGlobals = exState.core.defaultGlobals) :
    ∃ j st'', saveState exStory = .ok j ∧ loadState fresh (some j) = (.ok (), st'') ∧
      st''.state.core.flow = exFlow ∧
      st''.state.core.vars.globals = [("x", .int 5), ("l", .list exList)] ∧
      st''.state.core.evalStack = exState.core.evalStack ∧
      st''.state.core.visitCounts = [("knot", 1)] ∧ st''.state.core.turnIndex = 0 ∧
      st''.state.core.previousRandom = 7 ∧ st''.state.namedFlows = none := by
  obtain ⟨j, hj⟩ := saveState_isOk exStory exStory_saveable
  obtain ⟨st'', hload, hflow, hnamed, hgl, hes, _, hvc, _, hturn, _, hpr, _⟩ :=
    loadState_saveState_exact exStory fresh exStory_saveable exState_exact hroot hasync hdg j hj
  exact ⟨j, st'', hj, hload, hflow, hgl, hes, hvc, hturn, hpr, hnamed⟩

/-! ### why the normal forms are needed: checked deviations of the model

Each of these is a component that is NOT restored equal by the modelled save/load; the theorems above
therefore state the exact result (`normObj`, `normElem`, `normPrev`, `normChoice`, `restoredGlobals`,
`restoredNamedFlows`, `restoredState`). -/

/-- (a) `funcStartInOutput` / `evalHeightWhenPushed` of a call-stack element are not saved: a
    function frame that started at output position 5 comes back with 0. -/
example :
    let t : Thread := { exThread0 with
      callstack := exThread0.callstack.map
        (fun el => { el with kind := .function, funcStartInOutput := 5, evalHeightWhenPushed := 2 }) }
    ∃ t', (writeThread exRoot t).bind (readThread exRoot) = .ok t' ∧
      t'.callstack.map (·.funcStartInOutput) = [0] ∧ t.callstack.map (·.funcStartInOutput) = [5] ∧
      t'.callstack.map (·.evalHeightWhenPushed) = [0] ∧ t.callstack.map (·.evalHeightWhenPushed) = [2] := by
  intro t
  have hok : ThreadOK exRoot t := by
    refine ⟨?_, exThread0_ok.prev, exThread0_ok.index⟩
    intro el hel
    simp only [t, exThread0, List.map_cons, List.map_nil, List.mem_singleton] at hel
    subst hel
    exact ⟨⟨⟨exRoot, rfl, rfl⟩, by decide⟩, by
      intro kv hkv
      simp only [List.mem_singleton] at hkv
      subst hkv
      show inI32 7 = true
      decide⟩
  exact ⟨_, readThread_writeThread exRoot_treeOK t hok, rfl, rfl, rfl, rfl⟩

/-- (b) The resolved `origins` of a list value are not saved. -/
example :
    let l : InkList := { exList with origins := ["L"] }
    (writeObj (.val (.list l))).bind readObj = .ok (.val (.list exList)) ∧ l.origins ≠ exList.origins := by
  intro l
  have hs : SaveableObj (.val (.list l)) := exList_saveable
  exact ⟨readObj_writeObj _ hs, by decide⟩

/-- (c) A previous pointer at a *named* child (`g-0`, slot 1 of the root) comes back as a pointer
    to that container itself. -/
example : normPrev exRoot { container := some [], index := 1 } = { container := some [.idx 1], index := -1 } := by
  decide

/-- (d) An empty map of parked flows comes back as "no parked flows". -/
example : restoredNamedFlows exRoot { exState with namedFlows := some [] } = none := rfl

/-- (e) A global whose value only *compares* equal to its default (`val_equal` on lists looks at
    the keys only) is not written, and the default comes back: here the resolved origins differ. -/
example :
    let l' : InkList := { exList with origins := ["L"] }
    let core : Core := { exState.core with vars := Vars.empty.replaceGlobals [("x", .int 5), ("l", .list l')] }
    (restoredGlobals core.defaultGlobals (changedGlobals core)).map (fun kv => match kv.2 with
      | .list l => l.origins | _ => []) = [[], []] ∧
    core.vars.globals.map (fun kv => match kv.2 with | .list l => l.origins | _ => []) = [[], ["L"]] := by
  decide

/-- (f) A null diverted pointer is not written, and the load does not reset the receiving story's. -/
example (tgt : StoryState) :
    (restoredState exRoot exState tgt).core.divertedPtr = tgt.core.divertedPtr := rfl

/-- (g) The `didSafeExit` flag, the error list and the warnings are not part of a save. -/
example (tgt : StoryState) :
    (restoredState exRoot exState tgt).core.didSafeExit = tgt.core.didSafeExit ∧
    (restoredState exRoot exState tgt).core.errors = tgt.core.errors ∧
    (restoredState exRoot exState tgt).warnings = tgt.warnings := ⟨rfl, rfl, rfl⟩


/-! ## 8. Consequences -/

/-- A non-finite float is written as a finite number (`clampF32`: NaN as `0.0`, an infinity as
    `±3.4e38`), and loads back as that number: the save of a state holding one (e.g. after
    `1.0 / 0.0`, which the interpreter evaluates to infinity) can be loaded, but the value that
    comes back is the finite one.  (With the earlier `null` the document could not be loaded.) -/
theorem nonfinite_float_clamped (f : Float32) :
    (writeObj (.val (.float f))).bind readObj
      = .ok (.val (.float (Load.floatOfRaw (f32Text (clampF32 f)))))
    ∧ (clampF32 f).isNaN = false ∧ (clampF32 f).isInf = false
    ∧ (f.isNaN = true → clampF32 f = Float32.ofBits 0 ∧ f32Text (clampF32 f) = "0.0")
    ∧ (f.isNaN = false → f.isInf = true → f > 0.0 →
        clampF32 f = Float32.ofBits 0x7F7FC99E ∧
        f32Text (clampF32 f) = "340000000000000000000000000000000000000.0")
    ∧ (f.isNaN = false → f.isInf = true → ¬ f > 0.0 →
        clampF32 f = Float32.ofBits 0xFF7FC99E ∧
        f32Text (clampF32 f) = "-340000000000000000000000000000000000000.0") := by
  have t0 : f32Text (Float32.ofBits 0) = "0.0" := by decide +kernel
  have t1 : f32Text (Float32.ofBits 0x7F7FC99E) = "340000000000000000000000000000000000000.0" := by
    decide +kernel
  have t2 : f32Text (Float32.ofBits 0xFF7FC99E) = "-340000000000000000000000000000000000000.0" := by
    decide +kernel
  refine ⟨readObj_writeObj (.val (.float f)) True.intro, (clampF32_isFinite f).1, (clampF32_isFinite f).2,
    ?_, ?_, ?_⟩
  · intro h
    have : clampF32 f = Float32.ofBits 0 := by simp [clampF32, h]
    rw [this]; exact ⟨rfl, t0⟩
  · intro h1 h2 h3
    have : clampF32 f = Float32.ofBits 0x7F7FC99E := by simp [clampF32, h1, h2, h3]
    rw [this]; exact ⟨rfl, t1⟩
  · intro h1 h2 h3
    have : clampF32 f = Float32.ofBits 0xFF7FC99E := by simp [clampF32, h1, h2, h3]
    rw [this]; exact ⟨rfl, t2⟩

/-- A non-finite float is not in normal form: the exact round trip (`readObj_writeObj_exact`,
    `loadState_saveState_exact`) does not cover it. -/
theorem nonfinite_float_not_exact (f : Float32) (h : f.isNaN = true ∨ f.isInf = true) :
    ¬ ExactVal (.float f) := by
  intro he
  obtain ⟨h1, h2, _⟩ := (he : f.isNaN = false ∧ f.isInf = false ∧ Load.floatOfRaw (f32Text f) = f)
  rcases h with h | h
  · rw [h1] at h; cases h
  · rw [h2] at h; cases h

/-- An integer outside 32 bits (none is produced by the interpreter's wrapping arithmetic) is
    written as is and rejected or turned into a float by the loader. -/
theorem wide_int_not_roundtrip (i : Int) (h : inI32 i = false) :
    (writeObj (.val (.int i))).bind readObj ≠ .ok (.val (.int i)) := by
  by_cases h64 : inI64 i = true
  · simp [writeObj, Out.bind, readObj, Load.tokenToObj, h, h64, Out.badJson]
  · have h64' : inI64 i = false := by simpa using h64
    simp [writeObj, Out.bind, readObj, Load.tokenToObj, h64']

theorem Vars.ext' (a b : Vars) (h1 : a.globals = b.globals) (h2 : a.base = b.base)
    (h3 : a.batchObserving = b.batchObserving) (h4 : a.changed = b.changed) : a = b := by
  cases a; cases b
  simp only at h1 h2 h3 h4
  subst h1; subst h2; subst h3; subst h4
  rfl

/-- The components a load keeps agree between the saved and the receiving state. -/
structure KeptAgree (src tgt : StoryState) : Prop where
  didSafeExit : tgt.core.didSafeExit = src.core.didSafeExit
  errors : tgt.core.errors = src.core.errors
  defaultGlobals : tgt.core.defaultGlobals = src.core.defaultGlobals
  batchObserving : tgt.core.vars.batchObserving = src.core.vars.batchObserving
  changed : tgt.core.vars.changed = src.core.vars.changed
  warnings : tgt.warnings = src.warnings
  patching : tgt.patching = src.patching
  divert : src.core.divertedPtr.isNull = true → tgt.core.divertedPtr = src.core.divertedPtr

theorem KeptAgree.refl (s : StoryState) : KeptAgree s s := ⟨rfl, rfl, rfl, rfl, rfl, rfl, rfl, fun _ => rfl⟩

/-- For a state in normal form, with no variable-observation batch open (`base = globals`; `base`
    is ghost state of the model), the restored state IS the saved state, as soon as the receiving
    state agrees on the components that a save does not carry. -/
theorem restoredState_eq (root : Obj) (src tgt : StoryState) (he : ExactState root src)
    (hk : KeptAgree src tgt) (hbase : src.core.vars.base = src.core.vars.globals) :
    restoredState root src tgt = src := by
  have hflow : normFlow root src.core.flow.name src.core.flow = src.core.flow := normFlow_eq root _ he.flow
  have hgl := restoredGlobals_eq src.core he.globals
  have hes := map_eq_self normObj src.core.evalStack (fun o ho => normObj_eq_self o (he.evalStack o ho))
  have hnamed := restoredNamedFlows_eq root src he
  have hvars : tgt.core.vars.replaceGlobals (restoredGlobals src.core.defaultGlobals (changedGlobals src.core))
      = src.core.vars := by
    apply Vars.ext'
    · simp [Vars.replaceGlobals, hgl]
    · simp [Vars.replaceGlobals, hgl, hbase]
    · exact hk.batchObserving
    · exact hk.changed
  have hdiv : (if src.core.divertedPtr.isNull then tgt.core.divertedPtr
      else normDivert root src.core.divertedPtr) = src.core.divertedPtr := by
    by_cases hn : src.core.divertedPtr.isNull = true
    · simp [hn, hk.divert hn]
    · rcases he.divert with h | h
      · exact absurd h hn
      · simp [hn, normDivert_eq _ _ h]
  obtain ⟨core, warnings, namedFlows, patching⟩ := src
  obtain ⟨flow, dse, vars, dg, es, errs, dp, vc, ti, tidx, seed, pr⟩ := core
  simp only [restoredState] at *
  simp only [hflow, hvars, hes, hdiv, hnamed, hk.didSafeExit, hk.errors, hk.defaultGlobals, hk.warnings,
    hk.patching]

/-- **Same story object.**  Loading the save of a story in normal form back into that very story
    gives the story back, unchanged: all future behaviour is trivially preserved. -/
theorem loadState_saveState_self (st : Story) (h : Saveable st) (he : ExactState st.root st.state)
    (hasync : st.asyncActive = false) (hbase : st.state.core.vars.base = st.state.core.vars.globals)
    (j : Json) (hj : saveState st = .ok j) :
    loadState st (some j) = (.ok (), st) := by
  rw [loadState_saveState st st h rfl hasync j hj,
    restoredState_eq st.root st.state st.state he (KeptAgree.refl _) hbase]

/-- **Another story object** (e.g. a freshly constructed one) over the same tree: after the load its
    state IS the saved state, provided it agrees with the saved one on what a save does not carry. -/
theorem loadState_saveState_state_eq (st st' : Story) (h : Saveable st) (he : ExactState st.root st.state)
    (hroot : st'.root = st.root) (hasync : st'.asyncActive = false)
    (hk : KeptAgree st.state st'.state) (hbase : st.state.core.vars.base = st.state.core.vars.globals)
    (j : Json) (hj : saveState st = .ok j) :
    loadState st' (some j) = (.ok (), { st' with state := st.state }) := by
  rw [loadState_saveState st st' h hroot hasync j hj,
    restoredState_eq st.root st.state st'.state he hk hbase]


/-! ## 9. An executable form of `Saveable` (sound, not complete) -/

theorem comp_wfB_sound (c : Comp) (h : c.wfB = true) : c.WF := by
  cases c with
  | idx n => simpa [Comp.wfB, Comp.WF] using h
  | name s =>
    simp only [Comp.wfB, Bool.and_eq_true, Option.isNone_iff_eq_none, Bool.not_eq_true'] at h
    refine ⟨h.1, ?_⟩
    intro hd
    have := h.2
    simp [hd] at this

theorem path_wfB_sound (p : Path) (h : p.wfB = true) : p.WF := by
  simp only [Path.wfB, Bool.and_eq_true, List.all_eq_true, Bool.or_eq_true, Bool.not_eq_true'] at h
  obtain ⟨⟨h1, h2⟩, h3⟩ := h
  refine ⟨fun c hc => comp_wfB_sound c (h1 c hc), ?_, ?_⟩
  · intro hr
    rcases h2 with h2 | h2
    · rw [hr] at h2; cases h2
    · intro hnil; rw [hnil] at h2; simp at h2
  · intro hr c hc
    rcases h3 with h3 | h3
    · rw [hr] at h3; cases h3
    · rw [hc] at h3
      intro hnil
      simp [hnil] at h3

def saveableItemB (i : ListItem) : Bool :=
  match i.origin with
  | some o => !(o.toList.contains '.') && !(i.name.toList.contains '.')
  | none => false

theorem saveableItemB_sound (i : ListItem) (h : saveableItemB i = true) : SaveableItem i := by
  unfold saveableItemB at h
  cases ho : i.origin with
  | none => simp [ho] at h
  | some o =>
    simp only [ho, Bool.and_eq_true, Bool.not_eq_true'] at h
    refine ⟨o, ho, ?_, ?_⟩
    · intro hd; have := h.1; simp [hd] at this
    · intro hd; have := h.2; simp [hd] at this

def saveableValB : Val → Bool
  | .bool _ => true
  | .int i => inI32 i
  | .float _ => true
  | .str _ => true
  | .list l => l.items.all (fun kv => saveableItemB kv.1 && inI32 kv.2)
  | .dtarget p => p.wfB
  | .varptr _ ci => inI32 ci

theorem saveableValB_sound (v : Val) (h : saveableValB v = true) : SaveableVal v := by
  cases v with
  | bool _ => exact True.intro
  | int i => exact h
  | float f => exact True.intro
  | str _ => exact True.intro
  | list l =>
    simp only [saveableValB, List.all_eq_true, Bool.and_eq_true] at h
    intro kv hkv
    exact ⟨saveableItemB_sound kv.1 (h kv hkv).1, (h kv hkv).2⟩
  | dtarget p => exact path_wfB_sound p h
  | varptr _ ci => exact h

def saveableObjB : Obj → Bool
  | .val v => saveableValB v
  | .glue => true
  | .void => true
  | .cmd _ => true
  | .native _ => true
  | .tag _ => true
  | .varAss _ _ _ => true
  | _ => false

theorem saveableObjB_sound (o : Obj) (h : saveableObjB o = true) : SaveableObj o := by
  cases o with
  | val v => exact saveableValB_sound v h
  | container _ _ _ _ => simp [saveableObjB] at h
  | divert _ => simp [saveableObjB] at h
  | choicePoint _ _ => simp [saveableObjB] at h
  | varRef _ _ => simp [saveableObjB] at h
  | _ => exact True.intro

def validPtrB (root : Obj) (p : Ptr) : Bool :=
  match p.container with
  | none => true
  | some a => isContainerAt root a && inI32 p.index

theorem validPtrB_sound (root : Obj) (p : Ptr) (h : validPtrB root p = true) : ValidPtr root p := by
  unfold validPtrB at h
  unfold ValidPtr
  cases hc : p.container with
  | none => exact True.intro
  | some a =>
    simp only [hc, Bool.and_eq_true] at h
    refine ⟨?_, h.2⟩
    have h1 := h.1
    unfold isContainerAt at h1
    cases hn : nodeAt root a with
    | none => simp [hn] at h1
    | some o => exact ⟨o, rfl, by simpa [hn] using h1⟩

def elemOkB (root : Obj) (el : Element) : Bool :=
  validPtrB root el.ptr && el.temps.all (fun kv => saveableValB kv.2)

theorem elemOkB_sound (root : Obj) (el : Element) (h : elemOkB root el = true) : ElemOK root el := by
  simp only [elemOkB, Bool.and_eq_true, List.all_eq_true] at h
  exact ⟨validPtrB_sound root el.ptr h.1, fun kv hkv => saveableValB_sound kv.2 (h.2 kv hkv)⟩

def threadOkB (root : Obj) (t : Thread) : Bool :=
  t.callstack.all (elemOkB root) && (t.prevPtr.isNull || (t.prevPtr.resolve root).isSome)
    && decide ((t.index : Int) ≤ u64Max)

theorem threadOkB_sound (root : Obj) (t : Thread) (h : threadOkB root t = true) : ThreadOK root t := by
  simp only [threadOkB, Bool.and_eq_true, List.all_eq_true, Bool.or_eq_true, decide_eq_true_eq] at h
  obtain ⟨⟨h1, h2⟩, h3⟩ := h
  refine ⟨fun el hel => elemOkB_sound root el (h1 el hel), ?_, h3⟩
  rcases h2 with h2 | h2
  · exact Or.inl h2
  · right
    cases hr : t.prevPtr.resolve root with
    | none => simp [hr] at h2
    | some a => exact ⟨a, rfl⟩

def callStackOkB (root : Obj) (cs : CallStack) : Bool :=
  cs.threads.all (fun t => threadOkB root t && !t.callstack.isEmpty) && !cs.threads.isEmpty
    && decide ((cs.threadCounter : Int) ≤ u64Max)

theorem callStackOkB_sound (root : Obj) (cs : CallStack) (h : callStackOkB root cs = true) :
    CallStackOK root cs := by
  simp only [callStackOkB, Bool.and_eq_true, List.all_eq_true, Bool.not_eq_true', decide_eq_true_eq] at h
  obtain ⟨⟨h1, h2⟩, h3⟩ := h
  refine ⟨fun t ht => threadOkB_sound root t (h1 t ht).1, ?_, ?_, h3⟩
  · intro hnil; rw [hnil] at h2; cases h2
  · intro t ht hnil
    have := (h1 t ht).2
    rw [hnil] at this
    cases this

theorem nodup_map_inj {α β : Type} (f : α → β) (l : List α) (h : (l.map f).Nodup) {a b : α}
    (ha : a ∈ l) (hb : b ∈ l) (hf : f a = f b) : a = b := by
  induction l with
  | nil => cases ha
  | cons x xs ih =>
    simp only [List.map_cons, List.nodup_cons] at h
    rcases List.mem_cons.mp ha with rfl | ha'
    · rcases List.mem_cons.mp hb with rfl | hb'
      · rfl
      · exact absurd (by rw [hf]; exact List.mem_map_of_mem hb') h.1
    · rcases List.mem_cons.mp hb with rfl | hb'
      · exact absurd (by rw [← hf]; exact List.mem_map_of_mem ha') h.1
      · exact ih h.2 ha' hb'

/-- The index of the thread a choice carries. -/
def choiceThreadIndex (c : Choice) : Nat := (choiceThread c).index

/-- Sufficient for `FlowOK`: the thread indices of the choices are pairwise distinct and none of
    them is the index of a thread on the call stack (what `fork_thread` guarantees), and every
    choice thread has a call stack. -/
def flowOkB (root : Obj) (f : Flow) : Bool :=
  callStackOkB root f.callstack && f.output.all saveableObjB
    && f.choices.all (fun c => decide ((c.index : Int) ≤ u64Max) && c.targetPath.wfB
        && (match c.thread with
            | some t => threadOkB root t && !t.callstack.isEmpty
            | none => false))
    && decide ((f.choices.map choiceThreadIndex).Nodup)
    && f.choices.all (fun c => (f.callstack.getThreadWithIndex (choiceThreadIndex c)).isNone)

theorem flowOkB_sound (root : Obj) (f : Flow) (h : flowOkB root f = true) : FlowOK root f := by
  simp only [flowOkB, Bool.and_eq_true, List.all_eq_true, decide_eq_true_eq] at h
  obtain ⟨⟨⟨⟨h1, h2⟩, h3⟩, h4⟩, h5⟩ := h
  refine ⟨callStackOkB_sound root f.callstack h1, fun o ho => saveableObjB_sound o (h2 o ho), ?_, ?_, ?_, ?_⟩
  · intro c hc
    obtain ⟨⟨hi, hp⟩, ht⟩ := h3 c hc
    refine ⟨⟨hi, path_wfB_sound _ hp⟩, ?_⟩
    cases hthr : c.thread with
    | none => simp [hthr] at ht
    | some t =>
      simp only [hthr, Bool.and_eq_true] at ht
      exact ⟨t, rfl, threadOkB_sound root t ht.1⟩
  · intro c hc t t' hthr hg
    have := h5 c hc
    have hidx : choiceThreadIndex c = t.index := by simp [choiceThreadIndex, choiceThread, hthr]
    rw [hidx, hg] at this
    cases this
  · intro c₁ hc₁ c₂ hc₂ t₁ t₂ h₁ h₂ hidx
    have hi₁ : choiceThreadIndex c₁ = t₁.index := by simp [choiceThreadIndex, choiceThread, h₁]
    have hi₂ : choiceThreadIndex c₂ = t₂.index := by simp [choiceThreadIndex, choiceThread, h₂]
    have hceq : c₁ = c₂ := nodup_map_inj choiceThreadIndex f.choices h4 hc₁ hc₂ (by rw [hi₁, hi₂, hidx])
    subst hceq
    rw [h₁] at h₂
    simp only [Option.some.injEq] at h₂
    rw [h₂]
  · intro c hc t hthr hnil
    have := (h3 c hc).2
    simp only [hthr, hnil, List.isEmpty_nil, Bool.not_true, Bool.and_false] at this
    cases this

def stateOkB (root : Obj) (ss : StoryState) : Bool :=
  (flowsList ss).all (fun nf => flowOkB root nf.2)
    && decide (((flowsList ss).map (·.1)).Nodup)
    && ss.core.vars.globals.all (fun kv => saveableValB kv.2)
    && ss.core.evalStack.all saveableObjB
    && validPtrB root ss.core.divertedPtr
    && ss.core.visitCounts.all (fun kv => inI32 kv.2)
    && ss.core.turnIndices.all (fun kv => inI32 kv.2)
    && inI32 ss.core.turnIndex && inI32 ss.core.storySeed && inI32 ss.core.previousRandom

theorem stateOkB_sound (root : Obj) (ss : StoryState) (h : stateOkB root ss = true) : StateOK root ss := by
  simp only [stateOkB, Bool.and_eq_true, List.all_eq_true, decide_eq_true_eq] at h
  obtain ⟨⟨⟨⟨⟨⟨⟨⟨⟨h1, h2⟩, h3⟩, h4⟩, h5⟩, h6⟩, h7⟩, h8⟩, h9⟩, h10⟩ := h
  exact ⟨fun nf hnf => flowOkB_sound root nf.2 (h1 nf hnf), h2,
    fun kv hkv => saveableValB_sound kv.2 (h3 kv hkv), fun o ho => saveableObjB_sound o (h4 o ho),
    validPtrB_sound root _ h5, h6, h7, h8, h9, h10⟩

/-- **The executable `Saveable`.** -/
def saveableB (fuel : Nat) (st : Story) : Bool := treeOkB fuel st.root && stateOkB st.root st.state

theorem saveableB_sound (fuel : Nat) (st : Story) (h : saveableB fuel st = true) : Saveable st := by
  simp only [saveableB, Bool.and_eq_true] at h
  exact ⟨treeOkB_sound fuel st.root h.1, stateOkB_sound st.root st.state h.2⟩


/-! ## 10. A reachable mid-game state, by running the interpreter

A story with a global variable (so that creation runs the interpreter on `global decl`), a line
of text and one choice.  Everything below is evaluated by the kernel (`decide +kernel`). -/

def exRootG : Obj :=
  .container none 0
    [ .val (.str "Hello"), .val (.str "\n"),
      .cmd .evalStart, .cmd .beginString, .val (.str "Go"), .cmd .endString, .cmd .evalEnd,
      .choicePoint 20 { comps := [.name "c-0".toList], rel := false },
      .cmd .done ]
    [ ("c-0", .container (some "c-0") 0 [ .val (.str "Went"), .val (.str "\n"), .cmd .«end» ] []),
      ("global decl", .container (some "global decl") 0
        [.cmd .evalStart, .val (.int 5), .varAss "x" true true, .cmd .evalEnd, .cmd .«end»] []) ]

def exLoadedG : Load.Loaded := { version := 21, root := exRootG, listDefs := [] }

/-- Create the story and continue once: the story stops at the choice. -/
def exRun : Out Story :=
  match Story.create exLoadedG 7 with
  | .ok st =>
    (match st.cont with
    | (.ok _, st1) => .ok st1
    | (.err k m, _) => .err k m
    | (.panic p, _) => .panic p)
  | .err k m => .err k m
  | .panic p => .panic p

/-- Choose the first choice and continue: the text that comes out. -/
def exNext (st : Story) : Out String :=
  match st.chooseChoiceIndex 0 with
  | (.ok (), st1) => st1.cont.1
  | (.err k m, _) => .err k m
  | (.panic p, _) => .panic p

def outStrEq : Out String → Out String → Bool
  | .ok a, .ok b => a == b
  | _, _ => false

/-! ### a sound equality test on content trees (no `DecidableEq`: values may hold floats) -/

deriving instance DecidableEq for DivertData

def valEqB : Val → Val → Bool
  | .bool a, .bool b => decide (a = b)
  | .int a, .int b => decide (a = b)
  | .str a, .str b => decide (a = b)
  | .list a, .list b =>
    decide (a.items = b.items ∧ a.origins = b.origins ∧ a.initialOrigins = b.initialOrigins)
  | .dtarget a, .dtarget b => decide (a = b)
  | .varptr n c, .varptr n' c' => decide (n = n' ∧ c = c')
  | _, _ => false

theorem valEqB_sound (a b : Val) (h : valEqB a b = true) : a = b := by
  cases a <;> cases b <;> simp only [valEqB, decide_eq_true_eq, Bool.false_eq_true] at h
  · rw [h]
  · rw [h]
  · rename_i x y
    obtain ⟨xi, xo, xio⟩ := x
    obtain ⟨yi, yo, yio⟩ := y
    simp only at h
    obtain ⟨h1, h2, h3⟩ := h
    subst h1; subst h2; subst h3
    rfl
  · rw [h]
  · rw [h]
  · rw [h.1, h.2]

mutual
  def objEqB (fuel : Nat) (a b : Obj) : Bool :=
    match fuel with
    | 0 => false
    | fuel + 1 =>
      match a, b with
      | .container n fl c nm, .container n' fl' c' nm' =>
        decide (n = n') && decide (fl = fl') && objsEqB fuel c c' && namedEqB fuel nm nm'
      | .val x, .val y => valEqB x y
      | .cmd x, .cmd y => decide (x = y)
      | .native x, .native y => decide (x = y)
      | .divert x, .divert y => decide (x = y)
      | .choicePoint f p, .choicePoint f' p' => decide (f = f' ∧ p = p')
      | .varRef n c, .varRef n' c' => decide (n = n' ∧ c = c')
      | .varAss n x g, .varAss n' x' g' => decide (n = n' ∧ x = x' ∧ g = g')
      | .glue, .glue => true
      | .void, .void => true
      | .tag t, .tag t' => decide (t = t')
      | _, _ => false
  def objsEqB (fuel : Nat) (as bs : List Obj) : Bool :=
    match fuel with
    | 0 => false
    | fuel + 1 =>
      match as, bs with
      | [], [] => true
      | a :: as', b :: bs' => objEqB fuel a b && objsEqB fuel as' bs'
      | _, _ => false
  def namedEqB (fuel : Nat) (as bs : List (String × Obj)) : Bool :=
    match fuel with
    | 0 => false
    | fuel + 1 =>
      match as, bs with
      | [], [] => true
      | (k, a) :: as', (k', b) :: bs' => decide (k = k') && objEqB fuel a b && namedEqB fuel as' bs'
      | _, _ => false
end

structure EqAt (fuel : Nat) : Prop where
  obj : ∀ a b, objEqB fuel a b = true → a = b
  objs : ∀ as bs, objsEqB fuel as bs = true → as = bs
  named : ∀ as bs, namedEqB fuel as bs = true → as = bs

theorem eqAt : ∀ fuel, EqAt fuel := by
  intro fuel
  induction fuel with
  | zero =>
    refine ⟨?_, ?_, ?_⟩
    · intro a b h; simp [objEqB] at h
    · intro a b h; simp [objsEqB] at h
    · intro a b h; simp [namedEqB] at h
  | succ fuel ih =>
    refine ⟨?_, ?_, ?_⟩
    · intro a b h
      cases a <;> cases b <;> simp only [objEqB, Bool.and_eq_true, decide_eq_true_eq, Bool.false_eq_true] at h
      · obtain ⟨⟨⟨h1, h2⟩, h3⟩, h4⟩ := h
        rw [h1, h2, ih.objs _ _ h3, ih.named _ _ h4]
      · rw [valEqB_sound _ _ h]
      · rw [h]
      · rw [h]
      · rw [h]
      · rw [h.1, h.2]
      · rw [h.1, h.2]
      · rw [h.1, h.2.1, h.2.2]
      · rfl
      · rfl
      · rw [h]
    · intro as bs h
      cases as with
      | nil =>
        cases bs with
        | nil => rfl
        | cons _ _ => simp [objsEqB] at h
      | cons a as' =>
        cases bs with
        | nil => simp [objsEqB] at h
        | cons b bs' =>
          simp only [objsEqB, Bool.and_eq_true] at h
          rw [ih.obj _ _ h.1, ih.objs _ _ h.2]
    · intro as bs h
      cases as with
      | nil =>
        cases bs with
        | nil => rfl
        | cons _ _ => simp [namedEqB] at h
      | cons a as' =>
        cases bs with
        | nil => simp [namedEqB] at h
        | cons b bs' =>
          obtain ⟨k, a⟩ := a
          obtain ⟨k', b⟩ := b
          simp only [namedEqB, Bool.and_eq_true, decide_eq_true_eq] at h
          rw [h.1.1, ih.obj _ _ h.1.2, ih.named _ _ h.2]

theorem objEqB_sound (fuel : Nat) (a b : Obj) (h : objEqB fuel a b = true) : a = b := (eqAt fuel).obj a b h

/-- **`Saveable` holds at a state reached by running the interpreter** (creation with a global
    declaration, then one `Continue` up to a choice with its forked thread). -/
theorem exRun_saveable : ∃ st, exRun = .ok st ∧ Saveable st ∧ st.root = exRootG ∧ st.asyncActive = false := by
  have h : (match exRun with
      | .ok st => saveableB 30 st && objEqB 30 st.root exRootG && !st.asyncActive
      | _ => false) = true := by decide +kernel
  cases hr : exRun with
  | ok st =>
    rw [hr] at h
    simp only [Bool.and_eq_true, Bool.not_eq_true'] at h
    exact ⟨st, rfl, saveableB_sound 30 st h.1.1, objEqB_sound 30 _ _ h.1.2, h.2⟩
  | err k m => rw [hr] at h; cases h
  | panic p => rw [hr] at h; cases h

theorem outStrEq_sound {a : Out String} {s : String} (h : outStrEq a (.ok s) = true) : a = .ok s := by
  cases a with
  | ok x => simp only [outStrEq, beq_iff_eq] at h; rw [h]
  | err _ _ => cases h
  | panic _ => cases h

/-- The story a load of `st`'s save into `fresh` produces, according to `loadState_saveState`. -/
def loadedInto (st fresh : Story) : Story :=
  { fresh with state := restoredState st.root st.state fresh.state }

/-- **The property on a concrete run, into a freshly constructed story.**  Run the story to its
    choice, save; create a NEW story object from the same document (another seed), load the save
    into it: the load succeeds, the choice is there, and choosing it produces the same text as in
    the original story object.  The load result comes from `loadState_saveState`; the behaviour of
    both stories is evaluated. -/
theorem exRoundTrip : ∃ st fresh j st'',
    exRun = .ok st ∧ Story.create exLoadedG 99 = .ok fresh ∧ saveState st = .ok j ∧
    loadState fresh (some j) = (.ok (), st'') ∧
    exNext st = .ok "Went\n" ∧ exNext st'' = .ok "Went\n" ∧
    st''.currentChoices.1.map (·.text) = ["Go"] ∧
    st''.state.core.storySeed = 7 ∧ st''.state.core.vars.globals = [("x", .int 5)] := by
  obtain ⟨st, hrun, hsave, hroot, _⟩ := exRun_saveable
  have h : (match exRun, Story.create exLoadedG 99 with
      | .ok st, .ok fresh =>
        objEqB 30 fresh.root exRootG && !fresh.asyncActive
        && outStrEq (exNext st) (.ok "Went\n") && outStrEq (exNext (loadedInto st fresh)) (.ok "Went\n")
        && decide ((loadedInto st fresh).currentChoices.1.map (·.text) = ["Go"])
        && decide ((loadedInto st fresh).state.core.storySeed = 7)
        && (match (loadedInto st fresh).state.core.vars.globals with
            | [(n, .int v)] => decide (n = "x" ∧ v = 5)
            | _ => false)
      | _, _ => false) = true := by decide +kernel
  rw [hrun] at h
  cases hc : Story.create exLoadedG 99 with
  | err k m => rw [hc] at h; cases h
  | panic p => rw [hc] at h; cases h
  | ok fresh =>
    rw [hc] at h
    simp only [Bool.and_eq_true, Bool.not_eq_true', decide_eq_true_eq] at h
    obtain ⟨⟨⟨⟨⟨⟨h1, h2⟩, h3⟩, h4⟩, h5⟩, h6⟩, h7⟩ := h
    have hfroot : fresh.root = st.root := by rw [hroot]; exact objEqB_sound 30 _ _ h1
    obtain ⟨j, hj⟩ := saveState_isOk st hsave
    have hload := loadState_saveState st fresh hsave hfroot h2 j hj
    refine ⟨st, fresh, j, loadedInto st fresh, hrun, rfl, hj, hload, outStrEq_sound h3, outStrEq_sound h4, h5, h6, ?_⟩
    generalize (loadedInto st fresh).state.core.vars.globals = gl at h7
    match gl, h7 with
    | [(n, .int v)], h7 =>
      simp only [decide_eq_true_eq] at h7
      rw [h7.1, h7.2]

/-- On that reachable state the round trip is NOT the identity on one (behaviourally irrelevant)
    field: the interpreter creates choices with `originalThreadIndex = 0`, the save writes the index
    of the choice's thread, and that is what comes back. -/
example : ∃ st, exRun = .ok st ∧ st.state.core.flow.choices.map (·.originalThreadIndex) = [0] ∧
    (restoredState st.root st.state st.state).core.flow.choices.map (·.originalThreadIndex) = [1] := by
  have h : (match exRun with
      | .ok st => decide (st.state.core.flow.choices.map (·.originalThreadIndex) = [0]) &&
          decide ((restoredState st.root st.state st.state).core.flow.choices.map (·.originalThreadIndex) = [1])
      | _ => false) = true := by decide +kernel
  cases hr : exRun with
  | ok st =>
    rw [hr] at h
    simp only [Bool.and_eq_true, decide_eq_true_eq] at h
    exact ⟨st, rfl, h.1, h.2⟩
  | err k m => rw [hr] at h; cases h
  | panic p => rw [hr] at h; cases h

/-! ### the fields a save drops are read by the interpreter -/

def exFrame (fs : Int) : Element :=
  { ptr := Ptr.startOf [], inExpr := false, temps := [], kind := .function,
    evalHeightWhenPushed := 0, funcStartInOutput := fs }

def exFunctionThread (fs : Int) : Thread :=
  { callstack := [CallStack.rootElement, exFrame fs], prevPtr := Ptr.null, index := 0 }

def exFunctionFlow (fs : Int) : Flow :=
  { name := defaultFlowName, callstack := { threads := [exFunctionThread fs], threadCounter := 0 },
    output := [.val (.str "A")], choices := [] }

/-- A core inside a function call whose frame has `funcStartInOutput = fs`, after the text `A`. -/
def exInFunction (fs : Int) : Core := { Core.fresh 0 with flow := exFunctionFlow fs }

/-- **A behavioural deviation (finding).**  `funcStartInOutput` is not saved (`normElem` resets it
    to 0), but `push_to_output_stream` reads it: in a function that has already produced text the
    frame holds -1 and a following newline is kept; with the 0 that a load puts there the same
    newline is dropped.  So a save taken inside a function call does not, in general, preserve the
    behaviour of the output stream. -/
example : ((exInFunction (-1)).pushToOutput (.val (.str "\n"))).output.length = 2 ∧
    ((exInFunction 0).pushToOutput (.val (.str "\n"))).output.length = 1 ∧
    (normElem (exFrame (-1))).funcStartInOutput = 0 := by
  decide +kernel

/-! ### a state with a non-finite float saves and loads (as the finite number written) -/

/-- The mid-game state of section 7 with a global holding `1.0 / 0.0` (the interpreter's float
    division does not check the divisor, so this value is reachable). -/
def exInfState : StoryState :=
  { exState with core := { exState.core with vars := Vars.empty.replaceGlobals [("x", .float ((1.0 : Float32) / 0.0))] } }

theorem exInfState_ok : StateOK exRoot exInfState := stateOkB_sound exRoot exInfState (by decide +kernel)

/-- `1.0 / 0.0` is written as `340000000000000000000000000000000000000.0` and read back as the
    `f32` nearest to that number. -/
theorem exInf_roundtrip :
    (writeObj (.val (.float ((1.0 : Float32) / 0.0)))).bind readObj
      = .ok (.val (.float (Load.floatOfRaw "340000000000000000000000000000000000000.0"))) := by
  obtain ⟨h, _, _, _, hpos, _⟩ := nonfinite_float_clamped ((1.0 : Float32) / 0.0)
  rw [h, (hpos (by decide +kernel) (by decide +kernel) (by decide +kernel)).2]

/-- **A non-finite float no longer makes a save unloadable** (the earlier finding: `write_json`
    wrote `null`, which `load_json_obj` rejects).  With an infinite float in a global the state is
    `StateOK`, `write_json` succeeds, the document loads, and the global comes back as the finite
    number that was written, not as the infinity: the round trip is not exact
    (`nonfinite_float_not_exact`). -/
example : ∃ j, writeState exRoot exInfState = .ok j ∧
    loadStateObj exRoot exInfState j = (.ok (), restoredState exRoot exInfState exInfState) ∧
    (restoredState exRoot exInfState exInfState).core.vars.globals
      = [("x", .float (Load.floatOfRaw "340000000000000000000000000000000000000.0")), ("l", .list exList)] ∧
    exInfState.core.vars.globals = [("x", .float ((1.0 : Float32) / 0.0))] := by
  refine ⟨_, writeState_ok exRoot_treeOK exInfState exInfState_ok,
    loadStateObj_ok exRoot_treeOK exInfState exInfState exInfState_ok, ?_, rfl⟩
  obtain ⟨_, _, _, _, hpos, _⟩ := nonfinite_float_clamped ((1.0 : Float32) / 0.0)
  have htext := (hpos (by decide +kernel) (by decide +kernel) (by decide +kernel)).2
  have hch : changedGlobals exInfState.core = [("x", .float ((1.0 : Float32) / 0.0))] := by
    simp [changedGlobals, exInfState, exState, Vars.replaceGlobals, alGet, valEqual]
  show restoredGlobals exInfState.core.defaultGlobals (changedGlobals exInfState.core) = _
  rw [hch]
  simp [restoredGlobals, exInfState, exState, alGet, normVal, htext]

end C02
end Ink

#print axioms Ink.C02.readObj_writeObj
#print axioms Ink.C02.readObj_writeObj_exact
#print axioms Ink.C02.readVars_ok
#print axioms Ink.C02.varsStep_ok
#print axioms Ink.C02.restoredGlobals_eq
#print axioms Ink.C02.readThread_writeThread
#print axioms Ink.C02.readThread_writeThread_exact
#print axioms Ink.C02.readCallStack_ok
#print axioms Ink.C02.readCallStack_exact
#print axioms Ink.C02.readChoice_writeChoice
#print axioms Ink.C02.readFlow_writeFlow
#print axioms Ink.C02.readFlow_writeFlow_exact
#print axioms Ink.C02.writeState_ok
#print axioms Ink.C02.loadStateObj_ok
#print axioms Ink.C02.loadState_saveState
#print axioms Ink.C02.loadState_saveState_exact
#print axioms Ink.C02.treeOkB_sound
#print axioms Ink.C02.create_saveable
#print axioms Ink.C02.exStory_saveable
#print axioms Ink.C02.nonfinite_float_clamped
#print axioms Ink.C02.nonfinite_float_not_exact
#print axioms Ink.C02.restoredState_eq
#print axioms Ink.C02.loadState_saveState_self
#print axioms Ink.C02.loadState_saveState_state_eq
#print axioms Ink.C02.saveableB_sound
#print axioms Ink.C02.exRun_saveable
#print axioms Ink.C02.exRoundTrip
