/-
  C11 — Variable observers see each committed change once, with the final value.
-/
import Proofs.Lemmas.LoopLemmas
import Ink.Save

namespace Ink
namespace C11

open Story

/-- **changed_implies_recorded.** While a batch of changes is being observed,
    every global whose value differs from its value when the batch started is
    in the change set.  (Holds for every `Vars` value the interpreter can ever
    hold: all writes go through `Vars.set`, which maintains it.) -/
theorem changed_implies_recorded (v : Vars) (n : String) (hb : v.batchObserving = true)
    (hd : v.get n ≠ alGet v.base n) : n ∈ v.changed := v.inv n hb hd

/-- No name is recorded twice. -/
theorem changed_nodup (v : Vars) : v.changed.Nodup := v.nodup

/-- A write during a batch records the name and stores the value. -/
theorem set_records (v : Vars) (n : String) (x : Val) (hb : v.batchObserving = true) :
    n ∈ (v.set n x).1.changed ∧ (v.set n x).2 = false := by
  unfold Vars.set
  simp only [hb, dif_pos]
  exact ⟨mem_setInsert_self _ _, trivial⟩

/-- A write outside a batch (a host assignment between continues) asks for an
    immediate notification. -/
theorem set_outside_batch_notifies (v : Vars) (n : String) (x : Val) (hb : v.batchObserving = false) :
    (v.set n x).2 = true := by
  unfold Vars.set
  simp [hb]

/-- The names handed to the notification step when a batch is closed are
    exactly the recorded names, each once. -/
theorem completeObservation_names (v : Vars) (hb : v.batchObserving = true) :
    (v.completeObservation).1 = v.changed ∧ (v.completeObservation).1.Nodup := by
  unfold Vars.completeObservation
  simp only [hb, if_true]
  exact ⟨trivial, v.nodup⟩

/-- **changed_implies_notified.** When an outermost continue completes, every
    global whose value differs from its value at the start of that continue is
    among the (name, value) pairs handed to the observers, with the value it has
    at that moment. -/
theorem changed_implies_notified (st st' : Story) (changed : List (String × Val))
    (h : st.closeObservation = some (st', changed)) (hrec : st.recCount = 1)
    (hb : st.core.vars.batchObserving = true) (n : String)
    (hd : st.core.vars.get n ≠ alGet st.core.vars.base n) :
    ∃ x, st'.core.vars.get n = some x ∧ (n, x) ∈ changed := by
  unfold Story.closeObservation at h
  simp only [hrec, beq_self_eq_true, if_true, Story.core, Story.mapCore, Story.setCore] at h hb hd ⊢
  have hnames : (st.state.core.vars.completeObservation).1 = st.state.core.vars.changed := by
    simp [Vars.completeObservation, hb]
  have hget : ∀ m, (st.state.core.vars.completeObservation).2.get m = st.state.core.vars.get m := by
    intro m; simp [Vars.completeObservation, Vars.get]
  have hmem : n ∈ st.state.core.vars.changed := st.state.core.vars.inv n hb hd
  split at h
  · rename_i hall
    simp only [Option.some.injEq, Prod.mk.injEq] at h
    obtain ⟨h1, h2⟩ := h
    rw [List.all_eq_true] at hall
    have hs := hall n (by rw [hnames]; exact hmem)
    rw [hget] at hs
    cases hg : st.state.core.vars.get n with
    | none => simp [hg] at hs
    | some x =>
      refine ⟨x, ?_, ?_⟩
      · rw [← h1]
        show (st.state.core.vars.completeObservation).2.get n = some x
        rw [hget]; exact hg
      · rw [← h2, List.mem_filterMap]
        exact ⟨n, by rw [hnames]; exact hmem, by rw [hget, hg]; rfl⟩
  · cases h

/-- Each name is handed over at most once: the list of changed names has no duplicates. -/
theorem notified_names_nodup (st st' : Story) (changed : List (String × Val))
    (h : st.closeObservation = some (st', changed)) : (changed.map (·.1)).Nodup := by
  unfold Story.closeObservation at h
  split at h
  · simp only at h
    split at h
    · simp only [Option.some.injEq, Prod.mk.injEq] at h
      rw [← h.2]
      have hn : (st.core.vars.completeObservation).1.Nodup := by
        unfold Vars.completeObservation
        split
        · exact st.core.vars.nodup
        · exact List.nodup_nil
      generalize (st.core.vars.completeObservation).1 = names at hn ⊢
      generalize (st.core.vars.completeObservation).2 = v2
      induction names with
      | nil => simp
      | cons a rest ih =>
        rw [List.nodup_cons] at hn
        simp only [List.filterMap_cons]
        cases hg : v2.get a with
        | none => simp only [Option.map_none]; exact ih hn.2
        | some x =>
          simp only [Option.map_some, List.map_cons, List.nodup_cons]
          refine ⟨?_, ih hn.2⟩
          intro hmem
          rw [List.mem_map] at hmem
          obtain ⟨⟨m, y⟩, hm, hma⟩ := hmem
          simp only at hma
          subst hma
          rw [List.mem_filterMap] at hm
          obtain ⟨m', hm', hmm⟩ := hm
          cases hg' : v2.get m' with
          | none => simp [hg'] at hmm
          | some z =>
            simp only [hg', Option.map_some, Option.some.injEq, Prod.mk.injEq] at hmm
            rw [← hmm.1] at hn
            exact hn.1 hm'
    · cases h
  · simp only [Option.some.injEq, Prod.mk.injEq] at h
    rw [← h.2]; simp

/-- **notify_once_per_name.** Each (changed name, registered observer) pair gets
    exactly one notification event, carrying the value handed over. -/
theorem obsEvents_one_per_observer (st : Story) (n : String) (x : Val) (ids : List String)
    (h : alGet st.observers n = some ids) :
    obsEvents st [(n, x)] = ids.map (fun id => Json.arr [.str "obs", .str id, .str n, encVal x]) := by
  simp [obsEvents, h]

theorem obsEvents_append (st : Story) (a b : List (String × Val)) :
    obsEvents st (a ++ b) = obsEvents st a ++ obsEvents st b := by
  simp [obsEvents, List.flatMap_append]

/-- A variable nobody observes produces no event. -/
theorem obsEvents_unobserved (st : Story) (n : String) (x : Val) (h : alGet st.observers n = none) :
    obsEvents st [(n, x)] = [] := by
  simp [obsEvents, h]

/-- **host_set_notifies_once.** A host assignment between continues stores the
    value and notifies the variable's observers immediately, once each. -/
theorem setVariable_notifies (st : Story) (n : String) (x : Val)
    (ha : st.asyncActive = false) (hd : alHas st.core.defaultGlobals n = true)
    (hb : st.core.vars.batchObserving = false) :
    ∃ st', st.setVariable n x = (.ok (), st') ∧
      st'.events = (obsEvents st' [(n, x)]).reverse ++ st.events := by
  unfold Story.setVariable
  simp only [Story.ifAsyncWeCant, ha, Bool.false_eq_true, if_false, hd, Bool.not_true]
  have hn : (st.core.setGlobal n x).2 = true := by
    unfold Core.setGlobal
    simp only
    exact set_outside_batch_notifies _ _ _ hb
  cases hs : st.core.setGlobal n x with
  | mk c notify =>
    rw [hs] at hn
    simp only at hn
    subst hn
    exact ⟨_, rfl, rfl⟩

/-- **remove_observer_exact.** Removing an observer from one variable leaves the
    registrations of every other variable untouched, and never fails. -/
theorem removeVariableObserver_other (st : Story) (id n m : String) (ha : st.asyncActive = false)
    (hnm : (m == n) = false) :
    ∃ st', st.removeVariableObserver id (some n) = (.ok (), st') ∧
      (∀ ids, alGet st.observers m = some ids → ids ≠ [] → (st'.observers.find? (fun kv => kv.1 == m)) =
        (st.observers.find? (fun kv => kv.1 == m))) := by
  unfold Story.removeVariableObserver
  simp only [Story.ifAsyncWeCant, ha, Bool.false_eq_true, if_false]
  refine ⟨_, rfl, ?_⟩
  intro ids hids hne
  simp only
  generalize st.observers = obs at hids ⊢
  induction obs with
  | nil => simp
  | cons kv rest ih =>
    obtain ⟨k, l⟩ := kv
    simp only [List.map_cons]
    by_cases hk : (k == m) = true
    · have hkm : k = m := by simpa using hk
      subst hkm
      have hkn : (some n == some k) = false := by
        have : (n == k) = false := by
          cases hx : (n == k)
          · rfl
          · have : n = k := by simpa using hx
            subst this; simp at hnm
        simpa using this
      have hl : l = ids := by
        simp [alGet, List.find?] at hids
        exact hids
      subst hl
      have hne' : (l.isEmpty) = false := by
        cases l with
        | nil => exact absurd rfl hne
        | cons a b => rfl
      simp [hkn, List.filter, hne', List.find?]
    · have hk' : (k == m) = false := by simpa using hk
      have hids' : alGet rest m = some ids := by
        simpa [alGet, List.find?, hk'] using hids
      by_cases hsel : (Option.isNone (some n) || some n == some k) = true
      · simp only [hsel, if_true]
        by_cases hemp : (removeFirst id l).isEmpty = true
        · simp only [List.filter, hemp, Bool.not_true]
          simp only [List.find?, hk']
          exact ih hids'
        · have hemp' : (removeFirst id l).isEmpty = false := by simpa using hemp
          simp only [List.filter, hemp', Bool.not_false, List.find?, hk']
          exact ih hids'
      · have hsel' : (Option.isNone (some n) || some n == some k) = false := by simpa using hsel
        simp only [hsel', Bool.false_eq_true, if_false]
        by_cases hemp : l.isEmpty = true
        · simp only [List.filter, hemp, Bool.not_true, List.find?, hk']
          exact ih hids'
        · have hemp' : l.isEmpty = false := by simpa using hemp
          simp only [List.filter, hemp', Bool.not_false, List.find?, hk']
          exact ih hids'

/-- Registrations survive a load. -/
theorem loadState_keeps_observers (st : Story) (doc : Option Json) :
    (Save.loadState st doc).2.observers = st.observers := by
  unfold Save.loadState
  split
  · rfl
  · rfl
  · split <;> rfl

end C11
end Ink
