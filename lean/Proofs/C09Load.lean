import Proofs.C01

/-!
# C09, the refused load: NOT atomic (witness of the known finding `C09-partial-load`)

`load_state` assigns the parts of a save one after another (`story_state.rs: load_json_obj`, modelled by
`Save.loadStateObj`) and returns at the first malformed field.  A save whose flows are well formed but whose
`turnIdx` (read near the end) is a string is therefore refused AFTER the flows have been replaced.
The statement "a refused load leaves the story as it was" is false of the model and of the code; this file proves
its negation on a concrete story (the same history is replayed on the real code by checks/c09.py: `loadbad`).
What does hold for refused loads is C15's guarantee (`Proofs/C15.lean`): only the state is touched and a reset
afterwards gives the fresh story.
-/

namespace Ink
namespace C09

open Save

/-- "a", line break, `~ temp x = 1`, "b", line break, done -/
def exStart : Story := C01.exStory4
/-- after the first line has been delivered -/
def exLater : Story := exStart.cont.2

/-- the field the loader reads last is damaged -/
def damage : Json → Json
  | .obj kvs => .obj (kvs.map (fun kv => if kv.1 == "turnIdx" then (kv.1, Json.str "zero") else kv))
  | j => j

/-- the save of the START of the story, damaged -/
def exBadSave : Option Json :=
  match saveState exStart with
  | .ok j => some (damage j)
  | _ => none

/-- **A refused load is not atomic.**  Loading the damaged save of the start into the story that has already
    delivered its first line is refused, and yet the pending output (the delivered line) is gone: the flow of the
    save has replaced the current one. -/
theorem loadState_rejected_not_atomic :
    (match exBadSave with
     | some j =>
       (match loadState exLater (some j) with
        | (.err _ _, st') =>
          exLater.state.core.flow.output.length != 0 && st'.state.core.flow.output.length == 0
        | _ => false)
     | none => false) = true := by decide +kernel

/-- … whereas a save damaged in the field the loader reads FIRST is refused without any change to the flow. -/
theorem loadState_rejected_early_keeps_flow :
    (match loadState exLater (some (.obj [("inkSaveVersion", .num 10), ("flows", .str "zero")])) with
     | (.err _ _, st') => st'.state.core.flow.output.length == exLater.state.core.flow.output.length
     | _ => false) = true := by decide +kernel

end C09
end Ink
