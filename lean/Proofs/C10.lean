/-
  C10 — Flows are independent except for global variables and counts.
-/
import Proofs.Lemmas.LoopLemmas

namespace Ink
namespace C10

open Story

/-! ### association-list facts used for the flow map -/

theorem alGet_alSet_self {β : Type} (l : List (String × β)) (k : String) (v : β) :
    alGet (alSet l k v) k = some v := by
  induction l with
  | nil => simp [alSet, alGet]
  | cons kv rest ih =>
    obtain ⟨k0, v0⟩ := kv
    simp only [alSet]
    by_cases h0 : (k0 == k) = true
    · simp [h0, alGet]
    · have h0' : (k0 == k) = false := by simpa using h0
      simp only [h0', Bool.false_eq_true, if_false, alGet, List.find?]
      simpa [alGet] using ih

theorem alGet_alRemove_self {β : Type} (l : List (String × β)) (k : String) :
    alGet (alRemove l k) k = none := by
  induction l with
  | nil => simp [alRemove, alGet]
  | cons kv rest ih =>
    obtain ⟨k0, v0⟩ := kv
    by_cases h0 : (k0 == k) = true
    · simp only [alRemove, List.filter, h0, Bool.not_true]
      simpa [alRemove] using ih
    · have h0' : (k0 == k) = false := by simpa using h0
      simp only [alRemove, List.filter, h0', Bool.not_false, alGet, List.find?]
      simpa [alRemove, alGet] using ih

theorem alGet_alRemove_ne {β : Type} (l : List (String × β)) (k k' : String) (h : (k == k') = false) :
    alGet (alRemove l k) k' = alGet l k' := by
  induction l with
  | nil => simp [alRemove, alGet]
  | cons kv rest ih =>
    obtain ⟨k0, v0⟩ := kv
    by_cases h0 : (k0 == k) = true
    · have hk : k0 = k := by simpa using h0
      subst hk
      simp only [alRemove, List.filter, h0, Bool.not_true, alGet, List.find?, h]
      simpa [alRemove, alGet] using ih
    · have h0' : (k0 == k) = false := by simpa using h0
      simp only [alRemove, List.filter, h0', Bool.not_false, alGet, List.find?]
      by_cases h1 : (k0 == k') = true
      · simp [h1]
      · have h1' : (k0 == k') = false := by simpa using h1
        simp only [h1']
        simpa [alRemove, alGet] using ih

/-- The flow that `switch_flow(name)` makes current: the parked one, or a fresh one. -/
def flowFor (s : StoryState) (name : String) : Flow :=
  (alGet (s.namedFlows.getD []) name).getD (freshFlow name)

/-- Switching to another flow makes that flow current and parks the previous
    current flow, untouched, under its own name; no other parked flow changes. -/
theorem switch_parks_current (s : StoryState) (b : String) (hne : (b == s.core.flow.name) = false) :
    (switchFlowInternal s b).core.flow = flowFor s b
    ∧ (∃ nf, (switchFlowInternal s b).namedFlows = some nf
        ∧ alGet nf s.core.flow.name = some s.core.flow
        ∧ ∀ k, (s.core.flow.name == k) = false → (b == k) = false →
            alGet nf k = alGet (s.namedFlows.getD []) k) := by
  unfold switchFlowInternal flowFor
  simp only [hne, Bool.false_eq_true, if_false]
  refine ⟨?_, _, rfl, alGet_alSet_self _ _ _, ?_⟩
  · trivial
  · intro k h1 h2
    rw [alGet_alSet_ne _ _ _ _ h1, alGet_alRemove_ne _ _ _ h2]

/-- Every parked flow is filed under its own name. -/
def FlowMapWF (s : StoryState) : Prop :=
  ∀ k fl, alGet (s.namedFlows.getD []) k = some fl → fl.name = k

theorem flowFor_name (s : StoryState) (b : String) (hwf : FlowMapWF s) : (flowFor s b).name = b := by
  unfold flowFor
  cases hg : alGet (s.namedFlows.getD []) b with
  | none => simp [freshFlow]
  | some fl => simpa using hwf b fl hg

/-- Switching flows keeps the flow map well formed. -/
theorem switch_preserves_wf (s : StoryState) (b : String) (hwf : FlowMapWF s) :
    FlowMapWF (switchFlowInternal s b) := by
  unfold switchFlowInternal
  split
  · exact hwf
  · rename_i hne
    have hne' : (b == s.core.flow.name) = false := by simpa using hne
    intro k fl hk
    simp only [Option.getD_some] at hk
    by_cases h1 : (s.core.flow.name == k) = true
    · have : s.core.flow.name = k := by simpa using h1
      subst this
      rw [alGet_alSet_self] at hk
      simp only [Option.some.injEq] at hk
      rw [← hk]
    · have h1' : (s.core.flow.name == k) = false := by simpa using h1
      rw [alGet_alSet_ne _ _ _ _ h1'] at hk
      by_cases h2 : (b == k) = true
      · have : b = k := by simpa using h2
        subst this
        rw [alGet_alRemove_self] at hk
        cases hk
      · have h2' : (b == k) = false := by simpa using h2
        rw [alGet_alRemove_ne _ _ _ h2'] at hk
        exact hwf k fl hk

/-- The state after switching to another flow `a`. -/
def switched (t : StoryState) (a : String) : StoryState :=
  { t with core := { t.core with flow := flowFor t a },
           namedFlows := some (alSet (alRemove (t.namedFlows.getD []) a) t.core.flow.name t.core.flow) }

/-- One switch, spelled out. -/
theorem switch_eq (t : StoryState) (a : String) (hne : (a == t.core.flow.name) = false) :
    switchFlowInternal t a = switched t a := by
  unfold switchFlowInternal switched flowFor
  simp only [hne, Bool.false_eq_true, if_false]

/-- **switch_back_identity.** Switching away to flow `b` and back to the
    original flow `a` restores the current flow exactly — position, output,
    choices, call stack, threads, temporaries — and all the rest of the core
    (globals, counts, evaluation stack); flow `b` stays parked as it was (or is
    created empty if it did not exist); every other parked flow is untouched. -/
theorem switch_back_identity (s : StoryState) (b : String) (hne : (b == s.core.flow.name) = false)
    (hwf : FlowMapWF s) :
    (switchFlowInternal (switchFlowInternal s b) s.core.flow.name).core = s.core
    ∧ (∃ nf, (switchFlowInternal (switchFlowInternal s b) s.core.flow.name).namedFlows = some nf
        ∧ alGet nf b = some (flowFor s b)
        ∧ ∀ k, (b == k) = false → (s.core.flow.name == k) = false →
            alGet nf k = alGet (s.namedFlows.getD []) k) := by
  have hname1 : (flowFor s b).name = b := flowFor_name s b hwf
  have hne2 : (s.core.flow.name == b) = false := by
    cases hx : (s.core.flow.name == b)
    · rfl
    · have : s.core.flow.name = b := by simpa using hx
      rw [this] at hne; simp at hne
  rw [switch_eq s b hne]
  have hne2' : (s.core.flow.name == (switched s b).core.flow.name) = false := by
    show (s.core.flow.name == (flowFor s b).name) = false
    rw [hname1]; exact hne2
  rw [switch_eq _ _ hne2']
  have hback : flowFor (switched s b) s.core.flow.name = s.core.flow := by
    unfold flowFor switched
    simp only [Option.getD_some, alGet_alSet_self]
  have hcurname : (switched s b).core.flow.name = b := hname1
  refine ⟨?_, _, rfl, ?_, ?_⟩
  · show ({ (switched s b).core with flow := flowFor (switched s b) s.core.flow.name } : Core) = s.core
    rw [hback]; rfl
  · show alGet (alSet (alRemove ((switched s b).namedFlows.getD []) s.core.flow.name)
        (switched s b).core.flow.name (switched s b).core.flow) b = some (flowFor s b)
    rw [hcurname, alGet_alSet_self]; rfl
  · intro k hk1 hk2
    show alGet (alSet (alRemove ((switched s b).namedFlows.getD []) s.core.flow.name)
        (switched s b).core.flow.name (switched s b).core.flow) k = _
    rw [hcurname, alGet_alSet_ne _ _ _ _ hk1, alGet_alRemove_ne _ _ _ hk2]
    show alGet (alSet (alRemove (s.namedFlows.getD []) b) s.core.flow.name s.core.flow) k = _
    rw [alGet_alSet_ne _ _ _ _ hk2, alGet_alRemove_ne _ _ _ hk1]

/-- Switching to the flow that is already current changes nothing. -/
theorem switch_same_flow (s : StoryState) : switchFlowInternal s s.core.flow.name = s := by
  unfold switchFlowInternal
  simp

/-! ### Operations on the current flow leave the parked flows alone -/

/-- A step-level action never touches the parked flows (they are outside what a step can see). -/
theorem runM_namedFlows {α : Type} (st : Story) (m : M α) :
    (st.runM m).2.state.namedFlows = st.state.namedFlows := by
  unfold Story.runM; rfl

/-- The look-ahead snapshot, when there is one, parks the same flows as the current state. -/
def SnapshotAgrees (st : Story) : Prop :=
  ∀ sn, st.snapshot = some sn → sn.namedFlows = st.state.namedFlows

theorem addError_namedFlows (st : Story) (m : String) (w : Bool) :
    (st.addError m w).state.namedFlows = st.state.namedFlows ∧ (st.addError m w).snapshot = st.snapshot := by
  unfold Story.addError
  split <;> exact ⟨rfl, rfl⟩

theorem continueSingleStep_namedFlows (st : Story) (r : Out Bool) (st' : Story)
    (hinv : SnapshotAgrees st) (h : st.continueSingleStep = (r, st')) :
    st'.state.namedFlows = st.state.namedFlows ∧ SnapshotAgrees st' := by
  unfold Story.continueSingleStep at h
  have hr1 := runM_namedFlows st (step st.env)
  have hs1 := runM_snapshot st (step st.env)
  -- a helper: a story with the same parked flows and the same snapshot agrees as well
  have keep : ∀ (a : Story), a.state.namedFlows = st.state.namedFlows → a.snapshot = st.snapshot → SnapshotAgrees a := by
    intro a h1 h2 sn hsn
    rw [h2] at hsn; rw [h1]; exact hinv sn hsn
  split at h
  · rename_i k m st1 heq
    simp only [Prod.mk.injEq] at h
    rw [heq] at hr1 hs1
    rw [← h.2]; exact ⟨hr1, keep _ hr1 hs1⟩
  · rename_i p st1 heq
    simp only [Prod.mk.injEq] at h
    rw [heq] at hr1 hs1
    rw [← h.2]; exact ⟨hr1, keep _ hr1 hs1⟩
  · rename_i st1 heq
    rw [heq] at hr1 hs1
    simp only at hr1 hs1
    simp only at h
    -- after the optional default-choice step
    have h2 : ∀ (r2 : Out Unit) (st2 : Story),
        (if !st1.canContinue && !st1.core.callstack.elementIsEvaluateFromGame then
          st1.runM (tryFollowDefaultInvisibleChoice st1.env) else (.ok (), st1)) = (r2, st2) →
        st2.state.namedFlows = st.state.namedFlows ∧ st2.snapshot = st.snapshot := by
      intro r2 st2 he
      split at he
      · have a := runM_namedFlows st1 (tryFollowDefaultInvisibleChoice st1.env)
        have b := runM_snapshot st1 (tryFollowDefaultInvisibleChoice st1.env)
        rw [he] at a b
        exact ⟨a.trans hr1, b.trans hs1⟩
      · simp only [Prod.mk.injEq] at he
        rw [← he.2]; exact ⟨hr1, hs1⟩
    split at h
    · rename_i k m st2 he
      simp only [Prod.mk.injEq] at h
      obtain ⟨a, b⟩ := h2 _ _ he
      rw [← h.2]; exact ⟨a, keep _ a b⟩
    · rename_i p st2 he
      simp only [Prod.mk.injEq] at h
      obtain ⟨a, b⟩ := h2 _ _ he
      rw [← h.2]; exact ⟨a, keep _ a b⟩
    · rename_i st2 he
      obtain ⟨a, b⟩ := h2 _ _ he
      have inv2 : SnapshotAgrees st2 := keep _ a b
      have hrestore : st2.restoreSnapshot.state.namedFlows = st.state.namedFlows
          ∧ SnapshotAgrees st2.restoreSnapshot := by
        unfold Story.restoreSnapshot
        cases hsn : st2.snapshot with
        | none => simp only; exact ⟨a, inv2⟩
        | some sn =>
          simp only
          refine ⟨?_, ?_⟩
          · show sn.namedFlows = _
            rw [inv2 sn hsn, a]
          · intro x hx; cases hx
      have hdiscard : ∀ (s : Story), s.state.namedFlows = st.state.namedFlows →
          s.discardSnapshot.state.namedFlows = st.state.namedFlows ∧ SnapshotAgrees s.discardSnapshot := by
        intro s hs
        exact ⟨hs, by intro x hx; cases hx⟩
      have hsnapshot : ∀ (s : Story), s.state.namedFlows = st.state.namedFlows →
          s.stateSnapshot.state.namedFlows = st.state.namedFlows ∧ SnapshotAgrees s.stateSnapshot := by
        intro s hs
        refine ⟨hs, ?_⟩
        intro x hx
        unfold Story.stateSnapshot at hx
        simp only [Option.some.injEq] at hx
        rw [← hx]; rfl
      split at h
      · simp only [Prod.mk.injEq] at h
        rw [← h.2]; exact ⟨a, inv2⟩
      · split at h
        · simp only [Prod.mk.injEq] at h
          rw [← h.2]; exact hrestore
        · rename_i st3 hsome
          have h3 : st3.state.namedFlows = st.state.namedFlows ∧ SnapshotAgrees st3 := by
            split at hsome
            · split at hsome
              · cases hsome
              · split at hsome
                · simp only [Option.some.injEq] at hsome
                  rw [← hsome]; exact hdiscard st2 a
                · simp only [Option.some.injEq] at hsome
                  rw [← hsome]; exact ⟨a, inv2⟩
            · simp only [Option.some.injEq] at hsome
              rw [← hsome]; exact ⟨a, inv2⟩
          split at h
          · split at h
            · simp only [Prod.mk.injEq] at h
              rw [← h.2]
              split
              · exact hsnapshot st3 h3.1
              · exact h3
            · simp only [Prod.mk.injEq] at h
              rw [← h.2]; exact hdiscard st3 h3.1
          · simp only [Prod.mk.injEq] at h
            rw [← h.2]; exact h3

/-- **op_on_current_frames_parked** (stepping): the continue loop never changes a parked flow. -/
theorem stepLoop_namedFlows (b : Option Nat) (fuel steps : Nat) (st : Story) (r : Out LoopEnd) (st' : Story)
    (hinv : SnapshotAgrees st) (h : stepLoop b fuel steps st = (r, st')) :
    st'.state.namedFlows = st.state.namedFlows ∧ SnapshotAgrees st' := by
  induction fuel generalizing steps st with
  | zero =>
    unfold stepLoop at h
    simp only [Prod.mk.injEq] at h
    rw [← h.2]; exact ⟨rfl, hinv⟩
  | succ fuel ih =>
    unfold stepLoop at h
    simp only at h
    have agree : ∀ (a : Story), a.state.namedFlows = st.state.namedFlows → a.snapshot = st.snapshot → SnapshotAgrees a := by
      intro a h1 h2 sn hsn
      rw [h2] at hsn; rw [h1]; exact hinv sn hsn
    split at h
    · simp only [Prod.mk.injEq] at h
      rw [← h.2]
      obtain ⟨x, y⟩ := addError_namedFlows st "VERIF_FUEL" false
      exact ⟨x, agree _ x y⟩
    · have hinv0 : SnapshotAgrees ({ st with fuel := st.fuel.map (· - 1) } : Story) := hinv
      split at h
      · rename_i p st1 heq
        simp only [Prod.mk.injEq] at h
        rw [← h.2]; exact continueSingleStep_namedFlows ({ st with fuel := st.fuel.map (· - 1) }) _ _ hinv0 heq
      · rename_i k m st1 heq
        simp only [Prod.mk.injEq] at h
        obtain ⟨x, y⟩ := continueSingleStep_namedFlows ({ st with fuel := st.fuel.map (· - 1) }) _ _ hinv0 heq
        obtain ⟨x', y'⟩ := addError_namedFlows st1 m false
        rw [← h.2]
        refine ⟨x'.trans x, ?_⟩
        intro sn hsn
        rw [y'] at hsn; rw [x']; exact y sn hsn
      · rename_i st1 heq
        simp only [Prod.mk.injEq] at h
        rw [← h.2]; exact continueSingleStep_namedFlows ({ st with fuel := st.fuel.map (· - 1) }) _ _ hinv0 heq
      · rename_i st1 heq
        obtain ⟨x, y⟩ := continueSingleStep_namedFlows ({ st with fuel := st.fuel.map (· - 1) }) _ _ hinv0 heq
        cases b with
        | none =>
          simp only [Bool.false_eq_true, if_false] at h
          split at h
          · simp only [Prod.mk.injEq] at h
            rw [← h.2]; exact ⟨x, y⟩
          · obtain ⟨x2, y2⟩ := ih _ _ y h
            exact ⟨x2.trans x, y2⟩
        | some n =>
          simp only at h
          split at h
          · simp only [Prod.mk.injEq] at h
            rw [← h.2]; exact ⟨x, y⟩
          · split at h
            · simp only [Prod.mk.injEq] at h
              rw [← h.2]; exact ⟨x, y⟩
            · obtain ⟨x2, y2⟩ := ih _ _ y h
              exact ⟨x2.trans x, y2⟩

/-- Removing a flow that is not the current one leaves the current flow untouched. -/
theorem remove_other_keeps_current (st : Story) (name : String) (ha : st.asyncActive = false)
    (hd : (name == defaultFlowName) = false) (hc : (st.core.flow.name == name) = false) :
    ∃ st', st.removeFlow name = (.ok (), st') ∧ st'.state.core = st.state.core := by
  unfold Story.removeFlow
  simp only [Story.ifAsyncWeCant, ha, Bool.false_eq_true, if_false, hd, hc]
  exact ⟨_, rfl, rfl⟩

end C10
end Ink
