import Proofs.C02Reach

/-
  C02 (reachability part, counters) — the counters of the state stay 32-bit:
  `StateOK.visitCounts`, `StateOK.turnIndices`, `StateOK.turnIndex`, `StateOK.previousRandom`
  are invariants of the public operations.
-/
namespace Ink

/-- The counters of the state that a save writes as numbers (without the story seed). -/
abbrev Cnt := List (String × Int) × List (String × Int) × Int × Int

def Core.cnt (s : Core) : Cnt := (s.visitCounts, s.turnIndices, s.turnIndex, s.previousRandom)

namespace C02R
open M Story Save C02

/-- All counters are `i32` values. -/
def CntOK (c : Cnt) : Prop :=
  (∀ kv ∈ c.1, inI32 kv.2 = true) ∧ (∀ kv ∈ c.2.1, inI32 kv.2 = true) ∧ inI32 c.2.2.1 = true ∧ inI32 c.2.2.2 = true

theorem cntOK_of_eq {a b : Cnt} (h : a = b) (hb : CntOK b) : CntOK a := h ▸ hb

@[simp] theorem cnt_mk (fl : Flow) (d : Bool) (v : Vars) (dg : List (String × Val)) (es : List Obj) (er : List String)
    (dp : Ptr) (vc ti : List (String × Int)) (tx ss pr : Int) :
    (Core.mk fl d v dg es er dp vc ti tx ss pr).cnt = (vc, ti, tx, pr) := rfl

@[simp] theorem cnt_fold (s : Core) : (s.visitCounts, s.turnIndices, s.turnIndex, s.previousRandom) = s.cnt := rfl

theorem inI32_wrapI32 (n : Int) : inI32 (wrapI32 n) = true := C04.wrapI32_inRange n

theorem inI32_zero : inI32 0 = true := by decide
theorem inI32_negOne : inI32 (-1) = true := by decide

theorem mem_alSet {β : Type} {l : List (String × β)} {k : String} {v : β} {kv : String × β}
    (h : kv ∈ alSet l k v) : kv ∈ l ∨ kv.2 = v := by
  induction l with
  | nil =>
    simp only [alSet, List.mem_singleton] at h
    right; rw [h]
  | cons x xs ih =>
    obtain ⟨k', v'⟩ := x
    simp only [alSet] at h
    split at h
    · rcases List.mem_cons.mp h with h1 | h1
      · right; rw [h1]
      · left; exact List.mem_cons_of_mem _ h1
    · rcases List.mem_cons.mp h with h1 | h1
      · left; rw [h1]; exact List.mem_cons_self
      · rcases ih h1 with h2 | h2
        · left; exact List.mem_cons_of_mem _ h2
        · right; exact h2

/-! ### core-level: nothing renames the current flow -/
section corenames
variable (s : Core)

@[simp] theorem setCallstack_cnt (cs : CallStack) : (s.setCallstack cs).cnt = s.cnt := rfl
@[simp] theorem mapCallstack_cnt (f : CallStack → CallStack) : (s.mapCallstack f).cnt = s.cnt := rfl
@[simp] theorem setCurrentPtr_cnt (p : Ptr) : (s.setCurrentPtr p).cnt = s.cnt := rfl
@[simp] theorem setPrevPtr_cnt (p : Ptr) : (s.setPrevPtr p).cnt = s.cnt := rfl
@[simp] theorem setInExpr_cnt (b : Bool) : (s.setInExpr b).cnt = s.cnt := rfl
@[simp] theorem setOutput_cnt (o : List Obj) : (s.setOutput o).cnt = s.cnt := rfl
@[simp] theorem resetOutput_cnt (o : Option (List Obj)) : (s.resetOutput o).cnt = s.cnt := rfl
@[simp] theorem addErrorMessage_cnt (m : String) : (s.addErrorMessage m).cnt = s.cnt := rfl
@[simp] theorem forceEnd_cnt : s.forceEnd.cnt = s.cnt := rfl

@[simp] theorem popFromOutput_cnt (n : Nat) : (s.popFromOutput n).cnt = s.cnt := by
  unfold Core.popFromOutput; split <;> rfl

@[simp] theorem trimWs_cnt : s.trimWhitespaceFromFunctionEnd.cnt = s.cnt := by
  unfold Core.trimWhitespaceFromFunctionEnd; simp only; split <;> rfl

theorem ite_cnt {c : Prop} [Decidable c] {a b : Core} 
    (ha : a.cnt = n) (hb : b.cnt = n) : (if c then a else b).cnt = n := by
  split <;> assumption

@[simp] theorem pushIndividual_cnt (o : Obj) : (s.pushIndividual o).cnt = s.cnt := by
  unfold Core.pushIndividual
  split
  · rfl
  · repeat' (first | rfl | apply ite_cnt | split)
  · rfl

theorem foldl_cnt {β : Type} (f : Core → β → Core) (hf : ∀ c b, (f c b).cnt = c.cnt)
    (l : List β) (c : Core) : (l.foldl f c).cnt = c.cnt := by
  induction l generalizing c with
  | nil => rfl
  | cons x xs ih => simp only [List.foldl_cons]; rw [ih, hf]

@[simp] theorem pushToOutput_cnt (o : Obj) : (s.pushToOutput o).cnt = s.cnt := by
  unfold Core.pushToOutput
  split
  · split
    · exact foldl_cnt _ (fun c b => pushIndividual_cnt c _) _ _
    · exact pushIndividual_cnt _ _
  · exact pushIndividual_cnt _ _

theorem pushEval_cnt (defs : ListDefs) (o : Obj) (s' : Core) (h : s.pushEval defs o = .ok s') :
    s'.cnt = s.cnt := by
  unfold Core.pushEval at h
  split at h
  · split at h
    · cases h
    · cases h; rfl
  · cases h; rfl

theorem popEval_cnt (o : Obj) (s' : Core) (h : s.popEval = .ok (o, s')) : s'.cnt = s.cnt := by
  unfold Core.popEval at h
  split at h
  · cases h; rfl
  · cases h

theorem popEvalMultiple_cnt (n : Nat) (os : List Obj) (s' : Core) (h : s.popEvalMultiple n = .ok (os, s')) :
    s'.cnt = s.cnt := by
  unfold Core.popEvalMultiple at h
  split at h
  · cases h; rfl
  · cases h

@[simp] theorem setGlobal_cnt (name : String) (v : Val) : (s.setGlobal name v).1.cnt = s.cnt := by
  unfold Core.setGlobal; rfl

theorem assign_cnt (defs : ListDefs) (name : String) (isNew isGlobal : Bool) (v : Val) (s' : Core)
    (h : s.assign defs name isNew isGlobal v = .ok s') : s'.cnt = s.cnt := by
  unfold Core.assign at h
  split at h
  · simp only at h
    split at h
    · cases h; exact setGlobal_cnt _ _ _
    · split at h
      · cases h; rfl
      · cases h
      · cases h
  · split at h
    split at h
    · cases h; exact setGlobal_cnt _ _ _
    · split at h
      · cases h; rfl
      · cases h
      · cases h

theorem incrementVisitCount_ok (root : Obj) (a : Addr) (s' : Core) (hs : CntOK s.cnt)
    (h : s.incrementVisitCount root a = .ok s') : CntOK s'.cnt := by
  unfold Core.incrementVisitCount at h
  split at h
  · cases h
    refine ⟨?_, hs.2.1, hs.2.2.1, hs.2.2.2⟩
    intro kv hkv
    rcases mem_alSet hkv with h1 | h1
    · exact hs.1 kv h1
    · rw [h1]; exact inI32_wrapI32 _
  · cases h

theorem recordTurnIndexVisit_ok (root : Obj) (a : Addr) (s' : Core) (hs : CntOK s.cnt)
    (h : s.recordTurnIndexVisit root a = .ok s') : CntOK s'.cnt := by
  unfold Core.recordTurnIndexVisit at h
  split at h
  · cases h
    refine ⟨hs.1, ?_, hs.2.2.1, hs.2.2.2⟩
    intro kv hkv
    rcases mem_alSet hkv with h1 | h1
    · exact hs.2.1 kv h1
    · rw [h1]; exact hs.2.2.1
  · cases h

@[simp] theorem tryExit_cnt : s.tryExitFunctionEvaluationFromGame.1.cnt = s.cnt := by
  unfold Core.tryExitFunctionEvaluationFromGame; split <;> rfl

theorem popCallstack_cnt (t : Option PushPop) (s' : Core) (h : s.popCallstack t = .ok s') :
    s'.cnt = s.cnt := by
  unfold Core.popCallstack at h
  simp only at h
  split at h
  · cases h
    show (Core.setCallstack _ _).cnt = _
    rw [setCallstack_cnt]
    split
    · split
      · exact trimWs_cnt _
      · rfl
    · rfl
  · cases h
  · cases h

@[simp] theorem addErrorCore_cnt (root : Obj) (m : String) : (addErrorCore root s m).cnt = s.cnt := rfl

theorem tryExit_cnt' (s1 : Core) (e : Bool) (h : s.tryExitFunctionEvaluationFromGame = (s1, e)) :
    s1.cnt = s.cnt := by
  have := tryExit_cnt s
  rw [h] at this; exact this

@[simp] theorem foldl_pushToOutput_cnt (l : List Obj) :
    (l.foldl (fun st t => st.pushToOutput t) s).cnt = s.cnt :=
  foldl_cnt _ (fun c b => pushToOutput_cnt c b) l s

@[simp] theorem foldr_pushToOutput_cnt (l : List Obj) :
    (l.foldr (fun x y => y.pushToOutput x) s).cnt = s.cnt := by
  induction l with
  | nil => rfl
  | cons x xs ih => simp only [List.foldr_cons, pushToOutput_cnt, ih]

theorem popThreadLift_cnt (s' : Core)
    (h : (match s.callstack.popThread with
      | .ok cs => Out.ok (s.setCallstack cs)
      | .err k m => .err k m
      | .panic p => .panic p) = .ok s') : s'.cnt = s.cnt := by
  split at h
  · cases h; rfl
  · cases h
  · cases h

end corenames

/-! ### a small Hoare logic for the step monad: "the name of the current flow stays `n`" -/

/-- Run from a state whose current flow is called `n`, `m` ends in a state whose
    current flow is called `n`; a returned value satisfies `Q`. -/
def G {α : Type} (m : M α) (Q : α → Prop) : Prop :=
  ∀ st : St, CntOK st.s.cnt → CntOK (m st).2.s.cnt ∧ ∀ a, (m st).1 = .ok a → Q a

theorem G_weaken {α : Type} {m : M α} {Q Q' : α → Prop} (h : G m Q) (hq : ∀ a, Q a → Q' a) :
    G m Q' := fun st hst => ⟨(h st hst).1, fun a ha => hq a ((h st hst).2 a ha)⟩

theorem G_pure {α : Type} {a : α} {Q : α → Prop} (h : Q a) : G (pure a : M α) Q := by
  intro st hst
  refine ⟨hst, ?_⟩
  intro b hb
  cases hb; exact h

theorem G_bind {α β : Type} {x : M α} {f : α → M β} {Q : α → Prop} {R : β → Prop}
    (hx : G x Q) (hf : ∀ a, Q a → G (f a) R) : G (x >>= f) R := by
  intro st hst
  show CntOK ((M.bind' x f) st).2.s.cnt ∧ ∀ a, ((M.bind' x f) st).1 = .ok a → R a
  unfold M.bind'
  obtain ⟨h1, h2⟩ := hx st hst
  split
  · rename_i a st' heq
    rw [heq] at h1 h2
    exact hf a (h2 a rfl) st' h1
  · rename_i k m st' heq
    rw [heq] at h1
    exact ⟨h1, fun a ha => by cases ha⟩
  · rename_i p st' heq
    rw [heq] at h1
    exact ⟨h1, fun a ha => by cases ha⟩

theorem G_bind_pure {α β : Type} {a : α} {f : α → M β} {R : β → Prop}
    (hf : G (f a) R) : G ((pure a : M α) >>= f) R :=
  G_bind (Q := fun x => x = a) (G_pure rfl) (fun x hx => by subst hx; exact hf)

theorem G_get : G M.get (fun s => CntOK s.cnt) := by
  intro st hst
  exact ⟨hst, fun a ha => by cases ha; exact hst⟩

theorem G_getSt : G M.getSt (fun st => CntOK st.s.cnt) := by
  intro st hst
  exact ⟨hst, fun a ha => by cases ha; exact hst⟩

theorem G_set {s : Core} {Q : Unit → Prop} (h : CntOK s.cnt) (hq : Q ()) : G (M.set s) Q := by
  intro st _
  exact ⟨h, fun a _ => hq⟩

theorem G_setSt {st' : St} {Q : Unit → Prop} (h : CntOK st'.s.cnt) (hq : Q ()) :
    G (M.setSt st') Q := by
  intro st _
  exact ⟨h, fun a _ => hq⟩

theorem G_modify {f : Core → Core} {Q : Unit → Prop}
    (h : ∀ s, CntOK s.cnt → CntOK (f s).cnt) (hq : Q ()) : G (M.modify f) Q := by
  intro st hst
  exact ⟨h _ hst, fun a _ => hq⟩

theorem G_liftS {f : Core → Out Core} {Q : Unit → Prop}
    (h : ∀ s s', CntOK s.cnt → f s = .ok s' → CntOK s'.cnt) (hq : Q ()) : G (M.liftS f) Q := by
  intro st hst
  unfold M.liftS
  split
  · rename_i s' heq
    exact ⟨h _ _ hst heq, fun a _ => hq⟩
  · exact ⟨hst, fun a ha => by cases ha⟩
  · exact ⟨hst, fun a ha => by cases ha⟩

theorem G_fail {α : Type} {k m : String} {Q : α → Prop} : G (M.fail k m : M α) Q := by
  intro st hst
  exact ⟨hst, fun a ha => by cases ha⟩

theorem G_invalid {α : Type} {m : String} {Q : α → Prop} : G (M.invalid m : M α) Q := G_fail

theorem G_crash {α : Type} {p : String} {Q : α → Prop} : G (M.crash p : M α) Q := by
  intro st hst
  exact ⟨hst, fun a ha => by cases ha⟩

theorem G_lift {α : Type} {o : Out α} : G (M.lift o) (fun _ => True) := by
  intro st hst
  exact ⟨hst, fun _ _ => trivial⟩

theorem G_unwrap {α : Type} {site : String} {o : Option α} : G (M.unwrap site o) (fun _ => True) := by
  cases o with
  | none => exact G_crash
  | some a => exact G_pure trivial

/-- an action that cannot return passes any continuation -/
theorem G_bind_fail {α β : Type} {k m : String} {f : α → M β} {R : β → Prop} :
    G ((M.fail k m : M α) >>= f) R := G_bind (Q := fun _ => False) G_fail (fun _ h => h.elim)

theorem G_bind_invalid {α β : Type} {m : String} {f : α → M β} {R : β → Prop} :
    G ((M.invalid m : M α) >>= f) R := G_bind_fail

theorem G_bind_crash {α β : Type} {p : String} {f : α → M β} {R : β → Prop} :
    G ((M.crash p : M α) >>= f) R := G_bind (Q := fun _ => False) G_crash (fun _ h => h.elim)

theorem G_ite {α : Type} {c : Prop} [Decidable c] {x y : M α} {Q : α → Prop}
    (hx : G x Q) (hy : G y Q) : G (if c then x else y) Q := by
  split <;> assumption

theorem G_popEvalM : G popEvalM (fun _ => True) := by
  intro st hst
  unfold Ink.popEvalM
  split
  · rename_i o s' heq
    exact ⟨cntOK_of_eq (popEval_cnt _ _ _ heq) hst, fun _ _ => trivial⟩
  · exact ⟨hst, fun _ _ => trivial⟩
  · exact ⟨hst, fun _ _ => trivial⟩

theorem G_pushEvalM {env : Env} {o : Obj} : G (pushEvalM env o) (fun _ => True) :=
  G_liftS (fun _ _ hs h => cntOK_of_eq (pushEval_cnt _ _ _ _ h) hs) trivial

theorem G_addErrorM {root : Obj} {m : String} {w : Bool} : G (addErrorM root m w) (fun _ => True) := by
  intro st hst
  unfold Ink.addErrorM
  split
  · exact ⟨hst, fun _ _ => trivial⟩
  · exact ⟨hst, fun _ _ => trivial⟩

theorem G_pointerAtPathM {env : Env} {p : Path} : G (pointerAtPathM env p) (fun _ => True) := G_lift


/-- side conditions "this core is still in flow `n`" -/
macro "g_side" : tactic => `(tactic| first
  | (simp [*]; done)
  | (split <;> (simp [*]; done))
  | exact cntOK_of_eq (pushEval_cnt _ _ _ _ (by assumption)) (by assumption)
  | exact cntOK_of_eq (popEval_cnt _ _ _ (by assumption)) (by assumption)
  | exact cntOK_of_eq (popEvalMultiple_cnt _ _ _ _ (by assumption)) (by assumption)
  | exact cntOK_of_eq (assign_cnt _ _ _ _ _ _ _ (by assumption)) (by assumption)
  | exact incrementVisitCount_ok _ _ _ _ (by assumption) (by assumption)
  | exact recordTurnIndexVisit_ok _ _ _ _ (by assumption) (by assumption)
  | exact cntOK_of_eq (popCallstack_cnt _ _ _ (by assumption)) (by assumption)
  | exact cntOK_of_eq (tryExit_cnt' _ _ _ (by assumption)) (by assumption)
  | exact cntOK_of_eq (popThreadLift_cnt _ _ (by assumption)) (by assumption))

open Lean Elab Tactic Meta in
/-- The work-horse: one decomposition step of a goal `G m Q`, chosen by the
    head symbol of `m` (no unification against program text). -/
elab "g_step" : tactic => withMainContext do
  let g ← getMainGoal
  let tgt := (← instantiateMVars (← g.getType)).consumeMData
  let args := tgt.getAppArgs
  unless tgt.getAppFn.isConstOf ``Ink.C02R.G && args.size == 3 do
    throwError "g_step: not a G goal"
  let m0 := args[1]!
  let m := m0.consumeMData.headBeta
  -- zeta / beta normalisation at the head
  if m.isLet then
    let m' := (m.letBody!.instantiate1 m.letValue!).headBeta
    let g' ← g.change (mkAppN tgt.getAppFn (args.set! 1 m'))
    replaceMainGoal [g']
    return
  if m != m0 then
    let g' ← g.change (mkAppN tgt.getAppFn (args.set! 1 m))
    replaceMainGoal [g']
    return
  let run (t : TSyntax `tactic) : TacticM Unit := evalTactic t
  let headName (e : Expr) : Option Name := e.consumeMData.headBeta.getAppFn.constName?
  let lemmaFor (c : Name) : Name := `Ink.C02R ++ Name.mkSimple ("G_" ++ c.getString!)
  match headName m with
  | some ``Bind.bind =>
    let x := m.getAppArgs[4]!
    match headName x with
    | some ``Pure.pure => run (← `(tactic| refine G_bind_pure ?_))
    | some ``Ink.M.get => run (← `(tactic| (refine G_bind G_get ?_; intro s hs)))
    | some ``Ink.M.getSt => run (← `(tactic| (refine G_bind G_getSt ?_; intro st hst)))
    | some ``Ink.M.fail => run (← `(tactic| exact G_bind_fail))
    | some ``Ink.M.invalid => run (← `(tactic| exact G_bind_invalid))
    | some ``Ink.M.crash => run (← `(tactic| exact G_bind_crash))
    | _ => run (← `(tactic| refine G_bind (Q := fun _ => True) ?_ (fun _ _ => ?_)))
  | some ``Pure.pure => run (← `(tactic| first | exact G_pure trivial | exact G_pure (by assumption)))
  | some ``panic => run (← `(tactic| exact G_pure trivial))
  | some ``ite => run (← `(tactic| apply G_ite))
  | some ``dite => run (← `(tactic| split))
  | some ``Ink.M.set => run (← `(tactic| (refine G_set ?_ trivial; try g_side)))
  | some ``Ink.M.setSt => run (← `(tactic| (refine G_setSt ?_ trivial; try g_side)))
  | some ``Ink.M.modify => run (← `(tactic| (refine G_modify (fun s hs => ?_) trivial; try g_side)))
  | some ``Ink.M.liftS => run (← `(tactic| (refine G_liftS (fun s s' hs heq => ?_) trivial; try g_side)))
  | some c =>
    if (← isMatcher c) then run (← `(tactic| split))
    else
      let l := lemmaFor c
      if (← getEnv).contains l then
        let id := mkIdent l
        run (← `(tactic| exact $id))
      else run (← `(tactic| first | assumption | apply_assumption))
  | none =>
    if m.getAppFn.isFVar then run (← `(tactic| first | assumption | (apply_assumption)))
    else throwError "g_step: stuck at {m}"


theorem G_visitContainer {env : Env} {a : Addr} {b : Bool} :
    G (visitContainer env a b) (fun _ => True) := by
  unfold Ink.visitContainer
  repeat' g_step

theorem G_loop_aux {env : Env} {prev : List Addr} (fuel : Nat) :
    ∀ (child : Addr) (b : Bool), G (visitChangedContainersDueToDivert.loop env prev fuel child b) (fun _ => True) := by
  induction fuel with
  | zero => intro child b; unfold visitChangedContainersDueToDivert.loop; repeat' g_step
  | succ fuel ih =>
    intro child b
    unfold visitChangedContainersDueToDivert.loop
    repeat' g_step

theorem G_loop {env : Env} {prev : List Addr} {fuel : Nat} {child : Addr} {b : Bool} :
    G (visitChangedContainersDueToDivert.loop env prev fuel child b) (fun _ => True) := G_loop_aux fuel child b

theorem G_visitChangedContainersDueToDivert {env : Env} :
    G (visitChangedContainersDueToDivert env) (fun _ => True) := by
  unfold Ink.visitChangedContainersDueToDivert
  repeat' g_step

theorem G_incrementContentPointer {env : Env} :
    G (incrementContentPointer env) (fun _ => True) := by
  unfold Ink.incrementContentPointer
  repeat' g_step

theorem G_nextSequenceShuffleIndex {env : Env} :
    G (nextSequenceShuffleIndex env) (fun _ => True) := by
  unfold Ink.nextSequenceShuffleIndex
  repeat' g_step

theorem G_divertTargetPointer {env : Env} {a : Addr} {t : Path} :
    G (divertTargetPointer env a t) (fun _ => True) := by
  unfold Ink.divertTargetPointer
  repeat' g_step

theorem G_choosePath {env : Env} {p : Path} {b : Bool} :
    G (choosePath env p b) (fun _ => True) := by
  unfold Ink.choosePath
  repeat' g_step
  next s hs =>
    cases b
    · exact hs
    · exact ⟨hs.1, hs.2.1, inI32_wrapI32 _, hs.2.2.2⟩

theorem G_tryFollowDefaultInvisibleChoice {env : Env} :
    G (tryFollowDefaultInvisibleChoice env) (fun _ => True) := by
  unfold Ink.tryFollowDefaultInvisibleChoice
  repeat' g_step

theorem G_popArgs_aux {f : String} (k : Nat) :
    ∀ (acc : List Val), G (callExternalFunction.popArgs f k acc) (fun _ => True) := by
  induction k with
  | zero => intro acc; unfold callExternalFunction.popArgs; repeat' g_step
  | succ k ih =>
    intro acc
    unfold callExternalFunction.popArgs
    repeat' g_step

theorem G_popArgs {f : String} {k : Nat} {acc : List Val} :
    G (callExternalFunction.popArgs f k acc) (fun _ => True) := G_popArgs_aux k acc

theorem G_callExternalFunction {env : Env} {f : String} {k : Nat} :
    G (callExternalFunction env f k) (fun _ => True) := by
  unfold Ink.callExternalFunction
  repeat' g_step

theorem G_popTags_aux (k : Nat) :
    ∀ (tags : List String), G (popChoiceStringAndTags.popTags k tags) (fun _ => True) := by
  induction k with
  | zero => intro acc; unfold popChoiceStringAndTags.popTags; repeat' g_step
  | succ k ih =>
    intro acc
    unfold popChoiceStringAndTags.popTags
    repeat' g_step

theorem G_popTags {k : Nat} {tags : List String} :
    G (popChoiceStringAndTags.popTags k tags) (fun _ => True) := G_popTags_aux k tags

theorem G_popChoiceStringAndTags {tags : List String} :
    G (popChoiceStringAndTags tags) (fun _ => True) := by
  unfold Ink.popChoiceStringAndTags
  repeat' g_step

theorem G_processChoice {env : Env} {a : Addr} {flags : Int} {p : Path} :
    G (processChoice env a flags p) (fun _ => True) := by
  unfold Ink.processChoice
  repeat' g_step

theorem G_plfc_divert {env : Env} {a : Addr} {d : DivertData} :
    G (performLogicAndFlowControl env a (.divert d)) (fun _ => True) := by
  unfold Ink.performLogicAndFlowControl
  simp only
  repeat' g_step

theorem cntOK_setPrev (s : Core) (hs : CntOK s.cnt) (ss v : Int) (hv : inI32 v = true) :
    CntOK ({ s with storySeed := ss, previousRandom := v } : Core).cnt :=
  And.intro hs.1 (And.intro hs.2.1 (And.intro hs.2.2.1 hv))

theorem G_plfc_random {env : Env} {a : Addr} :
    G (performLogicAndFlowControl env a (.cmd .random)) (fun _ => True) := by
  unfold Ink.performLogicAndFlowControl
  simp only
  repeat' g_step
  all_goals
    rename_i s hs
    exact cntOK_setPrev s hs _ _ (inI32_wrapI32 _)

theorem G_plfc_seedRandom {env : Env} {a : Addr} :
    G (performLogicAndFlowControl env a (.cmd .seedRandom)) (fun _ => True) := by
  unfold Ink.performLogicAndFlowControl
  simp only
  repeat' g_step
  all_goals
    rename_i s hs
    exact cntOK_setPrev s hs _ _ inI32_zero

theorem G_plfc_listRandom {env : Env} {a : Addr} :
    G (performLogicAndFlowControl env a (.cmd .listRandom)) (fun _ => True) := by
  unfold Ink.performLogicAndFlowControl
  simp only
  repeat' g_step
  all_goals
    rename_i s hs
    exact cntOK_setPrev s hs _ _ (inI32_wrapI32 _)

theorem G_plfc_cmd {env : Env} {a : Addr} {c : Cmd} :
    G (performLogicAndFlowControl env a (.cmd c)) (fun _ => True) := by
  cases c
  case random => exact G_plfc_random
  case seedRandom => exact G_plfc_seedRandom
  case listRandom => exact G_plfc_listRandom
  all_goals
    unfold Ink.performLogicAndFlowControl
    simp only
    repeat' g_step

theorem G_performLogicAndFlowControl {env : Env} {a : Addr} {o : Obj} :
    G (performLogicAndFlowControl env a o) (fun _ => True) := by
  cases o
  case divert d => exact G_plfc_divert
  case cmd c => exact G_plfc_cmd
  all_goals (unfold Ink.performLogicAndFlowControl; simp only; repeat' g_step)

theorem G_nextContent_aux {env : Env} (fuel : Nat) :
    G (nextContent env fuel) (fun _ => True) := by
  induction fuel with
  | zero => unfold Ink.nextContent; repeat' g_step
  | succ fuel ih =>
    unfold Ink.nextContent
    repeat' g_step

theorem G_nextContent {env : Env} {fuel : Nat} :
    G (nextContent env fuel) (fun _ => True) := G_nextContent_aux fuel

theorem G_descend_aux {env : Env} (fuel : Nat) :
    ∀ (p : Ptr), G (step.descend env fuel p) (fun _ => True) := by
  induction fuel with
  | zero => intro p; unfold step.descend; repeat' g_step
  | succ fuel ih =>
    intro p
    unfold step.descend
    repeat' g_step

theorem G_descend {env : Env} {fuel : Nat} {p : Ptr} :
    G (step.descend env fuel p) (fun _ => True) := G_descend_aux fuel p

theorem G_step {env : Env} : G (step env) (fun _ => True) := by
  unfold Ink.step
  repeat' g_step

/-! ### story level -/

/-- The counters of the state and of the look-ahead snapshot are `i32` values. -/
def SCnt (st : Story) : Prop :=
  CntOK st.state.core.cnt ∧ ∀ sn, st.snapshot = some sn → CntOK sn.core.cnt

def CW (a b : Story) : Prop := SCnt a → SCnt b

theorem CW.refl (a : Story) : CW a a := fun h => h
theorem CW.trans {a b c : Story} (h1 : CW a b) (h2 : CW b c) : CW a c := fun h => h2 (h1 h)

theorem CW_same {a b : Story} (h1 : b.state.core.cnt = a.state.core.cnt) (h2 : b.snapshot = a.snapshot) :
    CW a b := by
  intro h
  refine ⟨h1 ▸ h.1, ?_⟩
  rw [h2]; exact h.2

theorem G_forM {α : Type} (f : α → M Unit) (hf : ∀ a, G (f a) (fun _ => True)) (l : List α) :
    G (l.forM f) (fun _ => True) := by
  induction l with
  | nil => exact G_pure trivial
  | cons a as ih => exact G_bind (hf a) (fun _ _ => ih)

theorem runM_CW {α : Type} {Q : α → Prop} (st : Story) (m : M α) (hm : G m Q) : CW st (st.runM m).2 := by
  intro h
  refine ⟨?_, h.2⟩
  unfold Story.runM
  exact (hm _ h.1).1

theorem restoreSnapshot_CW (st : Story) : CW st st.restoreSnapshot := by
  intro h
  unfold Story.restoreSnapshot
  split
  · rename_i sn hsn
    exact ⟨h.2 sn hsn, fun _ hx => by cases hx⟩
  · exact h

theorem discardSnapshot_CW (st : Story) : CW st st.discardSnapshot :=
  fun h => ⟨h.1, fun _ hx => by cases hx⟩

theorem stateSnapshot_CW (st : Story) : CW st st.stateSnapshot := by
  intro h
  refine ⟨h.1, ?_⟩
  intro sn hsn
  unfold Story.stateSnapshot at hsn
  simp only [Option.some.injEq] at hsn
  rw [← hsn]; exact h.1

theorem addError_CW (st : Story) (m : String) (w : Bool) : CW st (st.addError m w) := by
  unfold Story.addError; split <;> exact CW_same rfl rfl

theorem continueSingleStep_CW (st : Story) : CW st (st.continueSingleStep).2 := by
  unfold Story.continueSingleStep
  have h1 := runM_CW st (step st.env) G_step
  have hdef : ∀ s : Story, CW s (s.runM (tryFollowDefaultInvisibleChoice s.env)).2 :=
    fun s => runM_CW s _ G_tryFollowDefaultInvisibleChoice
  split
  · rename_i heq; rw [heq] at h1; exact h1
  · rename_i heq; rw [heq] at h1; exact h1
  · rename_i st1 heq
    have h1' : CW st st1 := by rw [heq] at h1; exact h1
    simp only
    split
    · rename_i k m st2 heq2
      split at heq2
      · have := hdef st1
        rw [heq2] at this; exact h1'.trans this
      · cases heq2
    · rename_i p st2 heq2
      split at heq2
      · have := hdef st1
        rw [heq2] at this; exact h1'.trans this
      · cases heq2
    · rename_i st2 heq2
      have h2 : CW st st2 := by
        split at heq2
        · have := hdef st1
          rw [heq2] at this; exact h1'.trans this
        · cases heq2; exact h1'
      split
      · exact h2
      · split
        · rename_i hnone
          exact h2.trans (restoreSnapshot_CW st2)
        · rename_i st3 hsome
          have h3 : CW st st3 := by
            split at hsome
            · split at hsome
              · cases hsome
              · split at hsome
                · cases hsome; exact h2.trans (discardSnapshot_CW st2)
                · cases hsome; exact h2
            · cases hsome; exact h2
          split
          · split
            · split
              · exact h3.trans (stateSnapshot_CW st3)
              · exact h3
            · exact h3.trans (discardSnapshot_CW st3)
          · exact h3

theorem stepLoop_CW (b : Option Nat) (fuel steps : Nat) (st : Story) : CW st (stepLoop b fuel steps st).2 := by
  induction fuel generalizing steps st with
  | zero => unfold stepLoop; exact CW.refl st
  | succ fuel ih =>
    unfold stepLoop
    simp only
    have hf : CW st { st with fuel := st.fuel.map (· - 1) } := CW_same rfl rfl
    have hcs := hf.trans (continueSingleStep_CW { st with fuel := st.fuel.map (· - 1) })
    split
    · exact addError_CW st _ _
    · split
      · rename_i p st1 heq
        rw [heq] at hcs; exact hcs
      · rename_i k m st1 heq
        rw [heq] at hcs; exact hcs.trans (addError_CW st1 _ _)
      · rename_i st1 heq
        rw [heq] at hcs; exact hcs
      · rename_i st1 heq
        rw [heq] at hcs
        cases b with
        | none =>
          simp only [Bool.false_eq_true, if_false]
          split
          · exact hcs
          · exact hcs.trans (ih _ _)
        | some n =>
          simp only
          split
          · exact hcs
          · split
            · exact hcs
            · exact hcs.trans (ih _ _)

theorem beginContinue_CW (st : Story) (b : Bool) : CW st (st.beginContinue b) := by
  refine CW_same ?_ ?_
  · unfold Story.beginContinue; simp only; repeat' split
    all_goals rfl
  · unfold Story.beginContinue; simp only; repeat' split
    all_goals rfl

theorem endChecks_CW (st : Story) : CW st st.endChecks := by
  unfold Story.endChecks
  simp only
  have key : ∀ (s : Story) (m : String), CW s (s.addError m false) := fun s m => addError_CW s m false
  split
  · split
    · split
      · exact (key _ _).trans (key _ _)
      · split
        · exact (key _ _).trans (key _ _)
        · split
          · exact (key _ _).trans (key _ _)
          · exact (key _ _).trans (key _ _)
    · exact key _ _
  · split
    · split
      · exact key _ _
      · split
        · exact key _ _
        · split
          · exact key _ _
          · exact key _ _
    · exact CW.refl _

theorem prepareFinish_CW (st : Story) : CW st st.prepareFinish := by
  unfold Story.prepareFinish
  simp only
  have h2 : CW st (if st.snapshot.isSome then st.restoreSnapshot else st) := by
    split
    · exact restoreSnapshot_CW st
    · exact CW.refl _
  have h3 : ∀ s : Story, CW s (if !s.canContinue then s.endChecks else s) := by
    intro s
    split
    · exact endChecks_CW s
    · exact CW.refl _
  exact (h2.trans (h3 _)).trans (CW_same rfl rfl)

theorem closeObservation_CW (st st' : Story) (changed : List (String × Val))
    (h : st.closeObservation = some (st', changed)) : CW st st' := by
  unfold Story.closeObservation at h
  split at h
  · simp only at h
    split at h
    · simp only [Option.some.injEq, Prod.mk.injEq] at h
      rw [← h.1]
      exact CW_same rfl rfl
    · cases h
  · simp only [Option.some.injEq, Prod.mk.injEq] at h
    rw [← h.1]
    exact CW_same rfl rfl

theorem finishContinue_CW (st st' : Story) (changed : List (String × Val))
    (h : st.finishContinue = some (st', changed)) : CW st st' :=
  (prepareFinish_CW st).trans (closeObservation_CW _ _ _ h)

theorem deliver_CW (st : Story) : CW st st.deliver.2 := by
  unfold Story.deliver
  split
  · split
    · intro h
      refine ⟨h.1, ?_⟩
      intro sn hsn
      simp only [Option.map_eq_some_iff] at hsn
      obtain ⟨sn0, h0, h1⟩ := hsn
      rw [← h1]
      exact h.2 sn0 h0
    · split
      · exact CW.refl _
      · exact CW.refl _
  · exact CW.refl _


theorem notify_CW (st : Story) (changed : List (String × Val)) : CW st (st.notify changed) := CW_same rfl rfl

theorem continueInternal_CW (st : Story) (b : Option Nat) (f : Nat) : CW st (st.continueInternal b f).2 := by
  unfold Story.continueInternal
  split
  · exact CW.refl _
  · simp only
    have h0 := beginContinue_CW st b.isSome
    have hl := stepLoop_CW (if (st.beginContinue b.isSome).asyncActive then b else none) f 0
      (st.beginContinue b.isSome)
    split
    · rename_i heq; rw [heq] at hl; exact h0.trans hl
    · rename_i heq; rw [heq] at hl; exact h0.trans hl
    · rename_i heq; rw [heq] at hl; exact h0.trans hl
    · rename_i why st1 _ heq
      rw [heq] at hl
      have h1 := h0.trans hl
      split
      · exact h1
      · rename_i st5 changed hfin
        have h5 : CW st1 st5 := by
          split at hfin
          · exact finishContinue_CW _ _ _ hfin
          · cases hfin; exact CW.refl _
        have h6 : CW st5 { st5 with recCount := st5.recCount - 1 } := CW_same rfl rfl
        have h7 := deliver_CW { st5 with recCount := st5.recCount - 1 }
        have h17 := ((h1.trans h5).trans h6).trans h7
        split
        · rename_i st7 hd
          rw [hd] at h17
          exact h17.trans (notify_CW _ _)
        · exact h17


theorem validateExternalBindings_CW (st : Story) : CW st st.validateExternalBindings.2 := by
  unfold Story.validateExternalBindings
  simp only
  split
  · exact CW.refl _
  · split
    · exact CW_same rfl rfl
    · exact CW.refl _

theorem continueAsync_CW (st : Story) (b : Option Nat) : CW st (st.continueAsync b).2 := by
  unfold Story.continueAsync
  have hv : CW st (if !st.validated then st.validateExternalBindings else (.ok (), st)).2 := by
    split
    · exact validateExternalBindings_CW st
    · exact CW.refl _
  generalize (if !st.validated then st.validateExternalBindings else (Out.ok (), st)) = p at hv ⊢
  obtain ⟨v, st1⟩ := p
  simp only at hv ⊢
  split
  · exact hv.trans (continueInternal_CW st1 b callFuel)
  · exact hv

theorem cont_CW (st : Story) : CW st st.cont.2 := by
  unfold Story.cont
  have h := continueAsync_CW st none
  split <;> (rename_i heq; rw [heq] at h; exact h)

theorem continueMaximally_loop_CW (fuel : Nat) (st : Story) (acc : String) :
    CW st (continueMaximally.loop fuel st acc).2 := by
  induction fuel generalizing st acc with
  | zero => unfold continueMaximally.loop; exact CW.refl _
  | succ fuel ih =>
    unfold continueMaximally.loop
    split
    · have h := cont_CW st
      split
      · rename_i t st1 heq
        rw [heq] at h
        exact h.trans (ih _ _)
      · exact h
    · exact CW.refl _

theorem continueMaximally_CW (st : Story) : CW st st.continueMaximally.2 := by
  unfold Story.continueMaximally
  split
  · exact CW.refl _
  · exact CW.refl _
  · exact continueMaximally_loop_CW _ _ _

theorem currentChoices_CW (st : Story) : CW st st.currentChoices.2 := by
  unfold Story.currentChoices
  split
  · exact CW.refl _
  · exact CW_same rfl rfl

theorem chooseChoiceIndex_CW (st : Story) (i : Nat) : CW st (st.chooseChoiceIndex i).2 := by
  unfold Story.chooseChoiceIndex
  split
  · exact CW.refl _
  · exact CW.refl _
  · have hc := currentChoices_CW st
    generalize st.currentChoices = p at hc ⊢
    obtain ⟨choices, st1⟩ := p
    simp only at hc ⊢
    split
    · exact hc
    · split
      · exact hc
      · refine (hc.trans ?_).trans (runM_CW _ _ G_choosePath)
        exact CW_same rfl rfl

theorem passArguments_CW (st : Story) (args : List Val) : CW st (st.passArguments args).2 := by
  unfold Story.passArguments
  exact runM_CW _ _ (G_forM _ (fun a => G_pushEvalM) _)

theorem choosePathString_CW (st : Story) (path : String) (reset : Bool) (args : List (Option Val)) :
    CW st (st.choosePathString path reset args).2 := by
  unfold Story.choosePathString
  split
  · exact CW.refl _
  · exact CW.refl _
  · split
    · exact CW.refl _
    · exact CW.refl _
    · simp only
      split
      · exact CW.refl _
      · exact CW.refl _
      · rename_i argv _ _ _ _
        have hpre : CW st
            (if reset then ((.ok () : Out Unit), st.mapCore Core.forceEnd)
             else match st.core.callstack.currentElement with
              | some e =>
                if e.kind == .function then
                  (.invalid ("Story was running a function when you called ChoosePathString(" ++ path
                    ++ ") - this is almost certainly not what you want!"), st)
                else (.ok (), st)
              | none => (.panic "callstack.rs:get_current_element", st)).2 := by
          split
          · exact CW_same rfl rfl
          · split
            · split
              · exact CW.refl _
              · exact CW.refl _
            · exact CW.refl _
        generalize (if reset then ((.ok () : Out Unit), st.mapCore Core.forceEnd)
             else match st.core.callstack.currentElement with
              | some e =>
                if e.kind == .function then
                  (.invalid ("Story was running a function when you called ChoosePathString(" ++ path
                    ++ ") - this is almost certainly not what you want!"), st)
                else (.ok (), st)
              | none => (.panic "callstack.rs:get_current_element", st)) = p at hpre ⊢
        obtain ⟨v, st1⟩ := p
        simp only at hpre ⊢
        split
        · rename_i st1' heq1
          cases heq1
          have h2 := passArguments_CW st1 argv
          split
          · rename_i st2 heq
            rw [heq] at h2
            exact (hpre.trans h2).trans (runM_CW _ _ G_choosePath)
          · exact hpre.trans h2
        · exact hpre


theorem mapCore_CW (st : Story) (f : Core → Core) (hf : (f st.core).cnt = st.core.cnt) : CW st (st.mapCore f) :=
  CW_same hf rfl

theorem resetGlobals_CW (st : Story) : CW st st.resetGlobals.2 := by
  unfold Story.resetGlobals
  have hr : CW st (if (st.root.lookupName "global decl").isSome then
      (match st.runM (choosePath st.env (Path.parse "global decl".toList) false) with
      | (.ok (), st1) =>
        (match st1.continueInternal none callFuel with
        | (.ok (), st2) => ((.ok () : Out Unit), st2.mapCore (fun c => c.setCurrentPtr st.core.currentPtr))
        | other => other)
      | other => other)
    else (.ok (), st)).2 := by
    split
    · have h1 := runM_CW st (choosePath st.env (Path.parse "global decl".toList) false) G_choosePath
      split
      · rename_i st1 heq
        rw [heq] at h1
        have h2 := continueInternal_CW st1 none callFuel
        split
        · rename_i st2 heq2
          rw [heq2] at h2
          exact (h1.trans h2).trans (mapCore_CW _ _ rfl)
        · exact h1.trans h2
      · exact h1
    · exact CW.refl _
  simp only
  generalize (if (st.root.lookupName "global decl").isSome then
      (match st.runM (choosePath st.env (Path.parse "global decl".toList) false) with
      | (.ok (), st1) =>
        (match st1.continueInternal none callFuel with
        | (.ok (), st2) => ((.ok () : Out Unit), st2.mapCore (fun c => c.setCurrentPtr st.core.currentPtr))
        | other => other)
      | other => other)
    else (.ok (), st)) = p at hr ⊢
  obtain ⟨v, st1⟩ := p
  simp only at hr ⊢
  split
  · rename_i st1' heq
    cases heq
    exact hr.trans (mapCore_CW _ _ rfl)
  · exact hr

theorem cntOK_fresh (seed : Int) : CntOK (StoryState.fresh seed).core.cnt :=
  And.intro (fun _ h => nomatch h) (And.intro (fun _ h => nomatch h) (And.intro inI32_negOne inI32_zero))

theorem resetState_CW (st : Story) (seed : Int) : CW st (st.resetState seed).2 := by
  unfold Story.resetState
  split
  · exact CW.refl _
  · exact CW.refl _
  · have h0 : CW st { st with state := StoryState.fresh seed } := fun h => ⟨cntOK_fresh seed, h.2⟩
    exact h0.trans (resetGlobals_CW _)

/-! ### `evaluate_function` -/

theorem evalLoop_CW (fuel : Nat) (st : Story) (acc : String) : CW st (evalLoop fuel st acc).2 := by
  induction fuel generalizing st acc with
  | zero => unfold evalLoop; exact CW.refl _
  | succ fuel ih =>
    unfold evalLoop
    split
    · have h := cont_CW st
      split
      · rename_i t st1 heq
        rw [heq] at h
        exact h.trans (ih _ _)
      · exact h
    · exact CW.refl _

theorem setCore_CW (st : Story) (c : Core) (hc : c.cnt = st.core.cnt) : CW st (st.setCore c) :=
  CW_same hc rfl

theorem completeFunctionEvaluation_CW (st : Story) (ob : List Obj) (pb : Ptr) (text : String) :
    CW st (st.completeFunctionEvaluation ob pb text).2 := by
  unfold Story.completeFunctionEvaluation
  simp only
  split
  · exact CW.refl _
  · split
    · exact setCore_CW _ _ rfl
    · split
      · exact setCore_CW _ _ rfl
      · exact setCore_CW _ _ rfl
      · rename_i cs' heq
        exact setCore_CW _ _ rfl

theorem evaluateFunction_CW (st : Story) (name : String) (args : List (Option Val)) :
    CW st (st.evaluateFunction name args).2 := by
  unfold Story.evaluateFunction
  split
  · exact CW.refl _
  · exact CW.refl _
  · split
    · exact CW.refl _
    · split
      · exact CW.refl _
      · split
        · exact CW.refl _
        · exact CW.refl _
        · rename_i _ stp _ _ argv _
          simp only
          split
          · exact CW.refl _
          · rename_i cs hpush
            have h1 : CW st (st.setCore (((st.core.resetOutput none).setCallstack cs).setCurrentPtr
                (Ptr.startOf [stp]))) :=
              setCore_CW _ _ rfl
            have h2 := h1.trans (passArguments_CW _ argv)
            split
            · rename_i heq; rw [heq] at h2; exact h2
            · rename_i heq; rw [heq] at h2; exact h2
            · rename_i st2 heq
              rw [heq] at h2
              have h3 := h2.trans (evalLoop_CW 100000 st2 "")
              split
              · rename_i heq3; rw [heq3] at h3; exact h3
              · rename_i heq3; rw [heq3] at h3; exact h3
              · rename_i text st3 heq3
                rw [heq3] at h3
                exact h3.trans (completeFunctionEvaluation_CW _ _ _ _)


/-! ### the small host operations -/

theorem setVariable_CW (st : Story) (name : String) (v : Val) : CW st (st.setVariable name v).2 := by
  unfold Story.setVariable
  split
  · exact CW.refl _
  · exact CW.refl _
  · split
    · exact CW.refl _
    · simp only
      split
      · exact CW_same rfl rfl
      · exact CW_same rfl rfl

theorem observeVariable_CW (st : Story) (name id : String) : CW st (st.observeVariable name id).2 := by
  unfold Story.observeVariable
  split
  · exact CW.refl _
  · exact CW.refl _
  · split
    · exact CW.refl _
    · exact CW_same rfl rfl

theorem removeVariableObserver_CW (st : Story) (id : String) (name : Option String) :
    CW st (st.removeVariableObserver id name).2 := by
  unfold Story.removeVariableObserver
  split
  · exact CW.refl _
  · exact CW.refl _
  · exact CW_same rfl rfl

theorem bindExternal_CW (st : Story) (name : String) (d : ExtDef) : CW st (st.bindExternal name d).2 := by
  unfold Story.bindExternal
  split
  · exact CW.refl _
  · exact CW.refl _
  · split
    · exact CW.refl _
    · exact CW_same rfl rfl

theorem unbindExternal_CW (st : Story) (name : String) : CW st (st.unbindExternal name).2 := by
  unfold Story.unbindExternal
  split
  · exact CW.refl _
  · exact CW.refl _
  · split
    · exact CW.refl _
    · exact CW_same rfl rfl

theorem switchFlowInternal_cnt (s : StoryState) (name : String) :
    (switchFlowInternal s name).core.cnt = s.core.cnt := by
  unfold switchFlowInternal; split <;> rfl

theorem switchToDefaultFlowInternal_cnt (s : StoryState) :
    (switchToDefaultFlowInternal s).core.cnt = s.core.cnt := by
  unfold switchToDefaultFlowInternal; split
  · exact switchFlowInternal_cnt _ _
  · rfl

theorem switchFlow_CW (st : Story) (name : String) : CW st (st.switchFlow name).2 := by
  unfold Story.switchFlow
  split
  · exact CW_same (switchFlowInternal_cnt _ _) rfl
  · exact CW.refl _
  · exact CW.refl _

theorem switchToDefaultFlow_CW (st : Story) : CW st st.switchToDefaultFlow := by
  unfold Story.switchToDefaultFlow
  split
  · exact CW.refl _
  · exact CW_same (switchToDefaultFlowInternal_cnt _) rfl

theorem removeFlow_CW (st : Story) (name : String) : CW st (st.removeFlow name).2 := by
  unfold Story.removeFlow
  split
  · exact CW.refl _
  · exact CW.refl _
  · split
    · exact CW.refl _
    · refine CW_same ?_ rfl
      simp only
      split
      · exact switchToDefaultFlowInternal_cnt _
      · rfl

/-! ### loading a save: the counters are read as (or wrapped to) `i32` values -/

def SC (s : StoryState) : Prop := CntOK s.core.cnt

theorem andThen_sc {r : Out Unit × StoryState} {f : StoryState → Out Unit × StoryState}
    (hr : SC r.2) (hf : ∀ s, SC s → SC (f s).2) : SC (andThen r f).2 := by
  unfold andThen
  split
  · exact hf _ hr
  · exact hr

theorem go_sc (root : Obj) (single : Bool) :
    ∀ (flows : List (String × Json)) (st : StoryState), SC st →
      SC (loadStateObj.go root single flows st).2 := by
  intro flows
  induction flows with
  | nil => intro st h; unfold loadStateObj.go; exact h
  | cons x rest ih =>
    intro st h
    obtain ⟨name, ftok⟩ := x
    unfold loadStateObj.go
    split
    · exact h
    · split
      · split
        · apply ih; exact h
        · apply ih; exact h
      · exact h
      · exact h

macro "step_sc" h:ident : tactic => `(tactic| repeat' (first | exact $h | split | simp only))

theorem flowsStep_sc (root : Obj) (s : StoryState) (j : Json) (h : SC s) : SC (C02.flowsStep root s j).2 := by
  unfold C02.flowsStep
  split
  · split
    · exact h
    · simp only
      apply andThen_sc
      · apply go_sc; exact h
      · intro st hst
        step_sc hst
  · exact h

theorem varsStep_sc (j : Json) (s : StoryState) (h : SC s) : SC (C02.varsStep j s).2 := by
  unfold C02.varsStep; step_sc h
theorem evalStep_sc (j : Json) (s : StoryState) (h : SC s) : SC (C02.evalStep j s).2 := by
  unfold C02.evalStep; step_sc h
theorem divertStep_sc (root : Obj) (j : Json) (s : StoryState) (h : SC s) : SC (C02.divertStep root j s).2 := by
  unfold C02.divertStep; step_sc h
theorem seedStep_sc (j : Json) (s : StoryState) (h : SC s) : SC (C02.seedStep j s).2 := by
  unfold C02.seedStep; step_sc h

theorem readIntDict_inI32 {tok : Json} {what : String} {d : List (String × Int)}
    (h : readIntDict tok what = .ok d) : ∀ kv ∈ d, inI32 kv.2 = true := by
  unfold readIntDict at h
  split at h
  · cases h
  · rename_i kvs _
    split at h
    · rename_i hall
      simp only [Out.ok.injEq] at h
      subst h
      intro kv hkv
      simp only [List.mem_map] at hkv
      obtain ⟨x, hx, rfl⟩ := hkv
      have := List.all_eq_true.mp hall x hx
      simp only
      split at this
      · rename_i n hn; rw [hn]; exact this
      · cases this
    · cases h

theorem visitStep_sc (j : Json) (s : StoryState) (h : SC s) : SC (C02.visitStep j s).2 := by
  unfold C02.visitStep
  split
  · split
    · rename_i d hd
      exact ⟨readIntDict_inI32 hd, h.2.1, h.2.2.1, h.2.2.2⟩
    · exact h
    · exact h
  · exact h

theorem turnIndicesStep_sc (j : Json) (s : StoryState) (h : SC s) : SC (C02.turnIndicesStep j s).2 := by
  unfold C02.turnIndicesStep
  split
  · split
    · rename_i d hd
      exact ⟨h.1, readIntDict_inI32 hd, h.2.2.1, h.2.2.2⟩
    · exact h
    · exact h
  · exact h

theorem turnIdxStep_sc (j : Json) (s : StoryState) (h : SC s) : SC (C02.turnIdxStep j s).2 := by
  unfold C02.turnIdxStep
  split
  · split
    · exact ⟨h.1, h.2.1, inI32_wrapI32 _, h.2.2.2⟩
    · exact h
  · exact h

theorem prevRandomStep_sc (j : Json) (s : StoryState) (h : SC s) : SC (C02.prevRandomStep j s).2 := by
  unfold C02.prevRandomStep
  split
  · split
    · exact ⟨h.1, h.2.1, h.2.2.1, inI32_wrapI32 _⟩
    · exact h
  · exact ⟨h.1, h.2.1, h.2.2.1, inI32_zero⟩

theorem loadStateObj_sc (root : Obj) (s : StoryState) (j : Json) (h : SC s) :
    SC (loadStateObj root s j).2 := by
  rw [C02.loadStateObj_eq]
  split
  · exact h
  · simp only
    have key : SC (andThen (C02.flowsStep root s j) (fun s1 =>
          andThen (C02.varsStep j s1) (fun s2 =>
          andThen (C02.evalStep j s2) (fun s3 =>
          andThen (C02.divertStep root j s3) (fun s4 =>
          andThen (C02.visitStep j s4) (fun s5 =>
          andThen (C02.turnIndicesStep j s5) (fun s6 =>
          andThen (C02.turnIdxStep j s6) (fun s7 =>
          andThen (C02.seedStep j s7) (fun s8 =>
          C02.prevRandomStep j s8))))))))).2 := by
      refine andThen_sc (flowsStep_sc root s j h) (fun s1 h1 => ?_)
      refine andThen_sc (varsStep_sc j s1 h1) (fun s2 h2 => ?_)
      refine andThen_sc (evalStep_sc j s2 h2) (fun s3 h3 => ?_)
      refine andThen_sc (divertStep_sc root j s3 h3) (fun s4 h4 => ?_)
      refine andThen_sc (visitStep_sc j s4 h4) (fun s5 h5 => ?_)
      refine andThen_sc (turnIndicesStep_sc j s5 h5) (fun s6 h6 => ?_)
      refine andThen_sc (turnIdxStep_sc j s6 h6) (fun s7 h7 => ?_)
      refine andThen_sc (seedStep_sc j s7 h7) (fun s8 h8 => ?_)
      exact prevRandomStep_sc j s8 h8
    repeat' split
    all_goals first | exact h | exact key

theorem loadState_CW (st : Story) (doc : Option Json) : CW st (loadState st doc).2 := by
  unfold loadState
  split
  · exact CW.refl _
  · exact CW.refl _
  · split
    · exact CW.refl _
    · rename_i j
      intro h
      exact ⟨loadStateObj_sc st.root st.state j h.1, h.2⟩

/-! ### the invariant on reachable stories -/

theorem create_scnt (ld : Load.Loaded) (seed : Int) (st : Story) (h : Story.create ld seed = .ok st) :
    SCnt st := by
  unfold Story.create at h
  simp only at h
  have h0 : SCnt (C04.newBlank ld seed) := ⟨cntOK_fresh seed, fun _ hx => nomatch hx⟩
  have h1 := resetGlobals_CW (C04.newBlank ld seed) h0
  split at h
  · rename_i st1 heq
    have heq' : (C04.newBlank ld seed).resetGlobals = (.ok (), st1) := heq
    rw [heq'] at h1
    simp only [Out.ok.injEq] at h
    rw [← h]
    split
    · exact addError_CW _ _ _ h1
    · exact h1
  · cases h
  · cases h

/-- **reachable_counters.**  In every story reachable from `Story::new` through the public
    operations (also in the middle of an async continue, and for the look-ahead snapshot), the
    visit counts, the turn indices, the turn index and `previous_random` are `i32` values. -/
theorem reachable_counters {ld : Load.Loaded} {st : Story} (h : Reach ld st) : SCnt st := by
  induction h with
  | create seed st _ h => exact create_scnt ld seed st h
  | cont st _ ih => exact cont_CW st ih
  | continueAsync st b _ ih => exact continueAsync_CW st b ih
  | continueMaximally st _ ih => exact continueMaximally_CW st ih
  | continueSingleStep st _ ih => exact continueSingleStep_CW st ih
  | currentChoices st _ ih => exact currentChoices_CW st ih
  | chooseChoiceIndex st i _ ih => exact chooseChoiceIndex_CW st i ih
  | choosePathString st path reset args _ ih => exact choosePathString_CW st path reset args ih
  | evaluateFunction st name args _ ih => exact evaluateFunction_CW st name args ih
  | switchFlow st name _ ih => exact switchFlow_CW st name ih
  | switchToDefaultFlow st _ ih => exact switchToDefaultFlow_CW st ih
  | removeFlow st name _ ih => exact removeFlow_CW st name ih
  | resetState st seed _ _ ih => exact resetState_CW st seed ih
  | loadState st doc _ ih => exact loadState_CW st doc ih
  | setVariable st name v _ ih => exact setVariable_CW st name v ih
  | observeVariable st name id _ ih => exact observeVariable_CW st name id ih
  | removeVariableObserver st id name _ ih => exact removeVariableObserver_CW st id name ih
  | bindExternal st name d _ ih => exact bindExternal_CW st name d ih
  | unbindExternal st name _ ih => exact unbindExternal_CW st name ih
  | configure st st' _ h1 h2 _ _ _ ih =>
    refine ⟨?_, ?_⟩
    · rw [h1]; exact ih.1
    · rw [h2]; exact ih.2

/-- The four components of `C02.StateOK`, in its own words. -/
theorem reachable_visitCounts {ld : Load.Loaded} {st : Story} (h : Reach ld st) :
    ∀ kv ∈ st.state.core.visitCounts, inI32 kv.2 = true := (reachable_counters h).1.1
theorem reachable_turnIndices {ld : Load.Loaded} {st : Story} (h : Reach ld st) :
    ∀ kv ∈ st.state.core.turnIndices, inI32 kv.2 = true := (reachable_counters h).1.2.1
theorem reachable_turnIndex {ld : Load.Loaded} {st : Story} (h : Reach ld st) :
    inI32 st.state.core.turnIndex = true := (reachable_counters h).1.2.2.1
theorem reachable_previousRandom {ld : Load.Loaded} {st : Story} (h : Reach ld st) :
    inI32 st.state.core.previousRandom = true := (reachable_counters h).1.2.2.2

/-- Non-vacuity: the hypothesis `Reach ld st` is inhabited by mid-game stories, e.g. the three of
    `Proofs/C02Reach.lean` section 4 (`treeOK_not_invariant_of_loader`, `flowNames_not_invariant`,
    `globals_not_invariant` each exhibit a `Reach _ st` after host calls). -/
theorem reachable_counters_nonvacuous : ∃ ld st, Reach ld st ∧ SCnt st := by
  obtain ⟨st, _, _, h, _⟩ := treeOK_not_invariant_of_loader
  exact ⟨_, st, h, reachable_counters h⟩

end C02R
end Ink

#print axioms Ink.C02R.reachable_counters
#print axioms Ink.C02R.reachable_visitCounts
#print axioms Ink.C02R.reachable_turnIndices
#print axioms Ink.C02R.reachable_turnIndex
#print axioms Ink.C02R.reachable_previousRandom
#print axioms Ink.C02R.reachable_counters_nonvacuous
