import Proofs.C02State
import Proofs.C04Inv
import Proofs.C04Ptr
import Proofs.C10Frame

/-
  C02 (reachability part) — which components of `C02.Saveable` are invariants of the
  public operations.
-/
namespace Ink
namespace C02R
open Story Save C02

/-! ## 1. The tree (and the list definitions) never change -/

/-- `b` has the tree and the list definitions of `a`. -/
def RR (a b : Story) : Prop := b.root = a.root ∧ b.defs = a.defs

theorem RR.refl (a : Story) : RR a a := ⟨rfl, rfl⟩
theorem RR.trans {a b c : Story} (h1 : RR a b) (h2 : RR b c) : RR a c :=
  ⟨h2.1.trans h1.1, h2.2.trans h1.2⟩
theorem RR_same {a b : Story} (h1 : b.root = a.root) (h2 : b.defs = a.defs) : RR a b := ⟨h1, h2⟩

theorem runM_RR {α : Type} (st : Story) (m : M α) : RR st (st.runM m).2 := by
  unfold Story.runM; exact ⟨rfl, rfl⟩

theorem restoreSnapshot_RR (st : Story) : RR st st.restoreSnapshot := by
  unfold Story.restoreSnapshot; split <;> exact ⟨rfl, rfl⟩

theorem discardSnapshot_RR (st : Story) : RR st st.discardSnapshot := ⟨rfl, rfl⟩
theorem stateSnapshot_RR (st : Story) : RR st st.stateSnapshot := ⟨rfl, rfl⟩

theorem addError_RR (st : Story) (m : String) (w : Bool) : RR st (st.addError m w) := by
  unfold Story.addError; split <;> exact ⟨rfl, rfl⟩

theorem continueSingleStep_RR (st : Story) : RR st (st.continueSingleStep).2 := by
  unfold Story.continueSingleStep
  have h1 := runM_RR st (step st.env) 
  have hdef : ∀ s : Story, RR s (s.runM (tryFollowDefaultInvisibleChoice s.env)).2 :=
    fun s => runM_RR s _ 
  split
  · rename_i heq; rw [heq] at h1; exact h1
  · rename_i heq; rw [heq] at h1; exact h1
  · rename_i st1 heq
    have h1' : RR st st1 := by rw [heq] at h1; exact h1
    simp only
    split
    · rename_i k m st2 heq2
      split at heq2
      · have := hdef st1
        rw [heq2] at this; exact h1'.trans this
      · cases heq2
    · rename_i p st2 heq2
      split at heq2
      · have := hdef st1
        rw [heq2] at this; exact h1'.trans this
      · cases heq2
    · rename_i st2 heq2
      have h2 : RR st st2 := by
        split at heq2
        · have := hdef st1
          rw [heq2] at this; exact h1'.trans this
        · cases heq2; exact h1'
      split
      · exact h2
      · split
        · rename_i hnone
          exact h2.trans (restoreSnapshot_RR st2)
        · rename_i st3 hsome
          have h3 : RR st st3 := by
            split at hsome
            · split at hsome
              · cases hsome
              · split at hsome
                · cases hsome; exact h2.trans (discardSnapshot_RR st2)
                · cases hsome; exact h2
            · cases hsome; exact h2
          split
          · split
            · split
              · exact h3.trans (stateSnapshot_RR st3)
              · exact h3
            · exact h3.trans (discardSnapshot_RR st3)
          · exact h3

theorem stepLoop_RR (b : Option Nat) (fuel steps : Nat) (st : Story) : RR st (stepLoop b fuel steps st).2 := by
  induction fuel generalizing steps st with
  | zero => unfold stepLoop; exact RR.refl st
  | succ fuel ih =>
    unfold stepLoop
    simp only
    have hf : RR st { st with fuel := st.fuel.map (· - 1) } := ⟨rfl, rfl⟩
    have hcs := hf.trans (continueSingleStep_RR { st with fuel := st.fuel.map (· - 1) })
    split
    · exact addError_RR st _ _
    · split
      · rename_i p st1 heq
        rw [heq] at hcs; exact hcs
      · rename_i k m st1 heq
        rw [heq] at hcs; exact hcs.trans (addError_RR st1 _ _)
      · rename_i st1 heq
        rw [heq] at hcs; exact hcs
      · rename_i st1 heq
        rw [heq] at hcs
        cases b with
        | none =>
          simp only [Bool.false_eq_true, if_false]
          split
          · exact hcs
          · exact hcs.trans (ih _ _)
        | some n =>
          simp only
          split
          · exact hcs
          · split
            · exact hcs
            · exact hcs.trans (ih _ _)

theorem beginContinue_RR (st : Story) (b : Bool) : RR st (st.beginContinue b) := by
  refine ⟨?_, ?_⟩
  · unfold Story.beginContinue; simp only; repeat' split
    all_goals rfl
  · unfold Story.beginContinue; simp only; repeat' split
    all_goals rfl

theorem endChecks_RR (st : Story) : RR st st.endChecks := by
  unfold Story.endChecks
  simp only
  have key : ∀ (s : Story) (m : String), RR s (s.addError m false) := fun s m => addError_RR s m false
  split
  · split
    · split
      · exact (key _ _).trans (key _ _)
      · split
        · exact (key _ _).trans (key _ _)
        · split
          · exact (key _ _).trans (key _ _)
          · exact (key _ _).trans (key _ _)
    · exact key _ _
  · split
    · split
      · exact key _ _
      · split
        · exact key _ _
        · split
          · exact key _ _
          · exact key _ _
    · exact RR.refl _

theorem prepareFinish_RR (st : Story) : RR st st.prepareFinish := by
  unfold Story.prepareFinish
  simp only
  have h2 : RR st (if st.snapshot.isSome then st.restoreSnapshot else st) := by
    split
    · exact restoreSnapshot_RR st
    · exact RR.refl _
  have h3 : ∀ s : Story, RR s (if !s.canContinue then s.endChecks else s) := by
    intro s
    split
    · exact endChecks_RR s
    · exact RR.refl _
  exact (h2.trans (h3 _)).trans (⟨rfl, rfl⟩)

theorem closeObservation_RR (st st' : Story) (changed : List (String × Val))
    (h : st.closeObservation = some (st', changed)) : RR st st' := by
  unfold Story.closeObservation at h
  split at h
  · simp only at h
    split at h
    · simp only [Option.some.injEq, Prod.mk.injEq] at h
      rw [← h.1]
      exact ⟨rfl, rfl⟩
    · cases h
  · simp only [Option.some.injEq, Prod.mk.injEq] at h
    rw [← h.1]
    exact ⟨rfl, rfl⟩

theorem finishContinue_RR (st st' : Story) (changed : List (String × Val))
    (h : st.finishContinue = some (st', changed)) : RR st st' :=
  (prepareFinish_RR st).trans (closeObservation_RR _ _ _ h)

theorem deliver_RR (st : Story) : RR st st.deliver.2 := by
  unfold Story.deliver
  split
  · split
    · exact ⟨rfl, rfl⟩
    · split
      · exact RR.refl _
      · exact RR.refl _
  · exact RR.refl _


theorem notify_RR (st : Story) (changed : List (String × Val)) : RR st (st.notify changed) := ⟨rfl, rfl⟩

theorem continueInternal_RR (st : Story) (b : Option Nat) (f : Nat) : RR st (st.continueInternal b f).2 := by
  unfold Story.continueInternal
  split
  · exact RR.refl _
  · simp only
    have h0 := beginContinue_RR st b.isSome
    have hl := stepLoop_RR (if (st.beginContinue b.isSome).asyncActive then b else none) f 0
      (st.beginContinue b.isSome)
    split
    · rename_i heq; rw [heq] at hl; exact h0.trans hl
    · rename_i heq; rw [heq] at hl; exact h0.trans hl
    · rename_i heq; rw [heq] at hl; exact h0.trans hl
    · rename_i why st1 _ heq
      rw [heq] at hl
      have h1 := h0.trans hl
      split
      · exact h1
      · rename_i st5 changed hfin
        have h5 : RR st1 st5 := by
          split at hfin
          · exact finishContinue_RR _ _ _ hfin
          · cases hfin; exact RR.refl _
        have h6 : RR st5 { st5 with recCount := st5.recCount - 1 } := ⟨rfl, rfl⟩
        have h7 := deliver_RR { st5 with recCount := st5.recCount - 1 }
        have h17 := ((h1.trans h5).trans h6).trans h7
        split
        · rename_i st7 hd
          rw [hd] at h17
          exact h17.trans (notify_RR _ _)
        · exact h17


theorem validateExternalBindings_RR (st : Story) : RR st st.validateExternalBindings.2 := by
  unfold Story.validateExternalBindings
  simp only
  split
  · exact RR.refl _
  · split
    · exact ⟨rfl, rfl⟩
    · exact RR.refl _

theorem continueAsync_RR (st : Story) (b : Option Nat) : RR st (st.continueAsync b).2 := by
  unfold Story.continueAsync
  have hv : RR st (if !st.validated then st.validateExternalBindings else (.ok (), st)).2 := by
    split
    · exact validateExternalBindings_RR st
    · exact RR.refl _
  generalize (if !st.validated then st.validateExternalBindings else (Out.ok (), st)) = p at hv ⊢
  obtain ⟨v, st1⟩ := p
  simp only at hv ⊢
  split
  · exact hv.trans (continueInternal_RR st1 b callFuel)
  · exact hv

theorem cont_RR (st : Story) : RR st st.cont.2 := by
  unfold Story.cont
  have h := continueAsync_RR st none
  split <;> (rename_i heq; rw [heq] at h; exact h)

theorem continueMaximally_loop_RR (fuel : Nat) (st : Story) (acc : String) :
    RR st (continueMaximally.loop fuel st acc).2 := by
  induction fuel generalizing st acc with
  | zero => unfold continueMaximally.loop; exact RR.refl _
  | succ fuel ih =>
    unfold continueMaximally.loop
    split
    · have h := cont_RR st
      split
      · rename_i t st1 heq
        rw [heq] at h
        exact h.trans (ih _ _)
      · exact h
    · exact RR.refl _

theorem continueMaximally_RR (st : Story) : RR st st.continueMaximally.2 := by
  unfold Story.continueMaximally
  split
  · exact RR.refl _
  · exact RR.refl _
  · exact continueMaximally_loop_RR _ _ _

theorem currentChoices_RR (st : Story) : RR st st.currentChoices.2 := by
  unfold Story.currentChoices
  split
  · exact RR.refl _
  · exact ⟨rfl, rfl⟩

theorem chooseChoiceIndex_RR (st : Story) (i : Nat) : RR st (st.chooseChoiceIndex i).2 := by
  unfold Story.chooseChoiceIndex
  split
  · exact RR.refl _
  · exact RR.refl _
  · have hc := currentChoices_RR st
    generalize st.currentChoices = p at hc ⊢
    obtain ⟨choices, st1⟩ := p
    simp only at hc ⊢
    split
    · exact hc
    · split
      · exact hc
      · refine (hc.trans ?_).trans (runM_RR _ _ )
        exact ⟨rfl, rfl⟩

theorem passArguments_RR (st : Story) (args : List Val) : RR st (st.passArguments args).2 := by
  unfold Story.passArguments
  exact runM_RR _ _

theorem choosePathString_RR (st : Story) (path : String) (reset : Bool) (args : List (Option Val)) :
    RR st (st.choosePathString path reset args).2 := by
  unfold Story.choosePathString
  split
  · exact RR.refl _
  · exact RR.refl _
  · split
    · exact RR.refl _
    · exact RR.refl _
    · simp only
      split
      · exact RR.refl _
      · exact RR.refl _
      · rename_i argv _ _ _ _
        have hpre : RR st
            (if reset then ((.ok () : Out Unit), st.mapCore Core.forceEnd)
             else match st.core.callstack.currentElement with
              | some e =>
                if e.kind == .function then
                  (.invalid ("Story was running a function when you called ChoosePathString(" ++ path
                    ++ ") - this is almost certainly not what you want!"), st)
                else (.ok (), st)
              | none => (.panic "callstack.rs:get_current_element", st)).2 := by
          split
          · exact ⟨rfl, rfl⟩
          · split
            · split
              · exact RR.refl _
              · exact RR.refl _
            · exact RR.refl _
        generalize (if reset then ((.ok () : Out Unit), st.mapCore Core.forceEnd)
             else match st.core.callstack.currentElement with
              | some e =>
                if e.kind == .function then
                  (.invalid ("Story was running a function when you called ChoosePathString(" ++ path
                    ++ ") - this is almost certainly not what you want!"), st)
                else (.ok (), st)
              | none => (.panic "callstack.rs:get_current_element", st)) = p at hpre ⊢
        obtain ⟨v, st1⟩ := p
        simp only at hpre ⊢
        split
        · rename_i st1' heq1
          cases heq1
          have h2 := passArguments_RR st1 argv
          split
          · rename_i st2 heq
            rw [heq] at h2
            exact (hpre.trans h2).trans (runM_RR _ _ )
          · exact hpre.trans h2
        · exact hpre


theorem mapCore_RR (st : Story) (f : Core → Core) : RR st (st.mapCore f) := ⟨rfl, rfl⟩

theorem resetGlobals_RR (st : Story) : RR st st.resetGlobals.2 := by
  unfold Story.resetGlobals
  have hr : RR st (if (st.root.lookupName "global decl").isSome then
      (match st.runM (choosePath st.env (Path.parse "global decl".toList) false) with
      | (.ok (), st1) =>
        (match st1.continueInternal none callFuel with
        | (.ok (), st2) => ((.ok () : Out Unit), st2.mapCore (fun c => c.setCurrentPtr st.core.currentPtr))
        | other => other)
      | other => other)
    else (.ok (), st)).2 := by
    split
    · have h1 := runM_RR st (choosePath st.env (Path.parse "global decl".toList) false)
      split
      · rename_i st1 heq
        rw [heq] at h1
        have h2 := continueInternal_RR st1 none callFuel
        split
        · rename_i st2 heq2
          rw [heq2] at h2
          exact (h1.trans h2).trans (mapCore_RR _ _)
        · exact h1.trans h2
      · exact h1
    · exact RR.refl _
  simp only
  generalize (if (st.root.lookupName "global decl").isSome then
      (match st.runM (choosePath st.env (Path.parse "global decl".toList) false) with
      | (.ok (), st1) =>
        (match st1.continueInternal none callFuel with
        | (.ok (), st2) => ((.ok () : Out Unit), st2.mapCore (fun c => c.setCurrentPtr st.core.currentPtr))
        | other => other)
      | other => other)
    else (.ok (), st)) = p at hr ⊢
  obtain ⟨v, st1⟩ := p
  simp only at hr ⊢
  split
  · rename_i st1' heq
    cases heq
    exact hr.trans (mapCore_RR _ _)
  · exact hr

theorem resetState_RR (st : Story) (seed : Int) : RR st (st.resetState seed).2 := by
  unfold Story.resetState
  split
  · exact RR.refl _
  · exact RR.refl _
  · have h0 : RR st { st with state := StoryState.fresh seed } := ⟨rfl, rfl⟩
    exact h0.trans (resetGlobals_RR _)

/-! ### `evaluate_function` -/

theorem evalLoop_RR (fuel : Nat) (st : Story) (acc : String) : RR st (evalLoop fuel st acc).2 := by
  induction fuel generalizing st acc with
  | zero => unfold evalLoop; exact RR.refl _
  | succ fuel ih =>
    unfold evalLoop
    split
    · have h := cont_RR st
      split
      · rename_i t st1 heq
        rw [heq] at h
        exact h.trans (ih _ _)
      · exact h
    · exact RR.refl _

theorem setCore_RR (st : Story) (c : Core) : RR st (st.setCore c) := ⟨rfl, rfl⟩

theorem completeFunctionEvaluation_RR (st : Story) (ob : List Obj) (pb : Ptr) (text : String) :
    RR st (st.completeFunctionEvaluation ob pb text).2 := by
  unfold Story.completeFunctionEvaluation
  simp only
  split
  · exact RR.refl _
  · split
    · exact setCore_RR _ _
    · split
      · exact setCore_RR _ _
      · exact setCore_RR _ _
      · rename_i cs' heq
        exact setCore_RR _ _

theorem evaluateFunction_RR (st : Story) (name : String) (args : List (Option Val)) :
    RR st (st.evaluateFunction name args).2 := by
  unfold Story.evaluateFunction
  split
  · exact RR.refl _
  · exact RR.refl _
  · split
    · exact RR.refl _
    · split
      · exact RR.refl _
      · split
        · exact RR.refl _
        · exact RR.refl _
        · rename_i _ stp _ _ argv _
          simp only
          split
          · exact RR.refl _
          · rename_i cs hpush
            have h1 : RR st (st.setCore (((st.core.resetOutput none).setCallstack cs).setCurrentPtr
                (Ptr.startOf [stp]))) :=
              setCore_RR _ _
            have h2 := h1.trans (passArguments_RR _ argv)
            split
            · rename_i heq; rw [heq] at h2; exact h2
            · rename_i heq; rw [heq] at h2; exact h2
            · rename_i st2 heq
              rw [heq] at h2
              have h3 := h2.trans (evalLoop_RR 100000 st2 "")
              split
              · rename_i heq3; rw [heq3] at h3; exact h3
              · rename_i heq3; rw [heq3] at h3; exact h3
              · rename_i text st3 heq3
                rw [heq3] at h3
                exact h3.trans (completeFunctionEvaluation_RR _ _ _ _)


/-! ### the small host operations -/

theorem setVariable_RR (st : Story) (name : String) (v : Val) : RR st (st.setVariable name v).2 := by
  unfold Story.setVariable
  split
  · exact RR.refl _
  · exact RR.refl _
  · split
    · exact RR.refl _
    · simp only
      split
      · exact ⟨rfl, rfl⟩
      · exact ⟨rfl, rfl⟩

theorem observeVariable_RR (st : Story) (name id : String) : RR st (st.observeVariable name id).2 := by
  unfold Story.observeVariable
  split
  · exact RR.refl _
  · exact RR.refl _
  · split
    · exact RR.refl _
    · exact ⟨rfl, rfl⟩

theorem removeVariableObserver_RR (st : Story) (id : String) (name : Option String) :
    RR st (st.removeVariableObserver id name).2 := by
  unfold Story.removeVariableObserver
  split
  · exact RR.refl _
  · exact RR.refl _
  · exact ⟨rfl, rfl⟩

theorem bindExternal_RR (st : Story) (name : String) (d : ExtDef) : RR st (st.bindExternal name d).2 := by
  unfold Story.bindExternal
  split
  · exact RR.refl _
  · exact RR.refl _
  · split
    · exact RR.refl _
    · exact ⟨rfl, rfl⟩

theorem unbindExternal_RR (st : Story) (name : String) : RR st (st.unbindExternal name).2 := by
  unfold Story.unbindExternal
  split
  · exact RR.refl _
  · exact RR.refl _
  · split
    · exact RR.refl _
    · exact ⟨rfl, rfl⟩

theorem switchFlow_RR (st : Story) (name : String) : RR st (st.switchFlow name).2 := by
  unfold Story.switchFlow
  split
  · exact ⟨rfl, rfl⟩
  · exact RR.refl _
  · exact RR.refl _

theorem switchToDefaultFlow_RR (st : Story) : RR st st.switchToDefaultFlow := by
  unfold Story.switchToDefaultFlow
  split
  · exact RR.refl _
  · exact ⟨rfl, rfl⟩

theorem removeFlow_RR (st : Story) (name : String) : RR st (st.removeFlow name).2 := by
  unfold Story.removeFlow
  split
  · exact RR.refl _
  · exact RR.refl _
  · split
    · exact RR.refl _
    · exact ⟨rfl, rfl⟩

theorem loadState_RR (st : Story) (doc : Option Json) : RR st (loadState st doc).2 := by
  unfold loadState
  split
  · exact RR.refl _
  · exact RR.refl _
  · split
    · exact RR.refl _
    · exact ⟨rfl, rfl⟩

theorem create_root (ld : Load.Loaded) (seed : Int) (st : Story) (h : Story.create ld seed = .ok st) :
    st.root = ld.root ∧ st.defs = ld.listDefs := by
  unfold Story.create at h
  simp only at h
  have h1 := resetGlobals_RR (C04.newBlank ld seed)
  split at h
  · rename_i st1 heq
    have heq' : (C04.newBlank ld seed).resetGlobals = (.ok (), st1) := heq
    rw [heq'] at h1
    simp only [Out.ok.injEq] at h
    rw [← h]
    split
    · exact (h1.trans (addError_RR _ _ _))
    · exact h1
  · cases h
  · cases h

/-! ## 2. The closure of the public operations over a loaded document

  `Reach doc st`: `st` is reached from `Story::new` on the document `doc` (accepted by the
  loader) through the public operations.  It is `C04.Reachable` (same operations, `reach_reachable`)
  with three restrictions that `C04.Reachable` does not need and that the save/load property does:
  the document is a LOADED one (`Load.loadStory fuel doc = .ok ld`: the tree hypotheses come from
  the loader), the seeds are `i32` values (the type of `story_seed` in the Rust), and `configure`
  (host settings, harness bookkeeping) keeps the tree, the list definitions and the async flag. -/

inductive Reach (ld : Load.Loaded) : Story → Prop
  | create (seed : Int) (st : Story) : inI32 seed = true → Story.create ld seed = .ok st → Reach ld st
  | cont (st : Story) : Reach ld st → Reach ld st.cont.2
  | continueAsync (st : Story) (b : Option Nat) : Reach ld st → Reach ld (st.continueAsync b).2
  | continueMaximally (st : Story) : Reach ld st → Reach ld st.continueMaximally.2
  | continueSingleStep (st : Story) : Reach ld st → Reach ld st.continueSingleStep.2
  | currentChoices (st : Story) : Reach ld st → Reach ld st.currentChoices.2
  | chooseChoiceIndex (st : Story) (i : Nat) : Reach ld st → Reach ld (st.chooseChoiceIndex i).2
  | choosePathString (st : Story) (path : String) (reset : Bool) (args : List (Option Val)) :
      Reach ld st → Reach ld (st.choosePathString path reset args).2
  | evaluateFunction (st : Story) (name : String) (args : List (Option Val)) :
      Reach ld st → Reach ld (st.evaluateFunction name args).2
  | switchFlow (st : Story) (name : String) : Reach ld st → Reach ld (st.switchFlow name).2
  | switchToDefaultFlow (st : Story) : Reach ld st → Reach ld st.switchToDefaultFlow
  | removeFlow (st : Story) (name : String) : Reach ld st → Reach ld (st.removeFlow name).2
  | resetState (st : Story) (seed : Int) : inI32 seed = true → Reach ld st → Reach ld (st.resetState seed).2
  | loadState (st : Story) (doc : Option Json) : Reach ld st → Reach ld (Save.loadState st doc).2
  | setVariable (st : Story) (name : String) (v : Val) : Reach ld st → Reach ld (st.setVariable name v).2
  | observeVariable (st : Story) (name id : String) : Reach ld st → Reach ld (st.observeVariable name id).2
  | removeVariableObserver (st : Story) (id : String) (name : Option String) :
      Reach ld st → Reach ld (st.removeVariableObserver id name).2
  | bindExternal (st : Story) (name : String) (d : ExtDef) : Reach ld st → Reach ld (st.bindExternal name d).2
  | unbindExternal (st : Story) (name : String) : Reach ld st → Reach ld (st.unbindExternal name).2
  /-- host settings and harness bookkeeping: anything but the tree, the list definitions, the state,
      the snapshot and the async flag -/
  | configure (st st' : Story) : Reach ld st → st'.state = st.state → st'.snapshot = st.snapshot →
      st'.root = st.root → st'.defs = st.defs → st'.asyncActive = st.asyncActive → Reach ld st'

/-- `Reach` is a restriction of `C04.Reachable`: everything proved there applies. -/
theorem reach_reachable {ld : Load.Loaded} {st : Story} (h : Reach ld st) : C04.Reachable st := by
  induction h with
  | create seed st _ h => exact .create ld seed st h
  | cont st _ ih => exact .cont st ih
  | continueAsync st b _ ih => exact .continueAsync st b ih
  | continueMaximally st _ ih => exact .continueMaximally st ih
  | continueSingleStep st _ ih => exact .continueSingleStep st ih
  | currentChoices st _ ih => exact .currentChoices st ih
  | chooseChoiceIndex st i _ ih => exact .chooseChoiceIndex st i ih
  | choosePathString st path reset args _ ih => exact .choosePathString st path reset args ih
  | evaluateFunction st name args _ ih => exact .evaluateFunction st name args ih
  | switchFlow st name _ ih => exact .switchFlow st name ih
  | switchToDefaultFlow st _ ih => exact .switchToDefaultFlow st ih
  | removeFlow st name _ ih => exact .removeFlow st name ih
  | resetState st seed _ _ ih => exact .resetState st seed ih
  | loadState st doc _ ih => exact .loadState st doc ih
  | setVariable st name v _ ih => exact .setVariable st name v ih
  | observeVariable st name id _ ih => exact .observeVariable st name id ih
  | removeVariableObserver st id name _ ih => exact .removeVariableObserver st id name ih
  | bindExternal st name d _ ih => exact .bindExternal st name d ih
  | unbindExternal st name _ ih => exact .unbindExternal st name ih
  | configure st st' _ h1 h2 _ _ _ ih => exact .configure st st' ih h1 h2

/-- **reachable_root.**  The tree and the list definitions of a reachable story are those of the
    loaded document: no public operation changes them. -/
theorem reachable_root {ld : Load.Loaded} {st : Story} (h : Reach ld st) :
    st.root = ld.root ∧ st.defs = ld.listDefs := by
  have step : ∀ {a b : Story}, RR a b → (a.root = ld.root ∧ a.defs = ld.listDefs) →
      (b.root = ld.root ∧ b.defs = ld.listDefs) :=
    fun r ih => ⟨r.1.trans ih.1, r.2.trans ih.2⟩
  induction h with
  | create seed st _ h => exact create_root ld seed st h
  | cont st _ ih => exact step (cont_RR st) ih
  | continueAsync st b _ ih => exact step (continueAsync_RR st b) ih
  | continueMaximally st _ ih => exact step (continueMaximally_RR st) ih
  | continueSingleStep st _ ih => exact step (continueSingleStep_RR st) ih
  | currentChoices st _ ih => exact step (currentChoices_RR st) ih
  | chooseChoiceIndex st i _ ih => exact step (chooseChoiceIndex_RR st i) ih
  | choosePathString st path reset args _ ih => exact step (choosePathString_RR st path reset args) ih
  | evaluateFunction st name args _ ih => exact step (evaluateFunction_RR st name args) ih
  | switchFlow st name _ ih => exact step (switchFlow_RR st name) ih
  | switchToDefaultFlow st _ ih => exact step (switchToDefaultFlow_RR st) ih
  | removeFlow st name _ ih => exact step (removeFlow_RR st name) ih
  | resetState st seed _ _ ih => exact step (resetState_RR st seed) ih
  | loadState st doc _ ih => exact step (loadState_RR st doc) ih
  | setVariable st name v _ ih => exact step (setVariable_RR st name v) ih
  | observeVariable st name id _ ih => exact step (observeVariable_RR st name id) ih
  | removeVariableObserver st id name _ ih => exact step (removeVariableObserver_RR st id name) ih
  | bindExternal st name d _ ih => exact step (bindExternal_RR st name d) ih
  | unbindExternal st name _ ih => exact step (unbindExternal_RR st name) ih
  | configure st st' _ _ _ h3 h4 _ ih => exact ⟨h3.trans ih.1, h4.trans ih.2⟩

/-- **reachable_treeOK.**  First component of `Saveable`: the tree hypotheses of the round trip hold
    in every reachable story if they hold for the document (they are a property of the document
    alone; `C02.treeOkB` decides them).  The loader does NOT establish them: see `exDupDoc` below. -/
theorem reachable_treeOK {ld : Load.Loaded} (hld : TreeOK ld.root) {st : Story} (h : Reach ld st) :
    TreeOK st.root := by
  rw [(reachable_root h).1]
  exact hld

/-- **reachable_callstack.**  Call-stack shape (from `C04.reachable_wf`): in every flow of the state
    and of the look-ahead snapshot there is a thread, every thread has an element, and every choice
    carries a thread with an element (`FlowOK.choiceThreadNonempty` and the "has a thread" half of
    `FlowOK.choices`). -/
theorem reachable_callstack {ld : Load.Loaded} {st : Story} (h : Reach ld st) : C04.StoryWF st :=
  C04.reachable_wf (reach_reachable h)

/-! ## 3. Scripts: every sequence of host calls yields a reachable story -/

/-- A host call (the returned value is dropped). -/
inductive HostOp where
  | cont
  | continueMaximally
  | choose (i : Nat)
  | choosePath (path : String) (reset : Bool)
  | evalFunction (name : String) (args : List (Option Val))
  | switchFlow (name : String)
  | switchToDefaultFlow
  | removeFlow (name : String)
  | setVariable (name : String) (v : Val)
  | load (doc : Option Json)
  | reset (seed : Int)

def applyHostOp (st : Story) : HostOp → Story
  | .cont => st.cont.2
  | .continueMaximally => st.continueMaximally.2
  | .choose i => (st.chooseChoiceIndex i).2
  | .choosePath path reset => (st.choosePathString path reset []).2
  | .evalFunction name args => (st.evaluateFunction name args).2
  | .switchFlow name => (st.switchFlow name).2
  | .switchToDefaultFlow => st.switchToDefaultFlow
  | .removeFlow name => (st.removeFlow name).2
  | .setVariable name v => (st.setVariable name v).2
  | .load doc => (Save.loadState st doc).2
  | .reset seed => if inI32 seed then (st.resetState seed).2 else st

/-- `Story::new` with seed `seed`, then the host calls `ops`. -/
def runOps (ld : Load.Loaded) (seed : Int) (ops : List HostOp) : Option Story :=
  if inI32 seed then
    match Story.create ld seed with
    | .ok st => some (ops.foldl applyHostOp st)
    | _ => none
  else none

theorem applyHostOp_reach {ld : Load.Loaded} {st : Story} (h : Reach ld st) (op : HostOp) :
    Reach ld (applyHostOp st op) := by
  cases op with
  | cont => exact .cont st h
  | continueMaximally => exact .continueMaximally st h
  | choose i => exact .chooseChoiceIndex st i h
  | choosePath path reset => exact .choosePathString st path reset [] h
  | evalFunction name args => exact .evaluateFunction st name args h
  | switchFlow name => exact .switchFlow st name h
  | switchToDefaultFlow => exact .switchToDefaultFlow st h
  | removeFlow name => exact .removeFlow st name h
  | setVariable name v => exact .setVariable st name v h
  | load doc => exact .loadState st doc h
  | reset seed =>
    show Reach ld (if inI32 seed then (st.resetState seed).2 else st)
    split
    · rename_i hs; exact .resetState st seed hs h
    · exact h

theorem foldl_reach {ld : Load.Loaded} (ops : List HostOp) {st : Story} (h : Reach ld st) :
    Reach ld (ops.foldl applyHostOp st) := by
  induction ops generalizing st with
  | nil => exact h
  | cons op ops ih => exact ih (applyHostOp_reach h op)

/-- Every script yields a reachable story. -/
theorem runOps_reach {ld : Load.Loaded} {seed : Int} {ops : List HostOp} {st : Story}
    (h : runOps ld seed ops = some st) : Reach ld st := by
  unfold runOps at h
  split at h
  · rename_i hs
    split at h
    · rename_i st0 hc
      simp only [Option.some.injEq] at h
      rw [← h]
      exact foldl_reach ops (.create seed st0 hs hc)
    · cases h
  · cases h

/-! ## 4. Components that are NOT invariants: reachable counterexamples

Each of the three is evaluated by the kernel on the model AND was run on the Rust runtime
(`Story::new`, `cont`, `save_state`, `load_state`); see the final report for the host calls. -/

/-! ### 4.1 `TreeOK` is not established by the loader: two children with the same name

`{"inkVersion":21,"root":[["^first","\n","^first2","\n",{"#n":"k"}],
  ["^second","\n","^second2","\n",{"#n":"k"}],"done",null],"listDefs":{}}`
After one `cont()` the story stands in the FIRST container `k`; the save names the container by
its path `k`; `pointer_at_path("k")` finds the SECOND one (the later child overrides the earlier in
`named_content`).  The load succeeds and the loaded story goes on with the text of the second
container. -/

def exDupRoot : Obj :=
  .container none 0
    [ .container (some "k") 0 [.val (.str "first"), .val (.str "\n"), .val (.str "first2"), .val (.str "\n")] [],
      .container (some "k") 0 [.val (.str "second"), .val (.str "\n"), .val (.str "second2"), .val (.str "\n")] [],
      .cmd .done ] []

def exDupLd : Load.Loaded := { version := 21, root := exDupRoot, listDefs := default }

def exDupJson : Json :=
  .obj [("inkVersion", .num 21),
        ("root", .arr [ .arr [.str "^first", .str "\n", .str "^first2", .str "\n", .obj [("#n", .str "k")]],
                        .arr [.str "^second", .str "\n", .str "^second2", .str "\n", .obj [("#n", .str "k")]],
                        .str "done", .null ]),
        ("listDefs", .obj [])]

/-- the loader accepts the document, and the tree it builds is `exDupRoot` -/
theorem exDup_loads : ∃ ld, Load.loadStory 100 (some exDupJson) = .ok ld ∧ ld.root = exDupRoot := by
  have h : (match Load.loadStory 100 (some exDupJson) with
      | .ok ld => objEqB 30 ld.root exDupRoot
      | _ => false) = true := by decide +kernel
  cases hl : Load.loadStory 100 (some exDupJson) with
  | ok ld => rw [hl] at h; exact ⟨ld, rfl, objEqB_sound 30 _ _ h⟩
  | err k m => rw [hl] at h; cases h
  | panic p => rw [hl] at h; cases h

theorem exDup_not_treeOK : ¬ TreeOK exDupRoot := by
  intro h
  have := (h.wf [] exDupRoot rfl).contentNames 0 _ "k" rfl rfl
  exact absurd this.2 (by decide)

/-- the state after loading `st`'s save into a new story object of the same document -/
def reloadInto (st fresh : Story) : Option Story :=
  match saveState st with
  | .ok j => match loadState fresh (some j) with
    | (.ok (), st2) => some st2
    | _ => none
  | _ => none

/-- **Finding 1.**  A story reachable from a document the loader accepts, between host calls and
    not in an async continue, whose tree is not `TreeOK`: `save_state` succeeds, `load_state` into
    a new `Story` of the same document succeeds, and the two stories continue DIFFERENTLY. -/
theorem treeOK_not_invariant_of_loader :
    ∃ st fresh st2, Reach exDupLd st ∧ st.asyncActive = false ∧ ¬ TreeOK st.root ∧
      Story.create exDupLd 5 = .ok fresh ∧ reloadInto st fresh = some st2 ∧
      st.cont.1 = .ok "first2\n" ∧ st2.cont.1 = .ok "second2\n" := by
  have h : (match runOps exDupLd 0 [.cont], Story.create exDupLd 5 with
      | some st, .ok fresh =>
        (match reloadInto st fresh with
         | some st2 => !st.asyncActive && objEqB 30 st.root exDupRoot
             && outStrEq st.cont.1 (.ok "first2\n") && outStrEq st2.cont.1 (.ok "second2\n")
         | none => false)
      | _, _ => false) = true := by decide +kernel
  cases hr : runOps exDupLd 0 [.cont] with
  | none => rw [hr] at h; cases h
  | some st =>
    cases hc : Story.create exDupLd 5 with
    | err k m => rw [hr, hc] at h; cases h
    | panic p => rw [hr, hc] at h; cases h
    | ok fresh =>
      rw [hr, hc] at h
      cases hl : reloadInto st fresh with
      | none => simp only [hl] at h; cases h
      | some st2 =>
        simp only [hl, Bool.and_eq_true, Bool.not_eq_true'] at h
        obtain ⟨⟨⟨h1, h2⟩, h3⟩, h4⟩ := h
        refine ⟨st, fresh, st2, runOps_reach hr, h1, ?_, rfl, hl, outStrEq_sound h3, outStrEq_sound h4⟩
        rw [objEqB_sound 30 _ _ h2]
        exact exDup_not_treeOK

/-! ### 4.2 `StateOK.flowNames` fails after loading a save whose `currentFlowName` names no flow

Document `{"inkVersion":21,"root":["^one","\n","^two","\n","^three","\n","done",null],"listDefs":{}}`.
Story A: `cont()`, `switch_flow("b")`, `cont()`, `cont()`, `save_state()`; in the save text
`"currentFlowName":"b"` is replaced by `"currentFlowName":"nosuch"`.  Story B (new, same document):
`load_state(edited)` returns `Ok`: both saved flows are parked (also the one called `DEFAULT_FLOW`),
and B's own current flow, called `DEFAULT_FLOW` too, stays current.  `save_state()` of B writes the
flows into one JSON object, so one of the two `DEFAULT_FLOW`s is lost: story C that loads this
save continues with "two", B itself with "one". -/

def exLinesRoot : Obj :=
  .container none 0
    [ .val (.str "one"), .val (.str "\n"), .val (.str "two"), .val (.str "\n"),
      .val (.str "three"), .val (.str "\n"), .cmd .done ] []

def exLinesLd : Load.Loaded := { version := 21, root := exLinesRoot, listDefs := default }

def setCurrentFlowName (j : Json) (name : String) : Json :=
  match j with
  | .obj kvs => .obj (kvs.map (fun kv => if kv.1 == "currentFlowName" then (kv.1, .str name) else kv))
  | o => o

/-- the edited save of story A -/
def exEditedSave : Option Json :=
  match runOps exLinesLd 0 [.cont, .switchFlow "b", .cont, .cont] with
  | some st => (match saveState st with
    | .ok j => some (setCurrentFlowName j "nosuch")
    | _ => none)
  | none => none

/-- **Finding 2.**  `load_state` accepts the edited save (`.ok`), and the story it leaves, between
    host calls and not in an async continue, has two flows with the same name: `save_state`
    succeeds, the reload succeeds, and the two stories continue differently. -/
theorem flowNames_not_invariant :
    ∃ b0 st fresh st2, Story.create exLinesLd 5 = .ok b0 ∧ exEditedSave.isSome = true ∧
      loadState b0 exEditedSave = (.ok (), st) ∧
      Reach exLinesLd st ∧ st.asyncActive = false ∧
      ¬ ((flowsList st.state).map (·.1)).Nodup ∧
      Story.create exLinesLd 6 = .ok fresh ∧ reloadInto st fresh = some st2 ∧
      st.cont.1 = .ok "one\n" ∧ st2.cont.1 = .ok "two\n" := by
  have h : (match Story.create exLinesLd 5, Story.create exLinesLd 6 with
      | .ok b0, .ok fresh =>
        exEditedSave.isSome &&
        (match loadState b0 exEditedSave with
         | (.ok (), st) =>
           (match reloadInto st fresh with
            | some st2 => !st.asyncActive && !decide (((flowsList st.state).map (·.1)).Nodup)
                && outStrEq st.cont.1 (.ok "one\n") && outStrEq st2.cont.1 (.ok "two\n")
            | none => false)
         | _ => false)
      | _, _ => false) = true := by decide +kernel
  cases hb : Story.create exLinesLd 5 with
  | err k m => rw [hb] at h; cases h
  | panic p => rw [hb] at h; cases h
  | ok b0 =>
    cases hc : Story.create exLinesLd 6 with
    | err k m => rw [hb, hc] at h; cases h
    | panic p => rw [hb, hc] at h; cases h
    | ok fresh =>
      rw [hb, hc] at h
      simp only [Bool.and_eq_true] at h
      obtain ⟨hsome, h⟩ := h
      have hreach : Reach exLinesLd (loadState b0 exEditedSave).2 :=
        .loadState b0 _ (.create 5 b0 (by decide) hb)
      generalize hl : loadState b0 exEditedSave = r at h hreach
      obtain ⟨o, st⟩ := r
      cases o with
      | err k m => cases h
      | panic p => cases h
      | ok u =>
        cases u
        simp only at h
        cases hr : reloadInto st fresh with
        | none => simp only [hr] at h; cases h
        | some st2 =>
          simp only [hr, Bool.and_eq_true, Bool.not_eq_true', decide_eq_false_iff_not] at h
          obtain ⟨⟨⟨h1, h2⟩, h3⟩, h4⟩ := h
          exact ⟨b0, st, fresh, st2, rfl, hsome, hl, hreach, h1, h2, rfl, hr, outStrEq_sound h3, outStrEq_sound h4⟩

/-! ### 4.3 `StateOK.globals` fails: a list item without origin, from a list literal of the document

Document (accepted by the loader; the compiler writes list items as `Origin.item`, this one has a
bare item name, which `InkListItem::from_full_name` reads as an item without origin):
`{"inkVersion":21,"root":["ev",{"list":{"zz":7}},{"VAR=":"l","re":true},"/ev","^hi","\n",
  "ev",{"VAR?":"l"},{"list":{"zz":7}},"==","out","/ev","\n","done",
  {"global decl":["ev",0,{"VAR=":"l"},"/ev","end",null]}],"listDefs":{}}`
After the first `cont()` the global `l` holds the list; the save writes the item as `"?.zz"`
(`get_full_name`), the load reads origin `Some("?")`.  Save and load succeed; the next line
compares `l` with the literal: `true` in the original story, `false` in the loaded one. -/

def exBareItem : Val :=
  .list { items := [({ origin := none, name := "zz" }, 7)], origins := [], initialOrigins := [] }

def exListRoot : Obj :=
  .container none 0
    [ .cmd .evalStart, .val exBareItem, .varAss "l" false true, .cmd .evalEnd,
      .val (.str "hi"), .val (.str "\n"),
      .cmd .evalStart, .varRef "l" none, .val exBareItem, .native .equal, .cmd .evalOutput, .cmd .evalEnd,
      .val (.str "\n"), .cmd .done ]
    [ ("global decl", .container (some "global decl") 0
        [.cmd .evalStart, .val (.int 0), .varAss "l" true true, .cmd .evalEnd, .cmd .«end»] []) ]

def exListLd : Load.Loaded := { version := 21, root := exListRoot, listDefs := default }

def exListJson : Json :=
  .obj [("inkVersion", .num 21),
        ("root", .arr [ .str "ev", .obj [("list", .obj [("zz", .num 7)])], .obj [("VAR=", .str "l"), ("re", .bool true)],
                        .str "/ev", .str "^hi", .str "\n",
                        .str "ev", .obj [("VAR?", .str "l")], .obj [("list", .obj [("zz", .num 7)])], .str "==",
                        .str "out", .str "/ev", .str "\n", .str "done",
                        .obj [("global decl", .arr [.str "ev", .num 0, .obj [("VAR=", .str "l")], .str "/ev",
                                                    .str "end", .null])] ]),
        ("listDefs", .obj [])]

/-- the loader accepts the document, and the tree it builds is `exListRoot` -/
theorem exList_loads : ∃ ld, Load.loadStory 100 (some exListJson) = .ok ld ∧ ld.root = exListRoot := by
  have h : (match Load.loadStory 100 (some exListJson) with
      | .ok ld => objEqB 30 ld.root exListRoot
      | _ => false) = true := by decide +kernel
  cases hl : Load.loadStory 100 (some exListJson) with
  | ok ld => rw [hl] at h; exact ⟨ld, rfl, objEqB_sound 30 _ _ h⟩
  | err k m => rw [hl] at h; cases h
  | panic p => rw [hl] at h; cases h

def hasOrigin (o : Option String) (v : Val) : Bool :=
  match v with
  | .list l => l.items.any (fun it => it.1.origin == o)
  | _ => false

/-- **Finding 3.**  Reachable by `Story::new` and one `cont()`: a global variable that is not
    `SaveableVal`; the tree is `TreeOK`; save and load succeed; the stories continue differently. -/
theorem globals_not_invariant :
    ∃ st fresh st2, Reach exListLd st ∧ st.asyncActive = false ∧ TreeOK st.root ∧
      (∃ kv ∈ st.state.core.vars.globals, ¬ SaveableVal kv.2) ∧
      Story.create exListLd 5 = .ok fresh ∧ reloadInto st fresh = some st2 ∧
      st2.state.core.vars.globals.any (fun kv => hasOrigin (some "?") kv.2) = true ∧
      st.cont.1 = .ok "true\n" ∧ st2.cont.1 = .ok "false\n" := by
  have h : (match runOps exListLd 0 [.cont], Story.create exListLd 5 with
      | some st, .ok fresh =>
        (match reloadInto st fresh with
         | some st2 => !st.asyncActive && treeOkB 30 st.root
             && st.state.core.vars.globals.any (fun kv => hasOrigin none kv.2)
             && st2.state.core.vars.globals.any (fun kv => hasOrigin (some "?") kv.2)
             && outStrEq st.cont.1 (.ok "true\n") && outStrEq st2.cont.1 (.ok "false\n")
         | none => false)
      | _, _ => false) = true := by decide +kernel
  cases hr : runOps exListLd 0 [.cont] with
  | none => rw [hr] at h; cases h
  | some st =>
    cases hc : Story.create exListLd 5 with
    | err k m => rw [hr, hc] at h; cases h
    | panic p => rw [hr, hc] at h; cases h
    | ok fresh =>
      rw [hr, hc] at h
      cases hl : reloadInto st fresh with
      | none => simp only [hl] at h; cases h
      | some st2 =>
        simp only [hl, Bool.and_eq_true, Bool.not_eq_true'] at h
        obtain ⟨⟨⟨⟨⟨h1, h0⟩, h2⟩, h3⟩, h4⟩, h5⟩ := h
        refine ⟨st, fresh, st2, runOps_reach hr, h1, treeOkB_sound 30 _ h0, ?_, rfl, hl, h3,
          outStrEq_sound h4, outStrEq_sound h5⟩
        obtain ⟨kv, hkv, hk⟩ := List.any_eq_true.mp h2
        refine ⟨kv, hkv, ?_⟩
        intro hs
        cases hv : kv.2 with
        | list l =>
          rw [hv] at hk hs
          simp only [hasOrigin] at hk
          obtain ⟨it, hit, ho⟩ := List.any_eq_true.mp hk
          obtain ⟨⟨o, ho', _⟩, _⟩ := hs it hit
          rw [ho'] at ho
          cases ho
        | _ => rw [hv] at hk; cases hk

end C02R
end Ink

#print axioms Ink.C02R.reachable_root
#print axioms Ink.C02R.reachable_treeOK
#print axioms Ink.C02R.reachable_callstack
#print axioms Ink.C02R.reach_reachable
#print axioms Ink.C02R.runOps_reach
#print axioms Ink.C02R.exDup_loads
#print axioms Ink.C02R.treeOK_not_invariant_of_loader
#print axioms Ink.C02R.flowNames_not_invariant
#print axioms Ink.C02R.exList_loads
#print axioms Ink.C02R.globals_not_invariant
